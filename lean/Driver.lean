import IRModel
/-!
  Line-protocol driver: one operation per input line, one canonical line out.
  Run with `lake env lean --run Driver.lean < ops.txt`.
  Unknown / malformed operations answer `bad-op` (never a default value).
-/
open IRModel

def parseInt? (s : String) : Option Int := s.toInt?

def parseInts (ws : List String) : Option (List Int) := ws.mapM parseInt?

def showInts (l : List Int) : String := " ".intercalate (l.map toString)

/-- nested lists are written `a b | c d |  | e` (frames separated by `|`) -/
def splitBar (ws : List String) : List (List String) :=
  let rec go (acc : List String) (out : List (List String)) : List String → List (List String)
    | [] => (acc.reverse :: out).reverse
    | "|" :: r => go [] (acc.reverse :: out) r
    | w :: r => go (w :: acc) out r
  go [] [] ws

def showNested (l : List (List Int)) : String := " | ".intercalate (l.map showInts)

open Bits in
/-- everything C19 observes about `IntegerWrapper(v, n)`, in one canonical line -/
def iwAll (v n : Nat) (pairs : Option (List (Nat × Nat))) : String :=
  let x := IW.new v n
  let showL (l : List Nat) : String := ",".intercalate (l.map toString)
  let ws : List (Nat × Nat) := match pairs with
    | some ps => ps
    | none => (List.range n).flatMap fun w' => (List.range (n + 1)).map fun s => (w' + 1, s)
  let slices := ws.map fun (w, s) =>
      let a := x.slice w s
      let c := x.sliceCompl w s
      let r := x.sliceRev w s
      s!"{a.val}/{a.n}:{c.val}/{c.n}:{r.val}/{r.n}"
  let syms := [2, 4, 16].flatMap fun L =>
    [Order.lsb, Order.msb].map fun o =>
      match x.symbolIdx o L with
      | none => "err"
      | some sy =>
        let bits := sy.flatMap (idxToBits L)
        let back := getValue o bits 0 (bits.length - 1)
        s!"{showL sy}>{back.val}/{back.n}"
  s!"{x.val}/{x.n} it={showL x.iter} bits={showL x.bits} rev={x.reverseBits.val} inv={x.invertBits.val} pop={x.numOneBits} sl={" ".intercalate slices} sy={" ".intercalate syms}"

def step (line : String) : String :=
  match (line.trimAscii.toString.splitOn " ").filter (· ≠ "") with
  | "mce" :: ws =>
    match parseInts ws with
    | some l => "ok " ++ showInts (Mce.buildMceRlc l)
    | none => "bad-op"
  | "mce_nested" :: ws =>
    match (splitBar ws).mapM parseInts with
    | some l =>
      let r := Mce.rlcToMceNested l
      "ok " ++ showNested r.result ++ " ; arg-after " ++ showNested r.argAfter ++ " ; fresh " ++ toString r.fresh
    | none => "bad-op"
  | "mce_flat" :: ws =>
    match parseInts ws with
    | some l =>
      let r := Mce.rlcToMceFlat l
      "ok " ++ showInts r.result ++ " ; arg-after " ++ showInts r.argAfter ++ " ; fresh " ++ toString r.fresh
    | none => "bad-op"
  | "iwall" :: v :: n :: rest =>
    match v.toNat?, n.toNat?, rest.mapM (·.toNat?) with
    | some v, some n, some r =>
      if r.isEmpty then iwAll v n none
      else
        let rec pr : List Nat → List (Nat × Nat)
          | a :: b :: t => (a, b) :: pr t
          | _ => []
        iwAll v n (some (pr r))
    | _, _, _ => "bad-op"
  | _ => "bad-op"

partial def loop (h : IO.FS.Stream) (out : IO.FS.Stream) : IO Unit := do
  let line ← h.getLine
  if line.isEmpty then return ()
  out.putStrLn (step line)
  loop h out

def main : IO Unit := do
  let out ← IO.getStdout
  loop (← IO.getStdin) out
