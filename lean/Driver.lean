import IRModel
/-!
  Line-protocol driver: one operation per input line, one canonical line out.
  Run with `lake env lean --run Driver.lean < ops.txt`.
  Unknown / malformed operations answer `bad-op` (never a default value).
-/
open IRModel

def parseInts (ws : List String) : Option (List Int) := ws.mapM (·.toInt?)
def showInts (l : List Int) : String := " ".intercalate (l.map toString)

/-- nested lists are written `a b | c d |  | e` (frames separated by `|`) -/
def splitBar (ws : List String) : List (List String) :=
  let rec go (acc : List String) (out : List (List String)) : List String → List (List String)
    | [] => (acc.reverse :: out).reverse
    | "|" :: r => go [] (acc.reverse :: out) r
    | w :: r => go (w :: acc) out r
  go [] [] ws

def showNested (l : List (List Int)) : String := " | ".intercalate (l.map showInts)

open Bits in
/-- everything C19 observes about `IntegerWrapper(v, n)`, in one canonical line -/
def iwAll (v n : Nat) (pairs : Option (List (Nat × Nat))) : String :=
  let x := IW.new v n
  let showL (l : List Nat) : String := ",".intercalate (l.map toString)
  let ws : List (Nat × Nat) := match pairs with
    | some ps => ps
    | none => (List.range n).flatMap fun w' => (List.range (n + 1)).map fun s => (w' + 1, s)
  let slices := ws.map fun (w, s) =>
      let a := x.slice w s
      let c := x.sliceCompl w s
      let r := x.sliceRev w s
      s!"{a.val}/{a.n}:{c.val}/{c.n}:{r.val}/{r.n}"
  let syms := [2, 4, 16].flatMap fun L =>
    [Order.lsb, Order.msb].map fun o =>
      match x.symbolIdx o L with
      | none => "err"
      | some sy =>
        let bits := sy.flatMap (idxToBits L)
        let back := getValue o bits 0 (bits.length - 1)
        s!"{showL sy}>{back.val}/{back.n}"
  s!"{x.val}/{x.n} it={showL x.iter} bits={showL x.bits} rev={x.reverseBits.val} inv={x.invertBits.val} pop={x.numOneBits} sl={" ".intercalate slices} sy={" ".intercalate syms}"

/-! ### session state (dispatcher with scripted decoders, …) -/

/-- the scripted dispatcher of the stream correspondence: accepts a candidate iff it starts with one
    of the lead marks 9000 / 2400 and has even length; state = number of accepted frames;
    output = the accepted frame -/
def streamDec : Stream.Dec Nat (List Int) :=
  { decode := fun s x _ =>
      if (x.headD 0 == 9000 || x.headD 0 == 2400) && x.length % 2 == 0 then (true, s + 1, [x]) else (false, s, []) }

open Dispatcher DispatchScript in
structure Sess where
  disp : Dispatcher.St DispatchScript.ScriptSt := ⟨none, none, false, ⟨[]⟩⟩
  strm : Stream.FState Nat := { ds := 0 }
  tmr : Timer.St := { duration := 100000 }
  tabs : List Tables := []
  insts : List (String × String × Proto.Inst) := []      -- instance id, protocol name, state

/-! ### engine ops -/

def parseIntList (s : String) : Option (List Int) :=
  if s == "-" then some [] else (s.splitOn ",").mapM (·.toInt?)

def parsePairs (s : String) : Option (List (Int × Int)) :=
  if s == "-" then some [] else
    (s.splitOn ",").mapM fun p => match p.splitOn ":" with
      | [a, b] => do let a ← a.toInt?; let b ← b.toInt?; pure (a, b)
      | _ => none

def parseTriples (s : String) : Option (List (String × Nat × Nat)) :=
  if s == "-" then some [] else
    (s.splitOn ",").mapM fun p => match p.splitOn ":" with
      | [n, a, b] => do let a ← a.toNat?; let b ← b.toNat?; pure (n, a, b)
      | _ => none

def parseDoubles (s : String) : Option (List (String × Nat)) :=
  if s == "-" then some [] else
    (s.splitOn ",").mapM fun p => match p.splitOn ":" with
      | [n, a] => do let a ← a.toNat?; pure (n, a)
      | _ => none

def kv (ws : List String) (k : String) : Option String :=
  (ws.find? (fun w => w.startsWith (k ++ "="))).map (fun w => (w.drop (k.length + 1)).toString)

def parseTable (name : String) (ws : List String) : Option Tables := do
  let freq ← (← kv ws "freq").toNat?
  let bits ← (← kv ws "bits").toNat?
  let order := if (← kv ws "order") == "msb" then Bits.Order.msb else Bits.Order.lsb
  let mid ← (← kv ws "mid").toNat?
  let decov ← (← kv ws "decov").toNat?
  let rt ← (← kv ws "rt").toNat?
  let li ← parseIntList (← kv ws "li")
  let lo ← parseIntList (← kv ws "lo")
  let b ← parsePairs (← kv ws "b")
  let rli ← parseIntList (← kv ws "rli")
  let rlo ← parseIntList (← kv ws "rlo")
  let rb ← parsePairs (← kv ws "rb")
  let params ← parseTriples (← kv ws "params")
  let co ← parseDoubles (← kv ws "co")
  let ep ← parseTriples (← kv ws "ep")
  pure { name := name, frequency := freq, bitCount := bits, order := order, shape := .pairs, leadIn := li, leadOut := lo,
         bursts := b, hasMiddle := mid != 0, repeatLeadIn := rli, repeatLeadOut := rlo, repeatBursts := rb,
         params := params, codeOrder := co, encodeParams := ep, repeatTimeout := rt, decodeOverridden := decov != 0 }

def findTab (ss : Sess) (n : String) : Option Tables := ss.tabs.find? (·.name == n)

def parseItem (w : String) : Option Encode.Item :=
  match w.splitOn ":" with
  | ["f", v, wd] => do let v ← v.toNat?; let wd ← wd.toNat?; pure (.field v wd)
  | ["l", ds] => (parseIntList ds).map .lit
  | _ => none

def showNats (l : List Nat) : String := "".intercalate (l.map toString)

def showCodeV (c : Proto.CodeV) : String :=
  s!"fields={",".intercalate (c.fields.map fun (n, v) => s!"{n}:{v}")} frame={showInts c.frame}"

open Dispatcher DispatchScript Match

def showCode (c : Code) : String := s!"{c.dec}:{c.key}"
def showOpt (c : Option Code) : String := match c with | some c => showCode c | none => "-"

def parseErr : String → Option Err
  | "decode" => some .decode | "rli" => some .repeatLeadIn | "rlo" => some .repeatLeadOut
  | "rte" => some .repeatTimeout | "leak" => some .leak | _ => none

def dispState (st : Dispatcher.St ScriptSt) : String :=
  s!"last={showOpt st.last} lastdec={match st.lastDec with | some j => toString j | none => "-"}"

def setDec (s : ScriptSt) (i : Nat) (f : SDec → SDec) : ScriptSt :=
  { s with decs := s.decs.mapIdx (fun j d => if j = i then f d else d) }

def step (ss : Sess) (line : String) : Sess × String :=
  match (line.trimAscii.toString.splitOn " ").filter (· ≠ "") with
  | "mce" :: ws =>
    match parseInts ws with
    | some l => (ss, "ok " ++ showInts (Mce.buildMceRlc l))
    | none => (ss, "bad-op")
  | "mce_nested" :: ws =>
    match (splitBar ws).mapM parseInts with
    | some l =>
      let r := Mce.rlcToMceNested l
      (ss, "ok " ++ showNested r.result ++ " ; arg-after " ++ showNested r.argAfter ++ " ; fresh " ++ toString r.fresh)
    | none => (ss, "bad-op")
  | "mce_flat" :: ws =>
    match parseInts ws with
    | some l =>
      let r := Mce.rlcToMceFlat l
      (ss, "ok " ++ showInts r.result ++ " ; arg-after " ++ showInts r.argAfter ++ " ; fresh " ++ toString r.fresh)
    | none => (ss, "bad-op")
  | "iwall" :: v :: n :: rest =>
    match v.toNat?, n.toNat?, rest.mapM (·.toNat?) with
    | some v, some n, some r =>
      if r.isEmpty then (ss, iwAll v n none)
      else
        let rec pr : List Nat → List (Nat × Nat)
          | a :: b :: t => (a, b) :: pr t
          | _ => []
        (ss, iwAll v n (some (pr r)))
    | _, _, _ => (ss, "bad-op")
  | ["match", tn, td, v, e] =>
    match tn.toNat?, td.toNat?, v.toInt?, e.toInt? with
    | some tn, some td, some v, some e =>
      let w := window e ⟨tn, td⟩
      (ss, s!"{isMatch ⟨tn, td⟩ v e} {w.1} {w.2}")
    | _, _, _, _ => (ss, "bad-op")
  -- dispatcher with scripted decoders
  | ["disp_new"] => ({ ss with disp := ⟨none, none, false, ⟨[]⟩⟩ }, "ok")
  | ["disp_dec", freq, tn, td, en] =>
    match freq.toNat?, tn.toNat?, td.toNat?, en.toNat? with
    | some fq, some tn, some td, some en =>
      let d : SDec := { freq := fq, ftol := ⟨tn, td⟩, enabled := en != 0, beh := [] }
      ({ ss with disp := { ss.disp with ds := { ss.disp.ds with decs := ss.disp.ds.decs ++ [d] } } }, "ok")
    | _, _, _, _ => (ss, "bad-op")
  | "disp_beh" :: i :: fid :: b :: rest =>
    match i.toNat?, fid.toInt? with
    | some i, some fid =>
      let beh : Option Beh := match b, rest with
        | "ok", [k] => k.toNat?.map Beh.ok
        | e, [] => (parseErr e).map Beh.err
        | _, _ => none
      match beh with
      | some beh =>
        ({ ss with disp := { ss.disp with ds := setDec ss.disp.ds i (fun d => { d with beh := (fid, beh) :: d.beh.filter (fun p => p.1 != fid) }) } }, "ok")
      | none => (ss, "bad-op")
    | _, _ => (ss, "bad-op")
  | ["disp_enable", i, b] =>
    match i.toNat?, b.toNat? with
    | some i, some b =>
      ({ ss with disp := { ss.disp with ds := setDec ss.disp.ds i (fun d => { d with enabled := b != 0 }) } }, "ok")
    | _, _ => (ss, "bad-op")
  | ["disp_ftol", i, tn, td] =>
    match i.toNat?, tn.toNat?, td.toNat? with
    | some i, some tn, some td =>
      ({ ss with disp := { ss.disp with ds := setDec ss.disp.ds i (fun d => { d with ftol := ⟨tn, td⟩ }) } }, "ok")
    | _, _, _ => (ss, "bad-op")
  | ["disp_decode", fid, f] =>
    match fid.toInt?, f.toNat? with
    | some fid, some f =>
      let D := worldOf ss.disp.ds
      let (r, st', o) := Dispatcher.decodeInner D ss.disp [fid] f
      let rs := match r with
        | .none => "None" | .true_ => "True" | .code c => "code " ++ showCode c | .raised => "raised"
      let cbs := " ".intercalate (o.map fun | .callback c => showCode c)
      ({ ss with disp := st' }, s!"{rs} ; cb {cbs} ; {dispState st'}")
    | _, _ => (ss, "bad-op")
  | ["disp_release"] =>
    match ss.disp.last with
    | some c =>
      let st' := Dispatcher.release ss.disp c
      ({ ss with disp := st' }, s!"ok ; {dispState st'}")
    | none => (ss, s!"ok ; {dispState ss.disp}")
  -- engine
  | "tbl" :: name :: ws =>
    match parseTable name ws with
    | some t => ({ ss with tabs := t :: ss.tabs.filter (·.name != name) }, "ok")
    | none => (ss, "bad-op")
  | "build" :: name :: ws =>
    match findTab ss name, ws.mapM parseItem with
    | some t, some items =>
      match Encode.buildPacket t items with
      | .ok l => (ss, "ok " ++ showInts l)
      | .error e => (ss, "err " ++ e.name)
    | _, _ => (ss, "bad-op")
  | ["buildrep", name] =>
    match findTab ss name with
    | some t => match Encode.buildRepeatFrame t with
      | .ok l => (ss, "ok " ++ showInts l)
      | .error e => (ss, "err " ++ e.name)
    | none => (ss, "bad-op")
  | "parse" :: name :: tn :: td :: ws =>
    match findTab ss name, tn.toNat?, td.toNat?, parseInts ws with
    | some t, some tn, some td, some data =>
      if CodeWrapper.supported t || CodeWrapper.supportedM t then
        match CodeWrapper.parse t ⟨tn, td⟩ data with
        | .ok p => (ss, s!"ok bits={showNats p.bits} clean={showInts p.cleaned}")
        | .error e => (ss, "err " ++ e.name)
      else (ss, "unsupported")
    | _, _, _, _ => (ss, "bad-op")
  | ["inew", iid, name] =>
    match findTab ss name with
    | some _ => ({ ss with insts := (iid, name, {}) :: ss.insts.filter (·.1 != iid) }, "ok")
    | none => (ss, "bad-op")
  | ["itol", iid, tn, td] =>
    match ss.insts.find? (·.1 == iid), tn.toNat?, td.toNat? with
    | some (_, name, inst), some tn, some td =>
      ({ ss with insts := (iid, name, { inst with tol := ⟨tn, td⟩ }) :: ss.insts.filter (·.1 != iid) }, "ok")
    | _, _, _ => (ss, "bad-op")
  | "idecode" :: iid :: ws =>
    match ss.insts.find? (·.1 == iid), parseInts ws with
    | some (_, name, inst), some data =>
      match findTab ss name with
      | some t =>
        if (CodeWrapper.supported t || CodeWrapper.supportedM t) && (t.repeatBursts.isEmpty || CodeWrapper.streamEnc t.repeatBursts == .general) then
          let r := Proto.baseDecode t inst data
          let ss' := { ss with insts := (iid, name, r.inst) :: ss.insts.filter (·.1 != iid) }
          let tail := s!" islast={r.isLast} stops={r.effects.length} held={match r.inst.last with | some c => showCodeV c | none => "-"}"
          match r.result with
          | .ok c => (ss', "ok " ++ showCodeV c ++ tail)
          | .error e => (ss', "err " ++ e.name ++ tail)
        else (ss, "unsupported")
      | none => (ss, "bad-op")
    | _, _ => (ss, "bad-op")
  -- identity: ident <lsb|msb> <name> v:w v:w ...
  | "ident" :: o :: name :: ws =>
    let fields : Option (List (Nat × Nat)) := ws.mapM fun w => match w.splitOn ":" with
      | [a, b] => do let a ← a.toNat?; let b ← b.toNat?; pure (a, b)
      | _ => none
    match fields with
    | some fs =>
      let ord := if o == "msb" then Bits.Order.msb else Bits.Order.lsb
      let i := match Identity.intOf ord fs with | some v => toString v | none => "ValueError"
      let h := match Identity.hexOf ord fs with | some v => String.ofList v | none => "ValueError"
      (ss, s!"str={String.ofList (Identity.strOf name fs)} int={i} hex={h}")
    | none => (ss, "bad-op")
  | "eqt" :: tn :: td :: ws =>
    match tn.toNat?, td.toNat?, (splitBar ws).mapM parseInts with
    | some tn, some td, some [a, b] => (ss, toString (Identity.eqTimings ⟨tn, td⟩ a b))
    | _, _, _ => (ss, "bad-op")
  -- xml: strings are passed as space separated character codes
  | "xml_esc" :: ws =>
    match ws.mapM (·.toNat?) with
    | some cs =>
      let str : Xml.Str := cs.map Char.ofNat
      let e := Xml.escape str
      let showS (x : Xml.Str) : String := " ".intercalate (x.map fun c => toString c.toNat)
      (ss, s!"esc {showS e} ; back {showS (Xml.unescape e)} ; un {showS (Xml.unescape str)}")
    | none => (ss, "bad-op")
  | "xml_attrs" :: ws =>
    -- line given as character codes; answers the parsed (key, value) pairs
    match ws.mapM (·.toNat?) with
    | some cs =>
      let kvs := Xml.parseAttrs (cs.map Char.ofNat)
      let showS (x : Xml.Str) : String := " ".intercalate (x.map fun c => toString c.toNat)
      (ss, " | ".intercalate (kvs.map fun p => s!"{showS p.1} = {showS p.2}"))
    | none => (ss, "bad-op")
  | ["xml_hf", fileOk, complete, emptySc, backupKind] =>
    -- handle_file decision logic on observations: does the file parse, is it complete / a childless
    -- self-closing root, and the backup: none / ok / bad
    let file : Xml.Str := if complete == "1" then "<r>x</r>".toList else if emptySc == "1" then "<r/>".toList else "<r>x".toList
    let parse : Xml.Str → Option (Nat × Xml.Str × Bool) := fun s =>
      if s == "BACKUP".toList then (if backupKind == "ok" then some (2, "r".toList, false) else none)
      else if fileOk == "1" then some (1, "r".toList, emptySc == "1") else none
    let fs : Xml.FS := { file := file, backup := if backupKind == "none" then none else some "BACKUP".toList }
    let r := Xml.handleFile parse fs
    let res := match r.1 with | .ok 1 => "file" | .ok _ => "backup" | .error _ => "error"
    let bk := if r.2.backup == fs.backup then "kept" else "overwritten"
    (ss, s!"{res} {bk}")
  -- release timers (event machine)
  | ["tm_new", dur, style] =>
    match dur.toInt? with
    | some d => ({ ss with tmr := { duration := d, style := if style == "toggle" then .toggleReplaces else .sameObject } }, "ok")
    | none => (ss, "bad-op")
  | "tm" :: ev =>
    let e : Option Timer.Ev := match ev with
      | ["frame", k, t] => do let k ← k.toNat?; let t ← t.toNat?; pure (Timer.Ev.frame k t)
      | ["rep"] => some Timer.Ev.rep
      | ["adv", d] => d.toInt?.map Timer.Ev.advance
      | ["clk", d] => d.toInt?.map Timer.Ev.tick
      | ["poll"] => some Timer.Ev.poll
      | _ => none
    match e with
    | some e =>
      let n0 := ss.tmr.outs.length
      let st := Timer.step ss.tmr e
      let news := st.outs.drop n0
      let showO : Timer.Out → String
        | .released i k => s!"released {i}/{k}"
        | .decoded i k => s!"decoded {i}/{k}"
      let o2s (o : Option Nat) : String := match o with | some i => toString i | none => "-"
      let armed := (List.range st.objs.length).filter (fun i => match st.objs[i]? with | some o => o.start.isSome | none => false) |>.map toString
      ({ ss with tmr := st }, s!"{"; ".intercalate (news.map showO)} | disp {o2s st.dispLast} dec {o2s st.decLast} tq [{",".intercalate (st.timerQ.map toString)}] armed [{",".intercalate armed}]")
    | none => (ss, "bad-op")
  -- universal fallback decoder: universal <tolnum> <tolden> <ints>
  | "universal" :: tn :: td :: ws =>
    match tn.toNat?, td.toNat?, parseInts ws with
    | some tn, some td, some data =>
      match Universal.decode data (mkRat tn td) with
      | .ok c => (ss, s!"ok {c}")
      | .error e => (ss, "err " ++ e.name)
    | _, _, _ => (ss, "bad-op")
  -- pronto
  | "pronto_enc" :: freq :: kind :: ws =>
    match freq.toInt? with
    | some f =>
      let inp : Option Pronto.Input := match kind with
        | "flat" => (parseInts ws).map Pronto.Input.flat
        | "nested" => ((splitBar ws).mapM parseInts).map Pronto.Input.nested
        | _ => none
      match inp with
      | some i => (ss, "ok " ++ Pronto.render (Pronto.rlcToPronto f i))
      | none => (ss, "bad-op")
    | none => (ss, "bad-op")
  | "pronto_dec" :: ws =>
    match ws.mapM (·.toNat?) with
    | some l =>
      match Pronto.prontoToRlc l with
      | .ok (f, seqs) => (ss, s!"ok {f} ; {showNested seqs}")
      | .error e => (ss, "err " ++ e.name)
    | none => (ss, "bad-op")
  -- streaming thread, fine-grained machine with the scripted dispatcher
  | ["st_new"] => ({ ss with strm := { ds := 0 } }, "ok")
  | "st_fpush" :: f :: ws =>
    match f.toNat?, parseInts ws with
    | some f, some l => ({ ss with strm := Stream.feedPush ss.strm (l, f) }, "ok")
    | _, _ => (ss, "bad-op")
  | ["st_fset"] => ({ ss with strm := Stream.feedSet ss.strm }, "ok")
  | ["st_w"] =>
    if Stream.workerEnabled ss.strm then
      let (st', o) := Stream.workerStep streamDec ss.strm
      let pcs := match st'.pc with
        | .waiting => "wait" | .clearing => "clear" | .draining => "len" | .unpop => "appendleft" | .pushing => "appendleft"
      let bufs := " | ".intercalate (st'.buffer.map fun (b, f) => s!"{f}: {showInts b}")
      ({ ss with strm := st' }, s!"out [{" ; ".intercalate (o.map showInts)}] at {pcs} flag {st'.flag} univ {st'.univ} buffer [{bufs}]")
    else (ss, "blocked")
  | "st_run" :: f :: ws =>
    match f.toNat?, (splitBar ws).mapM parseInts with
    | some f, some cs =>
      let (s', o, r) := Stream.runChunks streamDec f 0 [] cs
      (ss, s!"state {s'} out [{" ; ".intercalate (o.map showInts)}] rem [{showInts r}]")
    | _, _ => (ss, "bad-op")
  | _ => (ss, "bad-op")

partial def loop (h : IO.FS.Stream) (out : IO.FS.Stream) (ss : Sess) : IO Unit := do
  let line ← h.getLine
  if line.isEmpty then return ()
  let (ss', o) := step ss line
  out.putStrLn o
  loop h out ss'

def main : IO Unit := do
  let out ← IO.getStdout
  loop (← IO.getStdin) out {}
