import IRModel
/-!
  Line-protocol driver: one operation per input line, one canonical line out.
  Run with `lake env lean --run Driver.lean < ops.txt`.
  Unknown / malformed operations answer `bad-op` (never a default value).
-/
open IRModel

def parseInt? (s : String) : Option Int := s.toInt?

def parseInts (ws : List String) : Option (List Int) := ws.mapM parseInt?

def showInts (l : List Int) : String := " ".intercalate (l.map toString)

/-- nested lists are written `a b | c d |  | e` (frames separated by `|`) -/
def splitBar (ws : List String) : List (List String) :=
  let rec go (acc : List String) (out : List (List String)) : List String → List (List String)
    | [] => (acc.reverse :: out).reverse
    | "|" :: r => go [] (acc.reverse :: out) r
    | w :: r => go (w :: acc) out r
  go [] [] ws

def showNested (l : List (List Int)) : String := " | ".intercalate (l.map showInts)

def step (line : String) : String :=
  match (line.trimAscii.toString.splitOn " ").filter (· ≠ "") with
  | "mce" :: ws =>
    match parseInts ws with
    | some l => "ok " ++ showInts (Mce.buildMceRlc l)
    | none => "bad-op"
  | "mce_nested" :: ws =>
    match (splitBar ws).mapM parseInts with
    | some l =>
      let r := Mce.rlcToMceNested l
      "ok " ++ showNested r.result ++ " ; arg-after " ++ showNested r.argAfter ++ " ; fresh " ++ toString r.fresh
    | none => "bad-op"
  | "mce_flat" :: ws =>
    match parseInts ws with
    | some l =>
      let r := Mce.rlcToMceFlat l
      "ok " ++ showInts r.result ++ " ; arg-after " ++ showInts r.argAfter ++ " ; fresh " ++ toString r.fresh
    | none => "bad-op"
  | _ => "bad-op"

partial def loop (h : IO.FS.Stream) (out : IO.FS.Stream) : IO Unit := do
  let line ← h.getLine
  if line.isEmpty then return ()
  out.putStrLn (step line)
  loop h out

def main : IO Unit := do
  let out ← IO.getStdout
  loop (← IO.getStdin) out
