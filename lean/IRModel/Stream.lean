/-
  L9 — the streaming decoder `DecodeThread` (pyIRDecoder/protocols/__init__.py:424-505),
  parametric in the dispatcher's `_decode` seen as  σ → frame → frequency → (accepted?, σ, outputs).

  Two machines:
  * `process` / `runChunks` : one worker cycle is atomic (drain everything queued, scan, push the
    remainder back). This is the machine the chunking theorem (Props/C13) is about.
  * `FState` / `fstep` : the fine-grained machine with the event flag, used by the correspondence
    check against the real thread under a deterministic scheduler (every deque / Event operation
    is a scheduling point).
-/
namespace IRModel.Stream

/-- the dispatcher as the thread sees it -/
structure Dec (σ ο : Type) where
  decode : σ → List Int → Nat → Bool × σ × List ο

/-- the cut rule: a candidate frame is tried when it has more than 3 durations and ends in a gap
    longer than 2000 µs -/
def isCut (tmp : List Int) : Bool :=
  decide (tmp.length > 3) && decide (tmp.getLastD 0 < -2000)

/-- the scan loop `while buf: tmp_buf += [buf.pop(0)]; if cut: if _decode(tmp_buf[:]): del tmp_buf[:]`
    with the accumulator `tmp` explicit. Returns final state, outputs, and the remainder. -/
def scan {σ ο} (D : Dec σ ο) (f : Nat) : σ → List Int → List Int → σ × List ο × List Int
  | s, tmp, [] => (s, [], tmp)
  | s, tmp, x :: rest =>
    let tmp' := tmp ++ [x]
    if isCut tmp' then
      match D.decode s tmp' f with
      | (true, s', o) =>
        let (s'', o', r) := scan D f s' [] rest
        (s'', o ++ o', r)
      | (false, s', o) =>
        let (s'', o', r) := scan D f s' tmp' rest
        (s'', o ++ o', r)
    else scan D f s tmp' rest

/-- one worker cycle on the merged buffer contents -/
def process {σ ο} (D : Dec σ ο) (f : Nat) (s : σ) (buf : List Int) : σ × List ο × List Int :=
  scan D f s [] buf

/-- feeding chunk after chunk, one worker cycle per chunk, the remainder of a cycle being pushed back
    in front of the next chunk (`buffer.appendleft((tmp_buf, frequency))`, then merged by the drain
    loop because the frequency is the same) -/
def runChunks {σ ο} (D : Dec σ ο) (f : Nat) : σ → List Int → List (List Int) → σ × List ο × List Int
  | s, r, [] => (s, [], r)
  | s, r, c :: cs =>
    let (s1, o1, r1) := process D f s (r ++ c)
    let (s2, o2, r2) := runChunks D f s1 r1 cs
    (s2, o1 ++ o2, r2)

/-! ### fine-grained machine (correspondence only) -/

abbrev Chunk := List Int × Nat

/-- program counter of the worker inside `run`; one constructor per *scheduling point* of the
    instrumented real thread (Event.wait / Event.clear / len(buffer) / buffer.appendleft) -/
inductive WPc
  | waiting              -- at `buffer_event.wait(...)`
  | clearing             -- at `buffer_event.clear()`
  | draining             -- at the `while self.buffer:` test of the drain loop
  | unpop                -- at `buffer.appendleft((b, f))` of the frequency-mismatch exit
  | pushing              -- at `buffer.appendleft((tmp_buf, frequency))`
deriving Repr, DecidableEq

structure FState (σ : Type) where
  buffer   : List Chunk := []
  flag     : Bool := false
  univ     : Bool := false          -- decode_universal
  pc       : WPc := .waiting
  buf      : List Int := []         -- worker-local
  freq     : Nat := 0               -- worker-local
  tmp      : List Int := []         -- worker-local remainder
  held     : Option Chunk := none   -- worker-local popped chunk of another frequency
  ds       : σ

/-- feeder, step 1 of `append`: `buffer.append((data, frequency))` -/
def feedPush {σ} (st : FState σ) (c : Chunk) : FState σ := { st with buffer := st.buffer ++ [c] }
/-- feeder, step 2 of `append`: `buffer_event.set()` -/
def feedSet {σ} (st : FState σ) : FState σ := { st with flag := true }

/-- can the worker take a step? (it is blocked in `wait` while the flag is clear; the 0.1 s timeout
    of the `decode_universal` branch is excluded by the property) -/
def workerEnabled {σ} (st : FState σ) : Bool :=
  match st.pc with
  | .waiting => st.flag
  | _ => true

/-- the scan loop and what follows it up to the next scheduling point -/
def scanAndAfter {σ ο} (D : Dec σ ο) (st : FState σ) : FState σ × List ο :=
  let (s', o, r) := scan D st.freq st.ds [] st.buf
  if r.isEmpty then ({ st with ds := s', buf := [], tmp := [], univ := false, pc := .waiting }, o)
  else ({ st with ds := s', buf := [], tmp := r, pc := .pushing }, o)

/-- one worker step = everything the thread does from one scheduling point to the next -/
def workerStep {σ ο} (D : Dec σ ο) (st : FState σ) : FState σ × List ο :=
  match st.pc with
  | .waiting => if st.flag then ({ st with pc := .clearing }, []) else (st, [])
  | .clearing => ({ st with flag := false, pc := .draining, buf := [], freq := 0 }, [])
  | .draining =>
    match st.buffer with
    | [] => scanAndAfter D st
    | (b, f) :: rest =>
      if st.freq != 0 && f != st.freq then
        ({ st with buffer := rest, held := some (b, f), pc := .unpop }, [])
      else
        ({ st with buffer := rest, freq := f, buf := st.buf ++ b }, [])
  | .unpop =>
    match st.held with
    | some c => scanAndAfter D { st with buffer := c :: st.buffer, held := none }
    | none => scanAndAfter D st
  | .pushing =>
    ({ st with buffer := (st.tmp, st.freq) :: st.buffer, univ := true, tmp := [], pc := .waiting }, [])

end IRModel.Stream
