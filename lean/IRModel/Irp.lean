import IRModel.Tables
/-!
# IRP notation — the plain ("skeleton") fragment

A protocol's `irp` string of the shape

    {<freq>k,<unit>[,msb|lsb]}<d,d|d,d>(d,…,d, field,…,field, d, (d | ^extent) <rest>

(one general spec, a two-symbol bit spec whose symbols are two durations each, a lead-in of plain
durations, bit fields, one trailing mark, then a gap or an extent; `<rest>` is the ditto sub-stream, the
closing parenthesis, the repeat marker and the definitions, kept verbatim) is represented by `Skel`.

Nothing here is trusted to have been parsed correctly: `print` writes the skeleton back and the generated
obligation `print I_P = (source with blanks removed)` is checked by the kernel together with `lexOk`
(every number's value is the value of its own lexeme, widths are printed from the number used).

`render` is the IRP semantics of the first frame, written from the IRP definition: durations in order,
`n` = n time units, `nu` microseconds, `nm` milliseconds; a bit field of width `w` contributes its `w`
low bits, most significant first for `msb` and least significant first for `lsb`, each bit replaced by
the durations of symbol 0 or 1; an extent `^E` is the gap that completes the frame to `E`.
The *values* of the bit fields are a parameter (`vals`): which expression the encoder feeds into each
field is outside this fragment (search only).
-/
namespace IRModel.Irp
open IRModel IRModel.Bits

structure Num where
  lex : List Char
  num : Nat
  den : Nat

def Num.val (n : Num) : Rat := mkRat n.num n.den

inductive TUnit | units | micro | milli
deriving DecidableEq, Repr

structure Dur where
  neg : Bool
  n   : Num
  u   : TUnit

structure Field where
  pre   : List Char      -- "F", "~F", "(D^S^F)", "255" …
  width : Nat
  post  : List Char      -- "" or ":<skip>"

inductive Last
  | gap (d : Dur)
  | extent (n : Num) (u : TUnit)

structure Skel where
  freq   : Num            -- in kHz, as written before the `k`
  unit   : Num
  order  : Option Order   -- absent = IRP default (lsb)
  sym0   : List Dur
  sym1   : List Dur
  lead   : List Dur
  fields : List Field
  mark   : Dur
  last   : Last
  rest   : List Char

/-! ## printer and lexical checks -/

def printUnit : TUnit → List Char
  | .units => []
  | .micro => ['u']
  | .milli => ['m']

def printDur (d : Dur) : List Char := (if d.neg then ['-'] else []) ++ d.n.lex ++ printUnit d.u

def printField (f : Field) : List Char := f.pre ++ [':'] ++ (toString f.width).toList ++ f.post

def printLast : Last → List Char
  | .gap d => printDur d
  | .extent n u => '^' :: (n.lex ++ printUnit u)

def joinC (sep : Char) : List (List Char) → List Char
  | [] => []
  | [a] => a
  | a :: r => a ++ sep :: joinC sep r

def printOrder : Option Order → List Char
  | none => []
  | some .msb => ",msb".toList
  | some .lsb => ",lsb".toList

def print (s : Skel) : List Char :=
  '{' :: (s.freq.lex ++ "k,".toList ++ s.unit.lex ++ printOrder s.order ++ "}<".toList
    ++ joinC ',' (s.sym0.map printDur) ++ ['|'] ++ joinC ',' (s.sym1.map printDur) ++ ">(".toList
    ++ joinC ',' (s.lead.map printDur ++ s.fields.map printField ++ [printDur s.mark, printLast s.last])
    ++ s.rest)

def digitVal (c : Char) : Option Nat :=
  if '0' ≤ c ∧ c ≤ '9' then some (c.toNat - 48) else none

def parseNatAux : List Char → Nat → Option Nat
  | [], acc => some acc
  | c :: r, acc => match digitVal c with
    | some d => parseNatAux r (acc * 10 + d)
    | none => none

def parseNat (l : List Char) : Option Nat := if l.isEmpty then none else parseNatAux l 0

/-- value of a decimal lexeme as (numerator, denominator = 10^fraction digits) -/
def parseDec (l : List Char) : Option (Nat × Nat) :=
  match l.span (· ≠ '.') with
  | (ip, []) => (parseNat ip).map (·, 1)
  | (ip, _ :: fp) =>
    match parseNat ip, parseNat fp with
    | some a, some b => some (a * 10 ^ fp.length + b, 10 ^ fp.length)
    | _, _ => none

def numOk (n : Num) : Bool := parseDec n.lex == some (n.num, n.den)

def durOk (d : Dur) : Bool := numOk d.n

/-- a field's data part cannot contain a separator, so `pre:width` is one bit field of that width -/
def preOk (p : List Char) : Bool :=
  !p.isEmpty && p.all (fun c => c ≠ ',' && c ≠ ':' && c ≠ '<' && c ≠ '>' && c ≠ '{' && c ≠ '}' && c ≠ '[' && c ≠ ']' && c ≠ '=')

def postOk (p : List Char) : Bool :=
  match p with
  | [] => true
  | c :: r => c == ':' && (parseNat r).isSome

/-- what follows the first frame is the end of the stream or one repeated sub-stream -/
def restOk (r : List Char) : Bool :=
  match r with
  | ')' :: _ => true
  | ',' :: '(' :: body =>
    match body.span (· ≠ ')') with
    | (inner, ')' :: m :: ')' :: _) => (m == '*' || m == '+') && inner.all (fun c => c ≠ '(')
    | _ => false
  | _ => false

def lexOk (s : Skel) : Bool :=
  numOk s.freq && numOk s.unit && s.sym0.all durOk && s.sym1.all durOk && s.lead.all durOk &&
  s.fields.all (fun f => preOk f.pre && postOk f.post) && durOk s.mark &&
  (match s.last with | .gap d => durOk d | .extent n _ => numOk n) && restOk s.rest

/-! ## semantics -/

def ord (s : Skel) : Order := s.order.getD .lsb

def scaled (s : Skel) (n : Num) (u : TUnit) : Rat :=
  match u with
  | .units => n.val * s.unit.val
  | .micro => n.val
  | .milli => n.val * 1000

def durVal (s : Skel) (d : Dur) : Rat := if d.neg then - scaled s d.n d.u else scaled s d.n d.u

/-- the `w` low bits of `v` in transmission order -/
def bitsOf (o : Order) (v w : Nat) : List Nat :=
  let low := (List.range w).map (fun i => v / 2 ^ i % 2)
  match o with
  | .lsb => low
  | .msb => low.reverse

def symQ (s : Skel) (b : Nat) : List Rat := (if b = 0 then s.sym0 else s.sym1).map (durVal s)

def absQ (q : Rat) : Rat := if q < 0 then -q else q

def sumAbsQ (l : List Rat) : Rat := l.foldl (fun a x => a + absQ x) 0

def widths (s : Skel) : List Nat := s.fields.map (·.width)

/-- everything before the final gap -/
def renderPre (s : Skel) (vals : List Nat) : List Rat :=
  s.lead.map (durVal s)
    ++ (List.zipWith (fun w v => bitsOf (ord s) v w) (widths s) vals).flatten.flatMap (symQ s)
    ++ [durVal s s.mark]

def extentVal (s : Skel) : Option Rat :=
  match s.last with
  | .gap _ => none
  | .extent n u => some (scaled s n u)

def renderLast (s : Skel) (pre : List Rat) : Rat :=
  match s.last with
  | .gap d => durVal s d
  | .extent n u => - (scaled s n u - sumAbsQ pre)

/-- the first frame the specification describes for the field values `vals` -/
def render (s : Skel) (vals : List Nat) : List Rat :=
  renderPre s vals ++ [renderLast s (renderPre s vals)]

def freqHz (s : Skel) : Rat := s.freq.val * 1000

/-! ## agreement with a class's tables (decidable; discharged per protocol by the kernel) -/

/-- an integer duration *is* the specified one when it is less than a microsecond away -/
def near (q : Rat) (z : Int) : Bool := decide (q - (z : Rat) < 1) && decide ((z : Rat) - q < 1)

def nearL : List Rat → List Int → Bool
  | [], [] => true
  | q :: qs, z :: zs => near q z && nearL qs zs
  | _, _ => false

def agree (s : Skel) (t : Tables) : Bool :=
  (match t.bursts with
   | [b0, b1] => nearL (symQ s 0) [b0.1, b0.2] && nearL (symQ s 1) [b1.1, b1.2]
   | _ => false) &&
  (freqHz s == (t.frequency : Rat)) &&
  (ord s == t.order) &&
  nearL (s.lead.map (durVal s)) t.leadIn &&
  (widths s == t.params.map (fun p => p.2.2 + 1 - p.2.1)) &&
  (match t.leadOut, s.last with
   | [mo, x], .gap d => near (durVal s s.mark) mo && near (durVal s d) x && decide (x < 0)
   | [mo, x], .extent n u => near (durVal s s.mark) mo && decide (x > 0) && (scaled s n u == (x : Rat))
   | _, _ => false)

/-! ## the repeat ("ditto") frame `,(d,…,d,gap|^E)*` that follows the first frame -/

structure Ditto where
  durs : List Dur
  last : Last
  mark : Char            -- `*` or `+`

def printDitto (d : Ditto) : List Char :=
  ',' :: '(' :: (joinC ',' (d.durs.map printDur ++ [printLast d.last]) ++ [')', d.mark])

def dittoOk (s : Skel) (d : Ditto) : Bool :=
  (printDitto d).isPrefixOf s.rest && (d.mark == '*' || d.mark == '+') && d.durs.all durOk &&
  (match d.last with | .gap g => durOk g | .extent n _ => numOk n)

def dittoPre (s : Skel) (d : Ditto) : List Rat := d.durs.map (durVal s)

/-- the ditto frame the specification describes -/
def renderDitto (s : Skel) (d : Ditto) : List Rat :=
  dittoPre s d ++ [match d.last with
                   | .gap g => durVal s g
                   | .extent n u => - (scaled s n u - sumAbsQ (dittoPre s d))]

def sumAbsZ (l : List Int) : Int := l.foldl (fun a x => a + (if x < 0 then -x else x)) 0

/-- agreement of an emitted ditto frame with the specified one: every duration but the last within one
    microsecond; the last within one microsecond for a plain gap, and for an extent the total frame
    time equal to the extent within one microsecond (the emitted frame may carry a pre-computed gap) -/
def dittoAgree (s : Skel) (d : Ditto) (z : List Int) : Bool :=
  match z.getLast? with
  | none => false
  | some zl =>
    nearL (dittoPre s d) z.dropLast &&
    (match d.last with
     | .gap g => near (durVal s g) zl
     | .extent n u => decide (zl < 0) && near (scaled s n u) (sumAbsZ z))

end IRModel.Irp
