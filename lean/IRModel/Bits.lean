/-
  L1 — `IntegerWrapper` (pyIRDecoder/integer_wrapper.py), for non-negative values.

  The Python class builds every result with explicit loops of the form
      for i in <range>: val |= <bit i> << <position i>
  The model keeps those loops (`orLoop`) instead of closed forms, so that the closed forms are
  *theorems* (IRModel/Props/C19.lean), not definitions.
  Negative values and the arithmetic dunder methods are outside the model.
-/
namespace IRModel.Bits

/-- `val = 0; for i in is: val |= g i` -/
def orLoop (is : List Nat) (g : Nat → Nat) : Nat := is.foldl (fun acc i => acc ||| g i) 0

/-- constructor masking loop on plain ints: `for i in range(n): val |= ((value >> i) & 1) << i` -/
def maskLoop (v n : Nat) : Nat := orLoop (List.range n) (fun i => ((v >>> i) &&& 1) <<< i)

/-- an `IntegerWrapper` holding a non-negative value -/
structure IW where
  val : Nat
  n   : Nat
deriving Repr, DecidableEq

/-- `IntegerWrapper(v, n)` with `v ≥ 0` and `n` given -/
def IW.new (v n : Nat) : IW := ⟨maskLoop v n, n⟩

/-- `IntegerWrapper(v)` (no width): `num_bits = 1 if v == 0 else v.bit_length()`; value kept -/
def IW.newAuto (v : Nat) : IW := ⟨v, if v = 0 then 1 else Nat.log2 v + 1⟩

/-- `(self >> i) & 1` as a number. `__rshift__` builds `IntegerWrapper(v >> i, n - i)` (masked to
    `n - i` bits; for `i > n` Python's `range(n - i)` is empty, which `Nat` subtraction reproduces);
    `__and__` then builds `IntegerWrapper(value & 1)`. -/
def IW.bitAt (x : IW) (i : Nat) : Nat := (maskLoop (x.val >>> i) (x.n - i)) &&& 1

/-- `__iter__` : bits, least significant first -/
def IW.iter (x : IW) : List Nat := (List.range x.n).map x.bitAt

/-- `.bits` : `for bit in self: bits.insert(0, bit)` — most significant first -/
def IW.bits (x : IW) : List Nat := x.iter.foldl (fun acc b => b :: acc) []

/-- `__reversed__` / `reverse_bit_order()` : `val |= (int(self >> i) & 1) << (~i + num_bits)` -/
def IW.reverseBits (x : IW) : IW :=
  IW.new (orLoop (List.range x.n) (fun i => x.bitAt i <<< (x.n - 1 - i))) x.n

/-- `invert_bits()` : `val |= (1 - (int(self >> i) & 1)) << i` -/
def IW.invertBits (x : IW) : IW :=
  IW.new (orLoop (List.range x.n) (fun i => (1 - x.bitAt i) <<< i)) x.n

/-- `num_one_bits` : `count += self._value >> i & 1` on the raw value -/
def IW.numOneBits (x : IW) : Nat :=
  (List.range x.n).foldl (fun c i => c + ((x.val >>> i) &&& 1)) 0

/-- `x[:w:s]` with `s ≠ 0` (first branch of `__getitem__`): loop over `range(s, s + w + 1)`
    (one bit more than requested), then `IntegerWrapper(val, w)` masks to `w` bits -/
def IW.sliceStep (x : IW) (w s : Nat) : IW :=
  IW.new (orLoop (List.range' s (w + 1)) (fun i => x.bitAt i <<< (i - s))) w

/-- `x[:w:0]` / `x[:w]` with `w > 0` (second branch) -/
def IW.sliceLow (x : IW) (w : Nat) : IW :=
  IW.new (orLoop (List.range w) (fun i => x.bitAt i <<< i)) w

/-- `x[:w:s]` for `w ≥ 0` : branch selection as in `__getitem__` (`w = 0 ∧ s = 0` returns `self`) -/
def IW.slice (x : IW) (w s : Nat) : IW :=
  if s ≠ 0 then x.sliceStep w s else if 0 < w then x.sliceLow w else x

/-- `x[:-w:s]` (third branch, `w > 0`): same bits, then `reversed(...)` -/
def IW.sliceRev (x : IW) (w s : Nat) : IW :=
  if 0 < s then
    (IW.new (orLoop (List.range' s (w + 1)) (fun i => x.bitAt i <<< (i - s))) w).reverseBits
  else
    (IW.new (orLoop (List.range w) (fun i => x.bitAt i <<< i)) w).reverseBits

/-- `x[True:w:s]` : slice, then `invert_bits()` within the slice's width -/
def IW.sliceCompl (x : IW) (w s : Nat) : IW := (x.slice w s).invertBits

/-- bit order of a protocol (`encoding == 'msb'` or anything else) -/
inductive Order | lsb | msb
deriving Repr, DecidableEq

/-- bits per symbol for a table of `len` entries: 2 → 1, 4 → 2, otherwise 4 -/
def bitsPerSymbol (tableLen : Nat) : Nat := if tableLen = 2 then 1 else if tableLen = 4 then 2 else 4

/-- padding computed by `timings`: `len(bits) % 2`, `-len(bits) % 4` (Python floor-mod, i.e.
    `(4 - len % 4) % 4`; this is the code after the `fix:` commit for 16-entry tables) or `0` -/
def padCount (tableLen nbits : Nat) : Nat :=
  if tableLen = 4 then nbits % 2 else if tableLen > 4 then (4 - nbits % 4) % 4 else 0

/-- the pinned (pre-fix) padding for tables with more than 4 entries: `len(bits) % 4` -/
def padCountPinned (tableLen nbits : Nat) : Nat :=
  if tableLen = 4 then nbits % 2 else if tableLen > 4 then nbits % 4 else 0

/-- the bit list `timings` chunks: msb first padded in front, or lsb first padded behind -/
def IW.orderedBits (x : IW) (o : Order) (tableLen : Nat) : List Nat :=
  match o with
  | .msb => List.replicate (padCount tableLen x.n) 0 ++ x.bits
  | .lsb => x.iter ++ List.replicate (padCount tableLen x.n) 0

/-- symbol indices: `bits[i] << 1 | bits[i+1]`, `bits[i] << 3 | ... | bits[i+3]`, or the bit.
    `none` models the IndexError of `bits[i + k]` on a ragged tail. -/
def chunkIdx : (k : Nat) → List Nat → Option (List Nat)
  | 1, bs => some bs
  | 2, [] => some []
  | 2, a :: b :: r => (chunkIdx 2 r).map ((a <<< 1 ||| b) :: ·)
  | 2, [_] => none
  | 4, [] => some []
  | 4, a :: b :: c :: d :: r => (chunkIdx 4 r).map ((a <<< 3 ||| b <<< 2 ||| c <<< 1 ||| d) :: ·)
  | 4, _ => none
  | _, _ => none

/-- `.timings` as a list of symbol indices into the burst table -/
def IW.symbolIdx (x : IW) (o : Order) (tableLen : Nat) : Option (List Nat) :=
  chunkIdx (bitsPerSymbol tableLen) (x.orderedBits o tableLen)

/-- `CodeWrapper` (code_wrapper.py:711-724): symbol index → bits, by table size -/
def idxToBits (tableLen num : Nat) : List Nat :=
  if tableLen = 2 then [num]
  else if tableLen = 4 then [num >>> 1 &&& 1, num &&& 1]
  else [num >>> 3 &&& 1, num >>> 2 &&& 1, num >>> 1 &&& 1, num &&& 1]

/-- `CodeWrapper.get_value` accumulation on a bit slice:
    lsb: `res |= item << i` ; msb: `res |= item << ~i + len(bits)` -/
def valueOfBits (o : Order) (bits : List Nat) : Nat :=
  match o with
  | .lsb => orLoop (List.range bits.length) (fun i => bits.getD i 0 <<< i)
  | .msb => orLoop (List.range bits.length) (fun i => bits.getD i 0 <<< (bits.length - 1 - i))

/-- `get_value(start, stop)` : `IntegerWrapper(res, stop - start + 1)` of `decoded[start : stop+1]` -/
def getValue (o : Order) (decoded : List Nat) (start stop : Nat) : IW :=
  IW.new (valueOfBits o ((decoded.drop start).take (stop + 1 - start))) (stop - start + 1)

end IRModel.Bits
