import IRModel.Tables
/-
  L2 — `IrProtocolBase._build_packet` (after the `fix:` commit dae5e8f) and `_build_repeat_packet`.
-/
namespace IRModel.Encode
open IRModel IRModel.Py IRModel.Bits

/-- one argument of `_build_packet`: a keyword field (value, width) rendered through the burst
    table, or literal durations passed positionally -/
inductive Item
  | field (v width : Nat)
  | lit (ds : List Int)
deriving Repr, DecidableEq

/-- `IntegerWrapper(v, width, cls._bursts, cls.encoding).timings`, flattened. `none` models the
    IndexError of a symbol index outside the table. -/
def fieldTimings (t : Tables) (v width : Nat) : Option (List Int) :=
  match (IW.new v width).symbolIdx t.order t.bursts.length with
  | none => none
  | some idx => (idx.mapM (fun i => t.bursts[i]?)).map (fun syms => syms.flatMap (fun p => [p.1, p.2]))

def itemTimings (t : Tables) : Item → Option (List Int)
  | .field v w => fieldTimings t v w
  | .lit ds => some ds

/-- `_build_packet`: lead-in + items + lead-out, flattened and compressed; a positive last lead-out
    entry is a total frame period and becomes the gap `tt - period`, merged into a trailing space. -/
def buildPacket (t : Tables) (items : List Item) : Except PyErr (List Int) :=
  match items.mapM (itemTimings t) with
  | none => .error .indexError
  | some ds =>
    let packet := t.leadIn ++ ds.flatten ++ t.leadOut
    match t.leadOut.getLast? with
    | some lo =>
      if packet.getLastD 0 > 0 then
        let p := compress packet.dropLast
        let tt := sumAbs p
        .ok (compress (p ++ [tt - lo]))
      else .ok (compress packet)
    | none => .ok (compress packet)

/-- `_build_repeat_packet(repeat_count)` : one frame (the caller multiplies it) -/
def buildRepeatFrame (t : Tables) : Except PyErr (List Int) :=
  let timings := t.repeatLeadIn ++ t.repeatLeadOut
  match timings.getLast? with
  | none => .error .indexError
  | some last =>
    if last > 0 then
      let tt := sumAbs timings.dropLast
      .ok (timings.dropLast ++ [-(last - tt)])
    else .ok timings

end IRModel.Encode
