import IRModel.Py
import IRModel.Bits
import IRModel.Match
/-
  Protocol description as read from a protocol class by reflection (tools/extract.py → IRGen/Tables.lean).
  Only two-duration symbols are representable here (`bursts : List (Int × Int)`); protocols with other
  table shapes are emitted with `shape := .other` and stay outside the theorems.
-/
namespace IRModel
open IRModel.Bits IRModel.Match

inductive Shape
  | pairs        -- every symbol is a list of exactly two durations
  | bit          -- `_bursts` is a flat list of ints (duration-multiple path)
  | other
deriving Repr, DecidableEq

structure Tables where
  name          : String
  frequency     : Nat
  bitCount      : Nat
  order         : Order                 -- encoding == 'msb' or not
  shape         : Shape
  leadIn        : List Int
  leadOut       : List Int
  bursts        : List (Int × Int)
  hasMiddle     : Bool                  -- `_middle_timings` non-empty
  repeatLeadIn  : List Int
  repeatLeadOut : List Int
  repeatBursts  : List (Int × Int)
  params        : List (String × Nat × Nat)     -- `_parameters`: name, start bit, stop bit
  codeOrder     : List (String × Nat)           -- `_code_order`
  encodeParams  : List (String × Nat × Nat)     -- `encode_parameters`: name, min, max
  repeatTimeout : Nat
  decodeOverridden : Bool
deriving Repr

end IRModel
