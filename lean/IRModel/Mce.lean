/-
  S2 — MCE normalisation (`utils.build_mce_rlc`, `pyIRDecoder.rlc_to_mce`,
  `IRCode.normalized_rlc_mce`).

  Python:
      dif = timing % 50            # floor-mod, 0 <= dif < 50 for every int
      if dif < 25: dif = -dif else: dif = 50 - dif
      timing += dif

  Lean's `%` on `Int` is `Int.emod`; for the positive modulus 50 it coincides with
  Python's floor-mod (checked by the correspondence stream on all of [-200000, 200000]).
-/
namespace IRModel.Mce

/-- one duration, `build_mce_rlc`'s loop body -/
def snap (t : Int) : Int :=
  let dif := t % 50
  if dif < 25 then t + (-dif) else t + (50 - dif)

/-- `utils.build_mce_rlc` : builds a fresh list (`rlc = []; rlc += [timing]`) -/
def buildMceRlc (code : List Int) : List Int := code.map snap

/-- Result of a call that receives a Python list: the value returned, the value the caller's
    argument has after the call, and whether the returned outer list object is a new object. -/
structure CallOut (α : Type) where
  result   : α
  argAfter : α
  fresh    : Bool
deriving Repr, DecidableEq

/-- `rlc_to_mce` on a flat list: `code = _build_mce_rlc(code)` rebinding the local name. -/
def rlcToMceFlat (code : List Int) : CallOut (List Int) :=
  { result := buildMceRlc code, argAfter := code, fresh := true }

/-- `rlc_to_mce` on a nested list (after the `fix:` commit recorded in known_findings.json:
    a list comprehension builds a new outer list; the argument is not assigned into). -/
def rlcToMceNested (code : List (List Int)) : CallOut (List (List Int)) :=
  { result := code.map buildMceRlc, argAfter := code, fresh := true }

/-- The *pinned* (pre-fix) behaviour, kept so the defect stays expressible: the loop assigns
    `code[i] = rlc` into the caller's list and returns that same object. -/
def rlcToMceNestedPinned (code : List (List Int)) : CallOut (List (List Int)) :=
  { result := code.map buildMceRlc, argAfter := code.map buildMceRlc, fresh := false }

/-- `IRCode.normalized_rlc_mce` : concatenation of the per-frame renderings of copies. -/
def normalizedRlcMce (frames : List (List Int)) : List Int :=
  (frames.map buildMceRlc).flatten

end IRModel.Mce
