import IRModel.Dispatcher
import IRModel.Match
/-
  A concrete, executable instance of `Decoders` used by the correspondence check of L7:
  scripted decoders (their reaction to each frame id is a table), the real `_match` for
  `frequency_match`. The real harness installs stub decoder objects with the same script into the
  real `FakeModule` and runs the real `_decode`.
-/
namespace IRModel.DispatchScript
open IRModel.Dispatcher IRModel.Match

inductive Beh
  | ok (key : Nat)
  | err (e : Err)
deriving Repr, DecidableEq

structure SDec where
  freq    : Nat
  ftol    : Tol
  enabled : Bool
  beh     : List (Int × Beh)          -- frame id ↦ behaviour (default: DecodeError)
deriving Repr

structure ScriptSt where
  decs   : List SDec
deriving Repr

def behOf (d : SDec) (fid : Int) : Beh :=
  match d.beh.find? (fun p => p.1 == fid) with
  | some p => p.2
  | none => .err .decode

def fidOf (x : Frame) : Int := x.headD 0

def world : Decoders ScriptSt :=
  { n := 0,   -- overwritten by `worldOf`
    enabled := fun s i => match s.decs[i]? with | some d => d.enabled | none => false,
    freqMatch := fun s i f => match s.decs[i]? with
      | some d => isMatch d.ftol (f : Int) (d.freq : Int)
      | none => false,
    decode := fun i s x _ => match s.decs[i]? with
      | some d =>
        match behOf d (fidOf x) with
        | .ok k => (.ok ⟨i, k, fidOf x⟩, s)
        | .err e => (.error e, s)
      | none => (.error .decode, s),
    eqTimings := fun _ c x => c.rlc == fidOf x,
    saved := fun _ _ _ => none,
    stopLast := fun _ s => s }

def worldOf (s : ScriptSt) : Decoders ScriptSt := { world with n := s.decs.length }

end IRModel.DispatchScript
