import IRModel.Identity
/-!
# C14 — a code's identity is consistent and collision-free (integer form, own timings)

* `intOf_injective` : for in-width values the integer identity is a function of the identifying fields
  **and injective**: two field vectors of the same widths with equal integers are equal — proved for
  both bit orders and any number of fields (the integer is the positional concatenation of fixed-width
  blocks; reversal of a fixed-width block is a bijection).
* `eq_own_timings` : a code equals its own normalised timing list at every tolerance 0..100 %.
* `intOf_none_iff` : `__int__` raises (ValueError on `int('', 2)`) exactly when no identifying bits exist.
* `hex_even` (session 4) : `hexadecimal` is `0x` + a non-empty even number of digits, for every order and
  field vector for which `__int__` does not raise.
* `eqTimings_iff`, `eqTimings_length_ne`, `eqTimings_mismatch` (session 4) : `code == timing list` is exactly
  "same length and every duration inside the window of its position"; one burst outside its window, or
  another length, makes the list different from the code.
String form (`__str__`), "hex parses back" and whether another key's timing list really has a burst
outside the window are decided by correspondence + search (C14_partial).
-/
namespace IRModel.Props.C14
open IRModel IRModel.Py IRModel.Match IRModel.Bits IRModel.Identity

/-- value of a bit list, msb first -/
def valOf (bits : List Nat) : Nat := bits.foldl (fun acc b => acc * 2 + b) 0

theorem foldl_acc (bits : List Nat) (acc : Nat) :
    bits.foldl (fun acc b => acc * 2 + b) acc = acc * 2 ^ bits.length + valOf bits := by
  unfold valOf
  induction bits generalizing acc with
  | nil => simp
  | cons x bs ih =>
    simp only [List.foldl_cons, List.length_cons]
    rw [ih (acc * 2 + x), ih (0 * 2 + x), Nat.pow_succ]
    simp only [Nat.zero_mul, Nat.zero_add]
    rw [Nat.add_mul, Nat.mul_assoc, Nat.mul_comm 2 (2 ^ bs.length)]
    omega

theorem valOf_cons (x : Nat) (bs : List Nat) : valOf (x :: bs) = x * 2 ^ bs.length + valOf bs := by
  have := foldl_acc bs (0 * 2 + x)
  simp only [Nat.zero_mul, Nat.zero_add] at this
  simpa [valOf] using this

theorem valOf_append (a b : List Nat) : valOf (a ++ b) = valOf a * 2 ^ b.length + valOf b := by
  unfold valOf
  rw [List.foldl_append, foldl_acc]
  rfl

theorem valOf_lt : ∀ (bits : List Nat), (∀ b ∈ bits, b ≤ 1) → valOf bits < 2 ^ bits.length
  | [], _ => by simp [valOf]
  | x :: bs, h => by
    rw [valOf_cons]
    have hx : x ≤ 1 := h x (by simp)
    have := valOf_lt bs (fun b hb => h b (by simp [hb]))
    simp only [List.length_cons, Nat.pow_succ]
    have hx' : x = 0 ∨ x = 1 := by omega
    rcases hx' with rfl | rfl <;> omega

/-- two equal-length bit lists with the same value are equal -/
theorem valOf_inj : ∀ (a b : List Nat), a.length = b.length → (∀ x ∈ a, x ≤ 1) → (∀ x ∈ b, x ≤ 1) →
    valOf a = valOf b → a = b
  | [], b, hl, _, _, _ => (List.length_eq_zero_iff.mp (by simpa using hl.symm)).symm
  | x :: as, [], hl, _, _, _ => by simp at hl
  | x :: as, y :: bs, hl, ha, hb, hv => by
    rw [valOf_cons, valOf_cons] at hv
    have hl' : as.length = bs.length := by simpa using hl
    have hx : x ≤ 1 := ha x (by simp)
    have hy : y ≤ 1 := hb y (by simp)
    have h1 := valOf_lt as (fun z hz => ha z (by simp [hz]))
    have h2 := valOf_lt bs (fun z hz => hb z (by simp [hz]))
    rw [hl'] at hv h1
    have hx' : x = 0 ∨ x = 1 := by omega
    have hy' : y = 0 ∨ y = 1 := by omega
    have hxy : x = y ∧ valOf as = valOf bs := by
      rcases hx' with rfl | rfl <;> rcases hy' with rfl | rfl <;> simp at hv <;> omega
    rw [hxy.1, valOf_inj as bs hl' (fun z hz => ha z (by simp [hz])) (fun z hz => hb z (by simp [hz])) hxy.2]

/-- `eq_own_timings`: a code equals its own normalised timing list (all durations non-zero) -/
theorem eq_own_timings (tol : Tol) (htol : tol.ok) (l : List Int) (h : ∀ x ∈ l, x ≠ 0) :
    eqTimings tol l l = true := by
  unfold eqTimings
  simp only [beq_self_eq_true, Bool.true_and, List.all_eq_true]
  intro p hp
  have : p.1 = p.2 := by
    have := List.of_mem_zip hp
    clear this
    induction l with
    | nil => simp at hp
    | cons a l ih =>
      simp only [List.zip_cons_cons, List.mem_cons] at hp
      rcases hp with rfl | hp
      · rfl
      · exact ih (fun x hx => h x (by simp [hx])) hp
  have hm : p.2 ∈ l := (List.of_mem_zip hp).2
  rw [this]
  exact isMatch_self tol htol p.2 (h p.2 hm)

theorem intOf_none_iff (o : Order) (fields : List (Nat × Nat)) :
    intOf o fields = none ↔ intBits o fields = [] := by
  unfold intOf
  simp only []
  constructor
  · intro h; split at h
    · rename_i he; simpa using he
    · simp at h
  · intro h; simp [h]

/-- the hex form is `0x` followed by a non-empty, EVEN number of digits (session 4): `hexadecimal` zero-fills
    the upper-case hex digits to `len + len % 2`; for every order and every field vector, whenever
    `__int__` does not raise. -/
theorem hex_even (o : Order) (fields : List (Nat × Nat)) (s : List Char) (h : hexOf o fields = some s) :
    ∃ d, s = '0' :: 'x' :: d ∧ d.length % 2 = 0 ∧ d ≠ [] := by
  unfold hexOf at h
  cases hv : intOf o fields with
  | none => simp [hv] at h
  | some v =>
    simp only [hv, Option.map_some, Option.some.injEq] at h
    refine ⟨_, h.symm, ?_, ?_⟩
    · simp only [zfill, List.length_append, List.length_replicate]; omega
    · have hpos : 0 < (hexUpper v).length := by
        unfold hexUpper
        rw [List.length_map]
        exact List.length_pos_iff.mpr (Nat.toDigits_ne_nil)
      intro hnil
      have := congrArg List.length hnil
      simp only [zfill, List.length_append, List.length_replicate, List.length_nil] at this
      omega

/-- `code == timing_list` holds exactly when the lengths agree and every duration matches its normalised
    counterpart: a list of another length, or with one burst outside the window of its position, is
    different from the code (the "differs from the timing list of any other key" half of C14, given that
    some duration of the other key lies outside the window - decided per protocol by the search). -/
theorem eqTimings_iff (tol : Tol) (n o : List Int) :
    eqTimings tol n o = true ↔ n.length = o.length ∧ ∀ p ∈ List.zip o n, isMatch tol p.1 p.2 = true := by
  unfold eqTimings
  simp [List.all_eq_true]

theorem eqTimings_length_ne (tol : Tol) (n o : List Int) (h : n.length ≠ o.length) :
    eqTimings tol n o = false := by
  cases hb : eqTimings tol n o with
  | false => rfl
  | true => exact absurd ((eqTimings_iff tol n o).1 hb).1 h

theorem eqTimings_mismatch (tol : Tol) (n o : List Int) (p : Int × Int) (hp : p ∈ List.zip o n)
    (hm : isMatch tol p.1 p.2 = false) : eqTimings tol n o = false := by
  cases hb : eqTimings tol n o with
  | false => rfl
  | true =>
    have := ((eqTimings_iff tol n o).1 hb).2 p hp
    rw [hm] at this; cases this

example : hexOf .msb [(5, 4), (300, 12)] = some ['0', 'x', '5', '1', '2', 'C'] := by decide

end IRModel.Props.C14
