import IRModel.Props.EngineThm
/-!
# C05 — a corrupted frame is rejected or decoded as what it actually says (engine level)

`parse_frameA` holds for **every** symbol sequence, so it already describes corrupted frames: replace
any data symbol by any other legal symbol, drop or append symbols — the result is again the class-A
frame of *some* index sequence `idx'`, and the history-free base decoder then either rejects it with the
bit-count guard (length differs) or returns a code whose fields are read from exactly the bits of `idx'`
and whose normalised frame **is the corrupted frame**: it never reports the original, or any other,
content.  The checksum / constant-field checks of the per-protocol `decode()` wrappers only reject more
(C05_partial: their completeness is decided by the search on the real decoders, incl. the
"corrupted frame after an intact one" histories).
-/
namespace IRModel.Props.C05
open IRModel IRModel.Py IRModel.Match IRModel.Bits IRModel.CodeWrapper IRModel.Engine IRModel.Proto
open IRModel.Props.EngineThm IRModel.Props.RoundTrip

theorem C05_base (t : Tables) (tol : Tol) (htol : tol.ok) (hw : wfAll t tol = true)
    (mo x : Int) (hlo : t.leadOut = [mo, x])
    (idx' : List Nat) (hidx : ∀ i ∈ idx', i < t.bursts.length)
    (hfit : x > 0 → sumAbs (t.leadIn ++ symTimings t.bursts idx' ++ [mo]) < x) :
    let bits := idx'.flatMap (idxToBits t.bursts.length)
    let r := (decodeFull t { last := none, tol := tol } (frameA t mo x idx') []).result
    (bits.length > t.bitCount → r = .error .tooManyBits) ∧
    (bits.length < t.bitCount → r = .error .notEnoughBits) ∧
    (bits.length = t.bitCount → ∃ c, r = .ok c ∧
        c.fields = t.params.map (fun (n, a, b) => (n, fieldValue t.order bits a b)) ∧
        c.frame = compress (frameA t mo x idx')) := by
  obtain ⟨hA, _, _, _, _, hS⟩ := wfAll_spec hw
  have hxs : x ≠ -999999999999 := by rw [hlo] at hS; simpa using hS
  have hparse := parse_frameA t tol htol hA mo x hlo hxs idx' hidx hfit
  intro bits r
  refine ⟨?_, ?_, ?_⟩
  · intro h
    show (decodeFull _ _ _ _).result = _
    unfold decodeFull; rw [hparse]; simp only []
    rw [if_pos h]
  · intro h
    show (decodeFull _ _ _ _).result = _
    unfold decodeFull; rw [hparse]; simp only []
    have : ¬ bits.length > t.bitCount := by omega
    rw [if_neg this, if_pos h]
  · intro h
    have h1 : ¬ bits.length > t.bitCount := by omega
    have h2 : ¬ bits.length < t.bitCount := by omega
    show ∃ c, (decodeFull _ _ _ _).result = _ ∧ _
    unfold decodeFull; rw [hparse]; simp only []
    rw [if_neg h1, if_neg h2]
    by_cases hov : t.decodeOverridden = true
    · rw [if_pos hov]; exact ⟨_, rfl, rfl, rfl⟩
    · rw [if_neg hov]; exact ⟨_, rfl, rfl, rfl⟩

/-- a lead-in outside the window is a LeadInError (when no mark-merged reading applies) -/
theorem C05_leadin_damage (tol : Tol) (li lo : List Int) (b : List (Int × Int)) (e v : Int) (rest es : List Int)
    (hli : li = e :: es) (h1 : isMatch tol v e = false) (h2 : ∀ p ∈ b, isMatch tol v (e + p.1) = false)
    (hp : periodCheck tol lo (v :: rest) = .ok ()) :
    parseWith tol li lo b (v :: rest) = .error .leadIn := by
  unfold parseWith
  simp only [bind, Except.bind, hp, hli, leadInLoop, h1]
  have : b.find? (fun p => isMatch tol v (e + p.1)) = none := by
    rw [List.find?_eq_none]; intro p hp'; simp [h2 p hp']
  simp [this]

end IRModel.Props.C05
