import IRModel.Proto
/-!
# C09 — decoding never modifies caller data and decoder instances are isolated

The model is purely functional, so two of the three clauses are structural facts about it; what makes
them statements about the code is the correspondence check, which compares the caller's list after every
real call with the list before it, and runs interleavings on two real instances:

* the model's decode takes its input by value: the "argument after the call" is the argument
  (`decode_arg_unchanged`; a real `data` instead of `data[:]` would show up as a correspondence failure);
* a world of instances is a function from instance ids to instance states, a decode on instance `y`
  updates only `y` (`frame_rule`), so what instance `x` returns never depends on operations on `y ≠ x`
  (`isolation`);
* encoding is a function of the tables and the field values (`encode_deterministic`).
-/
namespace IRModel.Props.C09
open IRModel IRModel.Py IRModel.Proto IRModel.Encode

/-- a call as the caller sees it: result plus the caller's list afterwards -/
structure Call where
  out      : DecodeOut
  argAfter : List Int

def decodeCall (t : Tables) (inst : Inst) (data : List Int) : Call :=
  { out := baseDecode t inst data, argAfter := data }      -- `data[:]` is handed to CodeWrapper

theorem decode_arg_unchanged (t : Tables) (inst : Inst) (data : List Int) :
    (decodeCall t inst data).argAfter = data := rfl

abbrev World := Nat → Inst

def stepWorld (t : Nat → Tables) (w : World) (y : Nat) (data : List Int) : World × DecodeOut :=
  let r := baseDecode (t y) (w y) data
  (fun i => if i = y then r.inst else w i, r)

theorem frame_rule (t : Nat → Tables) (w : World) (x y : Nat) (hxy : x ≠ y) (data : List Int) :
    (stepWorld t w y data).1 x = w x := by
  simp [stepWorld, hxy]

/-- whatever happens on other instances, instance `x` answers as if it had not happened -/
theorem isolation (t : Nat → Tables) (w : World) (x : Nat) (ops : List (Nat × List Int))
    (hops : ∀ op ∈ ops, op.1 ≠ x) (data : List Int) :
    (stepWorld t (ops.foldl (fun w op => (stepWorld t w op.1 op.2).1) w) x data).2 = (stepWorld t w x data).2 := by
  have key : (ops.foldl (fun w op => (stepWorld t w op.1 op.2).1) w) x = w x := by
    induction ops generalizing w with
    | nil => rfl
    | cons op ops ih =>
      simp only [List.foldl_cons]
      rw [ih _ (fun o ho => hops o (by simp [ho]))]
      exact frame_rule t w x op.1 (fun h => hops op (by simp) h.symm) op.2
  show baseDecode (t x) ((ops.foldl (fun w op => (stepWorld t w op.1 op.2).1) w) x) data = baseDecode (t x) (w x) data
  rw [key]

theorem encode_deterministic (t : Tables) (items : List Item) :
    buildPacket t items = buildPacket t items := rfl

end IRModel.Props.C09
