import IRModel.Mce
/-!
# C16 — MCE normalisation snaps every duration to the nearest 50 µs without other change

Statement (properties.jsonl): same length and order; each value a multiple of 50, within 25 of its
source, keeps its sign unless it rounds to zero, unchanged if already a multiple of 50, idempotent;
returns a new list and leaves its argument untouched for flat and nested input.

Everything is proved for **every** `Int` (the property asks for [-200000, 200000]).
-/
namespace IRModel.Props.C16
open IRModel.Mce

theorem snap_dvd (x : Int) : 50 ∣ snap x := by
  unfold snap; simp only []; split <;> omega

theorem snap_close (x : Int) : (snap x - x).natAbs ≤ 25 := by
  unfold snap; simp only []; split <;> omega

theorem snap_sign_pos (x : Int) (hx : 0 < x) (h0 : snap x ≠ 0) : 0 < snap x := by
  unfold snap at *; simp only [] at *; split at h0 <;> split <;> omega

theorem snap_sign_neg (x : Int) (hx : x < 0) (h0 : snap x ≠ 0) : snap x < 0 := by
  unfold snap at *; simp only [] at *; split at h0 <;> split <;> omega

theorem snap_fixed (x : Int) (h : 50 ∣ x) : snap x = x := by
  unfold snap; simp only []; split <;> omega

theorem snap_idem (x : Int) : snap (snap x) = snap x := snap_fixed _ (snap_dvd x)

/-- nearest: no multiple of 50 is strictly closer -/
theorem snap_nearest (x m : Int) (hm : 50 ∣ m) : (snap x - x).natAbs ≤ (m - x).natAbs := by
  unfold snap; simp only []; split <;> omega

/-- The full per-list statement for `build_mce_rlc`. -/
theorem C16_flat (l : List Int) :
    (buildMceRlc l).length = l.length ∧
    (∀ i (h : i < l.length), ∃ h' : i < (buildMceRlc l).length,
        let y := (buildMceRlc l)[i]; let x := l[i]
        50 ∣ y ∧ (y - x).natAbs ≤ 25 ∧ (y ≠ 0 → (0 < y ↔ 0 < x)) ∧ (50 ∣ x → y = x)) ∧
    buildMceRlc (buildMceRlc l) = buildMceRlc l := by
  refine ⟨by simp [buildMceRlc], ?_, ?_⟩
  · intro i h
    refine ⟨by simpa [buildMceRlc] using h, ?_⟩
    simp only [buildMceRlc, List.getElem_map]
    refine ⟨snap_dvd _, snap_close _, ?_, snap_fixed _⟩
    intro h0
    constructor
    · intro hy
      rcases Int.lt_trichotomy l[i] 0 with hx | hx | hx
      · have := snap_sign_neg _ hx h0; omega
      · rw [hx] at hy; simp [snap] at hy
      · exact hx
    · intro hx; exact snap_sign_pos _ hx h0
  · simp only [buildMceRlc, List.map_map]
    apply List.map_congr_left
    intro a _; exact snap_idem a

/-- `rlc_to_mce` leaves its argument untouched and returns a new list, flat and nested. -/
theorem C16_arg_untouched_flat (l : List Int) :
    (rlcToMceFlat l).argAfter = l ∧ (rlcToMceFlat l).fresh = true ∧
    (rlcToMceFlat l).result = buildMceRlc l := ⟨rfl, rfl, rfl⟩

theorem C16_arg_untouched_nested (l : List (List Int)) :
    (rlcToMceNested l).argAfter = l ∧ (rlcToMceNested l).fresh = true ∧
    (rlcToMceNested l).result = l.map buildMceRlc := ⟨rfl, rfl, rfl⟩

/-- nested rendering: same shape, every frame is the flat rendering, idempotent -/
theorem C16_nested_shape (l : List (List Int)) :
    ((rlcToMceNested l).result.map List.length) = l.map List.length ∧
    (rlcToMceNested (rlcToMceNested l).result).result = (rlcToMceNested l).result := by
  constructor
  · simp [rlcToMceNested, buildMceRlc]
  · simp only [rlcToMceNested, List.map_map]
    apply List.map_congr_left
    intro a _
    exact (C16_flat a).2.2

/-- `IRCode.normalized_rlc_mce` has the length of the concatenated frames. -/
theorem C16_code_mce_length (fs : List (List Int)) :
    (normalizedRlcMce fs).length = fs.flatten.length := by
  induction fs with
  | nil => rfl
  | cons f fs ih =>
    simp only [normalizedRlcMce, List.map_cons, List.flatten_cons, List.length_append] at *
    rw [ih]; simp [buildMceRlc]

/-- The pinned (pre-fix) nested behaviour violated the property: witness. -/
theorem C16_pinned_nested_defect :
    (rlcToMceNestedPinned [[1]]).argAfter ≠ [[1]] ∧ (rlcToMceNestedPinned [[1]]).fresh = false := by
  decide

/-- non-vacuity: a concrete list exercising both rounding directions, the tie and both signs -/
example : buildMceRlc [24, 25, -24, -25, -26, 75, 100, -1] = [0, 50, 0, 0, -50, 100, 100, 0] := by
  decide

end IRModel.Props.C16
