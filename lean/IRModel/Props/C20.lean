import IRModel.Universal
/-!
# C20 — the fallback decoder (what is provable)

The model (`IRModel/Universal.lean`) is a *function* of the signal and the tolerance setting: it has no
instance or history component, and the correspondence check is what shows that the code has none either
(`Universal.decode` touches no attribute of `self` besides `tolerance`).  Proved here:

* `short_rejected` : six durations or fewer raise DecodeError;
* `only_decode_or_index` : the only other exception is the IndexError of `__decode_2` on a list emptied by its
  unique-value removal — reached only when `__decode_1` has failed too;
* `decode2_total_of_mark_first` : `__decode_2` returns whenever a value survives the removal and the list then
  starts with a non-negative entry.

The stability clause ("unchanged under quarter-tolerance perturbation") is FALSE for the code as written —
cluster means move with the perturbation and are then snapped to a 50 µs grid — so it is not stated as a
theorem; concrete counter-examples are found by the search, replayed on the real decoder and recorded as a
known finding (C20_partial).
-/
namespace IRModel.Props.C20
open IRModel.Universal IRModel.Py

theorem short_rejected (data : List Int) (tol : Rat) (h : data.length ≤ 6) : decode data tol = .error .decode := by
  unfold decode; rw [if_pos h]

theorem only_decode_or_index (data : List Int) (tol : Rat) (e : PyErr) (h : decode data tol = .error e) :
    (e = .decode ∧ data.length ≤ 6) ∨
    (e = .indexError ∧ decode1 ((cleanCode data tol).map mceRat) = none ∧ decode2 ((cleanCode data tol).map mceRat) = none) := by
  unfold decode at h
  split at h
  · rename_i hl; left; simp at h; exact ⟨h.symm, hl⟩
  · simp only [] at h
    cases h1 : decode1 ((cleanCode data tol).map mceRat) with
    | some c => rw [h1] at h; simp at h
    | none =>
      rw [h1] at h
      simp only [] at h
      cases h2 : decode2 ((cleanCode data tol).map mceRat) with
      | some c => rw [h2] at h; simp at h
      | none => rw [h2] at h; simp at h; right; exact ⟨h.symm, rfl, rfl⟩

theorem decode2_total_of_mark_first (norm : List Rat) (h : Rat) (t : List Rat)
    (hl : dropSingles norm = h :: t) (hh : ¬ h < 0) : (decode2 norm).isSome = true := by
  unfold decode2
  simp only [hl, hh, if_false]
  cases hg : (h :: t).getLast? with
  | none => simp at hg
  | some lst => simp

/-- every duration of `b` is within a quarter of the 20 % tolerance of the corresponding duration of `a` -/
def quarterClose (a b : List Int) : Bool :=
  a.length == b.length && (List.zip a b).all fun p => decide ((p.2 - p.1).natAbs * 400 ≤ 20 * p.1.natAbs) && decide ((p.1 > 0) = (p.2 > 0))

/-- **the stability clause is false**: two well-formed 9-duration signals, pointwise within tolerance/4 of each
    other, get different codes (kernel-evaluated on the exact-float model; replayed on the real decoder by the
    check, known finding C20-unstable-under-perturbation) -/
theorem C20_stability_fails :
    quarterClose [560, -450, 560, -560, 2400, -560, 300, -300, 560] [571, -465, 588, -550, 2345, -536, 291, -290, 551] = true ∧
    (decode [560, -450, 560, -560, 2400, -560, 300, -300, 560] 20).toOption ≠
    (decode [571, -465, 588, -550, 2345, -536, 291, -290, 551] 20).toOption := by decide +kernel

end IRModel.Props.C20
