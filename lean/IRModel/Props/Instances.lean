import IRModel.Props.Wrapper
import IRModel.Lemmas.EngineC
import IRModel.Lemmas.EngineCp
/-!
# The wrapper-level properties as statements about one protocol

`C01Holds t w tol`, … are the conclusions of the theorems of `Props/Wrapper.lean` as propositions about one protocol's
tables `t`, traced wrapper `w` and tolerance `tol`.  The generated modules `IRGen/Inst_<kind>.lean` state
`C01Holds IRGen.P_NEC IRGen.W_NEC ⟨20, 1⟩` etc. for every protocol of the fragment and prove them by applying the
theorems below to that protocol's kernel-checked obligations — so that "both obligations hold, hence the theorem
applies" is itself checked by the kernel on every run, for the tables and wrappers regenerated from /repo, and not
an argument made in Python.
-/
namespace IRModel.Props.Wrapper
open IRModel IRModel.Py IRModel.Proto IRModel.Wrap IRModel.Props.EngineThm IRModel.Engine

/-- property C01 for one protocol at one tolerance: every in-range parameter assignment encodes, and a history-free
    decoder decodes the first frame to a code reporting exactly those parameters -/
def C01Holds (t : Tables) (w : Wrapper) (tol : Match.Tol) : Prop :=
  ∀ (u : String → Int), (∀ n, 0 ≤ u n) → (∀ ep ∈ t.encodeParams, u ep.1 ≤ ep.2.2) →
    ∃ frame c, firstFrame t w u = .ok frame ∧
      (decodeP t w { last := none, tol := tol } frame).result = .ok c ∧
      ∀ ep ∈ t.encodeParams, c.get (Props.C01.viewKey ep.1) = some (u ep.1).toNat

def C05Holds (t : Tables) (w : Wrapper) (tol : Match.Tol) : Prop :=
  ∀ (V : String × Nat × Nat → Nat), (∀ prm ∈ t.params, V prm < 2 ^ widthP prm) →
    ∃ frame, Encode.buildPacket t (t.params.map (fun prm => Encode.Item.field (V prm) (widthP prm))) = .ok frame ∧
      (∀ e, (decodeP t w { last := none, tol := tol } frame).result = .error e → e.isLibrary = true) ∧
      (∀ c, (decodeP t w { last := none, tol := tol } frame).result = .ok c →
        firstFrame t w (fun n => (((c.get (Props.C01.viewKey n)).getD 0 : Nat) : Int)) = .ok frame)

def C03Holds (t : Tables) (w : Wrapper) : Prop :=
  ∀ (u : String → Int), (∀ n, 0 ≤ u n) →
    (∀ rc, rc < 3 → ∃ fs, encodeFrames t w u rc = .ok fs ∧ fs.length = frameCount w rc ∧ fs ≠ [] ∧ ∀ f ∈ fs, FrameOK t f) ∧
    (∃ d, 0 < d ∧ frameCount w 1 = frameCount w 0 + d ∧ frameCount w 2 = frameCount w 1 + d) ∧
    w.frequency = some t.frequency

def C06Holds (t : Tables) (w : Wrapper) (tol : Match.Tol) : Prop :=
  ∀ (u : String → Int), (∀ n, 0 ≤ u n) → (∀ ep ∈ t.encodeParams, u ep.1 ≤ ep.2.2) → ∀ rc, rc < 3 →
    ∃ fs, encodeFrames t w u rc = .ok fs ∧ fs ≠ [] ∧
      ∀ r ∈ runInputs t w { last := none, tol := tol } fs,
        ∃ c, r = .ok c ∧ ∀ ep ∈ t.encodeParams, c.get (Props.C01.viewKey ep.1) = some (u ep.1).toNat

def C07Holds (t : Tables) (w : Wrapper) : Prop :=
  ∀ (inst : Inst) (l : CodeV), inst.last = some l → WFCode t l →
    ∀ (data : List Int), data.length > t.repeatLeadIn.length + t.repeatLeadOut.length →
      match (decodeP t w inst data).result, (decodeP t w { last := none, tol := inst.tol } data).result with
      | .ok c, .ok c' => ∀ ep ∈ t.encodeParams, c.get (Props.C01.viewKey ep.1) = c'.get (Props.C01.viewKey ep.1)
      | .error e, .error e' => e = e'
      | _, _ => False

def C07HHolds (t : Tables) (w : Wrapper) : Prop :=
  ∀ (tol : Match.Tol) (inputs : List (List Int)) (data : List Int),
    data.length > t.repeatLeadIn.length + t.repeatLeadOut.length →
      match (decodeP t w (finalInst t w { last := none, tol := tol } inputs) data).result,
            (decodeP t w { last := none, tol := tol } data).result with
      | .ok c, .ok c' => ∀ ep ∈ t.encodeParams, c.get (Props.C01.viewKey ep.1) = c'.get (Props.C01.viewKey ep.1)
      | .error e, .error e' => e = e'
      | _, _ => False

def C08Holds (t : Tables) (w : Wrapper) : Prop :=
  ∀ (tol : Match.Tol) (inputs : List (List Int)),
    ∀ r ∈ runInputs t w { last := none, tol := tol } inputs, ∀ e, r = .error e → e.isLibrary = true

def C13Holds (t : Tables) (w : Wrapper) : Prop :=
  ∃ hS : C08Spec t w, ∀ (f : Nat) (s : PState t) (chunks₁ chunks₂ : List (List Int)),
    chunks₁.flatten = chunks₂.flatten →
    IRModel.Stream.runChunks (protoDec t w hS) f s [] chunks₁ = IRModel.Stream.runChunks (protoDec t w hS) f s [] chunks₂

def C04Holds (t : Tables) (w : Wrapper) (tol : Match.Tol) : Prop :=
  ∀ (u : String → Int), (∀ n, 0 ≤ u n) → (∀ ep ∈ t.encodeParams, u ep.1 ≤ ep.2.2) →
    ∃ mo x idx, t.leadOut = [mo, x] ∧ firstFrame t w u = .ok (IRModel.Engine.frameA t mo x idx) ∧
      ∀ (li' sy' : List Int) (mo' g' : Int),
        IRModel.Engine.Pw (IRModel.Engine.Q tol) li' t.leadIn →
        IRModel.Engine.Pw (IRModel.Engine.Q tol) sy' (IRModel.Engine.symTimings t.bursts idx) → IRModel.Engine.Q tol mo' mo →
        ((x < 0 ∧ IRModel.Engine.Q tol g' x) ∨ (x > 0 ∧ g' = Py.sumAbs (li' ++ sy' ++ [mo']) - x ∧ g' < 0)) →
        ∃ c, (decodeP t w { last := none, tol := tol } (li' ++ sy' ++ [mo', g'])).result = .ok c ∧
          ∀ ep ∈ t.encodeParams, c.get (Props.C01.viewKey ep.1) = some (u ep.1).toNat

def C04BHolds (t : Tables) (w : Wrapper) (tol : Match.Tol) : Prop :=
  ∀ (u : String → Int), (∀ n, 0 ≤ u n) → (∀ ep ∈ t.encodeParams, u ep.1 ≤ ep.2.2) →
    ∃ x idx' j, t.leadOut = [x] ∧ firstFrame t w u = .ok (IRModel.Engine.frameB t x idx' j) ∧
      (x > 0 → ∀ (li' sy' : List Int) (m' g' : Int),
        IRModel.Engine.Pw (IRModel.Engine.Q tol) li' t.leadIn →
        IRModel.Engine.Pw (IRModel.Engine.Q tol) sy' (IRModel.Engine.symTimings t.bursts idx') →
        (∀ q, t.bursts[j]? = some q → IRModel.Engine.Q tol m' q.1) →
        g' = Py.sumAbs (li' ++ sy' ++ [m']) - x → g' < 0 →
        ∃ c, (decodeP t w { last := none, tol := tol } (li' ++ sy' ++ [m', g'])).result = .ok c ∧
          ∀ ep ∈ t.encodeParams, c.get (Props.C01.viewKey ep.1) = some (u ep.1).toNat)

theorem C04B_holds (t : Tables) (w : Wrapper) (tol : Match.Tol) (htol : tol.ok) (hw : wfAllB t tol = true)
    (hwt : IRModel.Engine.wfTol t tol = true) (hok : c01OK t w = true) : C04BHolds t w tol :=
  fun u hu hr => C04_wrapperB t w tol htol hw hwt hok u hu hr

/-- the engine hypothesis from either class's obligation -/
inductive EngineObl (t : Tables) (tol : Match.Tol) : Prop
  | A (h : wfAll t tol = true)
  | B (h : wfAllB t tol = true)
  | C (h : wfAllC t tol = true)
  | Cp (h : wfAllCp t tol = true)

theorem EngineObl.rt {t : Tables} {tol : Match.Tol} (htol : tol.ok) : EngineObl t tol → EngineRT t tol
  | .A h => engineRT_A t tol htol h
  | .B h => engineRT_B t tol htol h
  | .C h => engineRT_C t tol htol h
  | .Cp h => engineRT_Cp t tol htol h

theorem C01_holds (t : Tables) (w : Wrapper) (tol : Match.Tol) (htol : tol.ok) (he : EngineObl t tol)
    (hok : c01OK t w = true) : C01Holds t w tol :=
  fun u hu hr => C01_wrapper t w tol htol (he.rt htol) hok u hu hr

theorem C05_holds (t : Tables) (w : Wrapper) (tol : Match.Tol) (htol : tol.ok) (he : EngineObl t tol)
    (hok : c05OK t w = true) : C05Holds t w tol :=
  fun V hfit => C05_wrapper t w tol htol (he.rt htol) hok V hfit

theorem C03_holds (t : Tables) (w : Wrapper) (tol : Match.Tol) (htol : tol.ok) (he : EngineObl t tol)
    (hok : c03OK t w = true) : C03Holds t w :=
  fun u hu => C03_wrapper t w tol htol (he.rt htol) hok u hu

theorem C06_holds (t : Tables) (w : Wrapper) (tol : Match.Tol) (htol : tol.ok) (he : EngineObl t tol)
    (h1 : c01OK t w = true) (h3 : c03OK t w = true) (h6 : c06OK t w = true) (h7 : c07OK t w = true)
    (h8 : c08OK t w = true) : C06Holds t w tol :=
  fun u hu hr rc hrc => C06_wrapper t w tol htol (he.rt htol) h1 h3 h6 h7 h8 u hu hr rc hrc

theorem C07_holds (t : Tables) (w : Wrapper) (hok : c07OK t w = true) : C07Holds t w :=
  fun inst l hl hwf data hlong => C07_wrapper t w hok inst l hl hwf data hlong

theorem C07H_holds (t : Tables) (w : Wrapper) (h7 : c07OK t w = true) (h8 : c08OK t w = true) : C07HHolds t w :=
  fun tol inputs data hlong => C07_wrapper_history t w h7 h8 tol inputs data hlong

theorem C08_holds (t : Tables) (w : Wrapper) (hok : c08OK t w = true) : C08Holds t w :=
  fun tol inputs => C08_wrapper t w hok tol inputs

theorem C13_holds (t : Tables) (w : Wrapper) (hok : c13OK t w = true) : C13Holds t w :=
  C13_wrapper t w hok

theorem C04_holds (t : Tables) (w : Wrapper) (tol : Match.Tol) (htol : tol.ok) (hw : wfAll t tol = true)
    (hwt : IRModel.Engine.wfTol t tol = true) (hok : c01OK t w = true) : C04Holds t w tol :=
  fun u hu hr => C04_wrapper t w tol htol hw hwt hok u hu hr

/-- non-vacuity, class B: a Sony-like toy (pulse width, 7+5 bits, 45 ms frame period, no lead-out mark) meets `wfAllB`,
    and with the identity wrapper the C01 statement holds for it -/
def toyB : Tables :=
  { name := "ToyB", frequency := 40000, bitCount := 12, order := .lsb, shape := .pairs,
    leadIn := [2400, -600], leadOut := [45000], bursts := [(600, -600), (1200, -600)], hasMiddle := false,
    repeatLeadIn := [], repeatLeadOut := [], repeatBursts := [],
    params := [("F", 0, 6), ("D", 7, 11)], codeOrder := [("D", 5), ("F", 7)], encodeParams := [("device", 0, 31), ("function", 0, 127)],
    repeatTimeout := 0, decodeOverridden := false }

example : wfAllB toyB ⟨20, 1⟩ = true ∧ wfAllB toyB ⟨5, 1⟩ = true := by decide +kernel
/-- a frame period that the longest frame does not fit into fails the class-B obligation -/
example : wfAllB { toyB with leadOut := [20000] } ⟨20, 1⟩ = false := by decide +kernel
/-- symbols that differ only in their space (pulse distance) cannot be told apart once the last space has merged with
    the lead-out: the class-B obligation fails -/
example : wfAllB { toyB with bursts := [(600, -600), (600, -1200)] } ⟨20, 1⟩ = false := by decide +kernel

/-- non-vacuity, class C: a TDC-like toy (bi-phase, 315 µs half bits, lead-in `[315, −315]`, gap −89 ms) meets `wfAllC`
    at 5 % and 20 %; at 20 % the last half bit merged with the gap is swallowed by the gap's window (second alternative of
    `loM`), at 5 % … also (the window of −89 ms is wide); with a short gap it is split off instead -/
def toyC : Tables :=
  { name := "ToyC", frequency := 38000, bitCount := 8, order := .msb, shape := .pairs,
    leadIn := [315, -315], leadOut := [-89000], bursts := [(-315, 315), (315, -315)], hasMiddle := false,
    repeatLeadIn := [], repeatLeadOut := [], repeatBursts := [],
    params := [("D", 0, 3), ("F", 4, 7)], codeOrder := [("D", 4), ("F", 4)], encodeParams := [("device", 0, 15), ("function", 0, 15)],
    repeatTimeout := 0, decodeOverridden := false }

example : wfAllC toyC ⟨20, 1⟩ = true ∧ wfAllC toyC ⟨5, 1⟩ = true := by decide +kernel
example : wfAllC { toyC with leadOut := [-2000] } ⟨5, 1⟩ = true := by decide +kernel
/-- a lead-in whose last duration swallows the merged first half bit (2700 + 300 is within 20 % of 2700) fails it -/
example : wfAllC { toyC with leadIn := [2700], bursts := [(-300, 300), (300, -300)] } ⟨20, 1⟩ = false := by decide +kernel
/-- class C with a frame period: an RC5-like toy meets `wfAllCp`; a period the longest frame does not fit into does not -/
def toyCp : Tables :=
  { toyC with name := "ToyCp", leadIn := [889], leadOut := [114000], bursts := [(889, -889), (-889, 889)] }
example : wfAllCp toyCp ⟨20, 1⟩ = true ∧ wfAllCp toyCp ⟨5, 1⟩ = true := by decide +kernel
example : wfAllCp { toyCp with leadOut := [10000] } ⟨20, 1⟩ = false := by decide +kernel


end IRModel.Props.Wrapper
