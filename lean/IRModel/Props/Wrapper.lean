import IRModel.Lemmas.WrapGlue
import IRModel.Lemmas.WrapC05
import IRModel.Lemmas.WrapC07
import IRModel.Lemmas.WrapC03
import IRModel.Lemmas.WrapC08
import IRModel.Lemmas.WrapC06
import IRModel.Lemmas.WrapC04
import IRModel.Lemmas.WrapC13
import IRModel.Lemmas.WrapC07H
import IRModel.Lemmas.WrapC04B
/-!
# Wrapper-level theorems (per-protocol `encode()` / `decode()` bodies inside the model)

The wrappers are generated from /repo by `tools/wtrace.py` (IRGen/Wrap.lean); `c01OK` is a closed Boolean on a
protocol's tables and traced wrapper, discharged per protocol by kernel evaluation in IRGen/WrapObl.lean.

`C01_wrapper` is property C01 itself for the protocols whose two obligations (`wfAll`, `c01OK`) check on the current
tree: for EVERY parameter assignment inside the advertised ranges, the first frame of `encode()` decodes, on a
history-free decoder of that protocol (engine base decoder + traced `decode()` wrapper: checksum / complement /
constant-field checks included), to a code reporting exactly those parameters.  What it still does not cover is
named in DESIGN §12: protocols outside class A, wrappers the tracer reports opaque, and encoders that refuse.
-/
namespace IRModel.Props.Wrapper
open IRModel IRModel.Py IRModel.Proto IRModel.Wrap IRModel.Props.EngineThm IRModel.Engine

/-- **C01 at wrapper level**, from the kernel-checked obligations of one protocol -/
theorem C01_wrapper (t : Tables) (w : Wrapper) (tol : Match.Tol) (htol : tol.ok) (hw : EngineRT t tol)
    (hok : c01OK t w = true) (u : String → Int) (hu : ∀ n, 0 ≤ u n) (hr : ∀ ep ∈ t.encodeParams, u ep.1 ≤ ep.2.2) :
    ∃ frame c, firstFrame t w u = .ok frame ∧
      (decodeP t w { last := none, tol := tol } frame).result = .ok c ∧
      ∀ ep ∈ t.encodeParams, c.get (Props.C01.viewKey ep.1) = some (u ep.1).toNat := by
  obtain ⟨p, hS⟩ := c01OK_spec t w hok
  exact C01_wrapper_spec t w tol htol hw p hS u hu hr


/-- **C05 at wrapper level**, from the kernel-checked obligations of one protocol: for EVERY assignment of in-width
    values to the `_parameters` fields (every frame obtained from a valid one by substituting data symbols, inside
    checksum, complement or constant fields too), a history-free decoder of the protocol either raises a library error
    or returns a code whose reported parameters re-encode to exactly that frame. -/
theorem C05_wrapper (t : Tables) (w : Wrapper) (tol : Match.Tol) (htol : tol.ok) (hw : EngineRT t tol)
    (hok : c05OK t w = true) (V : String × Nat × Nat → Nat) (hfit : ∀ prm ∈ t.params, V prm < 2 ^ widthP prm) :
    ∃ frame, Encode.buildPacket t (t.params.map (fun prm => Encode.Item.field (V prm) (widthP prm))) = .ok frame ∧
      (∀ e, (decodeP t w { last := none, tol := tol } frame).result = .error e → e.isLibrary = true) ∧
      (∀ c, (decodeP t w { last := none, tol := tol } frame).result = .ok c →
        firstFrame t w (fun n => (((c.get (Props.C01.viewKey n)).getD 0 : Nat) : Int)) = .ok frame) := by
  obtain ⟨p, hS⟩ := c05OK_spec t w hok
  exact C05_wrapper_spec t w tol htol hw p hS V hfit

/-- **C07 at wrapper level**, from the kernel-checked obligation of one protocol (any table shape the engine model
    covers, not only class A): whatever well-formed code is held, a frame longer than a repeat marker is answered by
    `decode()` — base decoder, then the traced tree for "a key is held" with its `_last_code` shortcuts — with the same
    rejection as by a decoder without history, or with a code reporting the same parameters; never with the held key's. -/
theorem C07_wrapper (t : Tables) (w : Wrapper) (hok : c07OK t w = true) (inst : Inst) (l : CodeV) (hl : inst.last = some l)
    (hwf : WFCode t l) (data : List Int) (hlong : data.length > t.repeatLeadIn.length + t.repeatLeadOut.length) :
    match (decodeP t w inst data).result, (decodeP t w { last := none, tol := inst.tol } data).result with
    | .ok c, .ok c' => ∀ ep ∈ t.encodeParams, c.get (Props.C01.viewKey ep.1) = c'.get (Props.C01.viewKey ep.1)
    | .error e, .error e' => e = e'
    | _, _ => False :=
  C07_wrapper_spec t w (c07OK_spec t w hok) inst l hl hwf data hlong

/-- **C07 over histories**, from the kernel-checked obligations `c07OK` and `c08OK` of one protocol: whatever sequence
    of integer lists — frames of any key, repeats, garbage — one decoder instance was fed since it was created, a frame
    longer than a repeat marker is then answered exactly as by a decoder without history. (`C07_wrapper` for an
    arbitrary well-formed held code, composed with the invariant of `C08_wrapper` that the held code always is one.) -/
theorem C07_wrapper_history (t : Tables) (w : Wrapper) (h7 : c07OK t w = true) (h8 : c08OK t w = true) (tol : Match.Tol)
    (inputs : List (List Int)) (data : List Int) (hlong : data.length > t.repeatLeadIn.length + t.repeatLeadOut.length) :
    match (decodeP t w (finalInst t w { last := none, tol := tol } inputs) data).result,
          (decodeP t w { last := none, tol := tol } data).result with
    | .ok c, .ok c' => ∀ ep ∈ t.encodeParams, c.get (Props.C01.viewKey ep.1) = c'.get (Props.C01.viewKey ep.1)
    | .error e, .error e' => e = e'
    | _, _ => False :=
  IRModel.Wrap.C07_wrapper_history t w (c07OK_spec t w h7) (c08OK_spec t w h8) tol inputs data hlong

/-- **C03 at wrapper level**, from the kernel-checked obligations of one protocol: for EVERY non-negative parameter
    assignment and `repeat_count` 0, 1, 2, every frame the traced `encode()` emits — `_build_packet` frames and
    hand-assembled repeat frames alike — is a non-empty list of non-zero durations that starts with a mark, strictly
    alternates, ends with a space and sums to the frame period where there is one; the number of frames grows by the same
    positive amount per repeat; the code carries the protocol's carrier frequency. -/
theorem C03_wrapper (t : Tables) (w : Wrapper) (tol : Match.Tol) (htol : tol.ok) (hw : EngineRT t tol)
    (hok : c03OK t w = true) (u : String → Int) (hu : ∀ n, 0 ≤ u n) :
    (∀ rc, rc < 3 → ∃ fs, encodeFrames t w u rc = .ok fs ∧ fs.length = frameCount w rc ∧ fs ≠ [] ∧ ∀ f ∈ fs, FrameOK t f) ∧
    (∃ d, 0 < d ∧ frameCount w 1 = frameCount w 0 + d ∧ frameCount w 2 = frameCount w 1 + d) ∧
    w.frequency = some t.frequency := by
  simp only [c03OK, Bool.and_eq_true, beq_iff_eq, List.all_eq_true, decide_eq_true_eq] at hok
  obtain ⟨⟨⟨⟨⟨hlen, hall⟩, h01⟩, hd⟩, h12⟩, hf⟩ := hok
  refine ⟨?_, ⟨frameCount w 1 - frameCount w 0, by omega, by omega, by omega⟩, hf⟩
  intro rc hrc
  have hlt : rc < w.enc.length := by omega
  have htr : w.enc[rc]? = some w.enc[rc] := List.getElem?_eq_getElem hlt
  obtain ⟨fs, h1, h2, h3, h4⟩ := C03_trace t tol htol hw w rc w.enc[rc] htr (hall _ (List.getElem_mem hlt)) u hu
  exact ⟨fs, h1, by simp only [frameCount, htr]; exact h2, h3, h4⟩

/-- **C08 at wrapper level**, from the kernel-checked obligation of one protocol: a decoder instance started without
    history and fed ANY sequence of ANY integer lists — garbage, truncated or mutated frames, frames of other protocols —
    answers every call with a code or with an error of the library's own family; `decode()` of this protocol never
    leaks IndexError, TypeError, AttributeError, … in any reachable state. (Termination is by construction: every
    function of the model is structurally recursive.) -/
theorem C08_wrapper (t : Tables) (w : Wrapper) (hok : c08OK t w = true) (tol : Match.Tol) (inputs : List (List Int)) :
    ∀ r ∈ runInputs t w { last := none, tol := tol } inputs, ∀ e, r = .error e → e.isLibrary = true :=
  C08_wrapper_history t w (c08OK_spec t w hok) inputs _ (by intro l hl; simp at hl)

/-- **C06 at wrapper level** (protocols that repeat the data frame): for every parameter assignment inside the advertised
    ranges and `repeat_count` 0, 1, 2, the complete frame sequence the traced `encode()` emits, fed in order to one
    decoder instance started without history, yields on EVERY frame a code reporting exactly the encoded parameters.
    (Composition of `C01_wrapper` — first frame —, `C07_wrapper` — a full frame in any held state —, the invariant of
    `C08_wrapper` — the held code is always a code of the protocol — and `C03_wrapper` — the sequence exists.) -/
theorem C06_wrapper (t : Tables) (w : Wrapper) (tol : Match.Tol) (htol : tol.ok) (hw : EngineRT t tol)
    (h1 : c01OK t w = true) (h3 : c03OK t w = true) (h6 : c06OK t w = true) (h7 : c07OK t w = true) (h8 : c08OK t w = true)
    (u : String → Int) (hu : ∀ n, 0 ≤ u n) (hr : ∀ ep ∈ t.encodeParams, u ep.1 ≤ ep.2.2) (rc : Nat) (hrc : rc < 3) :
    ∃ fs, encodeFrames t w u rc = .ok fs ∧ fs ≠ [] ∧
      ∀ r ∈ runInputs t w { last := none, tol := tol } fs,
        ∃ c, r = .ok c ∧ ∀ ep ∈ t.encodeParams, c.get (Props.C01.viewKey ep.1) = some (u ep.1).toNat :=
  C06_wrapper_spec t w tol htol hw h1 h3 h6 h7 h8 u hu hr rc hrc

/-- **C04 at wrapper level, accept half**, from the kernel-checked obligations `wfAll`, `wfTol` (engine, at tolerance
    `tol`) and `c01OK` (wrapper): for every parameter assignment in range, every perturbation of the first frame of
    `encode()` in which each lead-in duration, data duration and the lead-out mark moves by at most a quarter of the
    tolerance (the trailing gap too, or absorbing the difference where the frame period is fixed) decodes on a decoder
    without history to a code reporting exactly those parameters. -/
theorem C04_wrapper (t : Tables) (w : Wrapper) (tol : Match.Tol) (htol : tol.ok) (hw : wfAll t tol = true)
    (hwt : IRModel.Engine.wfTol t tol = true) (hok : c01OK t w = true) (u : String → Int) (hu : ∀ n, 0 ≤ u n)
    (hr : ∀ ep ∈ t.encodeParams, u ep.1 ≤ ep.2.2) :
    ∃ mo x idx, t.leadOut = [mo, x] ∧ firstFrame t w u = .ok (IRModel.Engine.frameA t mo x idx) ∧
      ∀ (li' sy' : List Int) (mo' g' : Int),
        IRModel.Engine.Pw (IRModel.Engine.Q tol) li' t.leadIn →
        IRModel.Engine.Pw (IRModel.Engine.Q tol) sy' (IRModel.Engine.symTimings t.bursts idx) → IRModel.Engine.Q tol mo' mo →
        ((x < 0 ∧ IRModel.Engine.Q tol g' x) ∨ (x > 0 ∧ g' = Py.sumAbs (li' ++ sy' ++ [mo']) - x ∧ g' < 0)) →
        ∃ c, (decodeP t w { last := none, tol := tol } (li' ++ sy' ++ [mo', g'])).result = .ok c ∧
          ∀ ep ∈ t.encodeParams, c.get (Props.C01.viewKey ep.1) = some (u ep.1).toNat := by
  obtain ⟨p, hS⟩ := c01OK_spec t w hok
  exact C04_wrapper_spec t w tol htol hw hwt p hS u hu hr

/-- **C04 at wrapper level, accept half, class B with a frame period** (Sony8/12/15/20, PID0003), from the kernel-checked
    obligations `wfAllB`, `wfTol` and `c01OK`: for every parameter assignment in range, every perturbation of the first
    frame of `encode()` in which each lead-in duration, data duration and the last mark moves by at most a quarter of the
    tolerance, the final space absorbing the difference to the fixed period, decodes on a decoder without history to a
    code reporting exactly those parameters. -/
theorem C04_wrapperB (t : Tables) (w : Wrapper) (tol : Match.Tol) (htol : tol.ok) (hw : wfAllB t tol = true)
    (hwt : IRModel.Engine.wfTol t tol = true) (hok : c01OK t w = true) (u : String → Int) (hu : ∀ n, 0 ≤ u n)
    (hr : ∀ ep ∈ t.encodeParams, u ep.1 ≤ ep.2.2) :
    ∃ x idx' j, t.leadOut = [x] ∧ firstFrame t w u = .ok (IRModel.Engine.frameB t x idx' j) ∧
      (x > 0 → ∀ (li' sy' : List Int) (m' g' : Int),
        IRModel.Engine.Pw (IRModel.Engine.Q tol) li' t.leadIn →
        IRModel.Engine.Pw (IRModel.Engine.Q tol) sy' (IRModel.Engine.symTimings t.bursts idx') →
        (∀ q, t.bursts[j]? = some q → IRModel.Engine.Q tol m' q.1) →
        g' = Py.sumAbs (li' ++ sy' ++ [m']) - x → g' < 0 →
        ∃ c, (decodeP t w { last := none, tol := tol } (li' ++ sy' ++ [m', g'])).result = .ok c ∧
          ∀ ep ∈ t.encodeParams, c.get (Props.C01.viewKey ep.1) = some (u ep.1).toNat) := by
  obtain ⟨p, hS⟩ := c01OK_spec t w hok
  exact C04_wrapper_specB t w tol htol hw hwt p hS u hu hr

/-- **C13 for a traced protocol decoder**, from the kernel-checked obligation `c13OK` (= `c08OK` and: every leaf of the
    decode trees that raises does so before touching `_last_code` or a timer): a rejected candidate leaves the decoder
    instance exactly as it was, hence — `Props/C13.C13` instantiated with this protocol's `decode()` as the streaming
    thread's dispatcher — any two chunkings of the same duration stream leave the same state, deliver the same sequence
    of codes and leave the same remainder pending. -/
theorem C13_wrapper (t : Tables) (w : Wrapper) (hok : c13OK t w = true) :
    ∃ hS : C08Spec t w, ∀ (f : Nat) (s : PState t) (chunks₁ chunks₂ : List (List Int)),
      chunks₁.flatten = chunks₂.flatten →
      IRModel.Stream.runChunks (protoDec t w hS) f s [] chunks₁ = IRModel.Stream.runChunks (protoDec t w hS) f s [] chunks₂ := by
  simp only [c13OK, Bool.and_eq_true] at hok
  refine ⟨c08OK_spec t w hok.1.1, ?_⟩
  intro f s c1 c2 h
  exact C13_wrapper_spec t w _ hok.1.2 hok.2 f s c1 c2 h

/-- non-vacuity: a two-field toy protocol (pulse distance, 8-bit function + its complement, `decode()` re-checks the
    complement) meets both obligations -/
def toyT : Tables :=
  { name := "Toy", frequency := 38000, bitCount := 16, order := .lsb, shape := .pairs,
    leadIn := [9000, -4500], leadOut := [560, -40000], bursts := [(560, -560), (560, -1690)], hasMiddle := false,
    repeatLeadIn := [], repeatLeadOut := [], repeatBursts := [],
    params := [("F", 0, 7), ("F_CHECKSUM", 8, 15)], codeOrder := [("F", 8)], encodeParams := [("function", 0, 255)],
    repeatTimeout := 0, decodeOverridden := true }

def toyW : Wrapper :=
  { name := "Toy",
    enc := [{ packets := [{ args := [], kwargs := [("F", true, .mk (.param "function") 8),
                ("F_CHECKSUM", true, .slice (.mk (.param "function") 8) .compl (some 8) (some 0))] }], frames := [.packet 0] }],
    frequency := some 38000, decTraced := true,
    treeNone := .ite (.cmp .ne (.slice (.field "F") .compl (some 8) (some 0)) (.field "F_CHECKSUM"))
                  (.leaf [] (.raise "DecodeError"))
                  (.leaf [.setLastCode] (.ret [("F", .field "F"), ("F_CHECKSUM", .field "F_CHECKSUM")] true)),
    treeSome := .ite (.cmp .ne (.slice (.field "F") .compl (some 8) (some 0)) (.field "F_CHECKSUM"))
                  (.leaf [] (.raise "DecodeError"))
                  (.ite .lastEq (.leaf [] .retLast)
                    (.leaf [.stopLast, .setLastNone, .setLastCode] (.ret [("F", .field "F"), ("F_CHECKSUM", .field "F_CHECKSUM")] true))) }

example : wfAll toyT ⟨20, 1⟩ = true ∧ c01OK toyT toyW = true ∧ c05OK toyT toyW = true ∧ c07OK toyT toyW = true ∧ c08OK toyT toyW = true ∧ c13OK toyT toyW = true := by decide +kernel

/-- the held-key shortcut moved in front of the complement check (a frame with a corrupted complement then returns the
    held key) fails the C07 obligation -/
def toyShortcutFirst : DTree :=
  .ite .lastEq (.leaf [] .retLast)
    (.ite (.cmp .ne (.slice (.field "F") .compl (some 8) (some 0)) (.field "F_CHECKSUM"))
      (.leaf [] (.raise "DecodeError"))
      (.leaf [.stopLast, .setLastNone, .setLastCode] (.ret [("F", .field "F"), ("F_CHECKSUM", .field "F_CHECKSUM")] true)))

example : c07OK toyT { toyW with treeSome := toyShortcutFirst } = false := by decide +kernel

/-- and the same toy protocol WITHOUT the complement check in `decode()` fails the C05 obligation (the unchecked field is
    not forced by any comparison) while still meeting the C01 one -/
example : c05OK toyT { toyW with treeNone := .leaf [.setLastCode] (.ret [("F", .field "F"), ("F_CHECKSUM", .field "F_CHECKSUM")] true) } = false ∧
    c01OK toyT { toyW with treeNone := .leaf [.setLastCode] (.ret [("F", .field "F"), ("F_CHECKSUM", .field "F_CHECKSUM")] true) } = true := by decide +kernel

end IRModel.Props.Wrapper
