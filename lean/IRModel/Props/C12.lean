import IRModel.Lemmas.TimerLemmas
/-!
# C12 — release notifications (event machine)

The model (`IRModel/Timer.lean`) is the event machine of `Timer` (ir_code.py), one poll of `TimerThreadWorker.run`,
the in-order drain of `ProcessThreadWorker.run`, `IRCode.__repeat_reset` with its three kinds of callbacks, and the
dispatcher/decoder reaction to frames of one enabled protocol, over a virtual microsecond clock.  It is tied to the
real classes event by event by the correspondence check (tools/props/c12.py).

For decoders of the **same-object style** (the decoder answers a second frame of the held key with its held object:
NEC, Sony, JVC, Samsung, … — not the toggle style of RC5/RC6, for which the property is false of the code and of the
model: known finding C12-RC5-released-more-than-once, reproduced below by kernel evaluation) the theorems hold for
EVERY event word — any interleaving of full frames of any keys, ditto frames, clock movements and polls of the timer
thread, of any length:

* `C12_at_most_once`           no code object's release callback runs twice;
* `C12_release_after_delivery` a release callback only runs for a code that was delivered to the decode callback;
* `C12_exactly_once`           after a silence of at least the padded timeout (1.2 × repeat timeout) every delivered
                               code has been released exactly once — whatever happened before, superseded keys included;
* `C12_held`                   after ANY history, a full frame of key K delivers a code object h, and for every
                               continuation in which all full frames are frames of K and no more than the padded
                               timeout passes between two frames (full or ditto; polls of the timer thread anywhere):
                               h is never released, and every full or ditto frame is reported to the decode callback
                               as exactly one `decoded h K`.
The invariant behind them is `Timer.Inv` (IRModel/Lemmas/TimerLemmas.lean): a released object is unreachable (neither
the decoder's nor the dispatcher's held code, and its timer stopped or out of the timer queue); a delivered, not yet
released object is in the timer queue with a padded timer armed in the past; the dispatcher's held code is the
decoder's held code; the only armed timer in the timer queue is the held code's.
-/
namespace IRModel.Props.C12
open IRModel.Timer

theorem no_fire_before_timeout (s : St) (o : Obj) (t : Int) (hs : o.start = some t) (hp : o.proc = 0)
    (hpad : o.padded = true) (h : 5 * (s.now - t) < 6 * s.duration) : expired s o = false := by
  unfold expired
  rw [hs, hp, hpad]
  have : ¬ (5 * (s.now - t) ≥ 6 * s.duration + 20 * 0) := by omega
  simp only [if_true, this, decide_false]

theorem stop_idempotent (s : St) (i : Nat) (o : Obj) (ho : getObj s i = some o) (hst : o.start = none) :
    stopTimer s i = s := by
  unfold stopTimer
  rw [ho]
  simp [hst]

/-- every state reachable from the initial one by a word in which time does not run backwards satisfies the invariant -/
theorem reachable_inv (d : Int) (w : List Ev) (hok : ∀ e ∈ w, e.ok) : Inv (run { duration := d } w) :=
  inv_run w _ (inv_init d) hok

/-- **C12, at most once**: whatever the event word, no code object is released twice -/
theorem C12_at_most_once (d : Int) (w : List Ev) (hok : ∀ e ∈ w, e.ok) (i : Nat) :
    relCount (run { duration := d } w).outs i ≤ 1 := by
  have hi := reachable_inv d w hok
  rcases Nat.lt_or_ge i (run { duration := d } w).objs.length with h | h
  · exact (hi.once i _ (List.getElem?_eq_getElem h)).1
  · rw [hi.beyond i h]; omega

/-- **C12, no release without a press**: a release callback runs only for a code that the decode callback delivered -/
theorem C12_release_after_delivery (d : Int) (w : List Ev) (hok : ∀ e ∈ w, e.ok) (i k : Nat)
    (h : Out.released i k ∈ (run { duration := d } w).outs) : Out.decoded i k ∈ (run { duration := d } w).outs :=
  (reachable_inv d w hok).relafter i k h

/-- **C12, exactly once after the timeout**: after any history, a silence of at least 1.2 × the repeat timeout (one
    poll of the timer thread, then the process worker) leaves every delivered code released exactly once -/
theorem C12_exactly_once (d : Int) (w : List Ev) (hok : ∀ e ∈ w, e.ok) (δ : Int) (hδ : 0 ≤ δ) (hlong : 5 * δ ≥ 6 * d)
    (i k : Nat) (h : Out.decoded i k ∈ (run { duration := d } (w ++ [.advance δ])).outs) :
    relCount (run { duration := d } (w ++ [.advance δ])).outs i = 1 := by
  have hi := reachable_inv d w hok
  have hrun : run { duration := d } (w ++ [.advance δ]) = advance (run { duration := d } w) δ := by
    simp [run, List.foldl_append, step]
  rw [hrun] at h ⊢
  have hdur : (run { duration := d } w).duration = d := run_duration w _ (inv_init d) hok
  obtain ⟨hig, hall⟩ := silence_releases _ hi δ hδ (by rw [hdur]; exact hlong)
  obtain ⟨o, ho, hu, _⟩ := hig.delivu i k h
  exact hall i o ho hu

/-- **C12, no release while the key is held, every frame reported.**  `w0` is any history, `frame K t` the press,
    `w` any continuation that keeps the key held (`HeldWord`: frames of `K`, dittos, clock movements and polls, never
    1.2 × timeout without a frame). -/
theorem C12_held (d : Int) (hd : 0 < d) (w0 : List Ev) (hok : ∀ e ∈ w0, e.ok) (K t : Nat) (w : List Ev)
    (hw : HeldWord d K 0 w) :
    ∃ h, (∃ pre, (run { duration := d } (w0 ++ [.frame K t])).outs = pre ++ [.decoded h K]) ∧
      relCount (run (run { duration := d } (w0 ++ [.frame K t])) w).outs h = 0 ∧
      ∀ w1 e w2, w = w1 ++ e :: w2 → (e = .rep ∨ ∃ k t', e = .frame k t') →
        (run (run { duration := d } (w0 ++ [.frame K t])) (w1 ++ [e])).outs =
          (run (run { duration := d } (w0 ++ [.frame K t])) w1).outs ++ [.decoded h K] := by
  have hi := reachable_inv d w0 hok
  have hdur : (run { duration := d } w0).duration = d := run_duration w0 _ (inv_init d) hok
  have hs1 : run { duration := d } (w0 ++ [.frame K t]) = step (run { duration := d } w0) (.frame K t) := by
    rw [run_append]; rfl
  obtain ⟨h, hh, hpre⟩ := enter_held _ hi (by rw [hdur]; exact hd) K t
  rw [hs1]
  have hdur1 : (step (run { duration := d } w0) (.frame K t)).duration = d := by
    rw [step_duration _ hi, hdur]
  refine ⟨h, hpre, ?_, ?_⟩
  · obtain ⟨acc', hh', _⟩ := held_run w _ h K 0 [] hh (by rw [List.append_nil, hdur1]; exact hw)
    exact hh'.cnt
  · intro w1 e w2 hsplit he
    obtain ⟨acc', hh', hw'⟩ := held_run w1 _ h K 0 (e :: w2) hh (by rw [← hsplit, hdur1]; exact hw)
    obtain ⟨_, _, _, _, hout⟩ := held_step _ h K acc' hh' e w2 hw'
    rw [run_append]
    show (step _ e).outs = _
    rcases he with rfl | ⟨k, t', rfl⟩
    · exact hout
    · exact hout

/-- non-vacuity of `C12_held`: NEC-like schedule — press, three dittos 108 ms apart with polls in between -/
example : HeldWord 108000 1 0 [.advance 108000, .rep, .tick 60000, .poll, .advance 48000, .rep, .advance 108000, .frame 1 0] := by
  simp [HeldWord]

/-- a concrete schedule: press, ditto, short silence, long silence — one decode per frame, one release -/
example :
    (run { duration := 108000 } [.frame 1 0, .rep, .advance 50000, .advance 200000]).outs
      = [.decoded 0 1, .decoded 0 1, .released 0 1] := by decide

/-- superseded key: A then B then silence — each released exactly once -/
example :
    (run { duration := 108000 } [.frame 1 0, .frame 2 0, .advance 200000]).outs
      = [.decoded 0 1, .released 0 1, .decoded 1 2, .released 1 2] := by decide

/-- the toggle style violates the property (known finding C12-RC5-released-more-than-once): object 0 is released
    twice.  The theorems above are about the same-object style only; this is the model's replay of the real defect. -/
example :
    relCount (run { duration := 108000, style := .toggleReplaces }
      [.frame 1 1, .frame 1 0, .frame 2 0, .frame 2 0, .advance 400000]).outs 0 = 2 := by decide

end IRModel.Props.C12
