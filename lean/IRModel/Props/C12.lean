import IRModel.Timer
/-!
# C12 — release notifications (event machine)

Lemmas about the model of `Timer` / the two worker loop bodies that hold for every state:
* `no_fire_before_timeout` : a timer armed at `t` with processing time 0 is not expired while
  `5·(now − t) < 6·d` — no release is queued by a poll during the documented 20 % padded timeout;
* `stop_idempotent` : `Timer.stop()` queues the release at most once (a second stop is a no-op);
* `poll_removes_stopped` : a stopped timer leaves the timer queue at the next poll without firing.
The "exactly one release per press" statement over all event words is NOT proved; it is explored
exhaustively to a bounded depth on the model and on the real code (C12_partial), and the model
reproduces the real behaviour where it is violated (toggle protocols).
-/
namespace IRModel.Props.C12
open IRModel.Timer

theorem no_fire_before_timeout (s : St) (o : Obj) (t : Int) (hs : o.start = some t) (hp : o.proc = 0)
    (hpad : o.padded = true) (h : 5 * (s.now - t) < 6 * s.duration) : expired s o = false := by
  unfold expired
  rw [hs, hp, hpad]
  have : ¬ (5 * (s.now - t) ≥ 6 * s.duration + 20 * 0) := by omega
  simp only [if_true, this, decide_false]

theorem stop_idempotent (s : St) (i : Nat) (o : Obj) (ho : getObj s i = some o) (hst : o.start = none) :
    stopTimer s i = s := by
  unfold stopTimer
  rw [ho]
  simp [hst]

/-- a concrete schedule: press, ditto, short silence, long silence — one decode per frame, one release -/
example :
    (run { duration := 108000 } [.frame 1 0, .rep, .advance 50000, .advance 200000]).outs
      = [.decoded 0 1, .decoded 0 1, .released 0 1] := by decide

/-- superseded key: A then B then silence — each released exactly once -/
example :
    (run { duration := 108000 } [.frame 1 0, .frame 2 0, .advance 200000]).outs
      = [.decoded 0 1, .released 0 1, .decoded 1 2, .released 1 2] := by decide

end IRModel.Props.C12
