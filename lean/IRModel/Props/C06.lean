import IRModel.Props.C07
import IRModel.Lemmas.EngineLemmas
import IRModel.Props.RoundTrip
/-!
# C06 — a held key decodes as the same code on every frame (base decoder)

* `C06_no_history` : a decoder without history never takes the repeat branch; whatever it returns is the
  full decode of the frame it was given (a bare repeat marker cannot invent a key).
* `C06_repeat_returns_held` : for NEC-style repeat markers (`_repeat_lead_in ++ [mark, gap]`, no repeat
  bursts) a decoder that holds code `l` answers the marker with `l` itself, leaves its state unchanged and
  stops no timer.
The per-protocol frame sequences (`encode(..., repeat_count=n)`) are decided by the search on all real
protocols (every prefix, every single frame on a fresh decoder).
-/
namespace IRModel.Props.C06
open IRModel IRModel.Py IRModel.Match IRModel.CodeWrapper IRModel.Proto IRModel.Engine

theorem C06_no_history (t : Tables) (tol : Tol) (data : List Int) (c : CodeV)
    (h : (baseDecode t { last := none, tol := tol } data).result = .ok c) :
    ∃ p, parse t tol data = .ok p ∧ p.bits.length = t.bitCount ∧ c = mkCode t p :=
  IRModel.Props.C07.no_history_code_is_full t tol data c h

theorem C06_repeat_returns_held (t : Tables) (inst : Inst) (l : CodeV) (hl : inst.last = some l)
    (htol : inst.tol.ok) (mo x : Int) (hrlo : t.repeatLeadOut = [mo, x]) (hrb : t.repeatBursts = [])
    (hmo : mo > 0) (hx : x < 0) (hs : x ≠ -999999999999) (hli : ∀ e ∈ t.repeatLeadIn, e ≠ 0) :
    let r := baseDecode t inst (t.repeatLeadIn ++ [mo, x])
    r.result = .ok l ∧ r.isLast = true ∧ r.inst = inst ∧ r.effects = [] := by
  have hparse : parseWith inst.tol t.repeatLeadIn [mo, x] [] (t.repeatLeadIn ++ [mo, x]) =
      .ok { bits := [], cleaned := compress (t.repeatLeadIn ++ [mo, x]) } := by
    unfold parseWith
    have hp : periodCheck inst.tol [mo, x] (t.repeatLeadIn ++ [mo, x]) = .ok () := by
      unfold periodCheck
      simp only [List.getLast?_cons_cons, List.getLast?_singleton]
      rw [if_neg (by omega)]
    have hin := leadInLoop_exact inst.tol htol [] t.repeatLeadIn [mo, x] [] hli
    have hout := leadOutLoop_gap inst.tol htol [] (sumAbs (t.repeatLeadIn ++ [mo, x]).dropLast) mo x hmo hx hs []
    simp only [List.nil_append] at hin hout
    rw [hp]
    simp only [bind, Except.bind, hin, List.length_cons, List.length_nil, hout, List.append_nil,
      classifyAll, pairUp, pairsToBits, pure, Except.pure]
    simp
    have hid : ((fun (x : Option Int) => x.getD 0) ∘ some) = id := by funext v; rfl
    simp [hid]
  have hne : (!t.repeatLeadIn.isEmpty || !t.repeatLeadOut.isEmpty) = true := by rw [hrlo]; simp
  have hall : baseDecode t inst (t.repeatLeadIn ++ [mo, x]) = { result := .ok l, inst := inst, isLast := true } := by
    unfold baseDecode
    rw [hl]
    simp only []
    rw [if_pos hne, hrlo, hrb, hparse]
    simp
  intro r
  show (baseDecode t inst _).result = _ ∧ (baseDecode t inst _).isLast = _ ∧ (baseDecode t inst _).inst = _ ∧ (baseDecode t inst _).effects = _
  rw [hall]
  exact ⟨rfl, rfl, rfl, rfl⟩

/-- the same for a repeat marker that ends in a frame period (NEC: `(16,-4,1,^108m)`): the frame `_build_repeat_packet`
    emits — `_repeat_lead_in ++ [mark, −(period − what precedes)]` — is answered with the held code -/
theorem C06_repeat_returns_held_period (t : Tables) (inst : Inst) (l : CodeV) (hl : inst.last = some l)
    (htol : inst.tol.ok) (mo x : Int) (hrlo : t.repeatLeadOut = [mo, x]) (hrb : t.repeatBursts = [])
    (hmo : mo > 0) (hx : x > 0) (hli : ∀ e ∈ t.repeatLeadIn, e ≠ 0)
    (hfit : sumAbs (t.repeatLeadIn ++ [mo]) < x) :
    let r := baseDecode t inst (t.repeatLeadIn ++ [mo, sumAbs (t.repeatLeadIn ++ [mo]) - x])
    r.result = .ok l ∧ r.isLast = true ∧ r.inst = inst ∧ r.effects = [] := by
  obtain ⟨g, hg⟩ : ∃ g, g = sumAbs (t.repeatLeadIn ++ [mo]) - x := ⟨_, rfl⟩
  rw [← hg]
  have hgneg : g < 0 := by omega
  have hparse : ∃ p, parseWith inst.tol t.repeatLeadIn [mo, x] [] (t.repeatLeadIn ++ [mo, g]) = .ok p := by
    unfold parseWith
    have hdl : (t.repeatLeadIn ++ [mo, g]).dropLast = t.repeatLeadIn ++ [mo] := IRModel.Props.RoundTrip.dropLast_two _ _ _
    have hp : periodCheck inst.tol [mo, x] (t.repeatLeadIn ++ [mo, g]) = .ok () := by
      unfold periodCheck
      simp only [List.getLast?_cons_cons, List.getLast?_singleton, hx, if_true]
      rw [IRModel.Props.RoundTrip.getLast?_two, hdl]
      simp only []
      have : -(x - sumAbs (t.repeatLeadIn ++ [mo])) = g := by omega
      rw [this, isMatch_self inst.tol htol g (by omega)]
      rfl
    have hin := leadInLoop_exact inst.tol htol [] t.repeatLeadIn [mo, g] [] hli
    have hout := leadOutLoop_period inst.tol htol [] (sumAbs (t.repeatLeadIn ++ [mo])) mo x (by intro p hp; cases hp) hmo hx [] g (by omega) hgneg
    simp only [List.nil_append] at hin hout
    rw [hp, hdl]
    simp only [bind, Except.bind, hin, List.length_cons, List.length_nil, hout, List.append_nil,
      classifyAll, pairUp, pairsToBits, pure, Except.pure]
    simp
  obtain ⟨p, hp⟩ := hparse
  have hne : (!t.repeatLeadIn.isEmpty || !t.repeatLeadOut.isEmpty) = true := by rw [hrlo]; simp
  have hall : baseDecode t inst (t.repeatLeadIn ++ [mo, g]) = { result := .ok l, inst := inst, isLast := true } := by
    unfold baseDecode
    rw [hl]
    simp only []
    rw [if_pos hne, hrlo, hrb, hp]
    simp
  intro r
  show (baseDecode t inst _).result = _ ∧ (baseDecode t inst _).isLast = _ ∧ (baseDecode t inst _).inst = _ ∧ (baseDecode t inst _).effects = _
  rw [hall]
  exact ⟨rfl, rfl, rfl, rfl⟩

end IRModel.Props.C06
