import IRModel.Lemmas.XmlLemmas
/-!
# C17 — attribute values survive the save/load round trip (escaping layer)

`unescape_escape` : for **every** string, undoing the five `UNESCAPE_CHARS` replacements (in the order
after fix: 6a77bf4) on the result of the five `ESCAPE_CHARS` replacements gives the string back —
values containing `& < > " '` and values containing the literal text of entities (`&lt;`, `&amp;amp;` …)
included.  `unescapePinned_defect` is the proved counter-example for the pinned order.
Both functions are modelled with Python's sequential `str.replace` semantics, not as character maps; that
they coincide with a character map on this input class is part of the proof.

The element/document layer (`XMLElement.__str__`, `from_string`), the `eval` on attribute read and the
`Config`/`FakeModule` plumbing are tied by correspondence and search only (C17_partial).
-/
namespace IRModel.Props.C17
open IRModel.Xml

def esc1 (c : Char) : Str :=
  if c = '&' then eAmp else if c = '<' then eLt else if c = '>' then eGt
  else if c = '"' then eQuot else if c = '\'' then eApos else [c]

/-- tokens after the entities of the characters in `done` have been undone -/
def tok (done : List Char) (c : Char) : Str := if c ∈ done then [c] else esc1 c

theorem flatMap_congr' {α β} (l : List α) (f g : α → List β) (h : ∀ a ∈ l, f a = g a) :
    l.flatMap f = l.flatMap g := by
  induction l with
  | nil => rfl
  | cons a l ih =>
    simp only [List.flatMap_cons]
    rw [h a (by simp), ih (fun b hb => h b (by simp [hb]))]

theorem flatMap_flatMap' {α β γ} (l : List α) (f : α → List β) (g : β → List γ) :
    (l.flatMap f).flatMap g = l.flatMap (fun a => (f a).flatMap g) := by
  induction l with
  | nil => rfl
  | cons a l ih => simp [List.flatMap_cons, List.flatMap_append, ih]

/-- the five sequential single-character replacements are one character-wise map -/
theorem escape_eq (s : Str) : escape s = s.flatMap esc1 := by
  unfold escape
  rw [replaceAll_single, replaceAll_single, replaceAll_single, replaceAll_single, replaceAll_single]
  rw [flatMap_flatMap', flatMap_flatMap', flatMap_flatMap', flatMap_flatMap']
  apply flatMap_congr'
  intro c _
  unfold esc1
  by_cases h1 : c = '&'
  · subst h1; decide
  · by_cases h2 : c = '<'
    · subst h2; decide
    · by_cases h3 : c = '>'
      · subst h3; decide
      · by_cases h4 : c = '"'
        · subst h4; decide
        · by_cases h5 : c = '\''
          · subst h5; decide
          · simp [h1, h2, h3, h4, h5]

/-- closes `∀ k rest, k < t.length → e.isPrefixOf (t.drop k ++ rest) = false` for concrete `e`, `t` -/
macro "nomatch" : tactic =>
  `(tactic| (intro k rest hk
             match k, hk with
             | 0, hk => first | simp [List.isPrefixOf, eAmp, eLt, eGt, eQuot, eApos] | (exfalso; simp [eAmp, eLt, eGt, eQuot, eApos] at hk)
             | 1, hk => first | simp [List.isPrefixOf, eAmp, eLt, eGt, eQuot, eApos] | (exfalso; simp [eAmp, eLt, eGt, eQuot, eApos] at hk)
             | 2, hk => first | simp [List.isPrefixOf, eAmp, eLt, eGt, eQuot, eApos] | (exfalso; simp [eAmp, eLt, eGt, eQuot, eApos] at hk)
             | 3, hk => first | simp [List.isPrefixOf, eAmp, eLt, eGt, eQuot, eApos] | (exfalso; simp [eAmp, eLt, eGt, eQuot, eApos] at hk)
             | 4, hk => first | (exfalso; simp [eAmp, eLt, eGt, eQuot, eApos] at hk; done) | simp [List.isPrefixOf, eAmp, eLt, eGt, eQuot, eApos]
             | 5, hk => first | (exfalso; simp [eAmp, eLt, eGt, eQuot, eApos] at hk; done) | simp [List.isPrefixOf, eAmp, eLt, eGt, eQuot, eApos]
             | k + 6, hk => (exfalso; simp [eAmp, eLt, eGt, eQuot, eApos] at hk; omega)))

/-- one unescape pass on a token-structured string: the entity of `x` is undone, nothing else changes -/
theorem pass (x : Char) (done : List Char) (s : Str)
    (hx : x = '<' ∨ x = '>' ∨ x = '"' ∨ x = '\'' ∨ x = '&') (hnd : x ∉ done) (hamp : '&' ∉ done) :
    replaceAll (esc1 x) [x] (s.flatMap (tok done)) = s.flatMap (tok (x :: done)) := by
  unfold replaceAll
  have hfm : ∀ (f : Char → Str), s.flatMap f = (s.map f).flatten := fun f => by
    induction s with
    | nil => rfl
    | cons a l ih => simp [List.flatMap_cons, ih]
  rw [hfm (tok done), hfm (tok (x :: done))]
  have hne : esc1 x ≠ [] := by rcases hx with rfl | rfl | rfl | rfl | rfl <;> decide
  rw [replaceF_tokens (esc1 x) [x] hne (s.map (tok done)) _ (Nat.le_refl _)]
  · rw [List.map_map]
    congr 1
    apply List.map_congr_left
    intro c _
    simp only [Function.comp]
    by_cases hcd : c ∈ done
    · have hcx : c ≠ x := fun h => hnd (h ▸ hcd)
      have hmem : c ∈ x :: done := by simp [hcd]
      have ht1 : tok done c = [c] := by simp [tok, hcd]
      have ht2 : tok (x :: done) c = [c] := by unfold tok; rw [if_pos hmem]
      rw [ht1, ht2]
      have : [c] ≠ esc1 x := by
        rcases hx with rfl | rfl | rfl | rfl | rfl <;> simp [esc1, eAmp, eLt, eGt, eQuot, eApos]
      rw [if_neg this]
    · have ht1 : tok done c = esc1 c := by simp [tok, hcd]
      rw [ht1]
      by_cases hcx : c = x
      · subst hcx; simp [tok]
      · have hmem : c ∉ x :: done := by simp [hcd, hcx]
        have ht2 : tok (x :: done) c = esc1 c := by unfold tok; rw [if_neg hmem]
        rw [ht2]
        have : esc1 c ≠ esc1 x := by
          unfold esc1
          rcases hx with rfl | rfl | rfl | rfl | rfl <;>
            (by_cases h1 : c = '&' <;> by_cases h2 : c = '<' <;> by_cases h3 : c = '>' <;>
              by_cases h4 : c = '"' <;> by_cases h5 : c = '\'' <;>
              simp_all [eAmp, eLt, eGt, eQuot, eApos])
        rw [if_neg this]
  · intro t ht
    obtain ⟨c, _, rfl⟩ := List.mem_map.mp ht
    simp only [tok]
    by_cases hcd : c ∈ done
    · rw [if_pos hcd]
      right
      have hca : c ≠ '&' := fun h => hamp (h ▸ hcd)
      intro k rest hk
      have : k = 0 := by simp at hk; omega
      subst this
      rcases hx with rfl | rfl | rfl | rfl | rfl <;>
        simp [esc1, List.isPrefixOf, eAmp, eLt, eGt, eQuot, eApos, Ne.symm hca]
    · rw [if_neg hcd]
      by_cases hcx : c = x
      · left; rw [hcx]
      · right
        unfold esc1
        by_cases h1 : c = '&'
        · subst h1
          rcases hx with rfl | rfl | rfl | rfl | rfl
          all_goals first | exact absurd rfl hcx | (simp only [if_true]; nomatch)
        · by_cases h2 : c = '<'
          · subst h2
            rcases hx with rfl | rfl | rfl | rfl | rfl
            all_goals first | exact absurd rfl hcx | (simp (config := {decide := true}) only [if_true, if_false]; nomatch)
          · by_cases h3 : c = '>'
            · subst h3
              rcases hx with rfl | rfl | rfl | rfl | rfl
              all_goals first | exact absurd rfl hcx | (simp (config := {decide := true}) only [if_true, if_false]; nomatch)
            · by_cases h4 : c = '"'
              · subst h4
                rcases hx with rfl | rfl | rfl | rfl | rfl
                all_goals first | exact absurd rfl hcx | (simp (config := {decide := true}) only [if_true, if_false]; nomatch)
              · by_cases h5 : c = '\''
                · subst h5
                  rcases hx with rfl | rfl | rfl | rfl | rfl
                  all_goals first | exact absurd rfl hcx | (simp (config := {decide := true}) only [if_true, if_false]; nomatch)
                · simp only [h1, h2, h3, h4, h5, if_false]
                  intro k rest hk
                  have : k = 0 := by simp at hk; omega
                  subst this
                  rcases hx with rfl | rfl | rfl | rfl | rfl <;>
                    simp [List.isPrefixOf, eAmp, eLt, eGt, eQuot, eApos, Ne.symm h1]

/-- **escape / unescape round trip for every string** -/
theorem unescape_escape (s : Str) : unescape (escape s) = s := by
  rw [escape_eq]
  have h0 : s.flatMap esc1 = s.flatMap (tok []) := by
    apply flatMap_congr'; intro c _; simp [tok]
  unfold unescape
  rw [h0]
  have e1 : eLt = esc1 '<' := by decide
  have e2 : eGt = esc1 '>' := by decide
  have e3 : eQuot = esc1 '"' := by decide
  have e4 : eApos = esc1 '\'' := by decide
  have e5 : eAmp = esc1 '&' := by decide
  rw [e1, pass '<' [] s (by simp) (by simp) (by simp)]
  rw [e2, pass '>' ['<'] s (by simp) (by decide) (by decide)]
  rw [e3, pass '"' ['>', '<'] s (by simp) (by decide) (by decide)]
  rw [e4, pass '\'' ['"', '>', '<'] s (by simp) (by decide) (by decide)]
  rw [e5, pass '&' ['\'', '"', '>', '<'] s (by simp) (by decide) (by decide)]
  -- every character is now its own token
  have : ∀ c : Char, tok ['&', '\'', '"', '>', '<'] c = [c] := by
    intro c
    unfold tok esc1
    by_cases h1 : c = '&' <;> by_cases h2 : c = '<' <;> by_cases h3 : c = '>' <;>
      by_cases h4 : c = '"' <;> by_cases h5 : c = '\'' <;> simp_all
  rw [flatMap_congr' s _ (fun c => [c]) (fun c _ => this c)]
  clear this h0
  induction s with
  | nil => rfl
  | cons c s ih => simp [List.flatMap_cons, ih]

/-- the pinned order (`&amp;` first) corrupts a value containing the text of an entity -/
theorem unescapePinned_defect :
    unescapePinned (escape "a &lt; b".toList) ≠ "a &lt; b".toList := by decide

end IRModel.Props.C17
