import IRModel.Lemmas.BitsLemmas
/-!
# C19 — the bit-field helper is an exact fixed-width bit algebra

Model: `IRModel/Bits.lean` (the Python loops of `IntegerWrapper`, kept as loops).
All statements are for **arbitrary** width `n` and value `v` (the property asks for widths ≤ 128).
Scope guard stated once: non-negative values (`IntegerWrapper` does not mask negatives; the property
speaks of `v mod 2^n`, and no protocol passes a negative value).
-/
namespace IRModel.Props.C19
open IRModel.Bits

/-- well-formed wrapper: the value fits the width (what every constructor call establishes) -/
def IW.WF (x : IW) : Prop := x.val < 2 ^ x.n

theorem new_wf (v n : Nat) : IW.WF (IW.new v n) := maskLoop_lt v n

/-- (1) a width-`n` field built from `v` holds `v mod 2^n` -/
theorem new_val (v n : Nat) : (IW.new v n).val = v % 2 ^ n ∧ (IW.new v n).n = n :=
  ⟨maskLoop_eq_mod v n, rfl⟩

theorem bitAt_wf (x : IW) (hx : IW.WF x) (i : Nat) : x.bitAt i = (x.val.testBit i).toNat := by
  rw [bitAt_eq]
  by_cases hi : i < x.n
  · simp [hi]
  · have : x.val.testBit i = false := by
      apply Nat.testBit_lt_two_pow
      exact Nat.lt_of_lt_of_le hx (Nat.pow_le_pow_right (by decide) (by omega))
    simp [hi, this]

/-- (2) iteration yields exactly `n` bits, least significant first -/
theorem iter_eq (v n : Nat) :
    (IW.new v n).iter = (List.range n).map (fun i => (v.testBit i).toNat) ∧
    (IW.new v n).iter.length = n := by
  constructor
  · unfold IW.iter
    apply List.map_congr_left
    intro i hi
    have hi' : i < n := List.mem_range.mp hi
    rw [bitAt_eq]
    show (decide (i < n) && (maskLoop v n).testBit i).toNat = _
    rw [testBit_maskLoop]; simp [hi']
  · simp [IW.iter, IW.new]

theorem any_range'_pos (s len j : Nat) (P : Nat → Bool) :
    (List.range' s len).any (fun i => decide (j = i - s) && P i) = (decide (j < len) && P (s + j)) := by
  rw [Bool.eq_iff_iff]
  simp only [List.any_eq_true, List.mem_range'_1, Bool.and_eq_true, decide_eq_true_eq]
  constructor
  · rintro ⟨i, ⟨h1, h2⟩, hj, hp⟩
    have : s + j = i := by omega
    rw [this]; exact ⟨by omega, hp⟩
  · rintro ⟨hj, hp⟩
    exact ⟨s + j, ⟨by omega, by omega⟩, by omega, hp⟩

theorem any_range_id (n j : Nat) (P : Nat → Bool) :
    (List.range n).any (fun i => decide (j = i) && P i) = (decide (j < n) && P j) := by
  rw [Bool.eq_iff_iff]
  simp only [List.any_eq_true, List.mem_range, Bool.and_eq_true, decide_eq_true_eq]
  constructor
  · rintro ⟨i, h1, hj, hp⟩; subst hj; exact ⟨h1, hp⟩
  · rintro ⟨hj, hp⟩; exact ⟨j, hj, rfl, hp⟩

theorem any_range_rev (n j : Nat) (P : Nat → Bool) :
    (List.range n).any (fun i => decide (j = n - 1 - i) && P i) = (decide (j < n) && P (n - 1 - j)) := by
  rw [Bool.eq_iff_iff]
  simp only [List.any_eq_true, List.mem_range, Bool.and_eq_true, decide_eq_true_eq]
  constructor
  · rintro ⟨i, h1, hj, hp⟩
    have : n - 1 - j = i := by omega
    rw [this]; exact ⟨by omega, hp⟩
  · rintro ⟨hj, hp⟩
    exact ⟨n - 1 - j, by omega, by omega, hp⟩

/-- (3) slice extraction `x[:w:s]` returns width `w` starting at bit `s` -/
theorem slice_eq (x : IW) (hx : IW.WF x) (w s : Nat) (hw : 0 < w) :
    (x.slice w s).val = (x.val >>> s) % 2 ^ w ∧ (x.slice w s).n = w := by
  unfold IW.slice
  split
  · -- s ≠ 0 : loop over range(s, s+w+1), then masked to w bits
    refine ⟨?_, rfl⟩
    show maskLoop _ w = _
    apply Nat.eq_of_testBit_eq
    intro j
    rw [testBit_maskLoop, testBit_orLoop, Nat.testBit_mod_two_pow, Nat.testBit_shiftRight]
    have : (fun i => (x.bitAt i <<< (i - s)).testBit j)
          = (fun i => decide (j = i - s) && x.val.testBit i) := by
      funext i; rw [bitAt_wf x hx, testBit_toNat_shift]
    rw [this, any_range'_pos]
    by_cases hj : j < w
    · have : j < w + 1 := by omega
      simp [hj, this]
    · simp [hj]
  · rename_i hs
    have hs0 : s = 0 := by omega
    subst hs0
    refine ⟨?_, rfl⟩
    show maskLoop _ w = _
    apply Nat.eq_of_testBit_eq
    intro j
    rw [testBit_maskLoop, testBit_orLoop, Nat.testBit_mod_two_pow, Nat.testBit_shiftRight]
    have : (fun i => (x.bitAt i <<< i).testBit j)
          = (fun i => decide (j = i) && x.val.testBit i) := by
      funext i; rw [bitAt_wf x hx, testBit_toNat_shift]
    rw [this, any_range_id]
    by_cases hj : j < w <;> simp [hj]

theorem testBit_invert (x : IW) (hx : IW.WF x) (j : Nat) :
    x.invertBits.val.testBit j = (decide (j < x.n) && !x.val.testBit j) := by
  show (maskLoop _ x.n).testBit j = _
  rw [testBit_maskLoop, testBit_orLoop]
  have : (fun i => ((1 - x.bitAt i) <<< i).testBit j)
        = (fun i => decide (j = i) && !x.val.testBit i) := by
    funext i
    rw [bitAt_wf x hx]
    cases hb : x.val.testBit i
    · have := testBit_toNat_shift true i j; simpa using this
    · have := testBit_toNat_shift false i j; simpa using this
  rw [this, any_range_id]
  by_cases hj : j < x.n <;> simp [hj]

/-- bit inversion is the complement within the width -/
theorem invert_val (x : IW) (hx : IW.WF x) :
    x.invertBits.val = 2 ^ x.n - 1 - x.val ∧ x.invertBits.n = x.n := by
  refine ⟨?_, rfl⟩
  apply Nat.eq_of_testBit_eq
  intro j
  rw [testBit_invert x hx]
  have hx' : x.val < 2 ^ x.n := hx
  have : 2 ^ x.n - 1 - x.val = 2 ^ x.n - (x.val + 1) := by omega
  rw [this, Nat.testBit_two_pow_sub_succ hx']

/-- (3b) complemented slice `x[True:w:s]` : complement within the slice's width -/
theorem sliceCompl_eq (x : IW) (hx : IW.WF x) (w s : Nat) (hw : 0 < w) :
    (x.sliceCompl w s).val = 2 ^ w - 1 - (x.val >>> s) % 2 ^ w ∧ (x.sliceCompl w s).n = w := by
  have h := slice_eq x hx w s hw
  have hwf : IW.WF (x.slice w s) := by
    unfold IW.WF; rw [h.1, h.2]; exact Nat.mod_lt _ (Nat.two_pow_pos w)
  have hi := invert_val (x.slice w s) hwf
  unfold IW.sliceCompl
  rw [hi.1, hi.2, h.1, h.2]; exact ⟨rfl, rfl⟩

theorem invert_wf (x : IW) : IW.WF x.invertBits := maskLoop_lt _ _
theorem reverse_wf (x : IW) : IW.WF x.reverseBits := maskLoop_lt _ _

theorem IW.ext' {x y : IW} (hv : x.val = y.val) (hn : x.n = y.n) : x = y := by
  cases x; cases y; simp_all

/-- (4) bit inversion is an involution within the width -/
theorem invert_involutive (x : IW) (hx : IW.WF x) : x.invertBits.invertBits = x := by
  refine IW.ext' ?_ rfl
  apply Nat.eq_of_testBit_eq
  intro j
  rw [testBit_invert _ (invert_wf x), testBit_invert x hx]
  show (decide (j < x.n) && !(decide (j < x.n) && !x.val.testBit j)) = _
  by_cases hj : j < x.n
  · simp [hj]
  · have : x.val.testBit j = false := by
      apply Nat.testBit_lt_two_pow
      exact Nat.lt_of_lt_of_le hx (Nat.pow_le_pow_right (by decide) (by omega))
    simp [hj, this]

theorem testBit_reverse (x : IW) (hx : IW.WF x) (j : Nat) :
    x.reverseBits.val.testBit j = (decide (j < x.n) && x.val.testBit (x.n - 1 - j)) := by
  show (maskLoop _ x.n).testBit j = _
  rw [testBit_maskLoop, testBit_orLoop]
  have : (fun i => (x.bitAt i <<< (x.n - 1 - i)).testBit j)
        = (fun i => decide (j = x.n - 1 - i) && x.val.testBit i) := by
    funext i; rw [bitAt_wf x hx, testBit_toNat_shift]
  rw [this, any_range_rev]
  by_cases hj : j < x.n <;> simp [hj]

/-- (5) bit reversal is an involution within the width -/
theorem reverse_involutive (x : IW) (hx : IW.WF x) : x.reverseBits.reverseBits = x := by
  refine IW.ext' ?_ rfl
  apply Nat.eq_of_testBit_eq
  intro j
  rw [testBit_reverse _ (reverse_wf x), testBit_reverse x hx]
  show (decide (j < x.n) && (decide (x.n - 1 - j < x.n) && x.val.testBit (x.n - 1 - (x.n - 1 - j)))) = _
  by_cases hj : j < x.n
  · have h1 : x.n - 1 - j < x.n := by omega
    have h2 : x.n - 1 - (x.n - 1 - j) = j := by omega
    simp [hj, h1, h2]
  · have : x.val.testBit j = false := by
      apply Nat.testBit_lt_two_pow
      exact Nat.lt_of_lt_of_le hx (Nat.pow_le_pow_right (by decide) (by omega))
    simp [hj, this]

/-- (6) the population count is the number of one bits -/
theorem popcount_eq (x : IW) :
    x.numOneBits = ((List.range x.n).filter (fun i => x.val.testBit i)).length := by
  unfold IW.numOneBits
  have key : ∀ (l : List Nat) (c : Nat),
      l.foldl (fun c i => c + ((x.val >>> i) &&& 1)) c = c + (l.filter (fun i => x.val.testBit i)).length := by
    intro l
    induction l with
    | nil => intro c; simp
    | cons a l ih =>
      intro c
      rw [List.foldl_cons, ih]
      have : (x.val >>> a) &&& 1 = (x.val.testBit a).toNat := by
        have h0 : x.val.testBit a = (x.val >>> a).testBit 0 := by simp
        rw [h0, Nat.and_one_is_mod, Nat.testBit_zero]
        rcases Nat.mod_two_eq_zero_or_one (x.val >>> a) with h | h <;> simp [h]
      rw [this]
      cases hb : x.val.testBit a <;> simp [List.filter_cons, hb] <;> omega
  simpa using key (List.range x.n) 0

end IRModel.Props.C19

namespace IRModel.Props.C19
open IRModel.Bits

/-! ### rendering to symbols and parsing back -/

theorem any_congr_mem {α} (l : List α) (f g : α → Bool) (h : ∀ a ∈ l, f a = g a) :
    l.any f = l.any g := by
  induction l with
  | nil => rfl
  | cons a l ih =>
    simp only [List.any_cons]
    rw [h a (by simp), ih (fun b hb => h b (by simp [hb]))]

theorem testBit_le_one_shift (b p j : Nat) (hb : b ≤ 1) :
    (b <<< p).testBit j = (decide (j = p) && decide (b = 1)) := by
  have : b = 0 ∨ b = 1 := by omega
  rcases this with h | h
  · subst h; simp
  · subst h
    have := testBit_toNat_shift true p j
    simpa using this

theorem bits_eq_reverse (x : IW) : x.bits = x.iter.reverse := by
  unfold IW.bits
  have key : ∀ (l acc : List Nat), l.foldl (fun acc b => b :: acc) acc = l.reverse ++ acc := by
    intro l
    induction l with
    | nil => intro acc; rfl
    | cons a l ih => intro acc; simp [List.foldl_cons, ih]
  simpa using key x.iter []

theorem iter_wf (x : IW) (hx : IW.WF x) :
    x.iter = (List.range x.n).map (fun i => (x.val.testBit i).toNat) := by
  unfold IW.iter
  apply List.map_congr_left
  intro i _
  exact bitAt_wf x hx i

theorem testBit_high {v n i : Nat} (hv : v < 2 ^ n) (hi : n ≤ i) : v.testBit i = false :=
  Nat.testBit_lt_two_pow (Nat.lt_of_lt_of_le hv (Nat.pow_le_pow_right (by decide) hi))

/-- every entry the renderer chunks is a bit -/
theorem orderedBits_bits (x : IW) (hx : IW.WF x) (o : Order) (L : Nat) :
    ∀ b ∈ x.orderedBits o L, b ≤ 1 := by
  intro b hb
  cases o <;> simp only [IW.orderedBits, bits_eq_reverse, iter_wf x hx, List.mem_append,
    List.mem_reverse, List.mem_map, List.mem_replicate] at hb
  · rcases hb with ⟨i, _, rfl⟩ | ⟨_, rfl⟩
    · exact Bool.toNat_le _
    · omega
  · rcases hb with ⟨_, rfl⟩ | ⟨i, _, rfl⟩
    · omega
    · exact Bool.toNat_le _

theorem orderedBits_length (x : IW) (o : Order) (L : Nat) :
    (x.orderedBits o L).length = x.n + padCount L x.n := by
  cases o <;> simp [IW.orderedBits, bits_eq_reverse, IW.iter] <;> omega

/-- lsb: entry `i` of the padded list is bit `i` of the value -/
theorem getD_orderedBits_lsb (x : IW) (hx : IW.WF x) (L i : Nat) :
    (x.orderedBits .lsb L).getD i 0 = (x.val.testBit i).toNat := by
  simp only [IW.orderedBits, iter_wf x hx, List.getD_eq_getElem?_getD]
  by_cases hi : i < x.n
  · rw [List.getElem?_append_left (by simpa using hi)]
    simp [hi]
  · rw [List.getElem?_append_right (by simpa using Nat.le_of_not_lt hi)]
    have : x.val.testBit i = false := testBit_high hx (Nat.le_of_not_lt hi)
    rw [this]
    simp only [List.length_map, List.length_range, List.getElem?_replicate]
    split <;> rfl

/-- msb: entry `i` of the padded list (length `len`) is bit `len - 1 - i` of the value -/
theorem getD_orderedBits_msb (x : IW) (hx : IW.WF x) (L i : Nat)
    (hi : i < x.n + padCount L x.n) :
    (x.orderedBits .msb L).getD i 0 = (x.val.testBit (x.n + padCount L x.n - 1 - i)).toNat := by
  simp only [IW.orderedBits, bits_eq_reverse, iter_wf x hx, List.getD_eq_getElem?_getD]
  by_cases hp : i < padCount L x.n
  · rw [List.getElem?_append_left (by simpa using hp)]
    have : x.val.testBit (x.n + padCount L x.n - 1 - i) = false := testBit_high hx (by omega)
    rw [this]
    simp [hp]
  · rw [List.getElem?_append_right (by simpa using Nat.le_of_not_lt hp)]
    have h1 : i - padCount L x.n < x.n := by omega
    simp only [List.length_replicate]
    rw [List.getElem?_reverse (by simpa using h1)]
    simp only [List.length_map, List.length_range]
    have h2 : x.n - 1 - (i - padCount L x.n) < x.n := by omega
    simp only [List.getElem?_map, List.getElem?_range h2, Option.map_some, Option.getD_some]
    congr 2; omega

/-- `get_value` over the whole padded list returns the value (both orders) -/
theorem valueOfBits_orderedBits (x : IW) (hx : IW.WF x) (o : Order) (L : Nat) :
    valueOfBits o (x.orderedBits o L) = x.val := by
  have hlen := orderedBits_length x o L
  apply Nat.eq_of_testBit_eq
  intro j
  cases o
  · -- lsb
    simp only [valueOfBits]
    rw [testBit_orLoop]
    have : (fun i => ((x.orderedBits .lsb L).getD i 0 <<< i).testBit j)
          = (fun i => decide (j = i) && x.val.testBit i) := by
      funext i; rw [getD_orderedBits_lsb x hx, testBit_toNat_shift]
    rw [this, any_range_id, hlen]
    by_cases hj : j < x.n + padCount L x.n
    · simp [hj]
    · have : x.val.testBit j = false := testBit_high hx (by omega)
      simp [hj, this]
  · -- msb
    simp only [valueOfBits]
    rw [testBit_orLoop, hlen]
    have : ∀ i ∈ List.range (x.n + padCount L x.n),
        ((x.orderedBits .msb L).getD i 0 <<< (x.n + padCount L x.n - 1 - i)).testBit j
          = (decide (j = x.n + padCount L x.n - 1 - i) && x.val.testBit (x.n + padCount L x.n - 1 - i)) := by
      intro i hi
      rw [getD_orderedBits_msb x hx L i (List.mem_range.mp hi), testBit_toNat_shift]
    rw [any_congr_mem _ _ _ this]
    rw [any_range_rev (x.n + padCount L x.n) j (fun i => x.val.testBit (x.n + padCount L x.n - 1 - i))]
    by_cases hj : j < x.n + padCount L x.n
    · have : x.n + padCount L x.n - 1 - (x.n + padCount L x.n - 1 - j) = j := by omega
      simp [hj, this]
    · have : x.val.testBit j = false := testBit_high hx (by omega)
      simp [hj, this]

/-- chunking into 2-bit symbols and expanding them again is the identity on bit lists -/
theorem chunk2_roundtrip : ∀ (m : Nat) (bs : List Nat), bs.length = 2 * m → (∀ b ∈ bs, b ≤ 1) →
    ∃ syms, chunkIdx 2 bs = some syms ∧ syms.flatMap (idxToBits 4) = bs ∧ syms.length = m ∧
      ∀ s ∈ syms, s < 4 := by
  intro m
  induction m with
  | zero =>
    intro bs hl _
    have : bs = [] := List.length_eq_zero_iff.mp (by omega)
    subst this; exact ⟨[], rfl, rfl, rfl, by simp⟩
  | succ m ih =>
    intro bs hl hb
    match bs, hl, hb with
    | a :: b :: r, hl, hb =>
      have hr : r.length = 2 * m := by simp at hl; omega
      obtain ⟨syms, h1, h2, h3, h4⟩ := ih r hr (fun x hx => hb x (by simp [hx]))
      have ha : a ≤ 1 := hb a (by simp)
      have hb' : b ≤ 1 := hb b (by simp)
      refine ⟨(a <<< 1 ||| b) :: syms, by simp [chunkIdx, h1], ?_, by simp [h3], ?_⟩
      · have h01 : (a = 0 ∨ a = 1) ∧ (b = 0 ∨ b = 1) := ⟨by omega, by omega⟩
        rcases h01 with ⟨rfl | rfl, rfl | rfl⟩ <;> simp [List.flatMap_cons, idxToBits, h2]
      · intro s hs
        rcases List.mem_cons.mp hs with rfl | hs
        · have h01 : (a = 0 ∨ a = 1) ∧ (b = 0 ∨ b = 1) := ⟨by omega, by omega⟩
          rcases h01 with ⟨rfl | rfl, rfl | rfl⟩ <;> decide
        · exact h4 s hs
    | [_], hl, _ => simp at hl; omega
    | [], hl, _ => simp at hl

theorem chunk4_roundtrip : ∀ (m : Nat) (bs : List Nat), bs.length = 4 * m → (∀ b ∈ bs, b ≤ 1) →
    ∃ syms, chunkIdx 4 bs = some syms ∧ syms.flatMap (idxToBits 16) = bs ∧ syms.length = m ∧
      ∀ s ∈ syms, s < 16 := by
  intro m
  induction m with
  | zero =>
    intro bs hl _
    have : bs = [] := List.length_eq_zero_iff.mp (by omega)
    subst this; exact ⟨[], rfl, rfl, rfl, by simp⟩
  | succ m ih =>
    intro bs hl hb
    match bs, hl, hb with
    | a :: b :: c :: d :: r, hl, hb =>
      have hr : r.length = 4 * m := by simp at hl; omega
      obtain ⟨syms, h1, h2, h3, h4⟩ := ih r hr (fun x hx => hb x (by simp [hx]))
      have h01 : (a = 0 ∨ a = 1) ∧ (b = 0 ∨ b = 1) ∧ (c = 0 ∨ c = 1) ∧ (d = 0 ∨ d = 1) :=
        ⟨by have := hb a (by simp); omega, by have := hb b (by simp); omega,
         by have := hb c (by simp); omega, by have := hb d (by simp); omega⟩
      refine ⟨(a <<< 3 ||| b <<< 2 ||| c <<< 1 ||| d) :: syms, by simp [chunkIdx, h1], ?_, by simp [h3], ?_⟩
      · rcases h01 with ⟨rfl | rfl, rfl | rfl, rfl | rfl, rfl | rfl⟩ <;>
          simp [List.flatMap_cons, idxToBits, h2]
      · intro s hs
        rcases List.mem_cons.mp hs with rfl | hs
        · rcases h01 with ⟨rfl | rfl, rfl | rfl, rfl | rfl, rfl | rfl⟩ <;> decide
        · exact h4 s hs
    | [_, _, _], hl, _ => simp at hl; omega
    | [_, _], hl, _ => simp at hl; omega
    | [_], hl, _ => simp at hl; omega
    | [], hl, _ => simp at hl

/-- (7) rendering emits exactly `ceil(n/k)` symbols of the `2^k`-entry table, in the declared bit
    order, and parsing them back (symbol index → bits → `get_value` over the whole field) returns
    the value — for every width, value, both orders and the three table sizes. -/
theorem render_parse (v n : Nat) (o : Order) (L : Nat) (hL : L = 2 ∨ L = 4 ∨ L = 16) :
    let x := IW.new v n
    let k := bitsPerSymbol L
    ∃ syms, x.symbolIdx o L = some syms ∧
      syms.length = (n + k - 1) / k ∧
      (∀ s ∈ syms, s < L) ∧
      valueOfBits o (syms.flatMap (idxToBits L)) = v % 2 ^ n := by
  intro x k
  have hx : IW.WF x := new_wf v n
  have hval : x.val = v % 2 ^ n := (new_val v n).1
  have hn : x.n = n := rfl
  have hbits := orderedBits_bits x hx o L
  have hlen := orderedBits_length x o L
  have hv := valueOfBits_orderedBits x hx o L
  rcases hL with rfl | rfl | rfl
  · -- 2-entry table: one bit per symbol
    refine ⟨x.orderedBits o 2, by simp [IW.symbolIdx, bitsPerSymbol, chunkIdx], ?_, ?_, ?_⟩
    · rw [hlen]; simp [padCount, bitsPerSymbol, k, hn]
    · intro s hs; have := hbits s hs; omega
    · have : (x.orderedBits o 2).flatMap (idxToBits 2) = x.orderedBits o 2 := by
        have h2 : idxToBits 2 = fun n => [n] := by funext n; simp [idxToBits]
        rw [h2]; exact List.flatMap_singleton' _
      rw [this, hv, hval]
  · -- 4-entry table
    have hl2 : (x.orderedBits o 4).length = 2 * ((n + 1) / 2) := by
      rw [hlen, hn]; simp [padCount]; omega
    obtain ⟨syms, h1, h2, h3, h4⟩ := chunk2_roundtrip _ _ hl2 hbits
    refine ⟨syms, h1, ?_, h4, ?_⟩
    · rw [h3]; simp [bitsPerSymbol, k]
    · rw [h2, hv, hval]
  · -- 16-entry table
    have hl4 : (x.orderedBits o 16).length = 4 * ((n + 3) / 4) := by
      rw [hlen, hn]; simp [padCount]; omega
    obtain ⟨syms, h1, h2, h3, h4⟩ := chunk4_roundtrip _ _ hl4 hbits
    refine ⟨syms, h1, ?_, h4, ?_⟩
    · rw [h3]; simp [bitsPerSymbol, k]
    · rw [h2, hv, hval]

/-- The pinned (pre-fix) padding could not render e.g. width 1 on a 16-entry table: the chunker
    runs off the end (`IndexError` in Python). Witness of the repaired defect. -/
theorem pinned_padding_defect :
    chunkIdx 4 (List.replicate (padCountPinned 16 1) 0 ++ (IW.new 1 1).bits) = none := by decide

/-- non-vacuity: concrete renderings (4-entry lsb width 3 value 5; 16-entry msb width 5 value 19) -/
example : (IW.new 5 3).symbolIdx .lsb 4 = some [2, 2] := by decide
example : (IW.new 19 5).symbolIdx .msb 16 = some [1, 3] := by decide

end IRModel.Props.C19
