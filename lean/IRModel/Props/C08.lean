import IRModel.Proto
/-!
# C08 — arbitrary input never crashes a decoder (engine part)

For **every** table set on the modelled path, **every** tolerance, instance state and list of integers,
the model of `CodeWrapper.__init__` / `IrProtocolBase.decode` terminates (all definitions are structural
recursions over the input or the tables — Lean accepts them as total) and every error it raises is in
the library's IR error family. The model reproduces Python's list semantics (`pyPop` with negative
indices, out-of-range = IndexError), so "no IndexError leaks" is a statement about the model's range,
and the correspondence stream (which compares exception classes on malformed input) is what ties that
range to the code.
-/
namespace IRModel.Props.C08
open IRModel IRModel.Py IRModel.Match IRModel.CodeWrapper IRModel.Proto

theorem periodCheck_lib (tol : Tol) (lo code : List Int) (e : PyErr)
    (h : periodCheck tol lo code = .error e) : e.isLibrary = true := by
  unfold periodCheck at h
  split at h
  · split at h
    · split at h
      · simp at h
      · simp only [] at h
        split at h
        · simp at h
        · cases h; rfl
    · simp at h
  · simp at h

theorem leadInLoop_lib (tol : Tol) (b : List (Int × Int)) :
    ∀ (es code cl : List Int) (e : PyErr), leadInLoop tol b es code cl = .error e → e.isLibrary = true := by
  intro es
  induction es with
  | nil => intro code cl e h; simp [leadInLoop] at h
  | cons x es ih =>
    intro code cl e h
    unfold leadInLoop at h
    repeat' split at h
    all_goals first | (cases h; rfl) | exact ih _ _ _ h

theorem leadOutLoop_lib (tol : Tol) (b : List (Int × Int)) (n : Nat) (tt : Int) :
    ∀ (es : List Int) (i : Nat) (code half : List Int) (cl : List (Option Int)) (e : PyErr),
      leadOutLoop tol b n tt es i code half cl = .error e → e.isLibrary = true := by
  intro es
  induction es with
  | nil => intro i code half cl e h; simp [leadOutLoop] at h
  | cons x es ih =>
    intro i code half cl e h
    unfold leadOutLoop at h
    repeat' split at h
    all_goals first | (cases h; rfl) | exact ih _ _ _ _ _ h | (simp at h)

theorem classifyAll_lib (tol : Tol) (b : List (Int × Int)) :
    ∀ (l : List Int) (e : PyErr), classifyAll tol b l = .error e → e.isLibrary = true := by
  intro l
  induction l with
  | nil => intro e h; simp [classifyAll] at h
  | cons x l ih =>
    intro e h
    unfold classifyAll at h
    split at h
    · cases h; rfl
    · cases hr : classifyAll tol b l with
      | error e' => rw [hr] at h; simp [Except.map] at h; subst h; exact ih _ hr
      | ok v => rw [hr] at h; simp [Except.map] at h

theorem symbolBits_lib (b : List (Int × Int)) (m s : Int) (e : PyErr)
    (h : symbolBits b m s = .error e) : e.isLibrary = true := by
  unfold symbolBits at h
  split at h
  · simp at h
  · cases h; rfl

theorem pairsToBits_lib (b : List (Int × Int)) :
    ∀ (ps : List (List Int)) (e : PyErr), pairsToBits b ps = .error e → e.isLibrary = true := by
  intro ps
  induction ps using pairsToBits.induct b with
  | case1 => intro e h; simp [pairsToBits] at h
  | case2 m s rest ih =>
    intro e h
    simp only [pairsToBits, bind, Except.bind] at h
    split at h
    · rename_i e' he; cases h; exact symbolBits_lib b m s _ he
    · split at h
      · rename_i e' he; cases h; exact ih _ he
      · simp [pure, Except.pure] at h
  | case3 m rest hr p hp =>
    intro e h
    simp only [pairsToBits, hr, if_true, hp, bind, Except.bind] at h
    split at h
    · rename_i e' he; cases h; exact symbolBits_lib b m p.2 _ he
    · simp [pure, Except.pure] at h
  | case4 m rest hr hn =>
    intro e h
    simp only [pairsToBits, hr, if_true, hn] at h
    cases h; rfl
  | case5 m rest hr =>
    intro e h
    simp only [pairsToBits, hr] at h
    cases h; rfl
  | case6 x rest h1 h2 =>
    intro e h
    unfold pairsToBits at h
    split at h <;> first | (exact absurd rfl (h1 _ _ _)) | (exact absurd rfl (h2 _ _)) | (cases h; rfl) | skip
    all_goals simp_all

/-- **parsing never leaks**: whatever the tables, tolerance and input -/
theorem parseWith_lib (tol : Tol) (li lo : List Int) (b : List (Int × Int)) (data : List Int) (e : PyErr)
    (h : parseWith tol li lo b data = .error e) : e.isLibrary = true := by
  unfold parseWith at h
  simp only [bind, Except.bind] at h
  split at h
  · rename_i e' he; cases h; exact periodCheck_lib _ _ _ _ he
  · split at h
    · rename_i e' he; cases h; exact leadInLoop_lib _ _ _ _ _ _ he
    · split at h
      · rename_i e' he; cases h; exact leadOutLoop_lib _ _ _ _ _ _ _ _ _ _ he
      · split at h
        · rename_i e' he; cases h; exact classifyAll_lib _ _ _ _ he
        · split at h
          · rename_i e' he; cases h; exact pairsToBits_lib _ _ _ he
          · split at h
            · cases h; rfl
            · simp [pure, Except.pure] at h

theorem manchAll_lib (tol : Tol) (m s : Int) :
    ∀ (l : List Int) (e : PyErr), manchAll tol m s l = .error e → e.isLibrary = true := by
  intro l
  induction l with
  | nil => intro e h; simp [manchAll] at h
  | cons x l ih =>
    intro e h
    unfold manchAll at h
    split at h
    · cases h; rfl
    · cases hr : manchAll tol m s l with
      | error e' => rw [hr] at h; simp [Except.map] at h; subst h; exact ih _ hr
      | ok v => rw [hr] at h; simp [Except.map] at h

/-- **parsing on the Manchester path never leaks**: whatever the tables, tolerance and input -/
theorem parseWithM_lib (tol : Tol) (li lo : List Int) (b : List (Int × Int)) (data : List Int) (e : PyErr)
    (h : parseWithM tol li lo b data = .error e) : e.isLibrary = true := by
  unfold parseWithM at h
  simp only [bind, Except.bind] at h
  split at h
  · rename_i e' he; cases h; exact periodCheck_lib _ _ _ _ he
  · split at h
    · rename_i e' he; cases h; exact leadInLoop_lib _ _ _ _ _ _ he
    · split at h
      · rename_i e' he; cases h; exact leadOutLoop_lib _ _ _ _ _ _ _ _ _ _ he
      · split at h
        · rename_i e' he; cases h; exact manchAll_lib _ _ _ _ _ he
        · split at h
          · rename_i e' he; cases h; exact pairsToBits_lib _ _ _ he
          · split at h
            · cases h; rfl
            · simp [pure, Except.pure] at h

/-- the constructor on either path -/
theorem parse_lib (t : Tables) (tol : Tol) (data : List Int) (e : PyErr) (h : parse t tol data = .error e) :
    e.isLibrary = true := by
  unfold parse at h
  split at h
  · exact parseWithM_lib _ _ _ _ _ _ h
  · exact parseWith_lib _ _ _ _ _ _ h

theorem decodeFull_lib (t : Tables) (inst : Inst) (data : List Int) (pre : List Effect) (e : PyErr)
    (h : (decodeFull t inst data pre).result = .error e) : e.isLibrary = true := by
  unfold decodeFull at h
  split at h
  · rename_i e' he; simp at h; subst h; exact parse_lib _ _ _ _ he
  · rename_i p hp
    by_cases h1 : p.bits.length > t.bitCount
    · rw [if_pos h1] at h; simp at h; subst h; rfl
    · rw [if_neg h1] at h
      by_cases h2 : p.bits.length < t.bitCount
      · rw [if_pos h2] at h; simp at h; subst h; rfl
      · rw [if_neg h2] at h
        by_cases h3 : t.decodeOverridden = true
        · rw [if_pos h3] at h; simp at h
        · rw [if_neg h3] at h
          split at h
          · rename_i l hl
            by_cases h4 : sameCode t l (mkCode t p) = true
            · rw [if_pos h4] at h; simp at h
            · rw [if_neg h4] at h; simp at h
          · simp at h

/-- **C08 (engine)**: `IrProtocolBase.decode` on any list of integers, in any instance state, returns a
    code or raises an error of the library's own family. -/
theorem baseDecode_lib (t : Tables) (inst : Inst) (data : List Int) (e : PyErr)
    (h : (baseDecode t inst data).result = .error e) : e.isLibrary = true := by
  unfold baseDecode at h
  split at h
  · rename_i l hl
    by_cases hr : (!t.repeatLeadIn.isEmpty || !t.repeatLeadOut.isEmpty) = true
    · rw [if_pos hr] at h
      split at h
      · rename_i p hp
        by_cases hb : (!t.repeatBursts.isEmpty && !t.decodeOverridden) = true
        · rw [if_pos hb] at h
          by_cases hs : sameCode t (mkCode t p) l = true
          · rw [if_pos hs] at h; simp at h
          · rw [if_neg hs] at h; exact decodeFull_lib _ _ _ _ _ h
        · rw [if_neg hb] at h; simp at h
      · rename_i e' he
        by_cases hl' : e'.isLibrary = true
        · rw [if_pos hl'] at h; exact decodeFull_lib _ _ _ _ _ h
        · exact absurd (parseWith_lib _ _ _ _ _ _ he) hl'
    · rw [if_neg hr] at h; exact decodeFull_lib _ _ _ _ _ h
  · exact decodeFull_lib _ _ _ _ _ h

/-- non-vacuity: the empty list and a one-element list are rejected with library errors -/
example : (parseWith ⟨20, 1⟩ [9024, -4512] [564, -40000] [(564, -564), (564, -1692)] []).toOption = none := by decide
example : (parseWith ⟨20, 1⟩ [9024, -4512] [564, -40000] [(564, -564), (564, -1692)] [5]).toOption = none := by decide

end IRModel.Props.C08
