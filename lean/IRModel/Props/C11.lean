import IRModel.Props.C10
/-!
# C11 — the dispatcher reports every new key press, exactly as its protocol decodes it

Refinement of the dispatcher to the specification "scan the possible decoders; the answer is what
the answering decoder yields for this frame", for decoders that are *single-frame and
history-independent* on the frame in question (`PureOn`: whether decoder `i` accepts `x` at `f`, and
with which identity, does not depend on state — this is what C07 establishes for the regular
protocols; multi-frame protocols that answer with RepeatLeadIn/Out are outside this statement, see
DESIGN.md §7 C11).

The theorems are about the dispatcher **after** the `fix:` commit a51357a; the pinned behaviour
(`return True` on the last-decoder path, no release binding) is kept as `lastDecPathPinned` below
with a proved counter-example.
-/
namespace IRModel.Props.C11
open IRModel.Dispatcher IRModel.Props.C10

/-- decoder behaviour on frame `x` at carrier `f` is a function of (decoder, x, f) only -/
structure PureOn {σ} (D : Decoders σ) (x : Frame) (f : Nat) (acc : Nat → Option Nat) : Prop where
  dec : ∀ i s, ∃ s', (match acc i with
          | some k => ∃ r, D.decode i s x f = (.ok ⟨i, k, r⟩, s')
          | none => D.decode i s x f = (.error .decode, s'))
  noSaved : ∀ s i, D.saved s i x = none

/-- what C11 promises about one call -/
structure Reported {σ} (D : Decoders σ) (st : St σ) (x : Frame) (f : Nat) (acc : Nat → Option Nat)
    (c : Code) (st' : St σ) (o : List Out) : Prop where
  possible : c.dec ∈ possible D st.ds f
  identity : acc c.dec = some c.key
  held     : ∃ l, st'.last = some l ∧ c.same l = true
  bound    : st.bound = true ∨ (∀ l, st.last = some l → c.same l = false) → st'.bound = true
  callback : ∃ c', o = [.callback c'] ∧ c.same c' = true

theorem same_refl (c : Code) : c.same c = true := by simp [Code.same]

theorem scan_complete {σ} (D : Decoders σ) (x : Frame) (f : Nat) (acc : Nat → Option Nat)
    (hp : PureOn D x f acc) :
    ∀ (l : List Nat) (st : St σ), (∃ i ∈ l, (acc i).isSome) →
      ∃ c st' o, scan D x f l st = (.code c, st', o) ∧ c.dec ∈ l ∧ acc c.dec = some c.key ∧
        st'.last = some c ∧ st'.bound = true ∧ o = [.callback c] := by
  intro l
  induction l with
  | nil => intro st ⟨i, hi, _⟩; simp at hi
  | cons i rest ih =>
    intro st hex
    unfold scan
    rw [hp.noSaved]
    obtain ⟨s', hs'⟩ := hp.dec i st.ds
    simp only []
    cases hacc : acc i with
    | some k =>
      rw [hacc] at hs'
      obtain ⟨r, hr⟩ := hs'
      rw [hr]
      exact ⟨⟨i, k, r⟩, _, _, rfl, by simp, hacc, rfl, rfl, rfl⟩
    | none =>
      rw [hacc] at hs'
      rw [hs']
      simp only []
      have : ∃ j ∈ rest, (acc j).isSome := by
        obtain ⟨j, hj, hjs⟩ := hex
        rcases List.mem_cons.mp hj with rfl | hj
        · rw [hacc] at hjs; simp at hjs
        · exact ⟨j, hj, hjs⟩
      obtain ⟨c, st', o, h1, h2, h3, h4, h5, h6⟩ := ih { st with ds := s' } this
      exact ⟨c, st', o, h1, List.mem_cons_of_mem _ h2, h3, h4, h5, h6⟩

theorem scan_reported {σ} (D : Decoders σ) (x : Frame) (f : Nat) (acc : Nat → Option Nat)
    (hp : PureOn D x f acc) (st st0 : St σ) (hds : True)
    (hacc : ∃ i ∈ possible D st0.ds f, (acc i).isSome) :
    ∃ c st' o, scan D x f (possible D st0.ds f) st = (.code c, st', o) ∧ Reported D st0 x f acc c st' o := by
  obtain ⟨c, st', o, h1, h2, h3, h4, h5, h6⟩ := scan_complete D x f acc hp _ st hacc
  exact ⟨c, st', o, h1, ⟨h2, h3, ⟨c, h4, same_refl c⟩, fun _ => h5, ⟨c, h6, same_refl c⟩⟩⟩

/-- inner form of **C11** on `_decode` -/
theorem C11_inner {σ} (D : Decoders σ) (x : Frame) (f : Nat) (acc : Nat → Option Nat)
    (hp : PureOn D x f acc) (st : St σ)
    (hnotrep : ∀ lc, st.last = some lc → lc.dec ∈ possible D st.ds f → D.eqTimings st.ds lc x = false)
    (hacc : ∃ i ∈ possible D st.ds f, (acc i).isSome) :
    ∃ c st' o, decodeInner D st x f = (.code c, st', o) ∧ Reported D st x f acc c st' o := by
  unfold decodeInner
  simp only []
  split
  · -- held path
    rename_i lc hheld
    have hlc : st.last = some lc ∧ lc.dec ∈ possible D st.ds f := by
      split at hheld
      · rename_i lc' hl
        split at hheld
        · rename_i hc; simp at hheld; subst hheld; exact ⟨hl, by simpa using hc⟩
        · simp at hheld
      · simp at hheld
    rw [hnotrep lc hlc.1 hlc.2]
    simp only [Bool.false_eq_true, if_false]
    obtain ⟨s', hs'⟩ := hp.dec lc.dec st.ds
    cases hacc' : acc lc.dec with
    | some k =>
      rw [hacc'] at hs'
      obtain ⟨r, hr⟩ := hs'
      rw [hr]
      simp only []
      by_cases hne : (⟨lc.dec, k, r⟩ : Code).same lc = true
      · rw [if_neg (by simpa using hne)]
        refine ⟨⟨lc.dec, k, r⟩, _, _, rfl, ⟨hlc.2, hacc', ⟨lc, hlc.1, hne⟩, ?_, ⟨lc, rfl, hne⟩⟩⟩
        intro h; rcases h with h | h
        · exact h
        · have := h lc hlc.1; rw [hne] at this; exact Bool.noConfusion this
      · rw [if_pos (by simpa using hne)]
        exact ⟨⟨lc.dec, k, r⟩, _, _, rfl, ⟨hlc.2, hacc', ⟨_, rfl, same_refl _⟩, fun _ => rfl, ⟨_, rfl, same_refl _⟩⟩⟩
    | none =>
      rw [hacc'] at hs'
      rw [hs']
      simp only []
      exact scan_reported D x f acc hp _ st trivial hacc
  · split
    · -- last-decoder path
      rename_i hnoheld j hj
      have hjp : j ∈ possible D st.ds f := by
        split at hj
        · split at hj
          · rename_i hc; simp at hj; subst hj; simpa using hc
          · simp at hj
        · simp at hj
      obtain ⟨s', hs'⟩ := hp.dec j st.ds
      cases hacc' : acc j with
      | some k =>
        rw [hacc'] at hs'
        obtain ⟨r, hr⟩ := hs'
        rw [hr]
        simp only []
        split
        · rename_i l hl
          by_cases hne : (⟨j, k, r⟩ : Code).same l = true
          · rw [if_neg (by simpa using hne)]
            refine ⟨⟨j, k, r⟩, _, _, rfl, ⟨hjp, hacc', ⟨l, hl, hne⟩, ?_, ⟨l, rfl, hne⟩⟩⟩
            intro h; rcases h with h | h
            · exact h
            · have := h l hl; rw [hne] at this; exact Bool.noConfusion this
          · rw [if_pos (by simpa using hne)]
            exact ⟨⟨j, k, r⟩, _, _, rfl, ⟨hjp, hacc', ⟨_, rfl, same_refl _⟩, fun _ => rfl, ⟨_, rfl, same_refl _⟩⟩⟩
        · exact ⟨⟨j, k, r⟩, _, _, rfl, ⟨hjp, hacc', ⟨_, rfl, same_refl _⟩, fun _ => rfl, ⟨_, rfl, same_refl _⟩⟩⟩
      | none =>
        rw [hacc'] at hs'
        rw [hs']
        simp only []
        exact scan_reported D x f acc hp _ st trivial hacc
    · exact scan_reported D x f acc hp st st trivial hacc

/-- **C11**: if some enabled, frequency-compatible decoder accepts the frame and the frame is not a
    (timing-)repeat of the currently held key, the top-level decode returns a code — never `None` —
    produced by a possible decoder, carrying exactly the identity that decoder yields for the frame;
    afterwards a code equal to it is the held one, bound for release, and reported once to the
    decode callback. Holds in every dispatcher state: first key, different key of the same or another
    protocol, same key again after its release. -/
theorem C11 {σ} (D : Decoders σ) (x : Frame) (f : Nat) (acc : Nat → Option Nat)
    (hp : PureOn D x f acc) (st : St σ)
    (hnotrep : ∀ lc, st.last = some lc → lc.dec ∈ possible D st.ds f → D.eqTimings st.ds lc x = false)
    (hacc : ∃ i ∈ possible D st.ds f, (acc i).isSome) :
    ∃ c st' o, decode D st x f = (some c, st', o) ∧ Reported D st x f acc c st' o := by
  obtain ⟨c, st', o, h, rest⟩ := C11_inner D x f acc hp st hnotrep hacc
  refine ⟨c, st', o, ?_, rest⟩
  unfold decode
  rw [h]

/-- invariant of the repaired dispatcher: a held code is always bound for release -/
def Inv {σ} (st : St σ) : Prop := st.last ≠ none → st.bound = true

theorem scan_inv {σ} (D : Decoders σ) (x : Frame) (f : Nat) :
    ∀ (l : List Nat) (st : St σ), Inv st → Inv (scan D x f l st).2.1 := by
  intro l
  induction l with
  | nil => intro st h; simpa [scan] using h
  | cons i rest ih =>
    intro st h
    unfold scan
    split
    · intro _; rfl
    · split
      · intro _; rfl
      · exact ih _ h
      all_goals exact h

theorem decodeInner_inv {σ} (D : Decoders σ) (st : St σ) (x : Frame) (f : Nat) (h : Inv st) :
    Inv (decodeInner D st x f).2.1 := by
  unfold decodeInner
  simp only []
  split
  · split
    · exact h
    · split
      · split
        · intro _; rfl
        · exact h
      · exact scan_inv D x f _ _ h
      all_goals exact h
  · split
    · split
      · split
        · split
          · intro _; rfl
          · exact h
        · intro _; rfl
      · exact scan_inv D x f _ _ h
      · split
        · exact h
        · exact scan_inv D x f _ _ h
      all_goals exact h
    · exact scan_inv D x f _ _ h

/-- **C11, same key again after release**: once the held code has been released the dispatcher
    holds nothing, so by `C11` (its `hnotrep` premise is then vacuous) the next press is reported. -/
theorem release_clears {σ} (st : St σ) (h : Inv st) (c l : Code) (hl : st.last = some l)
    (hs : c.same l = true) : (release st c).last = none := by
  have hb : st.bound = true := h (by rw [hl]; simp)
  simp [release, hl, hb, hs]

/-! ### the pinned (pre-fix) last-decoder path, and its counter-example -/

/-- what the pinned code did on the last-decoder path after a successful decode: `return True`
    (mapped to `None`), no release binding -/
def lastDecPathPinned {σ} (D : Decoders σ) (st : St σ) (j : Nat) (x : Frame) (f : Nat) :
    Option Code × St σ :=
  match D.decode j st.ds x f with
  | (.ok c, ds) => (none, { st with last := some c, ds := ds })
  | (_, ds) => (none, { st with ds := ds })

/-- witness: key B after key A of the same protocol was released returned `None` -/
theorem pinned_defect :
    (lastDecPathPinned demo ⟨none, some 1, false, ()⟩ 1 [1, -1] 38000).1 = none ∧
    (decode demo ⟨none, some 1, false, ()⟩ [1, -1] 38000).1 = some ⟨1, 7, 0⟩ := by decide

/-- non-vacuity of `C11`'s premises on the demo decoders -/
example : PureOn demo [1, -1] 38000 (fun i => if i == 1 then some 7 else none) :=
  ⟨fun i s => ⟨s, by
      by_cases h : i = 1
      · subst h; exact ⟨0, rfl⟩
      · simp [h, demo]⟩,
   fun _ _ => rfl⟩

end IRModel.Props.C11
