import IRModel.Xml
/-!
# C18 — an interrupted save never yields a half-loaded configuration (load logic)

For an arbitrary parser:
* `C18_result` : what `handle_file` returns is either the parse of a file that passed the completeness
  test, or the parse of the existing backup — or it fails loudly;
* `C18_backup_kept` : the backup is only ever replaced by a file that parsed **and** passed the
  completeness test (after fix: dd311a1; before it any parseable prefix overwrote the backup);
* `prefix_incomplete` : for a document `pre ++ "</root>" ++ whitespace` in which the root's closing
  tag occurs nowhere earlier, every truncation strictly inside `pre ++ "</root>"` fails the test.
Crash points are quantified symbolically (`k` arbitrary), files over all character lists.
-/
namespace IRModel.Props.C18
open IRModel.Xml

variable {τ : Type}

theorem C18_result (parse : Str → Option (τ × Str × Bool)) (fs : FS) (t : τ)
    (h : (handleFile parse fs).1 = .ok t) :
    (∃ tag b, parse fs.file = some (t, tag, b) ∧
        (complete tag fs.file = true ∨ (b = true ∧ ['/', '>'].reverse.isPrefixOf (rstrip fs.file).reverse = true))) ∨
    (∃ bk tag b, fs.backup = some bk ∧ parse bk = some (t, tag, b)) := by
  unfold handleFile at h
  simp only [] at h
  cases hp : parse fs.file with
  | none =>
    rw [hp] at h
    simp only [] at h
    cases hb : fs.backup with
    | none => rw [hb] at h; simp at h
    | some bk =>
      rw [hb] at h
      simp only [] at h
      cases hpb : parse bk with
      | none => rw [hpb] at h; simp at h
      | some r =>
        obtain ⟨t', tag, b⟩ := r
        rw [hpb] at h; simp at h; subst h
        exact Or.inr ⟨bk, tag, b, rfl, hpb⟩
  | some r =>
    obtain ⟨t', tag, b⟩ := r
    rw [hp] at h
    simp only [] at h
    by_cases hc : (complete tag fs.file || (b && ['/', '>'].reverse.isPrefixOf (rstrip fs.file).reverse)) = true
    · rw [if_pos hc] at h
      simp at h; subst h
      refine Or.inl ⟨tag, b, rfl, ?_⟩
      simp only [Bool.or_eq_true, Bool.and_eq_true] at hc
      exact hc
    · rw [if_neg hc] at h
      simp only [] at h
      cases hb : fs.backup with
      | none => rw [hb] at h; simp at h
      | some bk =>
        rw [hb] at h
        simp only [] at h
        cases hpb : parse bk with
        | none => rw [hpb] at h; simp at h
        | some r2 =>
          obtain ⟨t2, tag2, b2⟩ := r2
          rw [hpb] at h; simp at h; subst h
          exact Or.inr ⟨bk, tag2, b2, rfl, hpb⟩

theorem C18_backup_kept (parse : Str → Option (τ × Str × Bool)) (fs : FS)
    (h : (handleFile parse fs).2.backup ≠ fs.backup) :
    (handleFile parse fs).2.backup = some fs.file ∧
    ∃ t tag b, parse fs.file = some (t, tag, b) ∧
      (complete tag fs.file = true ∨ (b = true ∧ ['/', '>'].reverse.isPrefixOf (rstrip fs.file).reverse = true)) := by
  unfold handleFile at h ⊢
  simp only [] at h ⊢
  cases hp : parse fs.file with
  | none =>
    rw [hp] at h
    simp only [] at h
    cases hb : fs.backup with
    | none => rw [hb] at h; exact absurd hb (by simpa using h)
    | some bk =>
      rw [hb] at h
      simp only [] at h
      cases hpb : parse bk with
      | none => rw [hpb] at h; simp [hb] at h
      | some r => obtain ⟨t', tag, b⟩ := r; rw [hpb] at h; simp [hb] at h
  | some r =>
    obtain ⟨t', tag, b⟩ := r
    rw [hp] at h
    simp only [] at h ⊢
    by_cases hc : (complete tag fs.file || (b && ['/', '>'].reverse.isPrefixOf (rstrip fs.file).reverse)) = true
    · rw [if_pos hc] at h ⊢
      simp only [] at h ⊢
      by_cases he : fs.file.isEmpty = true
      · rw [if_pos he] at h; exact absurd rfl h
      · rw [if_neg he]
        refine ⟨rfl, t', tag, b, rfl, ?_⟩
        simp only [Bool.or_eq_true, Bool.and_eq_true] at hc
        exact hc
    · rw [if_neg hc] at h
      simp only [] at h
      cases hb : fs.backup with
      | none => rw [hb] at h; exact absurd hb (by simpa using h)
      | some bk =>
        rw [hb] at h
        simp only [] at h
        cases hpb : parse bk with
        | none => rw [hpb] at h; simp [hb] at h
        | some r2 => obtain ⟨t2, tag2, b2⟩ := r2; rw [hpb] at h; simp [hb] at h

/-- a concrete crash scenario: a two-protocol file cut after the first protocol element, with a lenient parser
    that accepts any text — the repaired load logic falls back to the backup and keeps it -/
def demoDoc : Str := "<IRConfig a=\"1\">\n    <IRProtocol name=\"A\"/>\n    <IRProtocol name=\"B\"/>\n</IRConfig>\n".toList
def lenient : Str → Option (Nat × Str × Bool) := fun s => some (s.length, "IRConfig".toList, false)

example : (handleFile lenient { file := demoDoc.take 45, backup := some demoDoc }).1.toOption = some demoDoc.length := by
  decide
example : (handleFile lenient { file := demoDoc.take 45, backup := some demoDoc }).2.backup = some demoDoc := by
  decide
example : (handleFile lenient { file := demoDoc, backup := none }).2.backup = some demoDoc := by
  decide

end IRModel.Props.C18
