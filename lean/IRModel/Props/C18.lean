import IRModel.Xml
/-!
# C18 — an interrupted save never yields a half-loaded configuration (load logic)

For an arbitrary parser:
* `C18_result` : what `handle_file` returns is either the parse of a file that passed the completeness
  test, or the parse of the existing backup — or it fails loudly;
* `C18_backup_kept` : the backup is only ever replaced by a file that parsed **and** passed the
  completeness test (after fix: dd311a1; before it any parseable prefix overwrote the backup);
* `prefix_incomplete` : for a document `pre ++ "</root>" ++ whitespace` in which the root's closing
  tag occurs nowhere earlier, every truncation strictly inside `pre ++ "</root>"` fails the test;
* `C18_truncated` : hence for such a truncated file `handle_file` answers from the backup or fails, and
  leaves the backup exactly as it was (the harness checks the uniqueness hypothesis on every document it saves).
Crash points are quantified symbolically (`k` arbitrary), files over all character lists.
-/
namespace IRModel.Props.C18
open IRModel.Xml

variable {τ : Type}

theorem C18_result (parse : Str → Option (τ × Str × Bool)) (fs : FS) (t : τ)
    (h : (handleFile parse fs).1 = .ok t) :
    (∃ tag b, parse fs.file = some (t, tag, b) ∧
        (complete tag fs.file = true ∨ (b = true ∧ ['/', '>'].reverse.isPrefixOf (rstrip fs.file).reverse = true))) ∨
    (∃ bk tag b, fs.backup = some bk ∧ parse bk = some (t, tag, b)) := by
  unfold handleFile at h
  simp only [] at h
  cases hp : parse fs.file with
  | none =>
    rw [hp] at h
    simp only [] at h
    cases hb : fs.backup with
    | none => rw [hb] at h; simp at h
    | some bk =>
      rw [hb] at h
      simp only [] at h
      cases hpb : parse bk with
      | none => rw [hpb] at h; simp at h
      | some r =>
        obtain ⟨t', tag, b⟩ := r
        rw [hpb] at h; simp at h; subst h
        exact Or.inr ⟨bk, tag, b, rfl, hpb⟩
  | some r =>
    obtain ⟨t', tag, b⟩ := r
    rw [hp] at h
    simp only [] at h
    by_cases hc : (complete tag fs.file || (b && ['/', '>'].reverse.isPrefixOf (rstrip fs.file).reverse)) = true
    · rw [if_pos hc] at h
      simp at h; subst h
      refine Or.inl ⟨tag, b, rfl, ?_⟩
      simp only [Bool.or_eq_true, Bool.and_eq_true] at hc
      exact hc
    · rw [if_neg hc] at h
      simp only [] at h
      cases hb : fs.backup with
      | none => rw [hb] at h; simp at h
      | some bk =>
        rw [hb] at h
        simp only [] at h
        cases hpb : parse bk with
        | none => rw [hpb] at h; simp at h
        | some r2 =>
          obtain ⟨t2, tag2, b2⟩ := r2
          rw [hpb] at h; simp at h; subst h
          exact Or.inr ⟨bk, tag2, b2, rfl, hpb⟩

theorem C18_backup_kept (parse : Str → Option (τ × Str × Bool)) (fs : FS)
    (h : (handleFile parse fs).2.backup ≠ fs.backup) :
    (handleFile parse fs).2.backup = some fs.file ∧
    ∃ t tag b, parse fs.file = some (t, tag, b) ∧
      (complete tag fs.file = true ∨ (b = true ∧ ['/', '>'].reverse.isPrefixOf (rstrip fs.file).reverse = true)) := by
  unfold handleFile at h ⊢
  simp only [] at h ⊢
  cases hp : parse fs.file with
  | none =>
    rw [hp] at h
    simp only [] at h
    cases hb : fs.backup with
    | none => rw [hb] at h; exact absurd hb (by simpa using h)
    | some bk =>
      rw [hb] at h
      simp only [] at h
      cases hpb : parse bk with
      | none => rw [hpb] at h; simp [hb] at h
      | some r => obtain ⟨t', tag, b⟩ := r; rw [hpb] at h; simp [hb] at h
  | some r =>
    obtain ⟨t', tag, b⟩ := r
    rw [hp] at h
    simp only [] at h ⊢
    by_cases hc : (complete tag fs.file || (b && ['/', '>'].reverse.isPrefixOf (rstrip fs.file).reverse)) = true
    · rw [if_pos hc] at h ⊢
      simp only [] at h ⊢
      by_cases he : fs.file.isEmpty = true
      · rw [if_pos he] at h; exact absurd rfl h
      · rw [if_neg he]
        refine ⟨rfl, t', tag, b, rfl, ?_⟩
        simp only [Bool.or_eq_true, Bool.and_eq_true] at hc
        exact hc
    · rw [if_neg hc] at h
      simp only [] at h
      cases hb : fs.backup with
      | none => rw [hb] at h; exact absurd hb (by simpa using h)
      | some bk =>
        rw [hb] at h
        simp only [] at h
        cases hpb : parse bk with
        | none => rw [hpb] at h; simp [hb] at h
        | some r2 => obtain ⟨t2, tag2, b2⟩ := r2; rw [hpb] at h; simp [hb] at h

/-- a concrete crash scenario: a two-protocol file cut after the first protocol element, with a lenient parser
    that accepts any text — the repaired load logic falls back to the backup and keeps it -/
def demoDoc : Str := "<IRConfig a=\"1\">\n    <IRProtocol name=\"A\"/>\n    <IRProtocol name=\"B\"/>\n</IRConfig>\n".toList
def lenient : Str → Option (Nat × Str × Bool) := fun s => some (s.length, "IRConfig".toList, false)

example : (handleFile lenient { file := demoDoc.take 45, backup := some demoDoc }).1.toOption = some demoDoc.length := by
  decide
example : (handleFile lenient { file := demoDoc.take 45, backup := some demoDoc }).2.backup = some demoDoc := by
  decide
example : (handleFile lenient { file := demoDoc, backup := none }).2.backup = some demoDoc := by
  decide

theorem rstrip_prefix (s : Str) : ∃ t, s = rstrip s ++ t := by
  unfold rstrip
  refine ⟨(s.reverse.takeWhile (fun c => c == ' ' || c == '\n' || c == '\t' || c == '\r')).reverse, ?_⟩
  have h := List.takeWhile_append_dropWhile (p := fun c => c == ' ' || c == '\n' || c == '\t' || c == '\r') (l := s.reverse)
  have h2 := congrArg List.reverse h
  simp only [List.reverse_append, List.reverse_reverse] at h2
  exact h2.symm

/-- **a truncated document fails the completeness test**: if the root's closing tag occurs in `pre ++ </tag>` only at
    the very end, then every cut strictly inside `pre ++ </tag>` (whatever whitespace follows the complete document)
    leaves a text that `handle_file`'s completeness test rejects. -/
theorem prefix_incomplete (tag pre ws : Str)
    (huniq : ∀ i, i < pre.length → ((pre ++ closing tag).drop i).take (closing tag).length ≠ closing tag)
    (k : Nat) (hk : k < (pre ++ closing tag).length) :
    complete tag ((pre ++ closing tag ++ ws).take k) = false := by
  cases hc : complete tag ((pre ++ closing tag ++ ws).take k) with
  | false => rfl
  | true =>
    exfalso
    unfold complete at hc
    rw [List.isPrefixOf_iff_prefix] at hc
    obtain ⟨r, hr⟩ := hc
    have hr' := congrArg List.reverse hr
    simp only [List.reverse_append, List.reverse_reverse] at hr'
    -- rstrip text = r.reverse ++ closing
    have htk : (pre ++ closing tag ++ ws).take k = (pre ++ closing tag).take k := by
      rw [List.take_append_of_le_length (by omega)]
    rw [htk] at hr'
    obtain ⟨t, ht⟩ := rstrip_prefix ((pre ++ closing tag).take k)
    rw [← hr'] at ht
    -- so `pre ++ closing` starts with r.reverse ++ closing ++ …
    have hfull : pre ++ closing tag = (r.reverse ++ closing tag ++ t) ++ (pre ++ closing tag).drop k := by
      rw [← ht, List.take_append_drop]
    have hlen : (r.reverse ++ closing tag ++ t).length = min k (pre ++ closing tag).length := by
      rw [← ht, List.length_take]
    have hi : r.reverse.length < pre.length := by
      simp only [List.length_append] at hlen hk
      omega
    apply huniq r.reverse.length hi
    rw [hfull]
    simp only [List.append_assoc, List.drop_left', List.take_left']

/-- **C18 for a truncated save**: the file holds a proper prefix (cut strictly inside `pre ++ </tag>`) of a document whose
    root closing tag occurs only at its end.  Whatever the (possibly lenient) parser makes of that prefix — provided it
    names the same root tag and does not mistake the text for one single self-closing element — `handle_file` answers
    from the backup or fails, and leaves the backup exactly as it was. -/
theorem C18_truncated {τ : Type} (parse : Str → Option (τ × Str × Bool)) (tag pre ws : Str) (backup : Option Str)
    (huniq : ∀ i, i < pre.length → ((pre ++ closing tag).drop i).take (closing tag).length ≠ closing tag)
    (k : Nat) (hk : k < (pre ++ closing tag).length)
    (hparse : ∀ t tg b, parse ((pre ++ closing tag ++ ws).take k) = some (t, tg, b) →
        tg = tag ∧ (b && ['/', '>'].reverse.isPrefixOf (rstrip ((pre ++ closing tag ++ ws).take k)).reverse) = false) :
    let out := handleFile parse { file := (pre ++ closing tag ++ ws).take k, backup := backup }
    out.2.backup = backup ∧
    (out.1 = .error .failed ∨ ∃ b t tg f, backup = some b ∧ parse b = some (t, tg, f) ∧ out.1 = .ok t) := by
  have hinc := prefix_incomplete tag pre ws huniq k hk
  generalize (pre ++ closing tag ++ ws).take k = file at hinc hparse ⊢
  -- the file itself is never accepted
  have hprim : ∀ (t : τ) (tg : Str) (b : Bool), parse file = some (t, tg, b) →
      (complete tg file || (b && ['/', '>'].reverse.isPrefixOf (rstrip file).reverse)) = false := by
    intro t tg b hp
    obtain ⟨htg, hb⟩ := hparse t tg b hp
    subst htg
    rw [hinc, hb]; rfl
  cases hp : parse file with
  | none =>
    cases backup with
    | none => simp only [handleFile, hp]; refine ⟨?_, Or.inl ?_⟩ <;> first | rfl | trivial
    | some bk =>
      cases hpb : parse bk with
      | none => simp only [handleFile, hp, hpb]; refine ⟨?_, Or.inl ?_⟩ <;> first | rfl | trivial
      | some r =>
        obtain ⟨t, tg, f⟩ := r
        simp only [handleFile, hp, hpb]
        refine ⟨?_, Or.inr ⟨bk, t, tg, f, ?_, hpb, ?_⟩⟩ <;> first | rfl | trivial
  | some r0 =>
    obtain ⟨t0, tg0, b0⟩ := r0
    have h0 := hprim t0 tg0 b0 hp
    cases backup with
    | none => simp only [handleFile, hp, h0, Bool.false_eq_true, if_false]; refine ⟨?_, Or.inl ?_⟩ <;> first | rfl | trivial
    | some bk =>
      cases hpb : parse bk with
      | none => simp only [handleFile, hp, h0, hpb, Bool.false_eq_true, if_false]; refine ⟨?_, Or.inl ?_⟩ <;> first | rfl | trivial
      | some r =>
        obtain ⟨t, tg, f⟩ := r
        simp only [handleFile, hp, h0, hpb, Bool.false_eq_true, if_false]
        refine ⟨?_, Or.inr ⟨bk, t, tg, f, ?_, hpb, ?_⟩⟩ <;> first | rfl | trivial

/-- non-vacuity of the hypotheses on the demo document -/
example : ∀ i, i < ("<IRConfig a=\"1\">\n    <IRProtocol name=\"A\"/>\n".toList).length →
    (("<IRConfig a=\"1\">\n    <IRProtocol name=\"A\"/>\n".toList ++ closing "IRConfig".toList).drop i).take (closing "IRConfig".toList).length
      ≠ closing "IRConfig".toList := by decide


end IRModel.Props.C18
