import IRModel.Manchester
import IRModel.Props.C08
import IRModel.Lemmas.EngineLemmas
/-!
# The Manchester path of `CodeWrapper` (tables without middle timings)

* `parseWithM_lib` — C08 for this path: whatever the tables, tolerance and input, the constructor returns or raises a
  library error (no `IndexError`/`TypeError` can leave the modelled code).
* `manchAll_compress` — the heart of bi-phase decoding: for ANY sequence of half bits `±u` in which no three consecutive
  half bits have the same sign (every sequence of Manchester symbols `(+u,−u)`, `(−u,+u)` is one), merging neighbours of
  equal sign (`compress`, what the air and `_build_packet` do) and then running the decoder's main loop returns exactly
  the half bits — provided the tolerance separates `u` from `2u`.
-/
namespace IRModel.Props.Manchester
open IRModel IRModel.Py IRModel.Match IRModel.Bits IRModel.CodeWrapper IRModel.Manchester IRModel.Props.C08

/-- the tolerance tells one half bit from two merged ones, and marks from spaces (decidable, per table) -/
def sepM (tol : Tol) (m s : Int) : Bool :=
  isMatch tol m m && !isMatch tol s m && isMatch tol s s &&
  !isMatch tol (m * 2) m && !isMatch tol (m * 2) s && isMatch tol (m * 2) (m * 2) &&
  !isMatch tol (s * 2) m && !isMatch tol (s * 2) s && !isMatch tol (s * 2) (m * 2) && isMatch tol (s * 2) (s * 2)

theorem manchOne_facts {tol : Tol} {m s : Int} (h : sepM tol m s = true) :
    manchOne tol m s m = some [m] ∧ manchOne tol m s s = some [s] ∧
    manchOne tol m s (m + m) = some [m, m] ∧ manchOne tol m s (s + s) = some [s, s] := by
  simp only [sepM, Bool.and_eq_true, Bool.not_eq_true'] at h
  obtain ⟨⟨⟨⟨⟨⟨⟨⟨⟨h1, h2⟩, h3⟩, h4⟩, h5⟩, h6⟩, h7⟩, h8⟩, h9⟩, h10⟩ := h
  have em : m + m = m * 2 := by omega
  have es : s + s = s * 2 := by omega
  refine ⟨?_, ?_, ?_, ?_⟩
  · simp [manchOne, h1]
  · simp [manchOne, h2, h3]
  · rw [em]; simp [manchOne, h4, h5, h6]
  · rw [es]; simp [manchOne, h7, h8, h9, h10]

def NoTriple : List Int → Prop
  | a :: b :: c :: t => ¬ (a = b ∧ b = c) ∧ NoTriple (b :: c :: t)
  | _ => True

theorem NoTriple.tail {a : Int} {t : List Int} (h : NoTriple (a :: t)) : NoTriple t := by
  match t, h with
  | [], _ => trivial
  | [_], _ => trivial
  | _ :: _ :: _, h => exact h.2

/-- merged half bits are told apart again -/
theorem manchAll_compress (tol : Tol) (m s : Int) (hsep : sepM tol m s = true)
    (hopp : (m > 0 ∧ s < 0) ∨ (m < 0 ∧ s > 0)) :
    ∀ (hb : List Int), (∀ x ∈ hb, x = m ∨ x = s) → NoTriple hb →
      manchAll tol m s (compress hb) = .ok hb ∧
      (match hb with
       | [] => compress hb = []
       | a :: t => ∃ ys, (compress hb = a :: ys ∧ (∀ b t', t = b :: t' → b ≠ a)) ∨
                         (∃ t', t = a :: t' ∧ compress hb = (a + a) :: ys)) := by
  obtain ⟨om, os, omm, oss⟩ := manchOne_facts hsep
  have one : ∀ a, (a = m ∨ a = s) → manchOne tol m s a = some [a] ∧ manchOne tol m s (a + a) = some [a, a] := by
    intro a ha; rcases ha with rfl | rfl
    · exact ⟨om, omm⟩
    · exact ⟨os, oss⟩
  have sgn : ∀ a b, (a = m ∨ a = s) → (b = m ∨ b = s) → (((a > 0 ∧ b > 0) ∨ (a < 0 ∧ b < 0)) ↔ a = b) := by
    intro a b ha hb
    rcases ha with rfl | rfl <;> rcases hb with rfl | rfl <;> constructor <;> intro h <;> omega
  intro hb
  induction hb with
  | nil => intro _ _; exact ⟨by simp [compress, manchAll], by simp [compress]⟩
  | cons x rest ih =>
    intro hel hnt
    have hx := hel x (by simp)
    have helr : ∀ y ∈ rest, y = m ∨ y = s := fun y hy => hel y (by simp [hy])
    obtain ⟨ihA, ihH⟩ := ih helr hnt.tail
    cases rest with
    | nil =>
      simp only [compress, manchAll, (one x hx).1, Except.map]
      exact ⟨by simp, ⟨[], Or.inl ⟨rfl, by intro b t' h; cases h⟩⟩⟩
    | cons a rest' =>
      have ha := hel a (by simp)
      obtain ⟨ys, hcase⟩ := ihH
      rcases hcase with ⟨hc, hnext⟩ | ⟨t', ht', hc⟩
      · -- the tail starts with a single `a`
        have hA : manchAll tol m s (a :: ys) = .ok (a :: rest') := by rw [← hc]; exact ihA
        have hys : manchAll tol m s ys = .ok rest' := by
          simp only [manchAll, (one a ha).1] at hA
          cases hr : manchAll tol m s ys with
          | error e => rw [hr] at hA; simp [Except.map] at hA
          | ok v => rw [hr] at hA; simp [Except.map] at hA; rw [hA]
        by_cases e : x = a
        · subst e
          have hcmp : compress (x :: x :: rest') = (x + x) :: ys := by
            rw [compress, hc]
            have := (sgn x x hx hx).mpr rfl
            simp only [this, if_true]
          refine ⟨?_, ⟨ys, Or.inr ⟨rest', rfl, hcmp⟩⟩⟩
          rw [hcmp]
          simp only [manchAll, (one x hx).2, hys, Except.map]
          simp
        · have hns : ¬ ((x > 0 ∧ a > 0) ∨ (x < 0 ∧ a < 0)) := fun h => e ((sgn x a hx ha).mp h)
          have hcmp : compress (x :: a :: rest') = x :: a :: ys := by
            rw [compress, hc]; simp only [hns, if_false]
          refine ⟨?_, ⟨a :: ys, Or.inl ⟨hcmp, by intro b t' h; injection h with h1 _; subst h1; exact fun h => e h.symm⟩⟩⟩
          rw [hcmp]
          simp only [manchAll, (one x hx).1, (one a ha).1, hys, Except.map]
          simp
      · -- the tail starts with a merged pair `a a`
        subst ht'
        have hxa : x ≠ a := by
          intro e; subst e
          exact hnt.1 ⟨rfl, rfl⟩
        have hns : ¬ ((x > 0 ∧ a + a > 0) ∨ (x < 0 ∧ a + a < 0)) := by
          intro h
          apply hxa
          apply (sgn x a hx ha).mp
          rcases h with ⟨h1, h2⟩ | ⟨h1, h2⟩
          · left; exact ⟨h1, by omega⟩
          · right; exact ⟨h1, by omega⟩
        have hcmp : compress (x :: a :: a :: t') = x :: (a + a) :: ys := by
          rw [compress, hc]; simp only [hns, if_false]
        refine ⟨?_, ⟨(a + a) :: ys, Or.inl ⟨hcmp, by intro b t'' h; injection h with h1 _; subst h1; exact fun h => hxa h.symm⟩⟩⟩
        rw [hcmp]
        have hA : manchAll tol m s ((a + a) :: ys) = .ok (a :: a :: t') := by rw [← hc]; exact ihA
        simp only [manchAll, (one x hx).1] at hA ⊢
        rw [hA]; simp [Except.map]


/-- a two-symbol bi-phase table: the symbols are `(m, s)` and `(s, m)` with marks and spaces of opposite sign -/
def manchTable (bursts : List (Int × Int)) (m s : Int) : Prop :=
  bursts = [(m, s), (s, m)] ∧ ((m > 0 ∧ s < 0) ∨ (m < 0 ∧ s > 0))

theorem symTimings_two (m s : Int) : ∀ (idx : List Nat), (∀ i ∈ idx, i < 2) →
    (∀ x ∈ Engine.symTimings [(m, s), (s, m)] idx, x = m ∨ x = s) ∧
    (m ≠ s → NoTriple (Engine.symTimings [(m, s), (s, m)] idx)) ∧
    (∀ i idx', idx = i :: idx' → ∃ a b rest, Engine.symTimings [(m, s), (s, m)] idx = a :: b :: rest ∧ (m ≠ s → a ≠ b)) := by
  intro idx
  induction idx with
  | nil => intro _; exact ⟨by simp [Engine.symTimings], fun _ => trivial, by intro i idx' h; cases h⟩
  | cons i idx ih =>
    intro h
    obtain ⟨ih1, ih2, ih3⟩ := ih (fun j hj => h j (by simp [hj]))
    have hi : i < 2 := h i (by simp)
    have hsym : Engine.symTimings [(m, s), (s, m)] (i :: idx) =
        (if i = 0 then [m, s] else [s, m]) ++ Engine.symTimings [(m, s), (s, m)] idx := by
      simp only [Engine.symTimings, List.flatMap_cons]
      congr 1
      rcases Nat.lt_or_ge i 1 with h0 | h1
      · have : i = 0 := by omega
        subst this; rfl
      · have : i = 1 := by omega
        subst this; rfl
    refine ⟨?_, ?_, ?_⟩
    · intro x hx
      rw [hsym] at hx
      rcases List.mem_append.mp hx with hx | hx
      · split at hx <;> simp at hx <;> omega
      · exact ih1 x hx
    · intro hne
      rw [hsym]
      have hnt := ih2 hne
      cases idx with
      | nil => split <;> simp [Engine.symTimings, NoTriple]
      | cons j idx' =>
        obtain ⟨a, b, rest, hr, hab⟩ := ih3 j idx' rfl
        rw [hr] at hnt ⊢
        have hab' := hab hne
        split
        · exact ⟨fun hh => hne hh.1, ⟨fun hh => hab' hh.2, hnt⟩⟩
        · exact ⟨fun hh => hne hh.1.symm, ⟨fun hh => hab' hh.2, hnt⟩⟩
    · intro i' idx' _
      rw [hsym]
      split
      · exact ⟨m, s, _, rfl, id⟩
      · exact ⟨s, m, _, rfl, fun h e => h e.symm⟩

/-- **the data section of a bi-phase frame round-trips**: for every sequence of symbols of a two-symbol Manchester
    table, the durations on the air (neighbours of equal sign merged) are decoded by the Manchester main loop back
    into the half bits, which pair up into exactly the symbols sent, i.e. into exactly the bits sent -/
theorem manch_data_roundtrip (tol : Tol) (bursts : List (Int × Int)) (m s : Int) (ht : manchTable bursts m s)
    (hsep : sepM tol m s = true) (idx : List Nat) (hidx : ∀ i ∈ idx, i < 2) :
    manchAll tol m s (compress (Engine.symTimings bursts idx)) = .ok (Engine.symTimings bursts idx) ∧
    pairsToBits bursts (pairUp (Engine.symTimings bursts idx)) = .ok (idx.flatMap (idxToBits 2), []) := by
  obtain ⟨hb, hopp⟩ := ht
  subst hb
  have hne : m ≠ s := by omega
  obtain ⟨h1, h2, _⟩ := symTimings_two m s idx hidx
  refine ⟨(manchAll_compress tol m s hsep hopp _ h1 (h2 hne)).1, ?_⟩
  have hlen : ∀ i ∈ idx, i < [(m, s), (s, m)].length := by simpa using hidx
  rw [Engine.pairUp_syms _ idx hlen]
  have hd : Engine.distinctSyms [(m, s), (s, m)] = true := by
    unfold Engine.distinctSyms
    simp [List.range_succ, List.findIdx?_cons]
    intro h; exact absurd h hne
  have := Engine.pairsToBits_syms _ hd idx hlen
  simpa using this

/-- the decidable per-table obligation: a two-symbol bi-phase table on the modelled path whose tolerance separates one
    half bit from two -/
def manchOK (t : Tables) (tol : Tol) : Bool :=
  supportedM t &&
  (match t.bursts with
   | [(m, s), (s', m')] => (s' == s) && (m' == m) && ((decide (m > 0) && decide (s < 0)) || (decide (m < 0) && decide (s > 0))) && sepM tol m s
   | _ => false)

/-- for a table that meets `manchOK`, the data section of every frame round-trips through the Manchester main loop -/
theorem manch_data_roundtrip_ok (t : Tables) (tol : Tol) (h : manchOK t tol = true) (idx : List Nat) (hidx : ∀ i ∈ idx, i < 2) :
    manchAll tol (t.bursts.headD (0, 0)).1 (t.bursts.headD (0, 0)).2 (compress (Engine.symTimings t.bursts idx)) =
      .ok (Engine.symTimings t.bursts idx) ∧
    pairsToBits t.bursts (pairUp (Engine.symTimings t.bursts idx)) = .ok (idx.flatMap (idxToBits 2), []) := by
  unfold manchOK at h
  simp only [Bool.and_eq_true] at h
  obtain ⟨_, h⟩ := h
  split at h
  · rename_i hb
    simp only [Bool.and_eq_true, beq_iff_eq, Bool.or_eq_true, decide_eq_true_eq] at h
    obtain ⟨⟨⟨e1, e2⟩, hopp⟩, hsep⟩ := h
    rw [hb, e1, e2]
    exact manch_data_roundtrip tol _ _ _ ⟨rfl, hopp⟩ hsep idx hidx
  · cases h

/-- the statement of `manch_data_roundtrip_ok` about one table -/
def ManchData (t : Tables) (tol : Tol) : Prop :=
  ∀ (idx : List Nat), (∀ i ∈ idx, i < 2) →
    manchAll tol (t.bursts.headD (0, 0)).1 (t.bursts.headD (0, 0)).2 (compress (Engine.symTimings t.bursts idx)) =
      .ok (Engine.symTimings t.bursts idx) ∧
    pairsToBits t.bursts (pairUp (Engine.symTimings t.bursts idx)) = .ok (idx.flatMap (idxToBits 2), [])

theorem manchData_of_ok (t : Tables) (tol : Tol) (h : manchOK t tol = true) : ManchData t tol :=
  fun idx hidx => manch_data_roundtrip_ok t tol h idx hidx

/-- non-vacuity: RC5's table at 20 % -/
example : sepM ⟨20, 1⟩ 889 (-889) = true ∧ sepM ⟨5, 1⟩ (-444) 444 = true := by decide +kernel

end IRModel.Props.Manchester
