import IRModel.Irp
import IRModel.Props.EngineThm
/-!
# C02 — emitted frames match the protocol's own IRP specification

`C02_first_frame` (below) is the part of C02 that is proved for every input: for a class-A protocol (the
82 protocols whose `wfAll` obligation the kernel checks) whose IRP string has the plain shape of
`IRModel/Irp.lean` and whose tables `agree` with it (one generated, kernel-checked obligation per
protocol: `IRGen/Irp.lean`), the first frame `_build_packet` emits equals the specified signal duration for
duration for **every** value of every bit field.  `C02_frequency` is the carrier clause.

The repeat ("ditto") frame: for the protocols whose string ends in a plain ditto sub-stream `,(d,…,gap|^E)*`
the generated obligation `irp_ditto_P` is itself the statement (there is no quantifier: the frame is a
constant) — the frame `_build_repeat_packet` builds from the class tables (`Encode.buildRepeatFrame`) is the
specified one, duration for duration within 1 µs, total time equal to the extent; `irp_ditto_print_P` ties the
parsed ditto to the source string.

Not covered by the theorem, decided by the search against `tools/irp.py` only (C02_partial): which expression
the encoder puts into each field (complements, checksums), the repeat frames and `repeat_count`, protocols
with 4/16-symbol or biphase bit specs, toggles, variations and nested bit specs.
-/
namespace IRModel.Props.C02
open IRModel IRModel.Irp IRModel.Bits IRModel.Engine IRModel.Encode IRModel.Py IRModel.Match IRModel.Props.EngineThm

theorem foldl_cons_rev {α} (l acc : List α) : l.foldl (fun a b => b :: a) acc = l.reverse ++ acc := by
  induction l generalizing acc with
  | nil => rfl
  | cons x l ih => simp [List.foldl_cons, ih]

theorem iter_eq (v n : Nat) : (IW.new v n).iter = (List.range n).map (fun i => v / 2 ^ i % 2) := by
  unfold IW.iter
  have hn : (IW.new v n).n = n := rfl
  rw [hn]
  apply List.map_congr_left
  intro i hi
  have hi' : i < n := List.mem_range.mp hi
  rw [bitAt_eq, hn]
  have hv : (IW.new v n).val = v % 2 ^ n := maskLoop_eq_mod v n
  rw [hv, Nat.testBit_mod_two_pow]
  simp only [hi', decide_true, Bool.true_and]
  exact Nat.toNat_testBit v i

theorem fieldIdx_two (t : Tables) (h2 : t.bursts.length = 2) (f : Nat × Nat) :
    fieldIdx t f = bitsOf t.order f.1 f.2 := by
  unfold fieldIdx IW.symbolIdx
  rw [h2]
  have hb : bitsPerSymbol 2 = 1 := by decide
  rw [hb]
  simp only [chunkIdx, Option.getD_some]
  unfold IW.orderedBits bitsOf
  have hp : padCount 2 (IW.new f.1 f.2).n = 0 := by simp [padCount]
  rw [hp]
  cases t.order with
  | lsb => simp [iter_eq]
  | msb =>
    simp only [List.replicate_zero, List.nil_append]
    unfold IW.bits
    rw [foldl_cons_rev, iter_eq]; simp

theorem nearL_append : ∀ (q1 : List Rat) (z1 : List Int) (q2 : List Rat) (z2 : List Int),
    nearL q1 z1 = true → nearL q2 z2 = true → nearL (q1 ++ q2) (z1 ++ z2) = true := by
  intro q1
  induction q1 with
  | nil =>
    intro z1 q2 z2 h1 h2
    cases z1 with
    | nil => simpa using h2
    | cons z zs => simp [nearL] at h1
  | cons q qs ih =>
    intro z1 q2 z2 h1 h2
    cases z1 with
    | nil => simp [nearL] at h1
    | cons z zs =>
      simp only [nearL, Bool.and_eq_true] at h1
      simp only [List.cons_append, nearL, Bool.and_eq_true]
      exact ⟨h1.1, ih zs q2 z2 h1.2 h2⟩

theorem nearL_syms (s : Skel) (b0 b1 : Int × Int)
    (h0 : nearL (symQ s 0) [b0.1, b0.2] = true) (h1 : nearL (symQ s 1) [b1.1, b1.2] = true) :
    ∀ idx : List Nat, (∀ i ∈ idx, i < 2) →
      nearL (idx.flatMap (symQ s)) (symTimings [b0, b1] idx) = true := by
  intro idx
  induction idx with
  | nil => intro _; rfl
  | cons i idx ih =>
    intro h
    have hi : i < 2 := h i (by simp)
    have ih' := ih (fun j hj => h j (by simp [hj]))
    rw [List.flatMap_cons]
    rcases (by omega : i = 0 ∨ i = 1) with rfl | rfl
    · rw [symTimings_cons [b0, b1] 0 idx b0 rfl]
      exact nearL_append _ [b0.1, b0.2] _ _ h0 ih'
    · rw [symTimings_cons [b0, b1] 1 idx b1 rfl]
      exact nearL_append _ [b1.1, b1.2] _ _ h1 ih'

/-- `_build_packet` of a class-A protocol is the explicit class-A frame (first half of `engine_roundtrip`) -/
theorem build_wfAll (t : Tables) (tol : Tol) (hw : wfAll t tol = true)
    (vals : List Nat) (hlen : vals.length = t.params.length) :
    ∃ mo x, t.leadOut = [mo, x] ∧
      buildPacket t ((fieldsOf t.params vals).map (fun f => Item.field f.1 f.2))
        = .ok (frameA t mo x ((fieldsOf t.params vals).flatMap (fieldIdx t))) ∧
      (∀ i ∈ (fieldsOf t.params vals).flatMap (fieldIdx t), i < t.bursts.length) := by
  obtain ⟨hA, hB, hT, hE, hF, hS⟩ := wfAll_spec hw
  obtain ⟨hL, hli, hb, mo, x, hlo, hmo, hx0⟩ := wfB_spec hB
  obtain ⟨fields, hfields⟩ : ∃ f, f = fieldsOf t.params vals := ⟨_, rfl⟩
  rw [← hfields]
  have hdec := fields_decode t.order t.bursts.length t.params vals 0 [] hT hlen rfl
  rw [← hfields] at hdec
  simp only [List.nil_append] at hdec
  have hidx : ∀ i ∈ fields.flatMap (fieldIdx t), i < t.bursts.length := by
    intro i hi
    obtain ⟨f, _, hf⟩ := List.mem_flatMap.mp hi
    exact (fieldIdx_spec t hL f).2 i hf
  have hbitsEq := flatMap_fields_bits t hL fields
  have hbl : ((fields.flatMap (fieldIdx t)).flatMap (idxToBits t.bursts.length)).length = t.bitCount := by
    rw [hbitsEq, hdec.2, hE]
  have hnsym : (fields.flatMap (fieldIdx t)).length = t.bitCount / bitsPerSymbol t.bursts.length := by
    have := flatMap_bits_length t.bursts.length hL (fields.flatMap (fieldIdx t))
    rw [hbl] at this
    have hk : 0 < bitsPerSymbol t.bursts.length := by
      rcases hL with h | h | h <;> rw [h] <;> decide
    rw [this, Nat.mul_div_cancel _ hk]
  have hfit : x > 0 → sumAbs (t.leadIn ++ symTimings t.bursts (fields.flatMap (fieldIdx t)) ++ [mo]) < x := by
    intro hx
    unfold fitsPeriod at hF
    rw [hlo] at hF
    simp only [hx, if_true, decide_eq_true_eq] at hF
    have hb1 := symTimings_bound t.bursts _ hidx
    rw [hnsym] at hb1
    rw [sumAbs_append, sumAbs_append, sumAbs_single]
    have : ¬ mo < 0 := by omega
    rw [if_neg this]
    omega
  obtain ⟨hbuild, _, _⟩ := build_frameA t hB mo x hlo fields hfit
  exact ⟨mo, x, hlo, hbuild, hidx⟩


theorem bits_eq (s : Skel) (t : Tables) (h2 : t.bursts.length = 2) (ho : ord s = t.order)
    (hw : widths s = t.params.map (fun p => p.2.2 + 1 - p.2.1)) (vals : List Nat) :
    (List.zipWith (fun w v => bitsOf (ord s) v w) (widths s) vals).flatten
      = (fieldsOf t.params vals).flatMap (fieldIdx t) := by
  rw [hw, ho, List.zipWith_map_left]
  unfold fieldsOf
  rw [List.flatMap_def, List.map_zipWith]
  congr 1
  apply congrArg (fun f => List.zipWith f t.params vals)
  funext p v
  rw [fieldIdx_two t h2]

/-- what `C02_first_frame` establishes for a skeleton `s` and tables `t` -/
def FirstFrameSpec (s : Skel) (t : Tables) : Prop :=
  ∀ vals : List Nat, vals.length = t.params.length →
    ∃ zpre zlast,
      buildPacket t ((fieldsOf t.params vals).map (fun f => Item.field f.1 f.2)) = .ok (zpre ++ [zlast]) ∧
      render s vals = renderPre s vals ++ [renderLast s (renderPre s vals)] ∧
      nearL (renderPre s vals) zpre = true ∧
      (match s.last with
       | .gap _ => near (renderLast s (renderPre s vals)) zlast = true
       | .extent n u => ∃ x : Int, scaled s n u = (x : Rat) ∧ x > 0 ∧ zlast = -(x - sumAbs zpre) ∧
           renderLast s (renderPre s vals) = -(scaled s n u - sumAbsQ (renderPre s vals)))

/-- **C02, first frame, every field value.**  For a class-A protocol whose tables agree with the skeleton of
    its own IRP string, `_build_packet` emits — for *every* assignment of values to the bit fields — a
    frame `zpre ++ [zlast]` such that
    * `zpre` is, duration for duration, within one microsecond of what the specification describes
      (lead-in, every bit's burst in the specified bit order, trailing mark), and
    * the final gap is the specified gap (within one microsecond), or, where the specification fixes the
      frame period by an extent `^E`, both the specified gap and the emitted one are what is left of exactly
      that period: `E − (sum of what precedes)`. -/
theorem C02_first_frame (s : Skel) (t : Tables) (tol : Tol) (hw : wfAll t tol = true)
    (ha : agree s t = true) : FirstFrameSpec s t := by
  intro vals hlen
  obtain ⟨mo, x, hlo, hbuild, hidx⟩ := build_wfAll t tol hw vals hlen
  unfold agree at ha
  simp only [Bool.and_eq_true, beq_iff_eq] at ha
  obtain ⟨⟨⟨⟨⟨hsy, hfreq⟩, hord⟩, hlead⟩, hwid⟩, hout⟩ := ha
  -- two symbols
  obtain ⟨b0, b1, hb, h0, h1⟩ : ∃ b0 b1, t.bursts = [b0, b1] ∧
      nearL (symQ s 0) [b0.1, b0.2] = true ∧ nearL (symQ s 1) [b1.1, b1.2] = true := by
    split at hsy
    · rename_i b0 b1 hb
      simp only [Bool.and_eq_true] at hsy
      exact ⟨b0, b1, hb, hsy.1, hsy.2⟩
    · simp at hsy
  have h2 : t.bursts.length = 2 := by rw [hb]; rfl
  rw [h2] at hidx
  have hbits := bits_eq s t h2 hord hwid vals
  obtain ⟨idx, hidxdef⟩ : ∃ idx, idx = (fieldsOf t.params vals).flatMap (fieldIdx t) := ⟨_, rfl⟩
  rw [← hidxdef] at hbuild hidx hbits
  refine ⟨t.leadIn ++ symTimings t.bursts idx ++ [mo], lastGap mo x (t.leadIn ++ symTimings t.bursts idx), ?_, rfl, ?_, ?_⟩
  · rw [hbuild]; unfold frameA; simp
  · -- pointwise closeness of everything before the final gap
    unfold renderPre
    rw [hbits]
    have hm : near (durVal s s.mark) mo = true := by
      rw [hlo] at hout
      cases hl : s.last with
      | gap d => rw [hl] at hout; simp only [Bool.and_eq_true] at hout; exact hout.1.1
      | extent n u => rw [hl] at hout; simp only [Bool.and_eq_true] at hout; exact hout.1.1
    apply nearL_append
    · apply nearL_append _ _ _ _ hlead
      rw [hb]
      exact nearL_syms s b0 b1 h0 h1 idx hidx
    · simp [nearL, hm]
  · rw [hlo] at hout
    cases hl : s.last with
    | gap d =>
      rw [hl] at hout
      simp only [Bool.and_eq_true, decide_eq_true_eq] at hout
      simp only [renderLast, hl]
      have hx : ¬ x > 0 := by omega
      unfold lastGap
      rw [if_neg hx]
      exact hout.1.2
    | extent n u =>
      rw [hl] at hout
      simp only [Bool.and_eq_true, decide_eq_true_eq, beq_iff_eq] at hout
      refine ⟨x, hout.2, hout.1.2, ?_, ?_⟩
      · unfold lastGap
        rw [if_pos hout.1.2]
        have : sumAbs (t.leadIn ++ symTimings t.bursts idx ++ [mo]) = sumAbs (t.leadIn ++ symTimings t.bursts idx ++ [mo]) := rfl
        omega
      · simp only [renderLast, hl]


/-- **carrier frequency**: the declared frequency equals the one in the specification -/
theorem C02_frequency (s : Skel) (t : Tables) (ha : agree s t = true) : freqHz s = (t.frequency : Rat) := by
  unfold agree at ha
  simp only [Bool.and_eq_true, beq_iff_eq] at ha
  exact ha.1.1.1.1.2

/-! ## the hypotheses are satisfiable: an NEC-like protocol -/

def demoTables : Tables :=
  { name := "demo", frequency := 38400, bitCount := 16, order := .lsb, shape := .pairs,
    leadIn := [9024, -4512], leadOut := [564, 108000],
    bursts := [(564, -564), (564, -1692)], hasMiddle := false,
    repeatLeadIn := [], repeatLeadOut := [], repeatBursts := [],
    params := [("D", 0, 7), ("F", 8, 15)], codeOrder := [("D", 8), ("F", 8)],
    encodeParams := [("device", 0, 255), ("function", 0, 255)], repeatTimeout := 108000, decodeOverridden := false }

private def nm (l : String) (a b : Nat) : Num := ⟨l.toList, a, b⟩
private def du (neg : Bool) (l : String) (a : Nat) : Dur := ⟨neg, nm l a 1, .units⟩

def demoSkel : Skel :=
  { freq := nm "38.4" 384 10, unit := nm "564" 564 1, order := some .lsb,
    sym0 := [du false "1" 1, du true "1" 1], sym1 := [du false "1" 1, du true "3" 3],
    lead := [du false "16" 16, du true "8" 8],
    fields := [⟨"D".toList, 8, []⟩, ⟨"~F".toList, 8, []⟩],
    mark := du false "1" 1, last := .extent (nm "108" 108 1) .milli,
    rest := ",(16,-4,1,^108m)*)".toList }

example : print demoSkel = "{38.4k,564,lsb}<1,-1|1,-3>(16,-8,D:8,~F:8,1,^108m,(16,-4,1,^108m)*)".toList := by decide +kernel
example : lexOk demoSkel = true ∧ agree demoSkel demoTables = true ∧ wfAll demoTables ⟨20, 1⟩ = true := by decide +kernel
/-- a changed time unit is seen by `agree` -/
example : agree { demoSkel with unit := nm "560" 560 1 } demoTables = false := by decide +kernel
/-- and so is a changed carrier -/
example : agree demoSkel { demoTables with frequency := 38000 } = false := by decide +kernel

end IRModel.Props.C02
