import IRModel.Dispatcher
/-!
# C10 — the dispatcher only uses enabled, frequency-compatible protocols

Decision logic stated outright, for an arbitrary set of decoders (any state type, any behaviour),
under the one assumption that a decoder hands out codes that name itself (`OwnCodes`; checked on the
real decoders by the correspondence/search part of the check).
-/
namespace IRModel.Props.C10
open IRModel.Dispatcher

structure OwnCodes {σ} (D : Decoders σ) : Prop where
  decode_own : ∀ i s x f c s', D.decode i s x f = (.ok c, s') → c.dec = i
  saved_own  : ∀ s i x c, D.saved s i x = some c → c.dec = i

theorem mem_possible {σ} (D : Decoders σ) (s : σ) (f i : Nat) :
    i ∈ possible D s f ↔ i < D.n ∧ D.enabled s i = true ∧ (f = 0 ∨ D.freqMatch s i f = true) := by
  simp [possible, List.mem_filter, List.mem_range, Bool.and_eq_true, Bool.or_eq_true, and_assoc]

/-- scan path: a returned code, and every callback, comes from a decoder of the list scanned -/
theorem scan_sound {σ} (D : Decoders σ) (h : OwnCodes D) (x : Frame) (f : Nat) :
    ∀ (l : List Nat) (st : St σ) (r : Ret) (st' : St σ) (o : List Out),
      scan D x f l st = (r, st', o) →
      (∀ c, r = .code c → c.dec ∈ l) ∧ (∀ c, Out.callback c ∈ o → c.dec ∈ l) := by
  intro l
  induction l with
  | nil => intro st r st' o hs; simp [scan] at hs; obtain ⟨rfl, _, rfl⟩ := hs; simp
  | cons i rest ih =>
    intro st r st' o hs
    unfold scan at hs
    split at hs
    · rename_i c hc
      have := h.saved_own _ _ _ _ hc
      simp at hs; obtain ⟨rfl, _, rfl⟩ := hs
      simp [this]
    · split at hs
      · rename_i c ds hd
        have := h.decode_own _ _ _ _ _ _ hd
        simp at hs; obtain ⟨rfl, _, rfl⟩ := hs
        simp [this]
      · have := ih _ _ _ _ hs
        exact ⟨fun c hc => List.mem_cons_of_mem _ (this.1 c hc), fun c hc => List.mem_cons_of_mem _ (this.2 c hc)⟩
      all_goals (simp at hs; obtain ⟨rfl, _, rfl⟩ := hs; simp)

/-- **C10 (inner)**: whatever `_decode` returns or reports to the decode callback was produced by a
    decoder that is in `possible_decoders` for this call. -/
theorem decodeInner_sound {σ} (D : Decoders σ) (h : OwnCodes D) (st : St σ) (x : Frame) (f : Nat)
    (r : Ret) (st' : St σ) (o : List Out) (hd : decodeInner D st x f = (r, st', o)) :
    (∀ c, r = .code c → c.dec ∈ possible D st.ds f) ∧
    (∀ c, Out.callback c ∈ o → c.dec ∈ possible D st.ds f) := by
  unfold decodeInner at hd
  simp only [] at hd
  split at hd
  · -- held path
    rename_i lc hheld
    have hlc : lc.dec ∈ possible D st.ds f := by
      split at hheld
      · rename_i lc' _
        split at hheld
        · rename_i hc; simp at hheld; subst hheld; simpa using hc
        · simp at hheld
      · simp at hheld
    split at hd
    · simp at hd; obtain ⟨rfl, _, rfl⟩ := hd; simp [hlc]
    · split at hd
      · rename_i c ds hdec
        have hown := h.decode_own _ _ _ _ _ _ hdec
        split at hd <;> (simp at hd; obtain ⟨rfl, _, rfl⟩ := hd; simp [hown, hlc])
      · exact scan_sound D h x f _ _ _ _ _ hd
      all_goals (simp at hd; obtain ⟨rfl, _, rfl⟩ := hd; simp)
  · split at hd
    · -- last-decoder path
      rename_i j hj
      have hjp : j ∈ possible D st.ds f := by
        split at hj
        · split at hj
          · rename_i hc; simp at hj; subst hj; simpa using hc
          · simp at hj
        · simp at hj
      split at hd
      · rename_i c ds hdec
        have hown := h.decode_own _ _ _ _ _ _ hdec
        split at hd
        · rename_i l hl
          have hlown : l.dec = c.dec → l.dec ∈ possible D st.ds f := fun e => by rw [e, hown]; exact hjp
          split at hd
          · simp at hd; obtain ⟨rfl, _, rfl⟩ := hd; simp [hown, hjp]
          · rename_i hsame
            have hs : c.same l = true := by simpa using hsame
            have hld : l.dec = c.dec := by
              simp [Code.same] at hs; exact hs.1.symm
            simp at hd; obtain ⟨rfl, _, rfl⟩ := hd; simp [hown, hjp, hlown hld]
        · simp at hd; obtain ⟨rfl, _, rfl⟩ := hd; simp [hown, hjp]
      · exact scan_sound D h x f _ _ _ _ _ hd
      · split at hd
        · simp at hd; obtain ⟨rfl, _, rfl⟩ := hd; simp
        · exact scan_sound D h x f _ _ _ _ _ hd
      all_goals (simp at hd; obtain ⟨rfl, _, rfl⟩ := hd; simp)
    · exact scan_sound D h x f _ _ _ _ _ hd

/-- **C10**: a code returned by the top-level decode was produced by a protocol that is currently
    enabled and, when a non-zero carrier is supplied, frequency-compatible — for every configuration,
    every dispatcher state (any held key, any history) and every input. -/
theorem C10 {σ} (D : Decoders σ) (h : OwnCodes D) (st : St σ) (x : Frame) (f : Nat) (c : Code)
    (hc : (decode D st x f).1 = some c) :
    c.dec < D.n ∧ D.enabled st.ds c.dec = true ∧ (f = 0 ∨ D.freqMatch st.ds c.dec f = true) := by
  rw [← mem_possible]
  unfold decode at hc
  split at hc
  · rename_i c' st' o heq
    simp at hc; subst hc
    exact (decodeInner_sound D h st x f _ _ _ heq).1 _ rfl
  · simp at hc

/-- **C10, immediacy**: a protocol that is disabled at the moment of the call is never the source
    of the result, *whatever* the dispatcher remembers (held key of that protocol included), and no
    decode callback is issued for one of its codes. -/
theorem C10_disable_immediate {σ} (D : Decoders σ) (h : OwnCodes D) (st : St σ) (x : Frame) (f i : Nat)
    (hdis : D.enabled st.ds i = false) :
    (∀ c, (decode D st x f).1 = some c → c.dec ≠ i) ∧
    (∀ c, Out.callback c ∈ (decode D st x f).2.2 → c.dec ≠ i) := by
  constructor
  · intro c hc heq
    have := (C10 D h st x f c hc).2.1
    rw [heq, hdis] at this; exact Bool.noConfusion this
  · intro c hc heq
    have hin : c.dec ∈ possible D st.ds f := by
      unfold decode at hc
      split at hc <;> rename_i heq' <;> exact (decodeInner_sound D h st x f _ _ _ heq').2 _ hc
    have := ((mem_possible D st.ds f c.dec).mp hin).2.1
    rw [heq, hdis] at this; exact Bool.noConfusion this

/-- non-vacuity: a two-decoder instance in which decoder 1 accepts and is returned -/
def demo : Decoders Unit :=
  { n := 2, enabled := fun _ _ => true, freqMatch := fun _ i f => (i == 1 && f == 38000),
    decode := fun i s _ _ => if i == 1 then (.ok ⟨1, 7, 0⟩, s) else (.error .decode, s),
    eqTimings := fun _ _ _ => false, saved := fun _ _ _ => none, stopLast := fun _ s => s }

example : (decode demo ⟨none, none, false, ()⟩ [1, -1] 38000).1 = some ⟨1, 7, 0⟩ := by decide

end IRModel.Props.C10
