import IRModel.Props.EngineThm
/-!
# C03 — every emitted frame is a well-formed mark/space timing list (packet builder)

For every class-A protocol (obligation `wfAll`, kernel-checked per protocol on the current tree) and
every assignment of values to its fields, `_build_packet` returns a frame that is non-empty, contains
no zero, starts with a mark, strictly alternates, ends with a space, and — for fixed-period protocols —
sums to the period.  (After `fix:` dae5e8f; before it the gap was appended after a trailing space.)
The frame-count and carrier clauses of C03 concern the per-protocol `encode()` wrappers and are decided
by the search on the real encoders, not by this theorem.
-/
namespace IRModel.Props.C03
open IRModel IRModel.Py IRModel.Match IRModel.Engine IRModel.Encode IRModel.Props.EngineThm

theorem C03_build_packet (t : Tables) (tol : Tol) (htol : tol.ok) (hw : wfAll t tol = true)
    (vals : List Nat) (hlen : vals.length = t.params.length) :
    ∃ frame, buildPacket t ((fieldsOf t.params vals).map (fun f => Item.field f.1 f.2)) = .ok frame ∧
      WellFormed frame ∧
      (t.leadOut.getLastD 0 > 0 → sumAbs frame = t.leadOut.getLastD 0) := by
  obtain ⟨frame, h1, h2, _, h4, _⟩ := engine_roundtrip t tol htol hw vals hlen
  exact ⟨frame, h1, h2, h4⟩

/-- the pinned defect, as a fact about the old arithmetic: appending the gap without merging leaves
    two spaces in a row (Sony12-like tail) -/
theorem pinned_gap_not_merged :
    ¬ WellFormed ([2400, -600, 600, -600] ++ [sumAbs [2400, -600, 600, -600] - 45000]) := by
  intro h
  have := h.alternates 3 (by decide)
  revert this; decide

/-- non-vacuity: a NEC-like table satisfies the side conditions -/
def demoNEC : Tables :=
  { name := "demoNEC", frequency := 38400, bitCount := 32, order := .lsb, shape := .pairs,
    leadIn := [9024, -4512], leadOut := [564, 108000], bursts := [(564, -564), (564, -1692)],
    hasMiddle := false, repeatLeadIn := [9024, -2256], repeatLeadOut := [564, -96156], repeatBursts := [],
    params := [("D", 0, 7), ("S", 8, 15), ("F", 16, 23), ("F_CHECKSUM", 24, 31)],
    codeOrder := [("D", 8), ("S", 8), ("F", 8)], encodeParams := [("device", 0, 255)],
    repeatTimeout := 108000, decodeOverridden := true }

example : wfAll demoNEC ⟨20, 1⟩ = true := by decide +kernel

end IRModel.Props.C03
