import IRModel.Stream
/-!
# C13 — streaming decode does not depend on how the timing stream is chunked

Theorem on the atomic-cycle machine of `IRModel/Stream.lean`, for an arbitrary dispatcher `D`
whose *rejections are pure* (`RejectPure`: a candidate frame that is not accepted leaves the
dispatcher state unchanged and produces no output).  Feeding any two chunkings of the same duration
stream — one duration at a time, cut inside frames, several frames at once, and any grouping of
chunks into worker cycles — yields the same dispatcher state, the same sequence of outputs and the
same pending remainder.  The idle timeout (universal fallback) is excluded by the property itself.
-/
namespace IRModel.Props.C13
open IRModel.Stream

variable {σ ο : Type}

/-- rejections are pure -/
def RejectPure (D : Dec σ ο) (f : Nat) : Prop :=
  ∀ s x, (D.decode s x f).1 = false → (D.decode s x f).2.1 = s ∧ (D.decode s x f).2.2 = []

/-- every cut candidate among the prefixes of `acc ++ ·` beyond `acc` is rejected in state `s` -/
def RejFrom (D : Dec σ ο) (f : Nat) (s : σ) (acc tmp : List Int) : Prop :=
  ∀ p, p <+: tmp → p ≠ [] → isCut (acc ++ p) = true → (D.decode s (acc ++ p) f).1 = false

theorem scan_append (D : Dec σ ο) (f : Nat) (xs ys : List Int) :
    ∀ (s : σ) (tmp : List Int),
      scan D f s tmp (xs ++ ys) =
        (let r1 := scan D f s tmp xs
         let r2 := scan D f r1.1 r1.2.2 ys
         (r2.1, r1.2.1 ++ r2.2.1, r2.2.2)) := by
  induction xs with
  | nil => intro s tmp; simp [scan]
  | cons x xs ih =>
    intro s tmp
    simp only [List.cons_append, scan]
    split
    · split <;> simp [ih, List.append_assoc]
    · simp [ih]

/-- scanning a stretch whose candidates are all (purely) rejected changes nothing -/
theorem scan_rejected (D : Dec σ ο) (f : Nat) (hp : RejectPure D f) (s : σ) :
    ∀ (tmp acc : List Int), RejFrom D f s acc tmp → scan D f s acc tmp = (s, [], acc ++ tmp) := by
  intro tmp
  induction tmp with
  | nil => intro acc _; simp [scan]
  | cons x rest ih =>
    intro acc h
    have hrest : RejFrom D f s (acc ++ [x]) rest := by
      intro p hpre hne hcut
      have := h (x :: p) (by simpa using hpre) (by simp) (by simpa [List.append_assoc] using hcut)
      simpa [List.append_assoc] using this
    simp only [scan]
    split
    · rename_i hcut
      have hrej := h [x] (by simp) (by simp) hcut
      have hpure := hp s (acc ++ [x]) hrej
      split
      · rename_i s' o heq; rw [heq] at hrej; simp at hrej
      · rename_i s' o heq
        rw [heq] at hpure
        simp only [] at hpure
        obtain ⟨rfl, rfl⟩ := hpure
        rw [ih _ hrest]; simp [List.append_assoc]
    · rw [ih _ hrest]; simp [List.append_assoc]

/-- the remainder left by a scan only contains rejected candidates (w.r.t. the final state) -/
theorem scan_inv (D : Dec σ ο) (f : Nat) (hp : RejectPure D f) (xs : List Int) :
    ∀ (s : σ) (tmp : List Int), RejFrom D f s [] tmp →
      RejFrom D f (scan D f s tmp xs).1 [] (scan D f s tmp xs).2.2 := by
  induction xs with
  | nil => intro s tmp h; simpa [scan] using h
  | cons x xs ih =>
    intro s tmp h
    have hext : (isCut (tmp ++ [x]) = true → (D.decode s (tmp ++ [x]) f).1 = false) →
        RejFrom D f s [] (tmp ++ [x]) := by
      intro hlast p hpre hne hcut
      rcases List.prefix_concat_iff.mp hpre with rfl | hin
      · simpa using hlast (by simpa using hcut)
      · exact h p hin hne hcut
    simp only [scan]
    split
    · rename_i hcut
      split
      · -- accepted: restart with an empty accumulator
        rename_i s1 o heq
        have := ih s1 [] (by intro p hpre hne; simp at hpre; exact absurd hpre hne)
        simpa using this
      · rename_i s1 o heq
        have hrej : (D.decode s (tmp ++ [x]) f).1 = false := by rw [heq]
        have hpure := hp s (tmp ++ [x]) hrej
        rw [heq] at hpure
        simp only [] at hpure
        obtain ⟨rfl, rfl⟩ := hpure
        have := ih s1 (tmp ++ [x]) (hext (fun _ => hrej))
        simpa using this
    · rename_i hcut
      have := ih s (tmp ++ [x]) (hext (fun hc => absurd hc hcut))
      simpa using this

/-- restart lemma: continuing a scan from a remainder equals rescanning remainder ++ new data -/
theorem scan_restart (D : Dec σ ο) (f : Nat) (hp : RejectPure D f) (s : σ) (tmp ys : List Int)
    (h : RejFrom D f s [] tmp) : scan D f s [] (tmp ++ ys) = scan D f s tmp ys := by
  rw [scan_append, scan_rejected D f hp s tmp [] h]
  simp

/-- feeding chunk by chunk equals one scan over the concatenation -/
theorem runChunks_eq_scan (D : Dec σ ο) (f : Nat) (hp : RejectPure D f) (cs : List (List Int)) :
    ∀ (s : σ) (r : List Int), RejFrom D f s [] r →
      runChunks D f s r cs = scan D f s [] (r ++ cs.flatten) := by
  induction cs with
  | nil =>
    intro s r h
    simp only [runChunks, List.flatten_nil, List.append_nil]
    rw [scan_rejected D f hp s r [] h]; simp
  | cons c cs ih =>
    intro s r h
    simp only [runChunks, process, List.flatten_cons]
    have hinv := scan_inv D f hp (r ++ c) s [] (by intro p hpre hne; simp at hpre; exact absurd hpre hne)
    rw [ih _ _ hinv, ← List.append_assoc, scan_append D f (r ++ c) cs.flatten s []]
    rw [scan_restart D f hp _ _ _ hinv]

/-- **C13**: two chunkings of the same stream give the same dispatcher state, the same sequence
    of delivered outputs and the same pending remainder. -/
theorem C13 (D : Dec σ ο) (f : Nat) (hp : RejectPure D f) (s : σ)
    (chunks₁ chunks₂ : List (List Int)) (h : chunks₁.flatten = chunks₂.flatten) :
    runChunks D f s [] chunks₁ = runChunks D f s [] chunks₂ := by
  have h0 : RejFrom D f s [] [] := by intro p hpre hne; simp at hpre; exact absurd hpre hne
  rw [runChunks_eq_scan D f hp _ s [] h0, runChunks_eq_scan D f hp _ s [] h0, h]

/-- in particular: any chunking equals feeding the whole stream in one call -/
theorem C13_one_call (D : Dec σ ο) (f : Nat) (hp : RejectPure D f) (s : σ) (chunks : List (List Int)) :
    runChunks D f s [] chunks = runChunks D f s [] [chunks.flatten] := by
  apply C13 D f hp; simp

/-- non-vacuity: a pure-rejection dispatcher (accepts frames starting with 9000, output = length),
    a two-frame stream, cut inside the first frame -/
def demo : Dec Nat Nat :=
  { decode := fun s x _ => if x.headD 0 == 9000 then (true, s + 1, [x.length]) else (false, s, []) }

example : RejectPure demo 0 := by
  intro s x h
  unfold demo at *
  simp only [] at *
  split at h <;> simp_all

example : runChunks demo 0 0 [] [[9000, -4500, 500], [-500, 500, -30000, 9000, -4500], [500, -30000]]
        = runChunks demo 0 0 [] [[9000, -4500, 500, -500, 500, -30000, 9000, -4500, 500, -30000]] := by
  decide

end IRModel.Props.C13
