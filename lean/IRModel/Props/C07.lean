import IRModel.Props.C08
/-!
# C06 / C07 — repeat markers and history independence of `IrProtocolBase.decode`

Facts about the model of the base decoder that hold for **every** table set, tolerance, input and
instance history:

* `no_history_is_full_decode` (C06): without a held code the repeat branch is not taken — a bare repeat
  marker can only yield a code if it parses as a *full* frame with exactly `bit_count` bits.
* `repeat_branch_short` : with empty `_repeat_bursts` the repeat branch can only accept inputs no longer
  than the repeat lead-in plus lead-out — a full frame always falls through to the full decoder.
* `C07_history_independent` : for such tables, a frame longer than a repeat marker is decoded, in **any**
  instance state, to the same rejection or to a code with the same identity as a history-free decoder.
* protocols with non-empty `_repeat_bursts` and an overriding `decode()` (NECx, NECxf16, XBoxOne, …) are
  exactly where this fails: `repeat_bursts_swallow` is the proved counter-example shape.
-/
namespace IRModel.Props.C07
open IRModel IRModel.Py IRModel.Match IRModel.CodeWrapper IRModel.Proto

theorem no_history_is_full_decode (t : Tables) (tol : Tol) (data : List Int) :
    baseDecode t { last := none, tol := tol } data = decodeFull t { last := none, tol := tol } data [] := rfl

/-- whatever a history-free decoder returns is the full decode of the given data -/
theorem no_history_code_is_full (t : Tables) (tol : Tol) (data : List Int) (c : CodeV)
    (h : (baseDecode t { last := none, tol := tol } data).result = .ok c) :
    ∃ p, parse t tol data = .ok p ∧ p.bits.length = t.bitCount ∧ c = mkCode t p := by
  rw [no_history_is_full_decode] at h
  unfold decodeFull at h
  split at h
  · simp at h
  · rename_i p hp
    refine ⟨p, hp, ?_⟩
    by_cases h1 : p.bits.length > t.bitCount
    · rw [if_pos h1] at h; simp at h
    · rw [if_neg h1] at h
      by_cases h2 : p.bits.length < t.bitCount
      · rw [if_pos h2] at h; simp at h
      · rw [if_neg h2] at h
        refine ⟨by omega, ?_⟩
        by_cases h3 : t.decodeOverridden = true
        · rw [if_pos h3] at h; simp at h; exact h.symm
        · rw [if_neg h3] at h; simp at h; exact h.symm

theorem leadInLoop_len (tol : Tol) (b : List (Int × Int)) :
    ∀ (es code cl code' cl' : List Int), leadInLoop tol b es code cl = .ok (code', cl') →
      code.length ≤ code'.length + es.length := by
  intro es
  induction es with
  | nil => intro code cl code' cl' h; simp [leadInLoop] at h; rw [h.1]; simp
  | cons e es ih =>
    intro code cl code' cl' h
    unfold leadInLoop at h
    split at h
    · simp at h
    · rename_i burst rest
      split at h
      · have := ih _ _ _ _ h; simp at this ⊢; omega
      · split at h
        · have := ih _ _ _ _ h; simp at this ⊢; omega
        · simp at h

theorem pyPop_len {α} (l : List α) (i : Int) (x : α) (l' : List α) (h : pyPop l i = .ok (x, l')) :
    l.length = l'.length + 1 := by
  unfold pyPop at h
  simp only [] at h
  generalize hj : (if i < 0 then i + (l.length : Int) else i) = j at h
  by_cases hc : j < 0 ∨ j ≥ (l.length : Int)
  · rw [if_pos hc] at h; simp at h
  · rw [if_neg hc] at h
    cases hg : l[j.toNat]? with
    | none => rw [hg] at h; simp at h
    | some y =>
      rw [hg] at h
      simp at h
      obtain ⟨_, rfl⟩ := h
      have hlt : j.toNat < l.length := (List.getElem?_eq_some_iff.mp hg).1
      rw [List.length_eraseIdx_of_lt hlt]; omega

/-- with an empty symbol table the lead-out loop adds no half bits and consumes one entry per step -/
theorem leadOutLoop_empty (tol : Tol) (n : Nat) (tt : Int) :
    ∀ (es : List Int) (i : Nat) (code half : List Int) (cl : List (Option Int)) code' half' cl',
      leadOutLoop tol [] n tt es i code half cl = .ok (code', half', cl') →
      half' = half ∧ code.length ≤ code'.length + es.length := by
  intro es
  induction es with
  | nil => intro i code half cl code' half' cl' h; simp [leadOutLoop] at h; rw [h.1, h.2.1]; simp
  | cons e es ih =>
    intro i code half cl code' half' cl' h
    unfold leadOutLoop at h
    by_cases hs : (e == -999999999999) = true
    · rw [if_pos hs] at h; simp at h; rw [h.1, h.2.1]; simp
    · rw [if_neg hs] at h
      cases hpop : pyPop code ((code.length : Int) - ((n : Int) - (i : Int))) with
      | error e' => rw [hpop] at h; simp at h
      | ok r =>
        obtain ⟨burst, code1⟩ := r
        rw [hpop] at h
        simp only [] at h
        have hl := pyPop_len _ _ _ _ hpop
        have hnone : loHalfBit tol [] n i burst e = none := by simp [loHalfBit]
        have hnone2 : loFallback tol [] burst e = none := by simp [loFallback]
        by_cases hm : isMatch tol burst e = true
        · rw [if_pos hm] at h
          have := ih _ _ _ _ _ _ _ h; exact ⟨this.1, by simp; omega⟩
        · rw [if_neg hm, hnone] at h
          simp only [] at h
          by_cases hp : (i + 1 == n && isMatch tol e (tt + (if burst < 0 then -burst else burst))) = true
          · rw [if_pos hp] at h
            have := ih _ _ _ _ _ _ _ h; exact ⟨this.1, by simp; omega⟩
          · rw [if_neg hp] at h
            by_cases hce : cl.isEmpty = true
            · rw [if_pos hce, hnone2] at h; simp at h
            · rw [if_neg hce] at h; simp at h

/-- **the repeat branch only accepts short inputs** when `_repeat_bursts` is empty -/
theorem repeat_branch_short (tol : Tol) (li lo data : List Int) (p : Parsed)
    (h : parseWith tol li lo [] data = .ok p) : data.length ≤ li.length + lo.length := by
  unfold parseWith at h
  simp only [bind, Except.bind] at h
  split at h
  · simp at h
  · split at h
    · simp at h
    · rename_i r1 h1
      obtain ⟨code1, cl1⟩ := r1
      split at h
      · simp at h
      · rename_i r2 h2
        obtain ⟨code2, half, clo⟩ := r2
        simp only [] at h
        have hlen1 := leadInLoop_len tol [] li data [] code1 cl1 h1
        have hlo := leadOutLoop_empty tol lo.length _ lo 0 code1 [] [] code2 half clo h2
        split at h
        · simp at h
        · rename_i vals hv
          -- with no symbols, classifyAll succeeds only on the empty list
          have hc : code2 ++ half = [] := by
            cases hcc : code2 ++ half with
            | nil => rfl
            | cons x xs => rw [hcc] at hv; simp [classifyAll, classify] at hv
          have : code2 = [] := by
            cases code2 with
            | nil => rfl
            | cons x xs => simp at hc
          subst this
          have := hlo.2
          simp at this hlen1 ⊢
          omega

/-- **C07 (base decoder)**: for tables with empty `_repeat_bursts`, a frame longer than a repeat
    marker is decoded in any instance state to the same rejection, or to a code with the same identity,
    as by a decoder without history. -/
theorem C07_history_independent (t : Tables) (inst : Inst) (data : List Int)
    (hrb : t.repeatBursts = [])
    (hlong : data.length > t.repeatLeadIn.length + t.repeatLeadOut.length) :
    match (baseDecode t inst data).result, (baseDecode t { last := none, tol := inst.tol } data).result with
    | .ok c, .ok c' => sameCode t c c' = true
    | .error e, .error e' => e = e'
    | _, _ => False := by
  have hfall : baseDecode t inst data = decodeFull t inst data [] := by
    unfold baseDecode
    split
    · rename_i l hl
      split
      · rw [hrb]
        split
        · rename_i p hp
          have := repeat_branch_short _ _ _ _ _ hp
          omega
        · rename_i e he
          have hlib := IRModel.Props.C08.parseWith_lib _ _ _ _ _ _ he
          rw [if_pos hlib]
      · rfl
    · rfl
  rw [hfall, no_history_is_full_decode]
  unfold decodeFull
  simp only []
  cases hp : parse t inst.tol data with
  | error e => simp
  | ok p =>
    simp only []
    by_cases h1 : p.bits.length > t.bitCount
    · simp [h1]
    · by_cases h2 : p.bits.length < t.bitCount
      · simp [h1, h2]
      · simp only [h1, h2, if_false]
        by_cases h3 : t.decodeOverridden = true
        · simp [h3, sameCode]
        · simp only [h3, if_false]
          cases hl : inst.last with
          | none => simp [sameCode]
          | some l =>
            simp only []
            by_cases hs : sameCode t l (mkCode t p) = true
            · simp [hs]
            · have hs' : sameCode t l (mkCode t p) = false := by simpa using hs
              rw [hs']; simp [sameCode]

end IRModel.Props.C07
