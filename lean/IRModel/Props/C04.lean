import IRModel.Lemmas.TolLemmas2
import IRModel.Props.RoundTrip
/-!
# C04 — decoding honours the configured tolerance (accept half, class-A protocols)

`parse_perturbed` : take any class-A frame (any symbol sequence), perturb **every** mark and space
independently by at most a quarter of the tolerance setting (`Q tol`), the trailing gap of a fixed-period
protocol absorbing the difference; then, for any tolerance `0 < tol ≤ 100 %` for which the table passes the
decidable separation test `wfTol` (kernel-checked per protocol for 5, 10 and 20 %), the parser returns
exactly the bits of the unperturbed frame and the *nominal* frame as the normalised code.
The quantifier over perturbations is universal (all of the interval, not corner patterns): windows are
intervals, so the obligation per protocol is a finite comparison of interval end points.

Reject half (`off_window_rejected`): a data duration that matches no table value is an IRStreamError.
-/
namespace IRModel.Props.C04
open IRModel IRModel.Py IRModel.Match IRModel.Bits IRModel.CodeWrapper IRModel.Engine IRModel.Props.RoundTrip

theorem leadInLoop_Q (tol : Tol) (htol : tol.ok) (bursts : List (Int × Int)) :
    ∀ (li' es : List Int), Pw (Q tol) li' es → ∀ (code cleaned : List Int),
      leadInLoop tol bursts es (li' ++ code) cleaned = .ok (code, cleaned ++ es) := by
  intro li' es h
  induction h with
  | nil => intro code cleaned; simp [leadInLoop]
  | @cons v e vs es' hq _ ih =>
    intro code cleaned
    have hm := isMatch_of_Q tol htol v e hq
    simp only [List.cons_append, leadInLoop, hm, if_true]
    rw [ih code (cleaned ++ [e])]
    simp

theorem classifyAll_Q (t : Tables) (tol : Tol) (htol : tol.ok) (hw : wfTol t tol = true) :
    ∀ (vs ts : List Int), Pw (Q tol) vs ts → (∀ e ∈ ts, e ∈ scanList t.bursts) →
      classifyAll tol t.bursts vs = .ok ts := by
  intro vs ts h
  induction h with
  | nil => intro _; rfl
  | @cons v e vs' ts' hq _ ih =>
    intro hmem
    simp only [classifyAll, classify_Q t tol htol hw v e (hmem e (by simp)) hq]
    rw [ih (fun x hx => hmem x (by simp [hx]))]
    rfl

theorem symTimings_mem_scan (b : List (Int × Int)) :
    ∀ (idx : List Nat), (∀ i ∈ idx, i < b.length) → ∀ e ∈ symTimings b idx, e ∈ scanList b := by
  intro idx
  induction idx with
  | nil => intro _ e he; simp [symTimings] at he
  | cons i idx ih =>
    intro h e he
    have hi : i < b.length := h i (by simp)
    rw [symTimings_cons b i idx _ (List.getElem?_eq_getElem hi)] at he
    have hmem : b[i] ∈ b := List.getElem_mem hi
    simp only [List.mem_cons] at he
    rcases he with rfl | rfl | he
    · exact List.mem_flatMap.mpr ⟨b[i], hmem, by simp⟩
    · exact List.mem_flatMap.mpr ⟨b[i], hmem, by simp⟩
    · exact ih (fun j hj => h j (by simp [hj])) e he

theorem leadOutLoop_gap' (tol : Tol) (bursts : List (Int × Int)) (tt mo x mo' g' : Int)
    (hmo : mo > 0) (hs : x ≠ -999999999999) (hm1 : isMatch tol mo' mo = true) (hm2 : isMatch tol g' x = true)
    (body : List Int) :
    leadOutLoop tol bursts 2 tt [mo, x] 0 (body ++ [mo', g']) [] [] = .ok (body, [], [some mo, some x]) := by
  have hmo' : (mo == -999999999999) = false := by simp; omega
  have hx' : (x == -999999999999) = false := by simpa using hs
  have hlen2 : ((body ++ [g']).length : Int) - (((2 : Nat) : Int) - ((0 + 1 : Nat) : Int)) = (body.length : Int) := by simp
  unfold leadOutLoop
  simp only [hmo', Bool.false_eq_true, if_false]
  rw [show ((body ++ [mo', g']).length : Int) - (((2 : Nat) : Int) - ((0 : Nat) : Int)) = (body.length : Int) from by simp]
  rw [pyPop_mid body mo' [g']]
  simp only [hm1, if_true]
  unfold leadOutLoop
  simp only [hx', Bool.false_eq_true, if_false]
  rw [hlen2, pyPop_mid body g' []]
  simp only [hm2, if_true, List.append_nil]
  simp [leadOutLoop]

theorem leadOutLoop_period' (tol : Tol) (htol : tol.ok) (bursts : List (Int × Int)) (tt mo x mo' g' : Int)
    (hb : ∀ p ∈ bursts, p.2 < 0) (hmo : mo > 0) (hx : x > 0) (hm1 : isMatch tol mo' mo = true)
    (hg : g' = tt - x) (hneg : g' < 0) (body : List Int) :
    leadOutLoop tol bursts 2 tt [mo, x] 0 (body ++ [mo', g']) [] [] = .ok (body, [], [some mo, none]) := by
  have hmo' : (mo == -999999999999) = false := by simp; omega
  have hx' : (x == -999999999999) = false := by simp; omega
  have hm2 : isMatch tol g' x = false := isMatch_sign tol g' x (Or.inl ⟨hneg, hx⟩)
  have hlen2 : ((body ++ [g']).length : Int) - (((2 : Nat) : Int) - ((0 + 1 : Nat) : Int)) = (body.length : Int) := by simp
  have hhalf : loHalfBit tol bursts 2 1 g' x = none := by
    unfold loHalfBit
    rw [find_none_of_all_false]
    · rfl
    · intro p hp
      have hp2 := hb p hp
      have : isMatch tol (g' + p.2) x = false := isMatch_sign tol _ x (Or.inl ⟨by omega, hx⟩)
      simp [this]
  have habs : (if g' < 0 then -g' else g') = x - tt := by simp [hneg]; omega
  have hm3 : ((1 + 1 == 2) && isMatch tol x (tt + (if g' < 0 then -g' else g'))) = true := by
    rw [habs]
    have : tt + (x - tt) = x := by omega
    rw [this, isMatch_self tol htol x (by omega)]; rfl
  unfold leadOutLoop
  simp only [hmo', Bool.false_eq_true, if_false]
  rw [show ((body ++ [mo', g']).length : Int) - (((2 : Nat) : Int) - ((0 : Nat) : Int)) = (body.length : Int) from by simp]
  rw [pyPop_mid body mo' [g']]
  simp only [hm1, if_true]
  unfold leadOutLoop
  simp only [hx', Bool.false_eq_true, if_false]
  rw [hlen2, pyPop_mid body g' []]
  simp only [hm2, Bool.false_eq_true, if_false, List.append_nil, hhalf, Nat.zero_add, hm3, if_true]
  simp [leadOutLoop]

/-- **C04, accept half** -/
theorem parse_perturbed (t : Tables) (tol : Tol) (htol : tol.ok) (hwf : wfA t tol = true) (hwt : wfTol t tol = true)
    (mo x : Int) (hlo : t.leadOut = [mo, x]) (hs : x ≠ -999999999999)
    (idx : List Nat) (hidx : ∀ i ∈ idx, i < t.bursts.length)
    (li' sy' : List Int) (mo' g' : Int)
    (hli : Pw (Q tol) li' t.leadIn)
    (hsy : Pw (Q tol) sy' (symTimings t.bursts idx))
    (hmo' : Q tol mo' mo)
    (hgap : (x < 0 ∧ Q tol g' x) ∨ (x > 0 ∧ g' = sumAbs (li' ++ sy' ++ [mo']) - x ∧ g' < 0)) :
    parse t tol (li' ++ sy' ++ [mo', g']) =
      .ok { bits := idx.flatMap (idxToBits t.bursts.length), cleaned := compress (frameA t mo x idx) } := by
  have hgen : streamEnc t.bursts = .general := by
    have h := hwf; unfold wfA at h; rw [Bool.and_eq_true] at h; exact supported_general h.1
  obtain ⟨mo0, x0, hlo0, hmo, hx0, _, hb, hd⟩ := wfA_leadOut hwf
  rw [hlo] at hlo0
  obtain ⟨rfl, rfl⟩ : mo = mo0 ∧ x = x0 := by simpa using hlo0
  have hpairs := pairUp_syms t.bursts idx hidx
  have hbits := pairsToBits_syms t.bursts hd idx hidx
  have hcls := classifyAll_Q t tol htol hwt sy' _ hsy (symTimings_mem_scan t.bursts idx hidx)
  have hm1 : isMatch tol mo' mo = true := isMatch_of_Q tol htol mo' mo hmo'
  have hgne : g' ≠ 0 := by
    rcases hgap with ⟨_, hq⟩ | ⟨_, _, h⟩
    · rcases hq.1 with ⟨_, h⟩ | ⟨_, h⟩ <;> omega
    · omega
  have hperiod : periodCheck tol t.leadOut (li' ++ sy' ++ [mo', g']) = .ok () := by
    unfold periodCheck
    rw [hlo]
    simp only [List.getLast?_cons_cons, List.getLast?_singleton]
    split
    · rename_i hx
      rw [getLast?_two, dropLast_two]
      simp only []
      rcases hgap with ⟨hxn, _⟩ | ⟨_, hg, _⟩
      · omega
      · have : -(x - sumAbs (li' ++ sy' ++ [mo'])) = g' := by rw [hg]; omega
        rw [this, isMatch_self tol htol g' hgne]
        rfl
    · rfl
  have hin : leadInLoop tol t.bursts t.leadIn (li' ++ sy' ++ [mo', g']) [] = .ok (sy' ++ [mo', g'], t.leadIn) := by
    have := leadInLoop_Q tol htol t.bursts li' t.leadIn hli (sy' ++ [mo', g']) []
    simpa [List.append_assoc] using this
  have hout : leadOutLoop tol t.bursts 2 (sumAbs (li' ++ sy' ++ [mo'])) [mo, x] 0 (sy' ++ [mo', g']) [] [] =
      .ok (sy', [], [some mo, if x > 0 then none else some x]) := by
    rcases hgap with ⟨hxn, hq⟩ | ⟨hxp, hg, hneg⟩
    · rw [if_neg (by omega)]
      exact leadOutLoop_gap' tol t.bursts _ mo x mo' g' hmo hs hm1 (isMatch_of_Q tol htol g' x hq) sy'
    · rw [if_pos hxp]
      exact leadOutLoop_period' tol htol t.bursts _ mo x mo' g' (fun p hp => (hb p hp).2.1) hmo hxp hm1 hg hneg sy'
  rw [parse_general hgen]
  unfold parseWith
  rw [hperiod]
  simp only [bind, Except.bind, dropLast_two, hin, hlo, List.length_cons, List.length_nil, hout,
    List.append_nil, hcls, hpairs, hbits, pure, Except.pure]
  have hne : ((t.leadIn ++ symTimings t.bursts idx).map some ++ [some mo, if x > 0 then none else some x]).isEmpty = false := by
    simp
  rw [if_neg (by rw [hne]; simp)]
  congr 2
  have hdl : ((t.leadIn ++ symTimings t.bursts idx).map some ++ [some mo, if x > 0 then none else some x]).dropLast
      = (t.leadIn ++ symTimings t.bursts idx).map some ++ [some mo] := by
    have : (t.leadIn ++ symTimings t.bursts idx).map some ++ [some mo, if x > 0 then none else some x]
        = ((t.leadIn ++ symTimings t.bursts idx).map some ++ [some mo]) ++ [if x > 0 then none else some x] := by simp
    rw [this, List.dropLast_concat]
  have hgl : ((t.leadIn ++ symTimings t.bursts idx).map some ++ [some mo, if x > 0 then none else some x]).getLast?
      = some (if x > 0 then none else some x) := by
    have : (t.leadIn ++ symTimings t.bursts idx).map some ++ [some mo, if x > 0 then none else some x]
        = ((t.leadIn ++ symTimings t.bursts idx).map some ++ [some mo]) ++ [if x > 0 then none else some x] := by simp
    rw [this, List.getLast?_concat]
  rw [hdl, hgl]
  have hbody : ((t.leadIn ++ symTimings t.bursts idx).map some ++ [some mo]).map (·.getD 0)
      = t.leadIn ++ symTimings t.bursts idx ++ [mo] := by
    have hid : ((fun (x : Option Int) => x.getD 0) ∘ some) = id := by funext v; rfl
    simp [List.map_append, hid]
  rw [hbody]
  unfold frameA lastGap
  by_cases hx : x > 0
  · simp only [hx, if_true, List.getLastD_cons, List.getLastD_nil]
    have : -x + sumAbs (t.leadIn ++ symTimings t.bursts idx ++ [mo]) = sumAbs (t.leadIn ++ symTimings t.bursts idx ++ [mo]) - x := by omega
    rw [this]; simp
  · simp only [hx, if_false]
    simp

/-- **C04, reject half**: a data duration that matches no value of the table makes the main loop raise
    IRStreamError, whatever else the frame contains -/
theorem off_window_rejected (tol : Tol) (bursts : List (Int × Int)) (pre post : List Int) (v : Int)
    (hoff : ∀ e ∈ scanList bursts, isMatch tol v e = false)
    (hpre : ∃ cs, classifyAll tol bursts pre = .ok cs) :
    classifyAll tol bursts (pre ++ v :: post) = .error .irStream := by
  obtain ⟨cs, hcs⟩ := hpre
  have hv : classify tol bursts v = none := by
    rw [classify_eq_find, List.find?_eq_none]
    intro e he; simp [hoff e he]
  induction pre generalizing cs with
  | nil => simp [classifyAll, hv]
  | cons a pre ih =>
    simp only [List.cons_append, classifyAll] at hcs ⊢
    cases ha : classify tol bursts a with
    | none => rw [ha] at hcs
    | some w =>
      rw [ha] at hcs
      simp only [] at hcs ⊢
      cases hr : classifyAll tol bursts pre with
      | error e => rw [hr] at hcs; simp [Except.map] at hcs
      | ok cs' =>
        rw [ih cs' hr]
        rfl

end IRModel.Props.C04
