import IRModel.Lemmas.EngineLemmas
/-!
# The parser inverts the frame shape of class-A tables — for every symbol sequence

`parse_frameA` is the bit-level round trip used by C01, C05, C06, C08: for class-A tables
(`wfA`, discharged per protocol by kernel evaluation) and **every** sequence of symbol indices —
any length, any content, not only valid codes — parsing the class-A frame of that sequence yields
exactly the bits of those symbols and the frame itself as the normalised code.
-/
namespace IRModel.Props.RoundTrip
open IRModel IRModel.Py IRModel.Match IRModel.Bits IRModel.CodeWrapper IRModel.Engine

theorem wfA_leadOut {t : Tables} {tol : Tol} (h : wfA t tol = true) :
    ∃ mo x, t.leadOut = [mo, x] ∧ mo > 0 ∧ x ≠ 0 ∧ (∀ e ∈ t.leadIn, e ≠ 0) ∧
      (∀ p ∈ t.bursts, p.1 > 0 ∧ p.2 < 0 ∧ classify tol t.bursts p.1 = some p.1 ∧ classify tol t.bursts p.2 = some p.2) ∧
      distinctSyms t.bursts = true := by
  unfold wfA at h
  rw [Bool.and_eq_true] at h
  obtain ⟨_, h⟩ := h
  split at h
  · rename_i mo x hlo
    simp only [Bool.and_eq_true, decide_eq_true_eq, List.all_eq_true, beq_iff_eq] at h
    obtain ⟨⟨⟨⟨h1, h2⟩, h3⟩, h4⟩, h5⟩ := h
    exact ⟨mo, x, hlo, h1, h2, h3, fun p hp => by
      have := h4 p hp; exact ⟨this.1.1.1, this.1.1.2, this.1.2, this.2⟩, h5⟩
  · simp at h

theorem dropLast_two (body : List Int) (a b : Int) : (body ++ [a, b]).dropLast = body ++ [a] := by
  have : body ++ [a, b] = (body ++ [a]) ++ [b] := by simp
  rw [this, List.dropLast_concat]

theorem getLast?_two (body : List Int) (a b : Int) : (body ++ [a, b]).getLast? = some b := by
  have : body ++ [a, b] = (body ++ [a]) ++ [b] := by simp
  rw [this, List.getLast?_concat]

theorem compress_getD_map (l : List Int) : (l.map some).map (·.getD 0) = l := by
  induction l with
  | nil => rfl
  | cons a l ih => simp [ih]

/-- **bit-level round trip** for class-A tables -/
theorem parse_frameA (t : Tables) (tol : Tol) (htol : tol.ok) (hwf : wfA t tol = true)
    (mo x : Int) (hlo : t.leadOut = [mo, x]) (hs : x ≠ -999999999999)
    (idx : List Nat) (hidx : ∀ i ∈ idx, i < t.bursts.length)
    (hfit : x > 0 → sumAbs (t.leadIn ++ symTimings t.bursts idx ++ [mo]) < x) :
    parse t tol (frameA t mo x idx) =
      .ok { bits := idx.flatMap (idxToBits t.bursts.length), cleaned := compress (frameA t mo x idx) } := by
  have hgen : streamEnc t.bursts = .general := by
    unfold wfA at hwf; rw [Bool.and_eq_true] at hwf; exact supported_general hwf.1
  obtain ⟨mo', x', hlo', hmo, hx0, hli, hb, hd⟩ := wfA_leadOut hwf
  rw [hlo] at hlo'
  obtain ⟨rfl, rfl⟩ : mo = mo' ∧ x = x' := by simpa using hlo'
  have hsyms := classifyAll_syms tol t.bursts (fun p hp => ⟨(hb p hp).2.2.1, (hb p hp).2.2.2⟩) idx hidx
  have hpairs := pairUp_syms t.bursts idx hidx
  have hbits := pairsToBits_syms t.bursts hd idx hidx
  -- name the parts
  obtain ⟨syms, hsy⟩ : ∃ s, s = symTimings t.bursts idx := ⟨_, rfl⟩
  obtain ⟨g, hgdef⟩ : ∃ g, g = lastGap mo x (t.leadIn ++ syms) := ⟨_, rfl⟩
  have hframe : frameA t mo x idx = t.leadIn ++ syms ++ [mo, g] := by
    simp only [frameA, hsy, hgdef]
  have hgneg : g < 0 := by
    rw [hgdef]; unfold lastGap
    split
    · rename_i hx; have := hfit hx; rw [← hsy] at this; omega
    · omega
  have hgx : x > 0 → g = sumAbs (t.leadIn ++ syms ++ [mo]) - x := by
    intro hx; rw [hgdef]; unfold lastGap; rw [if_pos hx]
  have hgx' : ¬ x > 0 → g = x := by
    intro hx; rw [hgdef]; unfold lastGap; rw [if_neg hx]
  rw [← hsy] at hsyms hpairs
  -- the steps
  have hperiod : periodCheck tol t.leadOut (t.leadIn ++ syms ++ [mo, g]) = .ok () := by
    unfold periodCheck
    rw [hlo]
    simp only [List.getLast?_cons_cons, List.getLast?_singleton]
    split
    · rename_i hx
      rw [getLast?_two, dropLast_two]
      simp only []
      have : -(x - sumAbs (t.leadIn ++ syms ++ [mo])) = g := by rw [hgx hx]; omega
      rw [this, isMatch_self tol htol g (by omega)]
      rfl
    · rfl
  have hin : leadInLoop tol t.bursts t.leadIn (t.leadIn ++ syms ++ [mo, g]) [] =
      .ok (syms ++ [mo, g], t.leadIn) := by
    have := leadInLoop_exact tol htol t.bursts t.leadIn (syms ++ [mo, g]) [] hli
    simpa [List.append_assoc] using this
  have hout : leadOutLoop tol t.bursts 2 (sumAbs (t.leadIn ++ syms ++ [mo])) [mo, x] 0 (syms ++ [mo, g]) [] [] =
      .ok (syms, [], [some mo, if x > 0 then none else some x]) := by
    by_cases hx : x > 0
    · rw [if_pos hx]
      exact leadOutLoop_period tol htol t.bursts _ mo x (fun p hp => (hb p hp).2.1) hmo hx syms g (hgx hx) hgneg
    · rw [if_neg hx, hgx' hx]
      exact leadOutLoop_gap tol htol t.bursts _ mo x hmo (by omega) hs syms
  -- assemble
  rw [hframe]
  rw [parse_general hgen]
  unfold parseWith
  rw [hperiod]
  simp only [bind, Except.bind, dropLast_two, hin, hlo, List.length_cons, List.length_nil, hout,
    List.append_nil, hsyms, hpairs, hbits, pure, Except.pure]
  have hne : ((t.leadIn ++ syms).map some ++ [some mo, if x > 0 then none else some x]).isEmpty = false := by
    simp
  rw [if_neg (by rw [hne]; simp)]
  congr 2
  -- the cleaned code: body ++ [mo, last] with `last` recomputed for the period form
  have hdl : ((t.leadIn ++ syms).map some ++ [some mo, if x > 0 then none else some x]).dropLast
      = (t.leadIn ++ syms).map some ++ [some mo] := by
    have : (t.leadIn ++ syms).map some ++ [some mo, if x > 0 then none else some x]
        = ((t.leadIn ++ syms).map some ++ [some mo]) ++ [if x > 0 then none else some x] := by simp
    rw [this, List.dropLast_concat]
  have hgl : ((t.leadIn ++ syms).map some ++ [some mo, if x > 0 then none else some x]).getLast?
      = some (if x > 0 then none else some x) := by
    have : (t.leadIn ++ syms).map some ++ [some mo, if x > 0 then none else some x]
        = ((t.leadIn ++ syms).map some ++ [some mo]) ++ [if x > 0 then none else some x] := by simp
    rw [this, List.getLast?_concat]
  rw [hdl, hgl]
  have hbody : ((t.leadIn ++ syms).map some ++ [some mo]).map (·.getD 0) = t.leadIn ++ syms ++ [mo] := by
    have hid : ((fun (x : Option Int) => x.getD 0) ∘ some) = id := by funext v; rfl
    simp [List.map_append, hid]
  rw [hbody]
  by_cases hx : x > 0
  · simp only [hx, if_true, List.getLastD_cons, List.getLastD_nil]
    rw [hgx hx]
    have : -x + sumAbs (t.leadIn ++ syms ++ [mo]) = sumAbs (t.leadIn ++ syms ++ [mo]) - x := by omega
    rw [this]; simp
  · simp only [hx, if_false]
    rw [hgx' hx]
    simp

end IRModel.Props.RoundTrip
