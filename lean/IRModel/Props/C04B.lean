import IRModel.Props.C04
import IRModel.Lemmas.EngineB
/-!
# C04, accept half, for class-B protocols with a frame period (Sony8/12/15/20, PID0003)

`parse_perturbedB`: take any class-B frame of a fixed-period protocol (any symbol sequence), perturb EVERY lead-in
duration, data duration and the last mark independently by at most a quarter of the tolerance (`Q tol`), the final space
absorbing the difference so that the frame still lasts exactly the period; then, for any tolerance for which the table
passes `wfTol`, the parser returns exactly the bits of the unperturbed frame and the nominal frame as the normalised code.
(The last symbol's space is part of the merged final duration: it is restored by the completion of the trailing mark.)
-/
namespace IRModel.Props.C04
open IRModel IRModel.Py IRModel.Match IRModel.Bits IRModel.CodeWrapper IRModel.Engine IRModel.Props.RoundTrip

theorem Pw_append {α β} {R : α → β → Prop} : ∀ {a1 : List α} {b1 : List β} {a2 : List α} {b2 : List β},
    Pw R a1 b1 → Pw R a2 b2 → Pw R (a1 ++ a2) (b1 ++ b2) := by
  intro a1 b1 a2 b2 h1 h2
  induction h1 with
  | nil => simpa using h2
  | cons hr _ ih => exact Pw.cons hr ih

theorem parse_perturbedB (t : Tables) (tol : Tol) (htol : tol.ok) (x : Int) (hS : SpecB t tol x) (hx : x > 0)
    (hwt : wfTol t tol = true)
    (idx' : List Nat) (j : Nat) (hidx : ∀ i ∈ idx' ++ [j], i < t.bursts.length)
    (hfit : sumAbs (t.leadIn ++ symTimings t.bursts (idx' ++ [j])) < x)
    (li' sy' : List Int) (m' g' : Int)
    (hli : Pw (Q tol) li' t.leadIn)
    (hsy : Pw (Q tol) sy' (symTimings t.bursts idx'))
    (hm' : ∀ p, t.bursts[j]? = some p → Q tol m' p.1)
    (hg : g' = sumAbs (li' ++ sy' ++ [m']) - x) (hneg : g' < 0) :
    parse t tol (li' ++ sy' ++ [m', g']) =
      .ok { bits := (idx' ++ [j]).flatMap (idxToBits t.bursts.length), cleaned := frameB t x idx' j } := by
  have hj : j < t.bursts.length := hidx j (by simp)
  have hidx' : ∀ i ∈ idx', i < t.bursts.length := fun i hi => hidx i (by simp [hi])
  have hpj : t.bursts[j]? = some t.bursts[j] := List.getElem?_eq_getElem hj
  obtain ⟨pm, ps, hcm, hcs, hfind, _⟩ := hS.sym _ (List.getElem_mem hj)
  obtain ⟨m, s, hms⟩ : ∃ m s, t.bursts[j] = (m, s) := ⟨_, _, rfl⟩
  have hmq : Q tol m' m := by have := hm' _ hpj; rw [hms] at this; exact this
  rw [hms] at pm ps hcm hcs hfind
  simp only at pm ps hcm hcs hfind
  have hsym_j : symTimings t.bursts (idx' ++ [j]) = symTimings t.bursts idx' ++ [m, s] := by
    rw [symTimings_append]; congr 1; simp [symTimings, hpj, hms]
  obtain ⟨syms', hsy'⟩ : ∃ l, l = symTimings t.bursts idx' := ⟨_, rfl⟩
  rw [← hsy'] at hsy
  obtain ⟨g, hgdef⟩ : ∃ g, g = sumAbs (t.leadIn ++ symTimings t.bursts (idx' ++ [j])) - x := ⟨_, rfl⟩
  have hgneg : g < 0 := by omega
  have hframe : frameB t x idx' j = t.leadIn ++ syms' ++ [m, s + g] := by
    simp only [frameB, hpj, hms, hsy', hgdef, if_pos hx]
  have hbneg : ∀ p ∈ t.bursts, p.2 < 0 := fun p hp => (hS.sym p hp).2.1
  -- the steps
  have hperiod : periodCheck tol t.leadOut (li' ++ sy' ++ [m', g']) = .ok () := by
    unfold periodCheck
    rw [hS.lo]
    simp only [List.getLast?_singleton, hx, if_true]
    rw [getLast?_two, dropLast_two]
    simp only []
    have : -(x - sumAbs (li' ++ sy' ++ [m'])) = g' := by rw [hg]; omega
    rw [this, isMatch_self tol htol g' (by omega)]
    rfl
  have hin : leadInLoop tol t.bursts t.leadIn (li' ++ sy' ++ [m', g']) [] = .ok (sy' ++ [m', g'], t.leadIn) := by
    have := leadInLoop_Q tol htol t.bursts li' t.leadIn hli (sy' ++ [m', g']) []
    simpa [List.append_assoc] using this
  have hts := tailStep_period tol htol t.bursts hbneg (sumAbs (li' ++ sy' ++ [m'])) x g' hx hneg (by rw [hg]; omega)
  have hout : leadOutLoop tol t.bursts 1 (sumAbs (li' ++ sy' ++ [m'])) [x] 0 (sy' ++ [m', g']) [] [] =
      .ok (sy' ++ [m'], [], [none]) := by
    have := leadOutLoop_single tol t.bursts (sumAbs (li' ++ sy' ++ [m'])) x g' (sy' ++ [m']) hS.xs ([], none) hts
    simpa [List.append_assoc] using this
  -- classification of the perturbed data
  have hmemm : m ∈ scanList t.bursts :=
    List.mem_flatMap.mpr ⟨t.bursts[j], List.getElem_mem hj, by rw [hms]; simp⟩
  have hcls : classifyAll tol t.bursts (sy' ++ [m']) = .ok (syms' ++ [m]) := by
    apply classifyAll_Q t tol htol hwt _ _ (Pw_append hsy (Pw.cons hmq Pw.nil))
    intro e he
    rcases List.mem_append.mp he with h | h
    · rw [hsy'] at h; exact symTimings_mem_scan t.bursts idx' hidx' e h
    · simp at h; rw [h]; exact hmemm
  have hbits' := pairsToBits_syms t.bursts hS.dist idx' hidx'
  have hpairs' := pairUp_syms t.bursts idx' hidx'
  have hlook := distinct_lookup t.bursts hS.dist j hj
  rw [hms] at hlook
  simp only at hlook
  have hptb : pairsToBits t.bursts (pairUp (syms' ++ [m])) = .ok ((idx' ++ [j]).flatMap (idxToBits t.bursts.length), [s]) := by
    rw [hsy', pairUp_snoc m _ _ hpairs' (by intro p hp; obtain ⟨i, _, rfl⟩ := List.mem_map.mp hp; rfl)]
    have := pairsToBits_snoc t.bursts m s _ hfind hlook _ _ hbits'
      (by intro p hp; obtain ⟨i, _, rfl⟩ := List.mem_map.mp hp; rfl)
    rw [this]
    simp [List.flatMap_append]
  -- assemble
  rw [parse_general hS.gen]
  unfold parseWith
  rw [hperiod]
  simp only [bind, Except.bind, dropLast_two, hin, hS.lo, List.length_cons, List.length_nil, hout, List.append_nil,
    hcls, hptb, pure, Except.pure]
  have hne : ((t.leadIn ++ (syms' ++ [m]) ++ [s]).map some ++ [(none : Option Int)]).isEmpty = false := by simp
  rw [if_neg (by rw [hne]; simp)]
  congr 2
  rw [List.dropLast_concat, List.getLast?_concat]
  have hbody : ((t.leadIn ++ (syms' ++ [m]) ++ [s]).map some).map (fun (o : Option Int) => o.getD 0) = t.leadIn ++ (syms' ++ [m]) ++ [s] :=
    compress_getD_map _
  rw [hbody, hframe]
  simp only [List.getLastD_cons, List.getLastD_nil]
  have halt : altP (t.leadIn ++ syms') = true := by
    rw [hsy']
    exact altP_append _ _ hS.alt (altP_syms t.bursts (fun p hp => ⟨(hS.sym p hp).1, (hS.sym p hp).2.1⟩) idx' hidx')
  have hmerge := compress_alt_merge (t.leadIn ++ syms') m s g halt pm ps hgneg
  have hgv : -x + sumAbs (t.leadIn ++ (syms' ++ [m]) ++ [s]) = g := by
    rw [hgdef, hsym_j, ← hsy']
    have : t.leadIn ++ (syms' ++ [m, s]) = t.leadIn ++ (syms' ++ [m]) ++ [s] := by simp
    rw [this]; omega
  rw [hgv]
  have e1 : t.leadIn ++ (syms' ++ [m]) ++ [s] ++ [g] = t.leadIn ++ syms' ++ [m, s, g] := by simp
  rw [e1]
  simpa [List.append_assoc] using hmerge

end IRModel.Props.C04
