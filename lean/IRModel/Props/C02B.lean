import IRModel.Props.C02
import IRModel.IrpB
import IRModel.Lemmas.EngineB
/-!
# C02 for class-B protocols (no lead-out mark: Sony8/12/15/20, Bryston, F32, PID0003, Sunfire, …)

`C02_first_frame_B`: for a class-B protocol (`wfAllB`) whose tables agree with the mark-less skeleton of its own IRP
string (`agreeB`, decidable), `_build_packet` emits — for EVERY assignment of values to the bit fields — a frame
`zpre ++ [zlast]` such that `zpre` (lead-in, every bit's burst up to and including the last mark) is within one
microsecond of the specification duration for duration, and the final space `zlast` is the last symbol's space merged
with the gap: within two microseconds of `space + gap` where the specification gives a gap, and exactly what is left of
the period where it gives an extent `^E`.
-/
namespace IRModel.Props.C02
open IRModel IRModel.Irp IRModel.Bits IRModel.Engine IRModel.Encode IRModel.Py IRModel.Match IRModel.Props.EngineThm

/-- `_build_packet` of a class-B protocol is the explicit class-B frame (first half of `engineRT_B`) -/
theorem build_wfAllB (t : Tables) (tol : Tol) (hw : wfAllB t tol = true)
    (vals : List Nat) (hlen : vals.length = t.params.length) :
    ∃ x idx' j, SpecB t tol x ∧ (fieldsOf t.params vals).flatMap (fieldIdx t) = idx' ++ [j] ∧
      buildPacket t ((fieldsOf t.params vals).map (fun f => Item.field f.1 f.2)) = .ok (frameB t x idx' j) ∧
      (∀ i ∈ idx' ++ [j], i < t.bursts.length) ∧
      (x > 0 → sumAbs (t.leadIn ++ symTimings t.bursts (idx' ++ [j])) < x) := by
  unfold wfAllB at hw
  simp only [Bool.and_eq_true, beq_iff_eq, Bool.or_eq_true, decide_eq_true_eq] at hw
  obtain ⟨⟨⟨⟨⟨hBc, hL'⟩, hT⟩, hE⟩, hF⟩, hbc⟩ := hw
  have hL : t.bursts.length = 2 ∨ t.bursts.length = 4 ∨ t.bursts.length = 16 := by omega
  obtain ⟨x, hS⟩ := wfBc_spec hBc
  obtain ⟨fields, hfields⟩ : ∃ f, f = fieldsOf t.params vals := ⟨_, rfl⟩
  rw [← hfields]
  have hdec := fields_decode t.order t.bursts.length t.params vals 0 [] hT hlen rfl
  rw [← hfields] at hdec
  simp only [List.nil_append] at hdec
  have hbitsEq := flatMap_fields_bits t hL fields
  have hbl : ((fields.flatMap (fieldIdx t)).flatMap (idxToBits t.bursts.length)).length = t.bitCount := by
    rw [hbitsEq, hdec.2, hE]
  have hk : 0 < bitsPerSymbol t.bursts.length := by
    rcases hL with h | h | h <;> rw [h] <;> decide
  have hnsym : (fields.flatMap (fieldIdx t)).length = t.bitCount / bitsPerSymbol t.bursts.length := by
    have := flatMap_bits_length t.bursts.length hL (fields.flatMap (fieldIdx t))
    rw [hbl] at this
    rw [this, Nat.mul_div_cancel _ hk]
  have hpos : 0 < (fields.flatMap (fieldIdx t)).length := by
    rw [hnsym]; exact Nat.div_pos hbc hk
  obtain ⟨idx', j, hsplit⟩ : ∃ idx' j, fields.flatMap (fieldIdx t) = idx' ++ [j] := by
    have hne : fields.flatMap (fieldIdx t) ≠ [] := by intro h; rw [h] at hpos; simp at hpos
    exact ⟨_, _, (List.dropLast_concat_getLast hne).symm⟩
  have hidx : ∀ i ∈ idx' ++ [j], i < t.bursts.length := by
    intro i hi
    rw [← hsplit] at hi
    obtain ⟨f, _, hf⟩ := List.mem_flatMap.mp hi
    exact (fieldIdx_spec t hL f).2 i hf
  have hfit : x > 0 → sumAbs (t.leadIn ++ symTimings t.bursts (idx' ++ [j])) < x := by
    intro hx
    unfold fitsPeriodB at hF
    rw [hS.lo] at hF
    simp only [hx, if_true, decide_eq_true_eq] at hF
    have hb1 := symTimings_bound t.bursts _ hidx
    rw [← hsplit, hnsym] at hb1
    rw [sumAbs_append, ← hsplit]
    omega
  obtain ⟨hbuild, _, _⟩ := build_frameB t tol x hS hL fields idx' j hsplit hfit
  exact ⟨x, idx', j, hS, hsplit, hbuild, hidx, hfit⟩

/-- a pointwise-near list splits like the list it is near to -/
theorem nearL_snoc : ∀ (qs : List Rat) (zs : List Int) (a : Int), nearL qs (zs ++ [a]) = true →
    ∃ qs' qa, qs = qs' ++ [qa] ∧ nearL qs' zs = true ∧ near qa a = true := by
  intro qs zs
  induction zs generalizing qs with
  | nil =>
    intro a h
    cases qs with
    | nil => simp [nearL] at h
    | cons q qs =>
      cases qs with
      | nil => simp only [List.nil_append, nearL, Bool.and_eq_true] at h; exact ⟨[], q, rfl, rfl, h.1⟩
      | cons q2 qs2 => simp [nearL] at h
  | cons z zs ih =>
    intro a h
    cases qs with
    | nil => simp [nearL] at h
    | cons q qs =>
      simp only [List.cons_append, nearL, Bool.and_eq_true] at h
      obtain ⟨qs', qa, e, h1, h2⟩ := ih qs a h.2
      exact ⟨q :: qs', qa, by rw [e]; rfl, by simp [nearL, h.1, h1], h2⟩

def FirstFrameSpecB (s : SkelB) (t : Tables) : Prop :=
  ∀ vals : List Nat, vals.length = t.params.length →
    ∃ zpre zlast,
      buildPacket t ((fieldsOf t.params vals).map (fun f => Item.field f.1 f.2)) = .ok (zpre ++ [zlast]) ∧
      nearL (renderPreB s vals) zpre = true ∧
      (match s.last with
       | .gap _ => near2 (renderLastB s vals) zlast = true
       | .extent n u => ∃ x : Int, scaled s.toSkel n u = (x : Rat) ∧ x > 0 ∧ zlast = -(x - sumAbs zpre) ∧
           renderLastB s vals = -(scaled s.toSkel n u - sumAbsQ (renderPreB s vals)))

/-- **C02, first frame of a class-B protocol, every field value** -/
theorem C02_first_frame_B (s : SkelB) (t : Tables) (tol : Tol) (hw : wfAllB t tol = true)
    (ha : agreeB s t = true) : FirstFrameSpecB s t := by
  intro vals hlen
  obtain ⟨x, idx', j, hS, hsplit, hbuild, hidx, hfit⟩ := build_wfAllB t tol hw vals hlen
  unfold agreeB at ha
  simp only [Bool.and_eq_true, beq_iff_eq] at ha
  obtain ⟨⟨⟨⟨⟨hsy, hfreq⟩, hord⟩, hlead⟩, hwid⟩, hout⟩ := ha
  obtain ⟨b0, b1, hb, h0, h1⟩ : ∃ b0 b1, t.bursts = [b0, b1] ∧
      nearL (symQ s.toSkel 0) [b0.1, b0.2] = true ∧ nearL (symQ s.toSkel 1) [b1.1, b1.2] = true := by
    split at hsy
    · rename_i b0 b1 hb
      simp only [Bool.and_eq_true] at hsy
      exact ⟨b0, b1, hb, hsy.1, hsy.2⟩
    · simp at hsy
  have h2 : t.bursts.length = 2 := by rw [hb]; rfl
  rw [h2] at hidx
  have hbits := bits_eq s.toSkel t h2 hord hwid vals
  rw [hsplit] at hbits
  have hj : j < 2 := hidx j (by simp)
  have hjl : j < t.bursts.length := by omega
  have hpj : t.bursts[j]? = some t.bursts[j] := List.getElem?_eq_getElem hjl
  obtain ⟨m, sp, hms⟩ : ∃ m sp, t.bursts[j] = (m, sp) := ⟨_, _, rfl⟩
  have hsym_j : symTimings t.bursts (idx' ++ [j]) = symTimings t.bursts idx' ++ [m, sp] := by
    rw [symTimings_append]; congr 1; simp [symTimings, hpj, hms]
  obtain ⟨g, hg⟩ : ∃ g, g = (if x > 0 then sumAbs (t.leadIn ++ symTimings t.bursts (idx' ++ [j])) - x else x) := ⟨_, rfl⟩
  have hframe : frameB t x idx' j = (t.leadIn ++ symTimings t.bursts idx' ++ [m]) ++ [sp + g] := by
    simp only [frameB, hpj, hms, hg]; simp
  -- the specified stream, last space included, is near the un-merged emitted one
  have hall : nearL (renderAllB s vals) ((t.leadIn ++ symTimings t.bursts idx' ++ [m]) ++ [sp]) = true := by
    unfold renderAllB
    rw [hbits]
    have e : (t.leadIn ++ symTimings t.bursts idx' ++ [m]) ++ [sp] = t.leadIn ++ symTimings t.bursts (idx' ++ [j]) := by
      rw [hsym_j]; simp
    rw [e]
    apply nearL_append _ _ _ _ hlead
    rw [hb]
    exact nearL_syms s.toSkel b0 b1 h0 h1 (idx' ++ [j]) hidx
  obtain ⟨qs', qa, hq, hpre, hlast⟩ := nearL_snoc _ _ _ hall
  have hpreB : renderPreB s vals = qs' := by unfold renderPreB; rw [hq, List.dropLast_concat]
  refine ⟨t.leadIn ++ symTimings t.bursts idx' ++ [m], sp + g, by rw [hbuild, hframe], by rw [hpreB]; exact hpre, ?_⟩
  rw [hS.lo] at hout
  cases hl : s.last with
  | gap d =>
    rw [hl] at hout
    simp only [Bool.and_eq_true, decide_eq_true_eq] at hout
    have hx : ¬ x > 0 := by omega
    have hgx : g = x := by rw [hg, if_neg hx]
    simp only [renderLastB, hl, hq, List.getLastD_concat]
    rw [hgx]
    unfold near at hlast hout
    unfold near2
    simp only [Bool.and_eq_true, decide_eq_true_eq] at hlast hout ⊢
    have : ((sp + x : Int) : Rat) = (sp : Rat) + (x : Rat) := by simp [Rat.intCast_add]
    rw [this]
    constructor <;> grind
  | extent n u =>
    rw [hl] at hout
    simp only [Bool.and_eq_true, decide_eq_true_eq, beq_iff_eq] at hout
    refine ⟨x, hout.2, hout.1, ?_, ?_⟩
    · have hgx : g = sumAbs (t.leadIn ++ symTimings t.bursts (idx' ++ [j])) - x := by rw [hg, if_pos hout.1]
      rw [hgx, hsym_j]
      obtain ⟨_, ps, _⟩ := hS.sym _ (List.getElem_mem hjl)
      rw [hms] at ps
      simp only at ps
      have e : t.leadIn ++ (symTimings t.bursts idx' ++ [m, sp]) = (t.leadIn ++ symTimings t.bursts idx' ++ [m]) ++ [sp] := by simp
      rw [e, sumAbs_append _ [sp], sumAbs_single, if_pos ps]
      omega
    · simp only [renderLastB, hl]

end IRModel.Props.C02
