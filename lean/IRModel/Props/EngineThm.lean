import IRModel.Props.RoundTrip
import IRModel.Lemmas.FieldLemmas
/-!
# Engine theorems for class-A protocols (shared by C01, C03, C05, C08)

`wfAll t tol` is a closed Boolean on the reflected tables of one protocol; the generated file
`IRGen/Obligations.lean` proves it per protocol and tolerance by kernel evaluation
(`decide +kernel`), so the theorems below apply to exactly the protocols whose obligation checks on
the current source tree.
-/
namespace IRModel.Props.EngineThm
open IRModel IRModel.Py IRModel.Match IRModel.Bits IRModel.CodeWrapper IRModel.Engine IRModel.Encode
open IRModel.Proto IRModel.Props.RoundTrip IRModel.Props.C19

/-- longest symbol of the table -/
def maxSym (b : List (Int × Int)) : Int := b.foldl (fun acc p => max acc (sumAbs [p.1, p.2])) 0

/-- a frame carrying `bitCount` bits fits into the frame period with room for a gap -/
def fitsPeriod (t : Tables) : Bool :=
  match t.leadOut with
  | [mo, x] =>
    if x > 0 then
      decide (sumAbs t.leadIn + ((t.bitCount / bitsPerSymbol t.bursts.length : Nat) : Int) * maxSym t.bursts + mo < x)
    else true
  | _ => false

/-- all decidable side conditions of the class-A theorems -/
def wfAll (t : Tables) (tol : Tol) : Bool :=
  wfA t tol && wfB t && tiles t.bursts.length 0 t.params && (tilesEnd 0 t.params == t.bitCount) &&
  fitsPeriod t && (t.leadOut.getLastD 0 != -999999999999)

theorem le_maxSym_foldl (b : List (Int × Int)) (acc : Int) :
    acc ≤ b.foldl (fun acc p => max acc (sumAbs [p.1, p.2])) acc ∧
    ∀ p ∈ b, sumAbs [p.1, p.2] ≤ b.foldl (fun acc p => max acc (sumAbs [p.1, p.2])) acc := by
  induction b generalizing acc with
  | nil => simp
  | cons q b ih =>
    simp only [List.foldl_cons]
    have h := ih (max acc (sumAbs [q.1, q.2]))
    refine ⟨by have := h.1; omega, ?_⟩
    intro p hp
    rcases List.mem_cons.mp hp with rfl | hp
    · have := h.1; omega
    · exact h.2 p hp

theorem symTimings_bound (b : List (Int × Int)) :
    ∀ (idx : List Nat), (∀ i ∈ idx, i < b.length) →
      sumAbs (symTimings b idx) ≤ (idx.length : Int) * maxSym b := by
  intro idx
  induction idx with
  | nil => intro _; simp [symTimings, sumAbs]
  | cons i idx ih =>
    intro h
    have hi : i < b.length := h i (by simp)
    rw [symTimings_cons b i idx _ (List.getElem?_eq_getElem hi)]
    have h1 : sumAbs (b[i].1 :: b[i].2 :: symTimings b idx) = sumAbs [b[i].1, b[i].2] + sumAbs (symTimings b idx) :=
      sumAbs_append [b[i].1, b[i].2] _
    have h2 : sumAbs [b[i].1, b[i].2] ≤ maxSym b := (le_maxSym_foldl b 0).2 _ (List.getElem_mem hi)
    have h3 := ih (fun j hj => h j (by simp [hj]))
    rw [h1]
    have : ((i :: idx).length : Int) * maxSym b = maxSym b + (idx.length : Int) * maxSym b := by
      simp only [List.length_cons]; rw [Int.natCast_add, Int.add_mul]; omega
    rw [this]; omega

theorem idxToBits_length (L i : Nat) (hL : L = 2 ∨ L = 4 ∨ L = 16) : (idxToBits L i).length = bitsPerSymbol L := by
  rcases hL with rfl | rfl | rfl <;> simp [idxToBits, bitsPerSymbol]

theorem flatMap_bits_length (L : Nat) (hL : L = 2 ∨ L = 4 ∨ L = 16) (idx : List Nat) :
    (idx.flatMap (idxToBits L)).length = idx.length * bitsPerSymbol L := by
  induction idx with
  | nil => simp
  | cons i idx ih =>
    simp only [List.flatMap_cons, List.length_append, ih, idxToBits_length L i hL, List.length_cons]
    rw [Nat.add_mul]; omega

structure Spec (t : Tables) (tol : Tol) : Prop where
  hA     : wfA t tol = true
  hB     : wfB t = true
  hT     : tiles t.bursts.length 0 t.params = true
  hE     : tilesEnd 0 t.params = t.bitCount
  hF     : fitsPeriod t = true
  hS     : t.leadOut.getLastD 0 ≠ -999999999999

theorem wfAll_spec {t : Tables} {tol : Tol} (h : wfAll t tol = true) : Spec t tol := by
  unfold wfAll at h
  simp only [Bool.and_eq_true, beq_iff_eq, bne_iff_ne, ne_eq] at h
  obtain ⟨⟨⟨⟨⟨h1, h2⟩, h3⟩, h4⟩, h5⟩, h6⟩ := h
  exact ⟨h1, h2, h3, h4, h5, h6⟩

/-- **engine round trip**: for a class-A protocol and *every* assignment of values to its
    `_parameters` fields (any naturals — values wider than a field are reduced modulo its width,
    which is what `_build_packet` does with raw integers),
    * `_build_packet` returns a frame that is a non-empty list of +mark/−space pairs (C03's shape),
    * a decoder instance without history decodes that frame, at tolerance `tol`, to a code whose fields
      are exactly those values modulo the field widths, and remembers it (base `decode`) . -/
theorem engine_roundtrip (t : Tables) (tol : Tol) (htol : tol.ok) (hw : wfAll t tol = true)
    (vals : List Nat) (hlen : vals.length = t.params.length) :
    ∃ frame, buildPacket t ((fieldsOf t.params vals).map (fun f => Item.field f.1 f.2)) = .ok frame ∧
      WellFormed frame ∧ altP frame = true ∧
      (t.leadOut.getLastD 0 > 0 → sumAbs frame = t.leadOut.getLastD 0) ∧
      ∃ c, (decodeFull t { last := none, tol := tol } frame []).result = .ok c ∧
        c.fields = List.zipWith (fun p v => (p.1, v % 2 ^ (p.2.2 + 1 - p.2.1))) t.params vals ∧
        c.frame = frame ∧ t.leadIn.length + 2 ≤ frame.length := by
  obtain ⟨hA, hB, hT, hE, hF, hS⟩ := wfAll_spec hw
  obtain ⟨hL, hli, hb, mo, x, hlo, hmo, hx0⟩ := wfB_spec hB
  obtain ⟨fields, hfields⟩ : ∃ f, f = fieldsOf t.params vals := ⟨_, rfl⟩
  rw [← hfields]
  -- decoded bit string and its length
  have hdec := fields_decode t.order t.bursts.length t.params vals 0 [] hT hlen rfl
  rw [← hfields] at hdec
  simp only [List.nil_append] at hdec
  have hidx : ∀ i ∈ fields.flatMap (fieldIdx t), i < t.bursts.length := by
    intro i hi
    obtain ⟨f, _, hf⟩ := List.mem_flatMap.mp hi
    exact (fieldIdx_spec t hL f).2 i hf
  have hbitsEq := flatMap_fields_bits t hL fields
  have hbl : ((fields.flatMap (fieldIdx t)).flatMap (idxToBits t.bursts.length)).length = t.bitCount := by
    rw [hbitsEq, hdec.2, hE]
  have hnsym : (fields.flatMap (fieldIdx t)).length = t.bitCount / bitsPerSymbol t.bursts.length := by
    have := flatMap_bits_length t.bursts.length hL (fields.flatMap (fieldIdx t))
    rw [hbl] at this
    have hk : 0 < bitsPerSymbol t.bursts.length := by
      rcases hL with h | h | h <;> rw [h] <;> decide
    rw [this, Nat.mul_div_cancel _ hk]
  -- the frame fits its period
  have hfit : x > 0 → sumAbs (t.leadIn ++ symTimings t.bursts (fields.flatMap (fieldIdx t)) ++ [mo]) < x := by
    intro hx
    unfold fitsPeriod at hF
    rw [hlo] at hF
    simp only [hx, if_true, decide_eq_true_eq] at hF
    have hb1 := symTimings_bound t.bursts _ hidx
    rw [hnsym] at hb1
    rw [sumAbs_append, sumAbs_append, sumAbs_single]
    have : ¬ mo < 0 := by omega
    rw [if_neg this]
    omega
  obtain ⟨hbuild, halt, _⟩ := build_frameA t hB mo x hlo fields hfit
  have hxs : x ≠ -999999999999 := by rw [hlo] at hS; simpa using hS
  have hparse := parse_frameA t tol htol hA mo x hlo hxs (fields.flatMap (fieldIdx t)) hidx hfit
  rw [compress_altP _ halt] at hparse
  have hne : frameA t mo x (fields.flatMap (fieldIdx t)) ≠ [] := by unfold frameA; simp
  refine ⟨_, hbuild, altP_wellFormed _ halt hne, halt, ?_, ?_⟩
  · intro hx
    rw [hlo] at hx ⊢
    have hx' : x > 0 := by simpa using hx
    unfold frameA lastGap
    simp only [if_pos hx', List.getLastD_cons, List.getLastD_nil]
    have h1 : t.leadIn ++ symTimings t.bursts (fields.flatMap (fieldIdx t)) ++ [mo, sumAbs (t.leadIn ++ symTimings t.bursts (fields.flatMap (fieldIdx t)) ++ [mo]) - x]
        = (t.leadIn ++ symTimings t.bursts (fields.flatMap (fieldIdx t)) ++ [mo]) ++ [sumAbs (t.leadIn ++ symTimings t.bursts (fields.flatMap (fieldIdx t)) ++ [mo]) - x] := by simp
    rw [h1, sumAbs_append _ [_], sumAbs_single]
    have := hfit hx'
    have hneg : sumAbs (t.leadIn ++ symTimings t.bursts (fields.flatMap (fieldIdx t)) ++ [mo]) - x < 0 := by omega
    rw [if_pos hneg]; omega
  · unfold decodeFull
    rw [hparse]
    simp only [hbl, Nat.lt_irrefl, if_false]
    by_cases hov : t.decodeOverridden
    · simp only [hov, if_true]
      exact ⟨_, rfl, by simp only [mkCode]; rw [hbitsEq]; exact hdec.1, rfl, by simp [frameA]⟩
    · simp only [hov, Bool.false_eq_true, if_false]
      exact ⟨_, rfl, by simp only [mkCode]; rw [hbitsEq]; exact hdec.1, rfl, by simp [frameA]⟩

end IRModel.Props.EngineThm
