import IRModel.Pronto
/-!
# C15 — Pronto hex conversion (structure)

Proved for every carrier and every list (the model computes every float step with exact round-to-nearest
`fl`, and is compared word for word with the real functions):

* `header_counts_match` : the burst-pair counts in the header are exactly half the number of data words
  emitted for the once / repeat sequence (after fix: f2cf2d4 this holds for odd lengths too);
* `total_words` : the word list is the 4-word header followed by those data words, nothing else;
* `roundtrip_length` : an even-length list comes back with the same number of durations, as
  mark/space pairs (`pairsOf`: even positions `+int(w·pw)`, odd positions `−int(w·pw)`);
* `hex4_length` : a word below 65536 renders as exactly four hex digits.
The numeric clause (each duration within the carrier quantisation) is decided by the search; a proof
would need monotonicity/error lemmas for `fl` that are not built (C15_partial).
-/
namespace IRModel.Props.C15
open IRModel.Pronto IRModel.Float IRModel.Py

theorem seqWords_length (f : Nat) (s : List Int) : (seqWords f s).length = 2 * ((s.length + 1) / 2) := by
  unfold seqWords
  by_cases h : s.length % 2 = 0
  · simp [h]; omega
  · have : s.length % 2 = 1 := by omega
    simp [this]; omega

/-- header pair counts match the data words that follow, for the once and the repeat sequence -/
theorem header_counts_match (freq : Int) (once rep : List Int) :
    let f : Nat := if freq ≤ 0 then 36000 else freq.toNat
    let ws := rlcToPronto freq (.nested [once, rep])
    ws.getD 2 0 * 2 = (seqWords f once).length ∧ ws.getD 3 0 * 2 = (seqWords f rep).length ∧
    ws.drop 4 = seqWords f once ++ seqWords f rep := by
  intro f ws
  refine ⟨?_, ?_, ?_⟩
  · show (once.length + 1) / 2 * 2 = _; rw [seqWords_length]; omega
  · show (rep.length + 1) / 2 * 2 = _; rw [seqWords_length]; omega
  · simp [ws, rlcToPronto, normalise, f]

theorem total_words (freq : Int) (l : List Int) :
    (rlcToPronto freq (.flat l)).length = 4 + 2 * ((l.length + 1) / 2) := by
  simp [rlcToPronto, normalise, seqWords_length]
  have := seqWords_length (if freq ≤ 0 then 36000 else freq.toNat) ([] : List Int)
  simp at this
  omega

theorem pairsOf_length (pw : Rat) : ∀ (ws : List Nat), (pairsOf pw ws).length = 2 * (ws.length / 2)
  | [] => rfl
  | [_] => by simp [pairsOf]
  | a :: b :: rest => by
    simp only [pairsOf, List.length_cons, pairsOf_length pw rest]
    omega

/-- an even-length list (at least one pair) comes back as one sequence of the same length -/
theorem roundtrip_length (freq : Int) (l : List Int) (heven : l.length % 2 = 0) (hne : 2 ≤ l.length) :
    ∃ f' s, prontoToRlc (rlcToPronto freq (.flat l)) = .ok (f', [s]) ∧ s.length = l.length := by
  obtain ⟨f, hf⟩ : ∃ f : Nat, f = (if freq ≤ 0 then 36000 else freq.toNat) := ⟨_, rfl⟩
  have hw : rlcToPronto freq (.flat l) =
      0 :: (roundHalfEven (prontoCarrier f)).toNat :: 0 :: ((l.length + 1) / 2) :: l.map (word f) := by
    simp [rlcToPronto, normalise, seqWords, heven, hf]
  rw [hw]
  have hrep : (l.length + 1) / 2 = l.length / 2 := by omega
  unfold prontoToRlc
  have hlen : ¬ ((0 :: (roundHalfEven (prontoCarrier f)).toNat :: 0 :: ((l.length + 1) / 2) :: l.map (word f)).length < 6) := by
    simp; omega
  simp only [hlen, decide_false, Bool.false_or, beq_self_eq_true, Bool.true_or, Bool.not_true,
    Bool.false_eq_true, if_false, List.length_map]
  have h2 : ¬ (l.length < 2 * (0 + (l.length + 1) / 2)) := by omega
  rw [if_neg h2]
  have h3 : (true && (l.length + 1) / 2 == 0) = false := by
    have : (l.length + 1) / 2 ≠ 0 := by omega
    simp [this]
  rw [h3]
  simp only [Bool.false_eq_true, if_false]
  have h4 : ((l.length + 1) / 2 != 0) = true := by
    have : (l.length + 1) / 2 ≠ 0 := by omega
    simp [this]
  have h5 : ((0 : Nat) != 0) = false := rfl
  simp only [h4, h5, Bool.false_eq_true, if_false, if_true, List.nil_append]
  refine ⟨_, _, rfl, ?_⟩
  rw [pairsOf_length]
  simp only [Nat.add_zero, Nat.mul_zero, List.drop_zero, List.length_take, List.length_map]
  omega

theorem hexDigits_small (n : Nat) (h : n < 65536) : (hexDigits 64 n).length ≤ 4 := by
  unfold hexDigits
  split
  · simp
  · have h1 : n / 16 < 4096 := by omega
    unfold hexDigits
    split
    · simp
    · have h2 : n / 16 / 16 < 256 := by omega
      unfold hexDigits
      split
      · simp
      · have h3 : n / 16 / 16 / 16 < 16 := by omega
        unfold hexDigits
        simp [h3]

theorem hex4_length (n : Nat) (h : n < 65536) : (hex4Chars n).length = 4 := by
  have h1 := hexDigits_small n h
  have h0 : 1 ≤ (hexDigits 64 n).length := by
    unfold hexDigits; split <;> simp
  simp only [hex4Chars, List.length_append, List.length_replicate]
  omega

/-- the pinned header arithmetic under-counted an odd-length sequence: 3 durations, 1 pair announced,
    4 data words follow (witness of the repaired defect) -/
theorem pinned_header_defect : (3 / 2 : Nat) * 2 ≠ (seqWords 38000 [9000, -4500, 560]).length := by decide




end IRModel.Props.C15
