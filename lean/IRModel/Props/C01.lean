import IRModel.Props.EngineThm
/-!
# C01 — encode then decode returns the parameters that were encoded (engine level)

`C01_engine`: for every class-A protocol (per-protocol obligation `wfAll`, kernel-checked on the
current tables, at each tolerance 5/10/20 %) and **every** assignment of naturals to its `_parameters`
fields, the frame `_build_packet` emits is decoded by a history-free `IrProtocolBase.decode` into a code
whose fields are exactly those values reduced modulo the field widths — no field is aliased, truncated
beyond its declared width, or made undecodable, whatever the values.

What the theorem does **not** cover (C01_partial): the per-protocol `encode()`/`decode()` wrappers —
the mapping of user parameters to fields, checksum/complement computation and re-checking, advertised
ranges versus field widths.  Those are decided by the search on the real classes (and the field-width
obligation `rangesFit` below, which is what RC5's `function` 0..127 on a 6-bit field fails).
-/
namespace IRModel.Props.C01
open IRModel IRModel.Py IRModel.Match IRModel.Engine IRModel.Encode IRModel.Proto IRModel.Props.EngineThm

theorem C01_engine (t : Tables) (tol : Tol) (htol : tol.ok) (hw : wfAll t tol = true)
    (vals : List Nat) (hlen : vals.length = t.params.length) :
    ∃ frame c, buildPacket t ((fieldsOf t.params vals).map (fun f => Item.field f.1 f.2)) = .ok frame ∧
      (baseDecode t { last := none, tol := tol } frame).result = .ok c ∧
      c.fields = List.zipWith (fun p v => (p.1, v % 2 ^ (p.2.2 + 1 - p.2.1))) t.params vals := by
  obtain ⟨frame, h1, _, _, _, c, h5, h6, _⟩ := engine_roundtrip t tol htol hw vals hlen
  exact ⟨frame, c, h1, by simpa [baseDecode] using h5, h6⟩

/-- in-width values come back unchanged -/
theorem C01_engine_exact (t : Tables) (tol : Tol) (htol : tol.ok) (hw : wfAll t tol = true)
    (vals : List Nat) (hlen : vals.length = t.params.length)
    (hfit : ∀ pv ∈ List.zip t.params vals, pv.2 < 2 ^ (pv.1.2.2 + 1 - pv.1.2.1)) :
    ∃ frame c, buildPacket t ((fieldsOf t.params vals).map (fun f => Item.field f.1 f.2)) = .ok frame ∧
      (baseDecode t { last := none, tol := tol } frame).result = .ok c ∧
      c.fields = List.zipWith (fun p v => (p.1, v)) t.params vals := by
  obtain ⟨frame, c, h1, h2, h3⟩ := C01_engine t tol htol hw vals hlen
  refine ⟨frame, c, h1, h2, ?_⟩
  rw [h3]
  clear h1 h2 h3 hlen hw
  generalize t.params = ps at hfit ⊢
  induction ps generalizing vals with
  | nil => simp
  | cons p ps ih =>
    cases vals with
    | nil => simp
    | cons v vs =>
      simp only [List.zipWith_cons_cons, List.zip_cons_cons, List.mem_cons, forall_eq_or_imp] at hfit ⊢
      rw [Nat.mod_eq_of_lt hfit.1, ih vs hfit.2]

/-- advertised ranges fit the fields they are stored in, for the user parameters that map to a
    `_parameters` field through `IRCode`'s attribute names (`device`→D, `function`→F, …):
    the decidable condition whose failure is the "silently truncated" clause of C01. -/
def viewKey (n : String) : String :=
  match n with
  | "device" => "D" | "sub_device" => "S" | "function" => "F" | "toggle" => "T" | "mode" => "M"
  | "extended_function" => "E" | "n" => "N" | "g" => "G" | "x" => "X" | "u" => "U"
  | "checksum" => "CHECKSUM" | "oem" => "OEM" | "oem1" => "OEM1" | "oem2" => "OEM2" | "address" => "A"
  | other => other.toUpper

def rangesFit (t : Tables) : Bool :=
  t.encodeParams.all fun (n, _, hi) =>
    match t.params.find? (fun p => p.1 == viewKey n) with
    | some (_, a, b) => decide (hi < 2 ^ (b + 1 - a))
    | none => true          -- parameter not stored in a field of that name: nothing to check here

end IRModel.Props.C01
