import IRModel.Tables
/-
  L4 — `CodeWrapper.__init__` for two-duration symbol tables WITHOUT middle timings on the general
  ("halfbit") path, i.e. tables whose symbols are not mirror images of each other
  (code_wrapper.py:135-332, 561-750 with `middle_timings == []`), and `get_value`.
  The Manchester path for tables without middle timings follows below (`parseWithM`); the duration-multiple path and
  middle timings are not modelled; tables that need them are `unsupported` and stay outside the theorems.
-/
namespace IRModel.CodeWrapper
open IRModel IRModel.Py IRModel.Match IRModel.Bits

/-- stream-encoding detection (code_wrapper.py:168-184) -/
inductive StreamEnc | general | manchester
deriving Repr, DecidableEq

def detect : (Int × Int) → List (Int × Int) → StreamEnc
  | _, [] => .general
  | last, (m, s) :: rest => if m == last.2 && s == last.1 then .manchester else detect (m, s) rest

def streamEnc (bursts : List (Int × Int)) : StreamEnc :=
  match bursts with
  | [] => .general
  | b :: rest => detect b rest

/-- the total-period check at the top of `__init__` -/
def periodCheck (tol : Tol) (leadOut code : List Int) : Except PyErr Unit :=
  match leadOut.getLast? with
  | some lo =>
    if lo > 0 then
      match code.getLast? with
      | none => .ok ()                                         -- `except IndexError: pass`
      | some last =>
        let expected := lo - sumAbs code.dropLast
        if isMatch tol (-expected) last then .ok () else .error .leadOut
    else .ok ()
  | none => .ok ()

/-- lead-in loop, general variant (code_wrapper.py:239-269, no middle timings).
    Returns the remaining code and the cleaned lead-in. -/
def leadInLoop (tol : Tol) (bursts : List (Int × Int)) : List Int → List Int → List Int →
    Except PyErr (List Int × List Int)
  | [], code, cleaned => .ok (code, cleaned)
  | e :: es, code, cleaned =>
    match code with
    | [] => .error .leadIn
    | burst :: rest =>
      if isMatch tol burst e then leadInLoop tol bursts es rest (cleaned ++ [e])
      else
        match bursts.find? (fun p => isMatch tol burst (e + p.1)) with
        | some p => leadInLoop tol bursts es (p.1 :: rest) (cleaned ++ [e])
        | none => .error .leadIn

/-- result of the inner `for _, space in bursts:` loop of the lead-out handling -/
def loHalfBit (tol : Tol) (bursts : List (Int × Int)) (lenLo i : Nat) (burst e : Int) : Option Int :=
  (bursts.find? (fun p =>
      (lenLo % 2 == 0 && i == 0 && isMatch tol (burst - p.2) e) ||
      (i + 1 == lenLo && decide (p.2 < 0) && isMatch tol (burst + p.2) e))).map (·.2)

def loFallback (tol : Tol) (bursts : List (Int × Int)) (burst e : Int) : Option Int :=
  (bursts.find? (fun p =>
      (decide (e < 0) && decide (p.2 < 0) && isMatch tol e (burst - p.2)) ||
      (decide (e > 0) && decide (p.2 > 0) && isMatch tol e (burst - p.2)))).map (·.2)

/-- lead-out loop, general variant (code_wrapper.py:271-330). `lo` is the part of the expected
    lead-out still to do, `i` its index. Returns remaining code, half bits and cleaned lead-out
    (`none` = the `None` placeholder of a total-period gap). -/
def leadOutLoop (tol : Tol) (bursts : List (Int × Int)) (lenLo : Nat) (totalTime : Int) :
    List Int → Nat → List Int → List Int → List (Option Int) →
    Except PyErr (List Int × List Int × List (Option Int))
  | [], _, code, half, cleaned => .ok (code, half, cleaned)
  | e :: es, i, code, half, cleaned =>
    if e == -999999999999 then .ok (code, half, cleaned)
    else
      match pyPop code ((code.length : Int) - ((lenLo : Int) - i)) with
      | .error _ => .error .leadOut
      | .ok (burst, code') =>
        if isMatch tol burst e then leadOutLoop tol bursts lenLo totalTime es (i + 1) code' half (cleaned ++ [some e])
        else
          match loHalfBit tol bursts lenLo i burst e with
          | some sp => leadOutLoop tol bursts lenLo totalTime es (i + 1) code' (half ++ [sp]) (cleaned ++ [some e])
          | none =>
            if i + 1 == lenLo && isMatch tol e (totalTime + (if burst < 0 then -burst else burst)) then
              leadOutLoop tol bursts lenLo totalTime es (i + 1) code' half (cleaned ++ [none])
            else if cleaned.isEmpty then
              match loFallback tol bursts burst e with
              | some sp => leadOutLoop tol bursts lenLo totalTime es (i + 1) code' (half ++ [sp]) (cleaned ++ [some e])
              | none => .error .leadOut
            else .error .leadOut

/-- classification of one duration on the general path: the first table value (mark, then space, symbol
    by symbol) it matches -/
def classify (tol : Tol) : List (Int × Int) → Int → Option Int
  | [], _ => none
  | (m, s) :: rest, burst =>
    if isMatch tol burst m then some m
    else if isMatch tol burst s then some s
    else classify tol rest burst

/-- the main loop: classify every duration, or IRStreamError -/
def classifyAll (tol : Tol) (bursts : List (Int × Int)) : List Int → Except PyErr (List Int)
  | [] => .ok []
  | b :: rest =>
    match classify tol bursts b with
    | none => .error .irStream
    | some v => (classifyAll tol bursts rest).map (v :: ·)

/-- sequential pairing (`pairs[-1] += [x]` when the last pair has one entry) -/
def pairUp : List Int → List (List Int)
  | [] => []
  | [a] => [[a]]
  | a :: b :: rest => [a, b] :: pairUp rest

/-- symbol lookup for a completed pair -/
def symbolBits (bursts : List (Int × Int)) (m s : Int) : Except PyErr (List Nat) :=
  match bursts.findIdx? (fun p => p.1 == m && p.2 == s) with
  | some i => .ok (idxToBits bursts.length i)
  | none => .error .irStream

/-- completion of a trailing single and symbol → bits (code_wrapper.py:698-726).
    Returns decoded bits and the extra cleaned entry (the completed space), if any. -/
def pairsToBits (bursts : List (Int × Int)) : List (List Int) → Except PyErr (List Nat × List Int)
  | [] => .ok ([], [])
  | [m, s] :: rest => do
    let b ← symbolBits bursts m s
    let (bs, ex) ← pairsToBits bursts rest
    pure (b ++ bs, ex)
  | [m] :: rest =>
    if rest.isEmpty then
      match bursts.find? (fun p => p.1 == m) with
      | some p => do
        let b ← symbolBits bursts m p.2
        pure (b, [p.2])
      | none => .error .irStream
    else .error .irStream
  | _ :: _ => .error .irStream

structure Parsed where
  bits    : List Nat
  cleaned : List Int          -- `_code` (what `list(code)` yields: the normalised frame)
deriving Repr, DecidableEq

/-- tables this model covers -/
def supported (t : Tables) : Bool :=
  t.shape == .pairs && !t.hasMiddle && streamEnc t.bursts == .general && !t.bursts.isEmpty

/-- `CodeWrapper(encoding, lead_in, lead_out, [], bursts, tolerance, code)` on the general path -/
def parseWith (tol : Tol) (leadIn leadOut : List Int) (bursts : List (Int × Int)) (data : List Int) :
    Except PyErr Parsed := do
  periodCheck tol leadOut data
  let totalTime := sumAbs data.dropLast
  let (code1, cleanedIn) ← leadInLoop tol bursts leadIn data []
  let (code2, half, cleanedLo) ← leadOutLoop tol bursts leadOut.length totalTime leadOut 0 code1 [] []
  let code3 := code2 ++ half
  let vals ← classifyAll tol bursts code3
  let (bits, extra) ← pairsToBits bursts (pairUp vals)
  let cleaned0 : List (Option Int) := (cleanedIn ++ vals ++ extra).map some ++ cleanedLo
  if cleaned0.isEmpty then .error .irStream
  else
    let body := cleaned0.dropLast.map (·.getD 0)
    let last : Int := match cleaned0.getLast? with
      | some (some v) => v
      | some none => -(leadOut.getLastD 0) + sumAbs body
      | none => 0
    pure { bits := bits, cleaned := compress (body ++ [last]) }

/-! ### the Manchester path (tables without middle timings; code_wrapper.py:362-381, 503-531) -/

/-- one duration of a bi-phase stream -/
def manchOne (tol : Tol) (mark space burst : Int) : Option (List Int) :=
  if isMatch tol burst mark then some [mark]
  else if isMatch tol burst space then some [space]
  else if isMatch tol burst (mark * 2) then some [mark, mark]
  else if isMatch tol burst (space * 2) then some [space, space]
  else none

def manchAll (tol : Tol) (mark space : Int) : List Int → Except PyErr (List Int)
  | [] => .ok []
  | b :: rest =>
    match manchOne tol mark space b with
    | none => .error .irStream
    | some v => (manchAll tol mark space rest).map (v ++ ·)

def supportedM (t : Tables) : Bool :=
  t.shape == .pairs && !t.hasMiddle && streamEnc t.bursts == .manchester && !t.bursts.isEmpty &&
  t.leadIn.getLast? != some (-999999999999)

/-- `CodeWrapper(...)` on the Manchester path -/
def parseWithM (tol : Tol) (leadIn leadOut : List Int) (bursts : List (Int × Int)) (data : List Int) :
    Except PyErr Parsed := do
  periodCheck tol leadOut data
  let totalTime := sumAbs data.dropLast
  let (code1, cleanedIn) ← leadInLoop tol bursts leadIn data []
  let (code2, half, cleanedLo) ← leadOutLoop tol bursts leadOut.length totalTime leadOut 0 code1 [] []
  let code3 := code2 ++ half
  let ms := bursts.headD (0, 0)
  let vals ← manchAll tol ms.1 ms.2 code3
  let (bits, extra) ← pairsToBits bursts (pairUp vals)
  let cleaned0 : List (Option Int) := (cleanedIn ++ vals ++ extra).map some ++ cleanedLo
  if cleaned0.isEmpty then .error .irStream
  else
    let body := cleaned0.dropLast.map (·.getD 0)
    let last : Int := match cleaned0.getLast? with
      | some (some v) => v
      | some none => -(leadOut.getLastD 0) + sumAbs body
      | none => 0
    pure { bits := bits, cleaned := compress (body ++ [last]) }

/-- `CodeWrapper(encoding, lead_in, lead_out, [], bursts, tolerance, code)`: the constructor takes the Manchester path
    when the symbol table is bi-phase, the general path otherwise -/
def parse (t : Tables) (tol : Tol) (data : List Int) : Except PyErr Parsed :=
  match streamEnc t.bursts with
  | .manchester => parseWithM tol t.leadIn t.leadOut t.bursts data
  | .general => parseWith tol t.leadIn t.leadOut t.bursts data

theorem parse_general {t : Tables} (h : streamEnc t.bursts = .general) (tol : Tol) (data : List Int) :
    parse t tol data = parseWith tol t.leadIn t.leadOut t.bursts data := by
  unfold parse; rw [h]

theorem parse_manchester {t : Tables} (h : streamEnc t.bursts = .manchester) (tol : Tol) (data : List Int) :
    parse t tol data = parseWithM tol t.leadIn t.leadOut t.bursts data := by
  unfold parse; rw [h]

theorem supported_general {t : Tables} (h : supported t = true) : streamEnc t.bursts = .general := by
  unfold supported at h
  simp only [Bool.and_eq_true, beq_iff_eq] at h
  exact h.1.2


/-- `get_value(start, stop)` as a number -/
def fieldValue (o : Order) (bits : List Nat) (start stop : Nat) : Nat :=
  (getValue o bits start stop).val

end IRModel.CodeWrapper
