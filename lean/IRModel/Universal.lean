import IRModel.Float
import IRModel.Py
/-
  S4 — the fallback decoder: `utils.clean_code` (float clustering, modelled with exact round-to-nearest
  `fl`), `build_mce_rlc` on the resulting floats, `Universal.__decode_1` (only its pulse-time path is
  reachable: the `biphase` branch is guarded by `and timings` with `timings == []`), `__decode_2`, and the
  `try / except:` between them (pyIRDecoder/protocols/universal.py, utils.py:29-156).
-/
namespace IRModel.Universal
open IRModel.Float IRModel.Py

def mean (l : List Int) : Rat := fl ((l.foldl (· + ·) 0 : Int) / (l.length : Int))

structure Thr where
  lowT  : Rat
  highT : Rat

def thr (t : Rat) : Thr := { lowT := fl (1 - fl (t / 100)), highT := fl (1 + fl (t / 100)) }

/-- `int(avg * high_threshold)` / `int(avg * low_threshold)` -/
def bHigh (th : Thr) (avg : Rat) : Int := trunc (fl (avg * th.highT))
def bLow (th : Thr) (avg : Rat) : Int := trunc (fl (avg * th.lowT))

/-- first pass: put `timing` into the first cluster whose window contains it, or open a new cluster.
    For spaces the code computes `low = int(avg*high)`, `high = int(avg*low)`; for marks the other way round. -/
def addTo (th : Thr) (neg : Bool) : List (List Int) → Int → List (List Int)
  | [], x => [[x]]
  | c :: cs, x =>
    let avg := mean c
    let lo := if neg then bHigh th avg else bLow th avg
    let hi := if neg then bLow th avg else bHigh th avg
    if lo ≤ x ∧ x ≤ hi then (c ++ [x]) :: cs else c :: addTo th neg cs x

def firstPass (th : Thr) (code : List Int) : List (List Int) × List (List Int) :=
  code.foldl (fun (ms : List (List Int) × List (List Int)) x =>
    if x < 0 then (ms.1, addTo th true ms.2 x) else (addTo th false ms.1 x, ms.2)) ([], [])

/-- try to merge `c` (mean `a`) into the first cluster of `cs` whose (mark-style) window contains `a` -/
def mergeInto (th : Thr) (c : List Int) (a : Rat) : List (List Int) → Option (List (List Int))
  | [] => none
  | m :: ms =>
    let avg := mean m
    if ((bLow th avg : Int) : Rat) ≤ a ∧ a ≤ ((bHigh th avg : Int) : Rat) then some ((m ++ c) :: ms)
    else (mergeInto th c a ms).map (m :: ·)

/-- second pass ("double check the groups for stragglers"): `while marks: mark = marks.pop(0) ...`;
    every iteration removes one cluster from the work list, so `fuel = length + 1` suffices -/
def secondPassF (th : Thr) : Nat → List (List Int) → List (List Int) → List (List Int)
  | 0, _, done => done
  | _, [], done => done
  | fuel + 1, c :: rest, done =>
    let a := mean c
    match mergeInto th c a rest with
    | some rest' => secondPassF th fuel rest' done
    | none =>
      match mergeInto th c a done with
      | some done' => secondPassF th fuel rest done'
      | none => secondPassF th fuel rest (done ++ [c])

def secondPass (th : Thr) (l done : List (List Int)) : List (List Int) := secondPassF th (l.length + 1) l done

/-- `utils.clean_code(ir_code, threshold)` : every duration replaced by the mean of its cluster -/
def cleanCode (code : List Int) (t : Rat) : List Rat :=
  let th := thr t
  let (m1, s1) := firstPass th code
  let marks := (secondPass th m1 []).map mean
  let spaces := (secondPass th s1 []).map mean
  code.map fun x =>
    match marks.find? (fun m => decide (((bLow th m : Int)) ≤ x ∧ x ≤ (bHigh th m : Int))) with
    | some m => m
    | none =>
      match spaces.find? (fun s => decide ((bHigh th s : Int) ≤ x ∧ x ≤ (bLow th s : Int))) with
      | some s => s
      | none => (x : Rat)

/-- `build_mce_rlc` on floats: `timing % 50` is Python's float floor-mod -/
def mceRat (x : Rat) : Rat :=
  let dif := x - 50 * ((x / 50).floor : Rat)
  if dif < 25 then fl (x + -dif) else fl (x + fl (50 - dif))

/-- `__decode_1` (reachable path). `none` = an exception (IndexError on `bits[0]`, ValueError of `.index`) -/
def decode1 (norm : List Rat) : Option Nat :=
  let bursts := norm.drop 2
  let lastTwo := norm.drop (norm.length - 2)
  let rec collect (i : Nat) (fuel : Nat) (bits : List (Rat × Rat)) : List (Rat × Rat) :=
    match fuel with
    | 0 => bits
    | fuel + 1 =>
      if i + 1 < bursts.length then
        let p := (bursts.getD i 0, bursts.getD (i + 1) 0)
        let bits' := if !bits.contains p && [p.1, p.2] != lastTwo then bits ++ [p] else bits
        collect (i + 2) fuel bits'
      else bits
  let bits := collect 0 bursts.length []
  match bits with
  | [] => none
  | _ =>
    let timings := bits.take 2
    let idxs := (List.range ((bursts.length + 1) / 2)).map (· * 2)
    let pairs := idxs.filterMap fun i =>
      let p := (norm.getD i 0, norm.getD (i + 1) 0)
      if timings.contains p then some p else none
    some ((pairs.zipIdx.map fun (p, i) => (timings.findIdx (· == p)) <<< i).foldl (· ||| ·) 0)

/-- `norm_data.remove(item)` for every item that occurs once (count taken on the shrinking list) -/
def dropSingles (l : List Rat) : List Rat :=
  l.foldl (fun cur item => if cur.count item == 1 then cur.erase item else cur) l

/-- `__decode_2`; `none` = IndexError on an empty list -/
def decode2 (norm : List Rat) : Option Nat :=
  let l0 := dropSingles norm
  match l0 with
  | [] => none
  | h :: _ =>
    let l1 := if h < 0 then l0.drop 1 else l0
    match l1.getLast? with
    | none => none
    | some lst =>
      let l2 := if lst < 0 then l1.dropLast else l1
      let step := fun (st : Rat × Rat × Nat × Nat × Nat) (x : Rat) =>
        let (lastPause, lastPulse, code, mask, i) := st
        if i % 2 == 1 then
          let diff := max (3 : Rat) (fl (lastPause * fl (2 / 10)))
          let code' := if -diff < x - lastPause ∧ x - lastPause < diff then code ||| mask else code
          (x, lastPulse, code', mask <<< 1, i + 1)
        else
          let diff := max (3 : Rat) (fl (lastPulse * fl (2 / 10)))
          let code' := if -diff < x - lastPulse ∧ x - lastPulse < diff then code ||| mask else code
          (lastPause, x, code', mask <<< 1, i + 1)
      let (_, _, code, mask, _) := l2.foldl step (0, 0, 0, 1, 0)
      some (code ||| mask)

/-- `Universal.decode(data, frequency).code` -/
def decode (data : List Int) (tol : Rat) : Except PyErr Nat :=
  if data.length ≤ 6 then .error .decode
  else
    let norm := (cleanCode data tol).map mceRat
    match decode1 norm with
    | some c => .ok c
    | none =>
      match decode2 norm with
      | some c => .ok c
      | none => .error .indexError

end IRModel.Universal
