import IRModel.Wrap
import IRModel.Props.C01
/-
  Decidable side conditions of the wrapper theorems (IRModel/Props/Wrapper.lean).  Everything here is
  a computable Boolean / Option on a traced `Wrapper` and the reflected `Tables`; the generated file
  IRGen/WrapObl.lean evaluates them per protocol in the kernel.
-/
namespace IRModel.Wrap
open IRModel IRModel.Py IRModel.Proto

/-- which decoded fields exist, with their widths (`_parameters`) -/
abbrev FieldWidths := List (String × Nat)

def widthsOf (t : Tables) : FieldWidths := t.params.map (fun p => (p.1, p.2.2 + 1 - p.2.1))

def isNonnegConst : WExp → Bool
  | .const c => decide (0 ≤ c)
  | _ => false

def isPosConst : WExp → Bool
  | .const k => decide (0 < k)
  | _ => false

/-- operators that keep non-negative operands non-negative and cannot fail -/
def okBin (op : BinOp) (b : WExp) : Bool :=
  match op with
  | .add => true | .mul => true | .and => true | .or => true | .xor => true
  | .mod => isPosConst b
  | .sub => false | .fdiv => false | .shl => false | .shr => false

/-- slice shapes that cannot fail: a step, if given, is non-negative; `x[::s]` (no stop) is excluded -/
def okSlice (st sp : Option Int) : Bool :=
  (match sp with | some s => decide (0 ≤ s) | none => true) && !(st.isNone && sp.isSome)

/-- "evaluation succeeds with a non-negative value" in every environment
    whose parameters and fields are non-negative — a syntactic sufficient condition -/
def safe (F : FieldWidths) (L : FieldWidths := []) : WExp → Bool
  | .param _ => true
  | .field n => (F.find? (fun p => p.1 == n)).isSome
  | .lastfield n => (L.find? (fun p => p.1 == n)).isSome        -- fields of the held code, when one is held
  | .const k => decide (0 ≤ k)
  | .mk e _ => safe F L e
  | .mkd e => safe F L e
  | .bin op a b => safe F L a && safe F L b && okBin op b
  | .ibin op a b => safe F L a && safe F L b && okBin op b
  | .shl a k => safe F L a && isNonnegConst k
  | .shr a k => safe F L a && isNonnegConst k
  | .neg _ => false
  | .pos _ => false
  | .abs _ => false
  | .inv _ => false
  | .rev a => safe F L a
  | .invbits a _ => safe F L a
  | .revbits a _ => safe F L a
  | .slice a _ st sp => safe F L a && okSlice st sp
  | .popcount a => safe F L a
  | .bit _ _ => false

/-- the width an expression is guaranteed to have (top constructor only) -/
def staticW (F : FieldWidths) : WExp → Option Nat
  | .field n => (F.find? (fun p => p.1 == n)).map (·.2)
  | .mk _ w => if 0 ≤ w then some w.toNat else none
  | .invbits _ (some k) => if 0 ≤ k then some k.toNat else none
  | .revbits _ (some k) => if 0 ≤ k then some k.toNat else none
  | .slice _ _ (some st) _ => if 0 < st then some st.toNat else none
  | _ => none

/-- replace decoded fields by the expressions the encoder computes them with -/
def subst (σ : String → Option WExp) : WExp → WExp
  | .param n => .param n
  | .field n => match σ n with | some e => e | none => .field n
  | .lastfield n => .lastfield n
  | .const k => .const k
  | .mk e w => .mk (subst σ e) w
  | .mkd e => .mkd (subst σ e)
  | .bin op a b => .bin op (subst σ a) (subst σ b)
  | .ibin op a b => .ibin op (subst σ a) (subst σ b)
  | .shl a k => .shl (subst σ a) (subst σ k)
  | .shr a k => .shr (subst σ a) (subst σ k)
  | .neg a => .neg (subst σ a)
  | .pos a => .pos (subst σ a)
  | .abs a => .abs (subst σ a)
  | .inv a => .inv (subst σ a)
  | .rev a => .rev (subst σ a)
  | .invbits a nb => .invbits (subst σ a) nb
  | .revbits a nb => .revbits (subst σ a) nb
  | .slice a s st sp => .slice (subst σ a) s st sp
  | .popcount a => .popcount (subst σ a)
  | .bit a i => .bit (subst σ a) i

/-- no user parameter (what a traced `decode()` expression looks like) -/
def noParam : WExp → Bool
  | .param _ => false
  | .field _ | .lastfield _ | .const _ => true
  | .mk e _ | .mkd e | .neg e | .pos e | .abs e | .inv e | .rev e | .invbits e _ | .revbits e _
  | .slice e _ _ _ | .popcount e | .bit e _ => noParam e
  | .bin _ a b | .ibin _ a b | .shl a b | .shr a b => noParam a && noParam b

def noParamCond : Cond → Bool
  | .cmp _ a b => noParam a && noParam b
  | .lastEq => true
  | .not c => noParamCond c
  | .nbitsNe0 a => noParam a

/-- no parameter, field or held-code reference -/
def closed : WExp → Bool
  | .param _ | .field _ | .lastfield _ => false
  | .const _ => true
  | .mk e _ | .mkd e | .neg e | .pos e | .abs e | .inv e | .rev e | .invbits e _ | .revbits e _
  | .slice e _ _ _ | .popcount e | .bit e _ => closed e
  | .bin _ a b | .ibin _ a b | .shl a b | .shr a b => closed a && closed b

def env0 : Env := { params := fun _ => 0, fields := fun _ => none, last := fun _ => none }

/-- decide a comparison of two encoder-side expressions for ALL parameter values: syntactically
    equal safe expressions have equal values; closed expressions are evaluated -/
def decideCmp (op : CmpOp) (a b : WExp) : Option Bool :=
  if a == b && safe [] [] a then some (cmpVal op 0 0)
  else if closed a && closed b then
    match eval env0 a, eval env0 b with
    | .ok x, .ok y => some (cmpVal op x.v y.v)
    | _, _ => none
  else none

def decideCond (σ : String → Option WExp) : Cond → Option Bool
  | .cmp op a b => if noParam a && noParam b then decideCmp op (subst σ a) (subst σ b) else none
  | .lastEq => none
  | .not c => (decideCond σ c).map (!·)
  | .nbitsNe0 _ => none

/-- symbolic walk of a decode tree on the fields the encoder produces -/
def symRun (σ : String → Option WExp) : DTree → Option (List Eff × Outcome)
  | .leaf effs out => some (effs, out)
  | .ite c t e =>
    match decideCond σ c with
    | some true => symRun σ t
    | some false => symRun σ e
    | none => none

/-- the encoder-side expression of each `_parameters` field, as an `IntegerWrapper` of the declared
    width: a keyword passed as a plain int is wrapped by `_build_packet` -/
def sigmaOf (t : Tables) (p : Packet) : String → Option WExp := fun n =>
  match t.params.find? (fun prm => prm.1 == n), p.kwargs.find? (fun k => k.1 == n) with
  | some prm, some k => if k.2.1 then some k.2.2 else some (.mk k.2.2 ((prm.2.2 : Int) + 1 - prm.2.1))
  | _, _ => none

/-- the first frame `encode(**u)` emits -/
def firstFrame (t : Tables) (w : Wrapper) (u : String → Int) : Except PyErr (List Int) :=
  match w.enc[0]? with
  | none => .error .typeError
  | some tr =>
    match tr.frames.head? with
    | some (.packet k) =>
      match tr.packets[k]? with
      | some p => buildTraced t { params := u, fields := fun _ => none, last := fun _ => none } p
      | none => .error .indexError
    | some (.lit ds) => .ok ds
    | none => .error .indexError

def firstPacket (w : Wrapper) : Option Packet :=
  match w.enc[0]? with
  | none => none
  | some tr => match tr.frames.head? with
    | some (.packet k) => tr.packets[k]?
    | _ => none

/-- is `e` the user parameter `name`, stored without loss in a field of `width` bits when it is at most `hi`? -/
def isParamExpr (e : WExp) (name : String) (hi : Nat) : Bool :=
  match e with
  | .param n => n == name
  | .mk (.param n) w => n == name && decide (0 ≤ w) && decide (hi < 2 ^ w.toNat)
  | _ => false

/-- **C01 at wrapper level**, the decidable obligation:
    * the first frame is a `_build_packet` call with keyword fields only, one for every `_parameters`
      entry; every field expression is safe, and fields passed as `IntegerWrapper` have exactly the
      declared width;
    * the traced `decode()` tree, walked symbolically on those field expressions with no held code,
      reaches a `return code` leaf whose reported fields are the decoded ones;
    * every advertised parameter is stored, without loss, in the field `IRCode` reports it from. -/
def c01OK (t : Tables) (w : Wrapper) : Bool :=
  match firstPacket w with
  | none => false
  | some p =>
    p.args.isEmpty && (w.decTraced || !t.decodeOverridden) &&
    t.params.all (fun prm => t.params.find? (fun q => q.1 == prm.1) == some prm && decide (prm.2.1 ≤ prm.2.2 + 1)) &&   -- field names are distinct
    t.params.all (fun prm =>
      match p.kwargs.find? (fun k => k.1 == prm.1) with
      | some k => safe [] [] k.2.2 && (!k.2.1 || staticW [] k.2.2 == some (prm.2.2 + 1 - prm.2.1))
      | none => false) &&
    (!t.decodeOverridden ||
     (match symRun (sigmaOf t p) w.treeNone with
      | some (_, .ret fields _) =>
        t.params.all (fun prm => fields.any (fun f => f.1 == prm.1 && f.2 == .field prm.1)) &&
        fields.all (fun f => t.params.any (fun prm => prm.1 == f.1 && f.2 == .field prm.1))
      | _ => false)) &&
    t.encodeParams.all (fun ep =>
      match t.params.find? (fun prm => prm.1 == Props.C01.viewKey ep.1), p.kwargs.find? (fun k => k.1 == Props.C01.viewKey ep.1) with
      | some prm, some k => isParamExpr k.2.2 ep.1 ep.2.2 && decide (ep.2.2 < 2 ^ (prm.2.2 + 1 - prm.2.1))
      | _, _ => false)

end IRModel.Wrap

/-! ### C05 at wrapper level: every accepted field vector is the encoder's image of the reported parameters -/
namespace IRModel.Wrap
open IRModel IRModel.Py IRModel.Proto

/-- all root-to-leaf paths of a decode tree with the decisions taken on the way -/
def paths : DTree → List (List (Cond × Bool) × List Eff × Outcome)
  | .leaf e o => [([], e, o)]
  | .ite c t e =>
    (paths t).map (fun p => ((c, true) :: p.1, p.2)) ++ (paths e).map (fun p => ((c, false) :: p.1, p.2))

def condSafe (F : FieldWidths) (L : FieldWidths := []) : Cond → Bool
  | .cmp _ a b => safe F L a && safe F L b
  | .lastEq => true
  | .not c => condSafe F L c
  | .nbitsNe0 _ => false

def treeSafe (F : FieldWidths) (L : FieldWidths := []) : DTree → Bool
  | .leaf _ _ => true
  | .ite c t e => condSafe F L c && treeSafe F L t && treeSafe F L e

/-- user parameters only occur where just their VALUE is used (operands of `IntegerWrapper(…)`, of int/IntegerWrapper
    arithmetic, shift counts), never where a width is read -/
def isParam : WExp → Bool
  | .param _ => true
  | _ => false

def valueOnly : WExp → Bool
  | .param _ => true
  | .const _ => true
  | .field _ | .lastfield _ => false              -- encoder-side expressions have neither
  | .mk e _ | .mkd e => valueOnly e
  | .bin _ a b | .ibin _ a b => valueOnly a && valueOnly b
  | .shl a k | .shr a k => valueOnly a && !isParam a && valueOnly k
  | .neg e | .pos e | .abs e | .inv e | .rev e | .invbits e _ | .revbits e _ | .slice e _ _ _ | .popcount e | .bit e _ =>
    valueOnly e && !isParam e

/-- every user parameter occurring in `e` is reported from an existing field -/
def paramsCovered (F : FieldWidths) (ρ : String → String) : WExp → Bool
  | .param n => (F.find? (fun p => p.1 == ρ n)).isSome
  | .field _ | .lastfield _ | .const _ => true
  | .mk e _ | .mkd e | .neg e | .pos e | .abs e | .inv e | .rev e | .invbits e _ | .revbits e _
  | .slice e _ _ _ | .popcount e | .bit e _ => paramsCovered F ρ e
  | .bin _ a b | .ibin _ a b | .shl a b | .shr a b => paramsCovered F ρ a && paramsCovered F ρ b

/-- replace user parameters by the decoded field `IRCode` reports them from -/
def substParam (ρ : String → String) : WExp → WExp
  | .param n => .field (ρ n)
  | .field n => .field n
  | .lastfield n => .lastfield n
  | .const k => .const k
  | .mk e w => .mk (substParam ρ e) w
  | .mkd e => .mkd (substParam ρ e)
  | .bin op a b => .bin op (substParam ρ a) (substParam ρ b)
  | .ibin op a b => .ibin op (substParam ρ a) (substParam ρ b)
  | .shl a k => .shl (substParam ρ a) (substParam ρ k)
  | .shr a k => .shr (substParam ρ a) (substParam ρ k)
  | .neg a => .neg (substParam ρ a)
  | .pos a => .pos (substParam ρ a)
  | .abs a => .abs (substParam ρ a)
  | .inv a => .inv (substParam ρ a)
  | .rev a => .rev (substParam ρ a)
  | .invbits a nb => .invbits (substParam ρ a) nb
  | .revbits a nb => .revbits (substParam ρ a) nb
  | .slice a s st sp => .slice (substParam ρ a) s st sp
  | .popcount a => .popcount (substParam ρ a)
  | .bit a i => .bit (substParam ρ a) i

/-- `IntegerWrapper(<decoded field>, <its own width>)` is that field -/
def normF (F : FieldWidths) : WExp → WExp
  | .mk e w =>
    match normF F e with
    | .field n => if (F.find? (fun p => p.1 == n)).map (fun p => (p.2 : Int)) == some w then .field n else .mk (.field n) w
    | e' => .mk e' w
  | .param n => .param n
  | .field n => .field n
  | .lastfield n => .lastfield n
  | .const k => .const k
  | .mkd e => .mkd (normF F e)
  | .bin op a b => .bin op (normF F a) (normF F b)
  | .ibin op a b => .ibin op (normF F a) (normF F b)
  | .shl a k => .shl (normF F a) (normF F k)
  | .shr a k => .shr (normF F a) (normF F k)
  | .neg a => .neg (normF F a)
  | .pos a => .pos (normF F a)
  | .abs a => .abs (normF F a)
  | .inv a => .inv (normF F a)
  | .rev a => .rev (normF F a)
  | .invbits a nb => .invbits (normF F a) nb
  | .revbits a nb => .revbits (normF F a) nb
  | .slice a s st sp => .slice (normF F a) s st sp
  | .popcount a => .popcount (normF F a)
  | .bit a i => .bit (normF F a) i

/-- two field-side expressions certainly have the same VALUE: syntactically equal, or closed with equal values -/
def sameVal (x y : WExp) : Bool :=
  x == y ||
  (closed x && closed y &&
    (match eval env0 x, eval env0 y with
     | .ok a, .ok b => a.v == b.v
     | _, _ => false))

/-- the path forces `field k = e'` -/
def justified (F : FieldWidths) (path : List (Cond × Bool)) (k : String) (e' : WExp) : Bool :=
  e' == .field k ||
  path.any (fun cb =>
    match cb.1 with
    | .cmp op a b =>
      ((op == .eq && cb.2) || (op == .ne && !cb.2)) &&
      ((normF F a == .field k && sameVal (normF F b) e') || (normF F b == .field k && sameVal (normF F a) e'))
    | _ => false)

/-- the parameter a user-visible attribute name maps back to (inverse of `viewKey` on the advertised names) -/
def rhoOf (_t : Tables) : String → String := Props.C01.viewKey

/-- **C05 at wrapper level**, the decidable obligation: the encoder side as in `c01OK`; every expression of the decode
    tree is safe; on every path of the history-free tree that returns a code, the reported fields are the decoded ones
    and EVERY `_parameters` field is forced, by the comparisons made on that path, to equal the encoder's expression
    for it evaluated on the reported parameters; leaves that raise raise library errors. -/
def c05OK (t : Tables) (w : Wrapper) : Bool :=
  match firstPacket w with
  | none => false
  | some p =>
    let F := widthsOf t
    p.args.isEmpty && w.decTraced && t.decodeOverridden &&
    t.params.all (fun prm => t.params.find? (fun q => q.1 == prm.1) == some prm && decide (prm.2.1 ≤ prm.2.2 + 1)) &&
    t.params.all (fun prm =>
      match p.kwargs.find? (fun k => k.1 == prm.1) with
      | some k => safe [] [] k.2.2 && valueOnly k.2.2 && paramsCovered F (rhoOf t) k.2.2 && (!k.2.1 || staticW [] k.2.2 == some (prm.2.2 + 1 - prm.2.1))
      | none => false) &&
    treeSafe F [] w.treeNone &&
    (paths w.treeNone).all (fun pth =>
      match pth.2.2 with
      | .ret fields _ =>
        t.params.all (fun prm => fields.any (fun f => f.1 == prm.1 && f.2 == .field prm.1)) &&
        fields.all (fun f => t.params.any (fun prm => prm.1 == f.1 && f.2 == .field prm.1)) &&
        t.params.all (fun prm =>
          match sigmaOf t p prm.1 with
          | some e => justified F pth.1 prm.1 (normF F (substParam (rhoOf t) e))
          | none => false)
      | .raise cls => (errOfName cls).isLibrary
      | .retLast => false
      | .retOther => false)

end IRModel.Wrap

/-! ### C07 at wrapper level: with a key held, `decode()` answers a full frame as a decoder without history does -/
namespace IRModel.Wrap
open IRModel IRModel.Py IRModel.Proto

/-- no reference to the held code -/
def noLast : WExp → Bool
  | .lastfield _ => false
  | .param _ | .field _ | .const _ => true
  | .mk e _ | .mkd e | .neg e | .pos e | .abs e | .inv e | .rev e | .invbits e _ | .revbits e _
  | .slice e _ _ _ | .popcount e | .bit e _ => noLast e
  | .bin _ a b | .ibin _ a b | .shl a b | .shr a b => noLast a && noLast b

def noLastCond : Cond → Bool
  | .cmp _ a b => noLast a && noLast b
  | .lastEq => false
  | .not c => noLastCond c
  | .nbitsNe0 a => noLast a

def noLastTree : DTree → Bool
  | .leaf _ out => (match out with | .retLast => false | _ => true)
  | .ite c t e => noLastCond c && noLastTree t && noLastTree e

/-- two paths that decide some comparison in opposite ways cannot both be taken on the same decoded fields -/
def opposite (P Q : List (Cond × Bool)) : Bool :=
  P.any (fun cb => Q.any (fun cb' => decide (cb.1 = cb'.1) && (cb.2 != cb'.2)))

/-- the leaf reports the decoded fields unchanged -/
def retIdentity (t : Tables) (fs : List (String × WExp)) : Bool :=
  t.params.all (fun prm => fs.any (fun f => f.1 == prm.1 && f.2 == .field prm.1)) &&
  fs.all (fun f => t.params.any (fun prm => prm.1 == f.1 && f.2 == .field prm.1))

/-- the path establishes that the held code and the decoded code agree on field `k` -/
def sameOnPath (t : Tables) (P : List (Cond × Bool)) (k : String) : Bool :=
  (P.any (fun cb => (cb.1 == .lastEq && cb.2) || (cb.1 == .not .lastEq && !cb.2)) && t.codeOrder.any (fun p => p.1 == k)) ||
  P.any (fun cb =>
    match cb.1 with
    | .cmp op a b =>
      ((op == .eq && cb.2) || (op == .ne && !cb.2)) &&
      ((a == .lastfield k && b == .field k) || (a == .field k && b == .lastfield k))
    | _ => false)

def outcomeAgree (t : Tables) (Ps Pn : List (Cond × Bool) × List Eff × Outcome) : Bool :=
  match Ps.2.2, Pn.2.2 with
  | .raise a, .raise b => decide (errOfName a = errOfName b)
  | .ret fs _, .ret fn _ => retIdentity t fs && retIdentity t fn
  | .retLast, .ret fn _ =>
    retIdentity t fn &&
    t.encodeParams.all (fun ep => sameOnPath t Ps.1 (Props.C01.viewKey ep.1))
  | _, _ => false

/-- **C07 at wrapper level**, the decidable obligation -/
def c07OK (t : Tables) (w : Wrapper) : Bool :=
  let F := widthsOf t
  w.decTraced && t.decodeOverridden && t.repeatBursts.isEmpty &&
  t.params.all (fun prm => t.params.find? (fun q => q.1 == prm.1) == some prm && decide (prm.2.1 ≤ prm.2.2)) &&
  treeSafe F [] w.treeNone && noLastTree w.treeNone && treeSafe F F w.treeSome &&
  (paths w.treeSome).all (fun Ps => (paths w.treeNone).all (fun Pn => opposite Ps.1 Pn.1 || outcomeAgree t Ps Pn))

end IRModel.Wrap

/-! ### C03 at wrapper level: every frame `encode()` emits, for repeat_count 0, 1, 2 -/
namespace IRModel.Wrap
open IRModel IRModel.Py IRModel.Proto IRModel.Engine

/-- a `_build_packet` call with keyword fields only, one for every `_parameters` entry, safe and of the declared widths -/
def packetOK (t : Tables) (p : Packet) : Bool :=
  p.args.isEmpty &&
  t.params.all (fun prm =>
    match p.kwargs.find? (fun k => k.1 == prm.1) with
    | some k => safe [] [] k.2.2 && (!k.2.1 || staticW [] k.2.2 == some (prm.2.2 + 1 - prm.2.1))
    | none => false)

/-- a literal frame (hand-assembled repeat / ditto frame): mark first, alternating, space last, no zero; and the
    frame period where the protocol has one -/
def litOK (t : Tables) (ds : List Int) : Bool :=
  altP ds && !ds.isEmpty && (decide (t.leadOut.getLastD 0 ≤ 0) || Py.sumAbs ds == t.leadOut.getLastD 0)

def traceOK (t : Tables) (tr : EncTrace) : Bool :=
  tr.packets.all (packetOK t) && !tr.frames.isEmpty &&
  tr.frames.all (fun r => match r with
    | .packet k => decide (k < tr.packets.length)
    | .lit ds => litOK t ds)

def frameCount (w : Wrapper) (rc : Nat) : Nat := match w.enc[rc]? with | some tr => tr.frames.length | none => 0

/-- **C03 at wrapper level**, the decidable obligation: traces for repeat_count 0, 1, 2; every frame is a well-formed
    packet or literal; the number of frames grows by the same positive amount per repeat; the code carries the
    protocol's carrier frequency -/
def c03OK (t : Tables) (w : Wrapper) : Bool :=
  w.enc.length == 3 && w.enc.all (traceOK t) &&
  decide (frameCount w 0 < frameCount w 1) &&
  decide (frameCount w 1 - frameCount w 0 = frameCount w 2 - frameCount w 1) && decide (frameCount w 1 < frameCount w 2) &&
  (w.frequency == some t.frequency)

end IRModel.Wrap

/-! ### C08 at wrapper level: `decode()` raises library errors only, in every state and on every input -/
namespace IRModel.Wrap
open IRModel IRModel.Py IRModel.Proto

def leafOK (t : Tables) : Outcome → Bool
  | .raise cls => (errOfName cls).isLibrary
  | .ret fs _ => retIdentity t fs
  | .retLast => true
  | .retOther => false

def leavesOK (t : Tables) : DTree → Bool
  | .leaf _ out => leafOK t out
  | .ite _ a b => leavesOK t a && leavesOK t b

def c08OK (t : Tables) (w : Wrapper) : Bool :=
  let F := widthsOf t
  w.decTraced && t.decodeOverridden &&
  t.params.all (fun prm => t.params.find? (fun q => q.1 == prm.1) == some prm && decide (prm.2.1 ≤ prm.2.2)) &&
  treeSafe F [] w.treeNone && noLastTree w.treeNone && treeSafe F F w.treeSome &&
  leavesOK t w.treeNone && leavesOK t w.treeSome

end IRModel.Wrap

/-! ### C06 at wrapper level, full-frame repeat style -/
namespace IRModel.Wrap
open IRModel IRModel.Py IRModel.Proto

/-- the key-held sequence is the data frame sent `repeat_count + 1` times: every frame of every trace is the first
    packet, and that packet is the same call in all three traces; a data frame is longer than a repeat marker -/
def c06OK (t : Tables) (w : Wrapper) : Bool :=
  match firstPacket w with
  | none => false
  | some p0 =>
    w.enc.all (fun tr => decide (tr.packets.head? = some p0) && tr.frames.all (fun r => decide (r = .packet 0))) &&
    decide (t.repeatLeadIn.length + t.repeatLeadOut.length < t.leadIn.length + 2)

end IRModel.Wrap

/-! ### C13 for a traced protocol decoder -/
namespace IRModel.Wrap
open IRModel IRModel.Py IRModel.Proto

/-- leaves that raise perform no effect on `_last_code` / timers first -/
def raisePure : DTree → Bool
  | .leaf effs out => (match out with | .raise _ => effs.isEmpty | _ => true)
  | .ite _ a b => raisePure a && raisePure b

def c13OK (t : Tables) (w : Wrapper) : Bool := c08OK t w && raisePure w.treeNone && raisePure w.treeSome

end IRModel.Wrap
