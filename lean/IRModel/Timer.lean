/-
  L8 — release timers: `Timer` (ir_code.py:40-90), one poll of `TimerThreadWorker.run`, the in-order
  drain of `ProcessThreadWorker.run`, `IRCode.__repeat_reset` with the three kinds of bound callbacks
  (`decoder.reset` by identity — fix: df018e8 —, the dispatcher's `__reset_last_code` by equality, the user's),
  and the dispatcher/decoder reaction to frames of ONE enabled protocol, as an event machine over a
  virtual microsecond clock.  Code objects have identity (`id`) and a key (what `==` compares).

  Thresholds: `adjusted = d + d*0.20 + 4*proc` is compared as `5*elapsed ≥ 6*d + 20*proc` in integers; the
  harness never places the clock within 2 µs of a threshold, so the float rounding of `d*0.20` cannot matter.
-/
namespace IRModel.Timer

structure Obj where
  key      : Nat
  toggle   : Nat := 0
  start    : Option Int := none      -- `timer` is a TimerUS started at `start`, or None
  padded   : Bool := false           -- `start()` has run: adjusted_duration = 1.2 d + 4 proc (before: = d)
  proc     : Int := 0                -- `timer.elapsed()` of the dispatcher timer at `start()` time
  bound    : Bool := false           -- dispatcher's `__reset_last_code` is among the callbacks
  user     : Bool := false           -- a user release callback is bound
deriving Repr, DecidableEq

inductive Job
  | release (id : Nat)               -- `code.__repeat_reset`
  | decoded (id : Nat)               -- the decode callback with that code
deriving Repr, DecidableEq

inductive Out
  | released (id : Nat) (key : Nat)  -- a user release callback ran
  | decoded (id : Nat) (key : Nat)   -- the decode callback ran
deriving Repr, DecidableEq

/-- how the protocol's decoder treats a second frame of the held key -/
inductive Style
  | sameObject        -- returns its `_last_code` object (NEC, Sony, …)
  | toggleReplaces    -- a frame whose toggle differs replaces the held object by an equal one (RC5 style)
deriving Repr, DecidableEq

/-- code objects are identified by their position in `objs` (order of creation) -/
structure St where
  now      : Int := 0
  duration : Int                      -- repeat timeout of the protocol (µs)
  style    : Style := .sameObject
  objs     : List Obj := []
  decLast  : Option Nat := none       -- decoder._last_code (object id)
  dispLast : Option Nat := none       -- dispatcher._last_code
  timerQ   : List Nat := []           -- TimerThreadWorker.queue (object ids)
  procQ    : List Job := []           -- ProcessThreadWorker.queue
  outs     : List Out := []
deriving Repr

def getObj (s : St) (i : Nat) : Option Obj := s.objs[i]?
def setObj (s : St) (i : Nat) (o : Obj) : St := { s with objs := s.objs.set i o }

/-- `elapsed >= adjusted_duration` -/
def expired (s : St) (o : Obj) : Bool :=
  match o.start with
  | some t =>
    if o.padded then decide (5 * (s.now - t) ≥ 6 * s.duration + 20 * o.proc)
    else decide (s.now - t ≥ s.duration)          -- a Timer that was constructed but never started
  | none => false

/-- `Timer.is_running` -/
def isRunning (s : St) (o : Obj) : Bool := o.start.isSome && !expired s o

/-- `Timer.start(dispatcher_timer)` -/
def startTimer (s : St) (i : Nat) (proc : Int) : St :=
  match getObj s i with
  | some o =>
    let s' := setObj s i { o with start := some s.now, padded := true, proc := proc }
    if s'.timerQ.contains i then s' else { s' with timerQ := s'.timerQ ++ [i] }
  | none => s

/-- `Timer.stop()` -/
def stopTimer (s : St) (i : Nat) : St :=
  match getObj s i with
  | some o => if o.start.isSome then { (setObj s i { o with start := none }) with procQ := s.procQ ++ [.release i] } else s
  | none => s

/-- what one pass of the timer thread does with queue entry `i`: 0 keep, 1 drop silently, 2 fire -/
def pollAct (s : St) (i : Nat) : Nat :=
  match getObj s i with
  | some o => if o.start.isNone then 1 else if expired s o then 2 else 0
  | none => 1

/-- one pass of `for timer in self.queue[:]: if timer.run_func(): self.queue.remove(timer)` -/
def pollTimers (s : St) : St :=
  s.timerQ.foldl (fun st i =>
    match pollAct st i with
    | 0 => st
    | 1 => { st with timerQ := st.timerQ.filter (· != i) }
    | _ => { st with timerQ := st.timerQ.filter (· != i), procQ := st.procQ ++ [.release i] }) s

/-- `dispatcher.__reset_last_code(code)`: equality, guarded by is_running, then unbound -/
def resetLast (s : St) (i : Nat) (o : Obj) : St :=
  match s.dispLast.bind (getObj s) with
  | some l =>
    if l.key == o.key then
      if isRunning s o then s            -- `return` before the unbind
      else setObj { s with dispLast := none } i { o with bound := false }
    else setObj s i { o with bound := false }
  | none => setObj s i { o with bound := false }

/-- one queued job -/
def runJob (s : St) : Job → St
  | .decoded i =>
    match getObj s i with
    | some o => { s with outs := s.outs ++ [.decoded i o.key] }
    | none => s
  | .release i =>
    match getObj s i with
    | some o =>
      -- decoder.reset(code): identity
      let s1 := if s.decLast == some i then { s with decLast := none } else s
      let s2 := if o.bound then resetLast s1 i o else s1
      -- user callbacks
      if o.user then { s2 with outs := s2.outs ++ [.released i o.key] } else s2
    | none => s

def drain (s : St) : St := s.procQ.foldl runJob { s with procQ := [] }

def newObj (s : St) (key toggle : Nat) : St × Nat :=
  ({ s with objs := s.objs ++ [{ key := key, toggle := toggle, start := some s.now }], decLast := some s.objs.length }, s.objs.length)

/-- decoder: a full frame of `key` (with `toggle`) -/
def decFull (s : St) (key toggle : Nat) : St × Nat :=
  match s.decLast with
  | some d =>
    match getObj s d with
    | some l =>
      if l.key == key && (s.style == .sameObject || l.toggle == toggle) then (s, d)
      else newObj (stopTimer s d) key toggle       -- Timer.__init__ creates a TimerUS
    | none => newObj s key toggle
  | none => newObj s key toggle

/-- the dispatcher takes over the decoder's answer `c` unless it equals the held code -/
def adopt (s : St) (c : Nat) (lkey : Nat) : St :=
  match getObj s c with
  | some co => if co.key == lkey then s else { (setObj s c { co with bound := true }) with dispLast := some c }
  | none => s

def markUser (s : St) (i : Nat) : St :=
  match getObj s i with
  | some co => setObj s i { co with user := true }
  | none => s

/-- dispatcher `_decode` for one enabled protocol on a full frame; `proc` = processing time measured by the
    dispatcher timer at `start()`; the returned code gets a user release callback bound by the caller -/
def frame (s : St) (key toggle : Nat) (proc : Int) : St :=
  match s.dispLast.bind (getObj s) with
  | some l =>
    if l.key == key && l.toggle == toggle then
      -- `data == self._last_code`: restart the timer, report; the caller gets None
      let s1 := startTimer s (s.dispLast.getD 0) proc
      { s1 with procQ := s1.procQ ++ [.decoded (s.dispLast.getD 0)] }
    else
      let (s1, c) := decFull s key toggle
      let s2 := adopt s1 c l.key
      let cur := s2.dispLast.getD c
      let s3 := startTimer s2 cur proc
      -- the user binds a release callback on the code the decode callback delivers (`self._last_code`)
      markUser { s3 with procQ := s3.procQ ++ [.decoded cur] } cur
  | none =>
    let (s1, c) := decFull s key toggle
    let s2 := match getObj s1 c with
      | some co => { (setObj s1 c { co with bound := true, user := true }) with dispLast := some c }
      | none => s1
    let s3 := startTimer s2 c proc
    { s3 with procQ := s3.procQ ++ [.decoded c] }

/-- a repeat (ditto) frame: not timing-equal to the held code; the decoder answers with its `_last_code`
    if it has one (otherwise the frame is rejected by every path and nothing happens) -/
def repeatFrame (s : St) (proc : Int) : St :=
  match s.dispLast.bind (getObj s), s.decLast with
  | some l, some d =>
    -- held path: decoder returns object d; `code != self._last_code` compares keys
    let s2 := adopt s d l.key
    let cur := s2.dispLast.getD d
    let s3 := startTimer s2 cur proc
    { s3 with procQ := s3.procQ ++ [.decoded cur] }
  | _, _ => s

/-- the clock advances by `d`, then the timer thread polls once and the process worker drains -/
def advance (s : St) (d : Int) : St := drain (pollTimers { s with now := s.now + d })

inductive Ev
  | frame (key toggle : Nat)
  | rep
  | advance (d : Int)
  | tick (d : Int)          -- the clock moves on, the timer thread has NOT polled yet
  | poll                    -- one pass of the timer thread, then the process worker drains
deriving Repr, DecidableEq

/-- after every frame the process worker runs promptly (drain), as the real thread does -/
def step (s : St) : Ev → St
  | .frame k t => drain (frame s k t 0)
  | .rep => drain (repeatFrame s 0)
  | .advance d => advance s d
  | .tick d => { s with now := s.now + d }
  | .poll => drain (pollTimers s)

def run (s : St) (w : List Ev) : St := w.foldl step s

end IRModel.Timer
