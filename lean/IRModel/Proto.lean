import IRModel.CodeWrapper
import IRModel.Encode
/-
  L5 — `IrProtocolBase.decode` (protocol_base.py:366-444): repeat branch, full parse, bit-count guard,
  parameter extraction, `_last_code` handling.  An `IRCode` is abstracted to the values of its
  `_parameters` fields plus its normalised frame; `IRCode.__eq__` between codes (decoder class + identity
  string) is equality of the `_code_order` field values.
-/
namespace IRModel.Proto
open IRModel IRModel.Py IRModel.Match IRModel.Bits IRModel.CodeWrapper

structure CodeV where
  fields : List (String × Nat)        -- `_parameters` order: name, value (get_value result)
  frame  : List Int                   -- `list(code)` : the normalised frame
deriving Repr, DecidableEq

def CodeV.get (c : CodeV) (name : String) : Option Nat :=
  (c.fields.find? (fun p => p.1 == name)).map (·.2)

/-- identity of a code: the `_code_order` values (what `__str__` renders) -/
def identity (t : Tables) (c : CodeV) : List (Option Nat) :=
  t.codeOrder.map (fun p => c.get p.1)

def sameCode (t : Tables) (a b : CodeV) : Bool := identity t a == identity t b

/-- one decoder instance: `_last_code` and the tolerance setting -/
structure Inst where
  last : Option CodeV := none
  tol  : Tol := ⟨20, 1⟩
deriving Repr

inductive Effect
  | stopTimer (c : CodeV)             -- `repeat_timer.stop()` on that code object
deriving Repr, DecidableEq

structure DecodeOut where
  result   : Except PyErr CodeV
  inst     : Inst
  effects  : List Effect := []
  isLast   : Bool := false            -- the returned object IS the instance's previous `_last_code`

def mkCode (t : Tables) (p : Parsed) : CodeV :=
  { fields := t.params.map (fun (n, a, b) => (n, fieldValue t.order p.bits a b)), frame := p.cleaned }

/-- the full (non-repeat) part of `IrProtocolBase.decode` -/
def decodeFull (t : Tables) (inst : Inst) (data : List Int) (pre : List Effect) : DecodeOut :=
  match parse t inst.tol data with
  | .error e => { result := .error e, inst := inst, effects := pre }
  | .ok p =>
    if p.bits.length > t.bitCount then { result := .error .tooManyBits, inst := inst, effects := pre }
    else if p.bits.length < t.bitCount then { result := .error .notEnoughBits, inst := inst, effects := pre }
    else
      let c := mkCode t p
      if t.decodeOverridden then { result := .ok c, inst := inst, effects := pre }
      else
        match inst.last with
        | some l =>
          if sameCode t l c then { result := .ok l, inst := inst, effects := pre, isLast := true }
          else { result := .ok c, inst := { inst with last := some c }, effects := pre ++ [.stopTimer l] }
        | none => { result := .ok c, inst := { inst with last := some c }, effects := pre }

/-- `IrProtocolBase.decode(data, frequency)` -/
def baseDecode (t : Tables) (inst : Inst) (data : List Int) : DecodeOut :=
  match inst.last with
  | some l =>
    if !t.repeatLeadIn.isEmpty || !t.repeatLeadOut.isEmpty then
      match parseWith inst.tol t.repeatLeadIn t.repeatLeadOut t.repeatBursts data with
      | .ok p =>
        if !t.repeatBursts.isEmpty && !t.decodeOverridden then
          let c := mkCode t p
          if sameCode t c l then { result := .ok l, inst := inst, isLast := true }
          else decodeFull t inst data [.stopTimer l]        -- `raise DecodeError` swallowed by `except IRException`
        else { result := .ok l, inst := inst, isLast := true }
      | .error e =>
        if e.isLibrary then decodeFull t inst data []
        else { result := .error e, inst := inst }
    else decodeFull t inst data []
  | none => decodeFull t inst data []

end IRModel.Proto
