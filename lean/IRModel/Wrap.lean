import IRModel.Proto
/-
  L5w — the per-protocol wrappers: `encode()` and `decode()` bodies of the protocol classes.

  The wrappers are not written by hand here: `tools/wtrace.py` EXECUTES the real methods of /repo's
  working tree on shadowed `IntegerWrapper` objects and records, per protocol,
    * the expression (`WExp`) every `_build_packet` field is computed with from the user parameters,
    * the decision tree (`DTree`) `decode()` walks after the base decoder returned a code: the
      comparisons it makes on the decoded fields, where it raises, what it does with `_last_code`.
  This file is the semantics of that little language: `IntegerWrapper`'s value/width arithmetic on
  Python ints (negative values included), and the interpreter that puts a traced wrapper around the
  engine model (`Encode.buildPacket`, `Proto.baseDecode`).
-/
namespace IRModel.Wrap
open IRModel IRModel.Py IRModel.Bits IRModel.Proto

/-! ### Python int bit operations (two's complement on unbounded ints) -/

def ldiff (m n : Nat) : Nat := Nat.bitwise (fun a b => a && !b) m n

def iand : Int → Int → Int
  | .ofNat m, .ofNat n => Int.ofNat (m &&& n)
  | .ofNat m, .negSucc n => Int.ofNat (ldiff m n)
  | .negSucc m, .ofNat n => Int.ofNat (ldiff n m)
  | .negSucc m, .negSucc n => .negSucc (m ||| n)

def ior : Int → Int → Int
  | .ofNat m, .ofNat n => Int.ofNat (m ||| n)
  | .ofNat m, .negSucc n => .negSucc (ldiff n m)
  | .negSucc m, .ofNat n => .negSucc (ldiff m n)
  | .negSucc m, .negSucc n => .negSucc (m &&& n)

def ixor : Int → Int → Int
  | .ofNat m, .ofNat n => Int.ofNat (m ^^^ n)
  | .ofNat m, .negSucc n => .negSucc (m ^^^ n)
  | .negSucc m, .ofNat n => .negSucc (m ^^^ n)
  | .negSucc m, .negSucc n => Int.ofNat (m ^^^ n)

/-- `int.bit_length()` -/
def bitLength (v : Int) : Nat := if v = 0 then 0 else Nat.log2 v.natAbs + 1

/-- value and `num_bits` of an `IntegerWrapper` -/
structure IWV where
  v : Int
  n : Int
deriving Repr, DecidableEq

/-- the constructor: `IntegerWrapper(v)` keeps the value and takes `bit_length` (1 for 0) as width;
    `IntegerWrapper(v, w)` masks a non-negative value to `w` bits and keeps a negative one as it is -/
def mkIW (v : Int) : Option Int → IWV
  | none => ⟨v, if v = 0 then 1 else bitLength v⟩
  | some w => ⟨if v ≥ 0 then v % (2 ^ w.toNat) else v, w⟩

/-- `int((self >> i) & 1)`: `__rshift__` builds `IntegerWrapper(v >> i, n - i)`, `__and__` the value -/
def bitAt (a : IWV) (i : Nat) : Int := iand (mkIW (a.v >>> i) (some (a.n - i))).v 1

/-- `val = IntegerWrapper(0); for i in is: val |= g i` -/
def orBits (is : List Nat) (g : Nat → Int) : Int := is.foldl (fun acc i => ior acc (g i)) 0

/-- `reversed(x)` / `x.reverse_bit_order(nb)` -/
def revBits (a : IWV) (nb : Int) : IWV :=
  mkIW (orBits (List.range nb.toNat) (fun i => bitAt a i * 2 ^ (nb.toNat - 1 - i))) (some nb)

/-- `x.invert_bits(nb)` -/
def invBits (a : IWV) (nb : Int) : IWV :=
  mkIW (orBits (List.range nb.toNat) (fun i => (1 - bitAt a i) * 2 ^ i)) (some nb)

/-- `x.num_one_bits` : counted on the raw value over `num_bits` positions -/
def popCount (a : IWV) : IWV :=
  mkIW ((List.range a.n.toNat).foldl (fun c i => c + iand (a.v >>> i) 1) 0) none

inductive SliceStart | none | compl
deriving Repr, DecidableEq

/-- the bits `x[_:stop:step]` selects, before the optional complement (the four branches of
    `IntegerWrapper.__getitem__`) -/
def sliceCut (a : IWV) (stop step : Option Int) : Except PyErr IWV :=
  match stop, step with
  | some st, some sp =>
    if sp ≠ 0 ∧ 0 ≤ st then
      if sp < 0 then .error .valueError
      else .ok (mkIW (orBits (List.range' sp.toNat (st.toNat + 1)) (fun i => bitAt a i * 2 ^ (i - sp.toNat))) (some st))
    else if 0 < st then .ok (mkIW (orBits (List.range st.toNat) (fun i => bitAt a i * 2 ^ i)) (some st))
    else if st < 0 then
      if 0 < sp then
        .ok (revBits (mkIW (orBits (List.range' sp.toNat ((-st).toNat + 1)) (fun i => bitAt a i * 2 ^ (i - sp.toNat))) (some (-st))) (-st))
      else .ok (revBits (mkIW (orBits (List.range (-st).toNat) (fun i => bitAt a i * 2 ^ i)) (some (-st))) (-st))
    else .ok a
  | some st, none =>
    if 0 < st then .ok (mkIW (orBits (List.range st.toNat) (fun i => bitAt a i * 2 ^ i)) (some st))
    else if st < 0 then .ok (revBits (mkIW (orBits (List.range (-st).toNat) (fun i => bitAt a i * 2 ^ i)) (some (-st))) (-st))
    else .ok a
  | none, some sp =>
    if sp < 0 ∨ a.n < 0 then .error .valueError
    else .ok (mkIW (orBits (List.range' sp.toNat (a.n.toNat - sp.toNat)) (fun i => bitAt a i * 2 ^ i)) (some (a.n - sp)))
  | none, none => .ok a

/-- `start is True` : `val.invert_bits()` within the width of the cut -/
def sliceFin (start : SliceStart) (c : IWV) : IWV :=
  match start with
  | .none => c
  | .compl => invBits c c.n

/-- `x[start:stop:step]` — the slice protocol of `IntegerWrapper.__getitem__` (start ∈ {None, True}) -/
def sliceIW (a : IWV) (start : SliceStart) (stop step : Option Int) : Except PyErr IWV :=
  match sliceCut a stop step with
  | .error e => .error e
  | .ok c => .ok (sliceFin start c)

inductive BinOp | add | sub | mul | fdiv | mod | and | or | xor | shl | shr
deriving Repr, DecidableEq

def binVal (op : BinOp) (a b : Int) : Except PyErr Int :=
  match op with
  | .add => .ok (a + b)
  | .sub => .ok (a - b)
  | .mul => .ok (a * b)
  | .fdiv => if b = 0 then .error .zeroDivision else .ok (Int.fdiv a b)
  | .mod => if b = 0 then .error .zeroDivision else .ok (Int.fmod a b)
  | .and => .ok (iand a b)
  | .or => .ok (ior a b)
  | .xor => .ok (ixor a b)
  | .shl => if b < 0 then .error .valueError else .ok (a * 2 ^ b.toNat)
  | .shr => if b < 0 then .error .valueError else .ok (a >>> b.toNat)

/-- expressions over user parameters (encode side) and decoded fields (decode side) -/
inductive WExp
  | param (name : String)                    -- a user parameter (plain int)
  | field (name : String)                    -- a decoded field: `get_value` result, width of the field
  | lastfield (name : String)                -- the same field of the held code (`_last_code`)
  | const (k : Int)
  | mk (e : WExp) (w : Int)                  -- `IntegerWrapper(e, w)`
  | mkd (e : WExp)                           -- `IntegerWrapper(e)` of a plain int
  | bin (op : BinOp) (a b : WExp)            -- IntegerWrapper dunder: `IntegerWrapper(a.v op b.v)`
  | ibin (op : BinOp) (a b : WExp)           -- plain int arithmetic
  | shl (a k : WExp)                         -- IntegerWrapper `<<` : width n + k
  | shr (a k : WExp)                         -- IntegerWrapper `>>` : width n - k
  | neg (a : WExp) | pos (a : WExp) | abs (a : WExp) | inv (a : WExp)
  | rev (a : WExp)                           -- `reversed(a)`
  | invbits (a : WExp) (nb : Option Int)
  | revbits (a : WExp) (nb : Option Int)
  | slice (a : WExp) (start : SliceStart) (stop step : Option Int)
  | popcount (a : WExp)
  | bit (a : WExp) (i : Int)                 -- `list(a)[i]`
deriving Repr, DecidableEq

structure Env where
  params : String → Int
  fields : String → Option IWV
  last   : String → Option IWV

def eval (env : Env) : WExp → Except PyErr IWV
  | .param n => .ok (mkIW (env.params n) none)
  | .field n => match env.fields n with | some x => .ok x | none => .error .attributeError
  | .lastfield n => match env.last n with | some x => .ok x | none => .error .attributeError
  | .const k => .ok (mkIW k none)
  | .mk e w => do let x ← eval env e; pure (mkIW x.v (some w))
  | .mkd e => do let x ← eval env e; pure (mkIW x.v none)
  | .bin op a b => do
      let x ← eval env a; let y ← eval env b
      let r ← binVal op x.v y.v
      pure (mkIW r none)
  | .ibin op a b => do
      let x ← eval env a; let y ← eval env b
      let r ← binVal op x.v y.v
      pure (mkIW r none)
  | .shl a k => do
      let x ← eval env a; let y ← eval env k
      if y.v < 0 then .error .valueError else pure (mkIW (x.v * 2 ^ y.v.toNat) (some (x.n + y.v)))
  | .shr a k => do
      let x ← eval env a; let y ← eval env k
      if y.v < 0 then .error .valueError else pure (mkIW (x.v >>> y.v.toNat) (some (x.n - y.v)))
  | .neg a => do let x ← eval env a; pure (mkIW (-x.v) (some x.n))
  | .pos a => do let x ← eval env a; pure (mkIW x.v (some x.n))
  | .abs a => do let x ← eval env a; pure (mkIW (Int.ofNat x.v.natAbs) (some x.n))
  | .inv a => do let x ← eval env a; pure (mkIW (-x.v - 1) none)
  | .rev a => do let x ← eval env a; pure (revBits x x.n)
  | .invbits a nb => do let x ← eval env a; pure (invBits x (nb.getD x.n))
  | .revbits a nb => do let x ← eval env a; pure (revBits x (nb.getD x.n))
  | .slice a s st sp => do let x ← eval env a; sliceIW x s st sp
  | .popcount a => do let x ← eval env a; pure (popCount x)
  | .bit a i => do
      let x ← eval env a
      let n := x.n.toNat
      let j : Int := if i < 0 then i + n else i
      if j < 0 ∨ j ≥ n then .error .indexError else pure (mkIW (bitAt x j.toNat) none)

/-! ### decode wrappers -/

inductive CmpOp | eq | ne | lt | gt | le | ge
deriving Repr, DecidableEq

def cmpVal (op : CmpOp) (a b : Int) : Bool :=
  match op with
  | .eq => a == b | .ne => a != b | .lt => decide (a < b) | .gt => decide (a > b)
  | .le => decide (a ≤ b) | .ge => decide (a ≥ b)

inductive Cond
  | cmp (op : CmpOp) (a b : WExp)
  | lastEq                                   -- `self._last_code == code` (IRCode.__eq__)
  | not (c : Cond)
  | nbitsNe0 (a : WExp)                      -- `bool(IntegerWrapper)`
deriving Repr, DecidableEq

def evalCond (env : Env) (lastEq : Bool) : Cond → Except PyErr Bool
  | .cmp op a b => do let x ← eval env a; let y ← eval env b; pure (cmpVal op x.v y.v)
  | .lastEq => .ok lastEq
  | .not c => do let r ← evalCond env lastEq c; pure (!r)
  | .nbitsNe0 a => do let x ← eval env a; pure (x.n != 0)

inductive Eff | setLastCode | setLastNone | setLastLast | stopLast
deriving Repr, DecidableEq

inductive Outcome
  | ret (fields : List (String × WExp)) (same : Bool)   -- returns a code with these `_data` entries
  | retLast                                             -- returns the held code object
  | raise (cls : String)
  | retOther
deriving Repr

inductive DTree
  | leaf (effects : List Eff) (out : Outcome)
  | ite (c : Cond) (t e : DTree)
deriving Repr

def errOfName : String → PyErr
  | "DecodeError" => .decode | "LeadInError" => .leadIn | "LeadOutError" => .leadOut
  | "IRStreamError" => .irStream | "TooManyBitsError" => .tooManyBits | "NotEnoughBitsError" => .notEnoughBits
  | "RepeatLeadInError" => .repeatLeadIn | "RepeatLeadOutError" => .repeatLeadOut
  | "RepeatTimeoutExpired" => .repeatTimeout | "ExpectingMoreData" => .expectingMore | "EncodeError" => .encode
  | "IndexError" => .indexError | "ValueError" => .valueError | "TypeError" => .typeError
  | "AttributeError" => .attributeError | "KeyError" => .keyError | "ZeroDivisionError" => .zeroDivision
  | _ => .typeError

inductive Res
  | code (fields : List (String × IWV))
  | last
deriving Repr

/-- walk the tree: result (or the exception raised) and the effects performed, in order -/
def runTree (env : Env) (lastEq : Bool) : DTree → Except PyErr Res × List Eff
  | .leaf effs out =>
    match out with
    | .ret fields _ =>
      match fields.mapM (fun (p : String × WExp) => (eval env p.2).map (fun x => (p.1, x))) with
      | .ok fs => (.ok (.code fs), effs)
      | .error e => (.error e, effs)
    | .retLast => (.ok .last, effs)
    | .raise cls => (.error (errOfName cls), effs)
    | .retOther => (.error .typeError, effs)
  | .ite c t e =>
    match evalCond env lastEq c with
    | .error err => (.error err, [])
    | .ok true => runTree env lastEq t
    | .ok false => runTree env lastEq e

/-! ### encode wrappers -/

inductive PArg
  | timings (e : WExp)                -- `<IntegerWrapper>.timings` passed positionally
  | lit (ds : List Int)               -- literal durations
deriving Repr, DecidableEq

structure Packet where
  args   : List PArg
  kwargs : List (String × Bool × WExp)      -- key, passed as an IntegerWrapper?, expression
deriving Repr, DecidableEq

inductive FrameRef
  | packet (k : Nat)
  | lit (ds : List Int)
deriving Repr, DecidableEq

structure EncTrace where
  packets : List Packet
  frames  : List FrameRef
deriving Repr

structure Wrapper where
  name      : String
  enc       : List EncTrace               -- repeat_count = 0, 1, 2 (empty when `encode` is opaque)
  frequency : Option Nat
  decTraced : Bool                        -- `decode` trees present
  treeNone  : DTree                       -- `_last_code is None`
  treeSome  : DTree                       -- a key is held
deriving Repr

/-- the `Item` a keyword field becomes: an `IntegerWrapper` keeps its own width, a plain int is
    wrapped with the declared width of the field; `list(self)` of a negative value yields the low
    `n` bits of its two's complement -/
def fieldItem (x : IWV) : Encode.Item :=
  .field (x.v % (2 ^ x.n.toNat)).toNat x.n.toNat

def argItem (env : Env) : PArg → Except PyErr Encode.Item
  | .timings e => (eval env e).map fieldItem
  | .lit ds => .ok (Encode.Item.lit ds)

/-- one keyword argument: an `IntegerWrapper` is rendered with its own width, a plain int is wrapped
    with the declared width of the `_parameters` entry -/
def kwItem (env : Env) (pk : (String × Nat × Nat) × (String × Bool × WExp)) : Except PyErr Encode.Item := do
  let x ← eval env pk.2.2.2
  if pk.2.2.1 then pure (fieldItem x)
  else pure (fieldItem (mkIW x.v (some ((pk.1.2.2 : Int) + 1 - pk.1.2.1))))

/-- the keyword arguments `_build_packet` picks up, in `_parameters` order -/
def kwPairs (t : Tables) (p : Packet) : List ((String × Nat × Nat) × (String × Bool × WExp)) :=
  t.params.filterMap (fun (prm : String × Nat × Nat) =>
    (p.kwargs.find? (fun k => k.1 == prm.1)).map (fun k => (prm, k)))

def packetItems (t : Tables) (env : Env) (p : Packet) : Except PyErr (List Encode.Item) := do
  let pos ← p.args.mapM (argItem env)
  let kw ← (kwPairs t p).mapM (kwItem env)
  pure (pos ++ kw)

def buildTraced (t : Tables) (env : Env) (p : Packet) : Except PyErr (List Int) := do
  let items ← packetItems t env p
  Encode.buildPacket t items

/-- all frames `encode(**u, repeat_count = rc)` emits (`code.normalized_rlc`) -/
def encodeFrames (t : Tables) (w : Wrapper) (u : String → Int) (rc : Nat) : Except PyErr (List (List Int)) :=
  match w.enc[rc]? with
  | none => .error .typeError
  | some tr => do
    let env : Env := { params := u, fields := fun _ => none, last := fun _ => none }
    let pk ← tr.packets.mapM (buildTraced t env)
    tr.frames.mapM (fun r => match r with
      | .packet k => match pk[k]? with | some f => .ok f | none => .error .indexError
      | .lit ds => .ok ds)

def fieldEnv (t : Tables) (c : CodeV) : String → Option IWV := fun n =>
  match t.params.find? (fun p => p.1 == n) with
  | none => none
  | some p => (c.get n).map (fun v => ⟨(v : Int), (p.2.2 : Int) + 1 - p.2.1⟩)

def applyEffs (c : CodeV) : List Eff → Inst → List Effect → Inst × List Effect
  | [], inst, acc => (inst, acc)
  | .setLastCode :: r, inst, acc => applyEffs c r { inst with last := some c } acc
  | .setLastNone :: r, inst, acc => applyEffs c r { inst with last := none } acc
  | .setLastLast :: r, inst, acc => applyEffs c r inst acc
  | .stopLast :: r, inst, acc =>
    match inst.last with
    | some l => applyEffs c r inst (acc ++ [.stopTimer l])
    | none => applyEffs c r inst acc

/-- `decode(data, frequency)` of a protocol whose wrapper was traced: the engine's base decoder, then
    the wrapper's tree on the decoded fields -/
def decodeW (t : Tables) (w : Wrapper) (inst : Inst) (data : List Int) : DecodeOut :=
  let b := baseDecode t inst data
  match b.result with
  | .error _ => b
  | .ok c =>
    let tree := match inst.last with | some _ => w.treeSome | none => w.treeNone
    let lastEq := match inst.last with | some l => b.isLast || sameCode t l c | none => false
    let env : Env := { params := fun _ => 0, fields := fieldEnv t c,
                       last := match inst.last with | some l => fieldEnv t l | none => fun _ => none }
    let (r, effs) := runTree env lastEq tree
    -- the object the wrapper returns / stores is the base decoder's code object with its final `_data`
    let c' : CodeV := match r with
      | .ok (.code fs) =>
        { c with fields := t.params.filterMap (fun prm => (fs.find? (fun p => p.1 == prm.1)).map (fun p => (prm.1, p.2.v.toNat))) }
      | _ => c
    let (inst', eff') := applyEffs c' effs b.inst b.effects
    match r with
    | .error e => { result := .error e, inst := inst', effects := eff' }
    | .ok .last =>
      match inst.last with
      | some l => { result := .ok l, inst := inst', effects := eff', isLast := true }
      | none => { result := .error .typeError, inst := inst', effects := eff' }
    | .ok (.code _) => { result := .ok c', inst := inst', effects := eff', isLast := b.isLast }

/-- `decode()` of a protocol: the traced wrapper around the base decoder when the class overrides `decode`,
    the base decoder itself otherwise -/
def decodeP (t : Tables) (w : Wrapper) (inst : Inst) (data : List Int) : DecodeOut :=
  if t.decodeOverridden then decodeW t w inst data else baseDecode t inst data

end IRModel.Wrap
