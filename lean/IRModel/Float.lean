/-
  IEEE-754 binary64 rounding on exact rationals: `fl q` is the double nearest to `q` (ties to even),
  as a rational. Used for the float expressions of pronto.py / Timer.start; every Python float
  operation `a ∘ b` is modelled as `fl (a ∘ b)` on the exact values. No subnormals / overflow: all
  magnitudes the code produces lie between 1e-3 and 1e18 (checked by the correspondence stream).
-/
namespace IRModel.Float

/-- quotient and remainder of `n·2^s / d` (for `s < 0`: `n / (d·2^-s)`) -/
def scaleDiv (n d : Nat) (s : Int) : Nat × Nat × Nat :=
  if s ≥ 0 then
    let N := n * 2 ^ s.toNat
    (N / d, N % d, d)
  else
    let D := d * 2 ^ (-s).toNat
    (n / D, n % D, D)

/-- nearest double of the positive rational `n/d` -/
def flPos (n d : Nat) : Rat :=
  let e0 : Int := (Nat.log2 n : Int) - (Nat.log2 d : Int)
  let s0 : Int := 52 - e0
  let q0 := (scaleDiv n d s0).1
  -- normalise so that 2^52 ≤ quotient < 2^53
  let s : Int := if q0 ≥ 2 ^ 53 then s0 - 1 else if q0 < 2 ^ 52 then s0 + 1 else s0
  let (q, r, den) := scaleDiv n d s
  let m : Nat := if 2 * r > den then q + 1 else if 2 * r == den then (if q % 2 == 0 then q else q + 1) else q
  if s ≥ 0 then mkRat m (2 ^ s.toNat) else (m : Rat) * ((2 ^ (-s).toNat : Nat) : Rat)

def fl (q : Rat) : Rat :=
  if q.num == 0 then 0
  else if q.num > 0 then flPos q.num.toNat q.den
  else - flPos (-q.num).toNat q.den

/-- Python `int(x)` for a non-negative float / rational: truncation -/
def trunc (q : Rat) : Int := if q ≥ 0 then q.floor else -((-q).floor)

/-- Python 3 `round(x)` for a float: nearest integer, ties to even -/
def roundHalfEven (q : Rat) : Int :=
  let f := q.floor
  let r := q - f
  if r > 1 / 2 then f + 1 else if r == 1 / 2 then (if f % 2 == 0 then f else f + 1) else f

end IRModel.Float
