import IRModel.CodeWrapper
/-
  L4b — the Manchester path of `CodeWrapper.__init__` for tables without middle timings now lives in
  `IRModel/CodeWrapper.lean` (`manchOne`, `manchAll`, `parseWithM`, `supportedM`) because `parse` dispatches on the
  symbol table as the constructor does. This module keeps the old names.
-/
namespace IRModel.Manchester
open IRModel IRModel.Py IRModel.Match IRModel.Bits IRModel.CodeWrapper

export IRModel.CodeWrapper (manchOne manchAll parseWithM supportedM)

def parseM (t : Tables) (tol : Tol) (data : List Int) : Except PyErr Parsed :=
  parseWithM tol t.leadIn t.leadOut t.bursts data

end IRModel.Manchester
