import IRModel.CodeWrapper
/-
  L4b — `CodeWrapper.__init__` on the MANCHESTER path for tables without middle timings
  (code_wrapper.py:362-381 + 503-531 with `middle_timings == []`, then the shared 546-562 and 698-750).
  Every remaining duration is one half bit (`mark` / `space` of `bursts[0]`) or two equal half bits that merged;
  the flat half-bit list is then paired and looked up exactly as on the general path.  The lead-in and lead-out
  loops are the general ones (same Python branch).  The `lead_in[-1] == -999999999999` escape (RC6MBIT) and middle
  timings (RC6 toggle, RC5x) are not modelled: `supportedM` excludes those tables.
-/
namespace IRModel.Manchester
open IRModel IRModel.Py IRModel.Match IRModel.Bits IRModel.CodeWrapper

/-- one duration of a bi-phase stream -/
def manchOne (tol : Tol) (mark space burst : Int) : Option (List Int) :=
  if isMatch tol burst mark then some [mark]
  else if isMatch tol burst space then some [space]
  else if isMatch tol burst (mark * 2) then some [mark, mark]
  else if isMatch tol burst (space * 2) then some [space, space]
  else none

def manchAll (tol : Tol) (mark space : Int) : List Int → Except PyErr (List Int)
  | [] => .ok []
  | b :: rest =>
    match manchOne tol mark space b with
    | none => .error .irStream
    | some v => (manchAll tol mark space rest).map (v ++ ·)

def supportedM (t : Tables) : Bool :=
  t.shape == .pairs && !t.hasMiddle && streamEnc t.bursts == .manchester && !t.bursts.isEmpty &&
  t.leadIn.getLast? != some (-999999999999)

/-- `CodeWrapper(...)` on the Manchester path -/
def parseWithM (tol : Tol) (leadIn leadOut : List Int) (bursts : List (Int × Int)) (data : List Int) :
    Except PyErr Parsed := do
  periodCheck tol leadOut data
  let totalTime := sumAbs data.dropLast
  let (code1, cleanedIn) ← leadInLoop tol bursts leadIn data []
  let (code2, half, cleanedLo) ← leadOutLoop tol bursts leadOut.length totalTime leadOut 0 code1 [] []
  let code3 := code2 ++ half
  let ms := bursts.headD (0, 0)
  let vals ← manchAll tol ms.1 ms.2 code3
  let (bits, extra) ← pairsToBits bursts (pairUp vals)
  let cleaned0 : List (Option Int) := (cleanedIn ++ vals ++ extra).map some ++ cleanedLo
  if cleaned0.isEmpty then .error .irStream
  else
    let body := cleaned0.dropLast.map (·.getD 0)
    let last : Int := match cleaned0.getLast? with
      | some (some v) => v
      | some none => -(leadOut.getLastD 0) + sumAbs body
      | none => 0
    pure { bits := bits, cleaned := compress (body ++ [last]) }

def parseM (t : Tables) (tol : Tol) (data : List Int) : Except PyErr Parsed :=
  parseWithM tol t.leadIn t.leadOut t.bursts data

end IRModel.Manchester
