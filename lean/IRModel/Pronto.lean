import IRModel.Float
import IRModel.Py
/-
  S1 — raw Pronto conversion: `pronto.rlc_to_pronto` (after fix: f2cf2d4), `generic_to_rlc` /
  `pronto_to_rlc` for formats 0000 / 0100.  Words are naturals; the hex rendering `%04X` is `hex4`.
-/
namespace IRModel.Pronto
open IRModel.Float IRModel.Py

def clock : Rat := fl (241246 / 1000000)            -- PRONTO_CLOCK
def signalFree : Nat := 10000

def prontoCarrier (freq : Nat) : Rat := fl (1000000 / fl ((freq : Rat) * clock))
def carrier (freq : Nat) : Rat := fl (prontoCarrier freq * clock)

/-- `int(abs(val) / carrier)` -/
def word (freq : Nat) (v : Int) : Nat := (trunc (fl ((v.natAbs : Rat) / carrier freq))).toNat

/-- the words of one sequence, padded with SIGNAL_FREE when its length is odd -/
def seqWords (freq : Nat) (rlc : List Int) : List Nat :=
  rlc.map (word freq) ++ (if rlc.length % 2 != 0 then [signalFree] else [])

/-- normalisation of the `data` argument: flat → `[[], data]`; one sequence → `[[], seq]` -/
inductive Input
  | flat (l : List Int)
  | nested (l : List (List Int))

def normalise : Input → List (List Int)
  | .flat l => [[], l]
  | .nested [s] => [[], s]
  | .nested l => l

/-- `rlc_to_pronto(freq, data)` as a word list (`freq <= 0` means 36000).
    For nested input with more than two sequences the header still describes the first two. -/
def rlcToPronto (freq : Int) (inp : Input) : List Nat :=
  let f : Nat := if freq ≤ 0 then 36000 else freq.toNat
  let data := normalise inp
  let once := data.getD 0 []
  let rep := data.getD 1 []
  [0, (roundHalfEven (prontoCarrier f)).toNat, (once.length + 1) / 2, (rep.length + 1) / 2]
    ++ (data.map (seqWords f)).flatten

/-- `'%04X' % n` -/
def hexDigit (d : Nat) : Char := if d < 10 then Char.ofNat (48 + d) else Char.ofNat (55 + d)
def hexDigits : Nat → Nat → List Char
  | 0, _ => []
  | fuel + 1, n => if n < 16 then [hexDigit n] else hexDigits fuel (n / 16) ++ [hexDigit (n % 16)]
def hex4Chars (n : Nat) : List Char :=
  let ds := hexDigits 64 n
  List.replicate (4 - ds.length) '0' ++ ds
def hex4 (n : Nat) : String := String.ofList (hex4Chars n)

def render (ws : List Nat) : String := " ".intercalate (ws.map hex4)

/-- `_get_sequence`: pairs `(int(w*pw), -int(w'*pw))` -/
def pairsOf (pw : Rat) : List Nat → List Int
  | a :: b :: rest => trunc (fl ((a : Rat) * pw)) :: -(trunc (fl ((b : Rat) * pw))) :: pairsOf pw rest
  | _ => []

/-- `generic_to_rlc(pronto_data)` with `n_repeat = 0` -/
def prontoToRlc (ws : List Nat) : Except PyErr (Int × List (List Int)) :=
  match ws with
  | fmt :: pc0 :: first :: rep :: body =>
    if ws.length < 6 || !(fmt == 0 || fmt == 256) then .error .valueError     -- `raise Exception`
    else
      let pc : Nat := if pc0 == 0 then (trunc (fl (1000000 / fl (36000 * clock)))).toNat else pc0
      let pw := fl ((pc : Rat) * clock)
      if body.length < 2 * (first + rep) then .error .indexError
      else if first == 0 && rep == 0 then .error .indexError            -- `timings[-1]` on an empty list
      else
        let s1 := pairsOf pw (body.take (2 * first))
        let s2 := pairsOf pw ((body.drop (2 * first)).take (2 * rep))
        let freq := trunc (fl (1000000 / fl ((pc : Rat) * clock)))
        .ok (freq, (if first != 0 then [s1] else []) ++ (if rep != 0 then [s2] else []))
  | _ => .error .valueError

end IRModel.Pronto
