/-
  L0 — the little of CPython that the engine relies on: exception classes as values and list
  operations with Python's index semantics.
-/
namespace IRModel.Py

/-- exception classes, as far as the properties distinguish them -/
inductive PyErr
  | leadIn | leadOut | irStream | tooManyBits | notEnoughBits | decode     -- DecodeError family
  | repeatLeadIn | repeatLeadOut | repeatTimeout | expectingMore | encode   -- other IRException
  | indexError | valueError | typeError | attributeError | keyError | zeroDivision
deriving Repr, DecidableEq

/-- errors of the library's own IR error family -/
def PyErr.isLibrary : PyErr → Bool
  | .indexError | .valueError | .typeError | .attributeError | .keyError | .zeroDivision => false
  | _ => true

/-- `DecodeError` and its subclasses (what `except DecodeError` catches) -/
def PyErr.isDecodeError : PyErr → Bool
  | .leadIn | .leadOut | .irStream | .tooManyBits | .notEnoughBits | .decode => true
  | _ => false

def PyErr.name : PyErr → String
  | .leadIn => "LeadInError" | .leadOut => "LeadOutError" | .irStream => "IRStreamError"
  | .tooManyBits => "TooManyBitsError" | .notEnoughBits => "NotEnoughBitsError" | .decode => "DecodeError"
  | .repeatLeadIn => "RepeatLeadInError" | .repeatLeadOut => "RepeatLeadOutError"
  | .repeatTimeout => "RepeatTimeoutExpired" | .expectingMore => "ExpectingMoreData" | .encode => "EncodeError"
  | .indexError => "IndexError" | .valueError => "ValueError" | .typeError => "TypeError"
  | .attributeError => "AttributeError" | .keyError => "KeyError" | .zeroDivision => "ZeroDivisionError"

/-- `l.pop(i)` with Python index semantics: negative indices count from the end; out of range raises
    IndexError. Returns the popped element and the remaining list. -/
def pyPop {α} (l : List α) (i : Int) : Except PyErr (α × List α) :=
  let n : Int := l.length
  let j : Int := if i < 0 then i + n else i
  if j < 0 ∨ j ≥ n then .error .indexError
  else
    match l[j.toNat]? with
    | some x => .ok (x, l.eraseIdx j.toNat)
    | none => .error .indexError

/-- `sum(abs(item) for item in l)` -/
def sumAbs (l : List Int) : Int := l.foldl (fun acc x => acc + (if x < 0 then -x else x)) 0

/-- merge adjacent durations of the same sign (zeros never merge): the compression used by
    `_build_packet.flatten_and_compress`, `IntegerWrapper.timings.flatten` and `CodeWrapper` -/
def compress : List Int → List Int
  | [] => []
  | x :: rest =>
    match compress rest with
    | [] => [x]
    | y :: ys => if (x > 0 ∧ y > 0) ∨ (x < 0 ∧ y < 0) then (x + y) :: ys else x :: y :: ys

/-- left-to-right version, as the Python loops are written: `if res and same sign: res[-1] += itm` -/
def compressL (l : List Int) : List Int :=
  (l.foldl (fun (acc : List Int) x =>
    match acc with
    | [] => [x]
    | y :: ys => if (y > 0 ∧ x > 0) ∨ (y < 0 ∧ x < 0) then (y + x) :: ys else x :: y :: ys) []).reverse

end IRModel.Py
