import IRModel.Props.EngineThm
/-!
# Class B of the pulse engine: the lead-out is a single gap or a frame period, without a mark of its own

(Sony8/12/15/20, PID0003, Bryston, Elunevision, F12, F32, Arctech, Rs200, Somfy, Sunfire ... — the protocols whose last data
symbol's space merges with the lead-out gap.)  `EngineRT t tol` is what every wrapper-level theorem needs from the engine;
`engineRT_A` derives it from `wfAll` (class A, Props/EngineThm) and `engineRT_B` from `wfAllB` (this file).
-/
namespace IRModel.Engine
open IRModel IRModel.Py IRModel.Match IRModel.Bits IRModel.CodeWrapper IRModel.Encode IRModel.Proto IRModel.Props.EngineThm IRModel.Props.C19

/-- pairs, then `[m, s]`, then one more space: the two spaces merge -/
theorem compress_alt_merge : ∀ (l : List Int) (m s g : Int), altP l = true → m > 0 → s < 0 → g < 0 →
    compress (l ++ [m, s, g]) = l ++ [m, s + g]
  | [], m, s, g, _, hm, hs, hg => by
    simp only [List.nil_append, compress_cons, compress]
    have h1 : (s > 0 ∧ g > 0) ∨ (s < 0 ∧ g < 0) := Or.inr ⟨hs, hg⟩
    have h2 : ¬ ((m > 0 ∧ s + g > 0) ∨ (m < 0 ∧ s + g < 0)) := by omega
    simp [h1, h2]
  | [_], _, _, _, h, _, _, _ => by simp [altP] at h
  | a :: b :: rest, m, s, g, h, hm, hs, hg => by
    simp only [altP, Bool.and_eq_true, decide_eq_true_eq] at h
    obtain ⟨⟨ha, hb⟩, hr⟩ := h
    have ih := compress_alt_merge rest m s g hr hm hs hg
    have hb' : compress (b :: (rest ++ [m, s, g])) = b :: (rest ++ [m, s + g]) := by
      rw [compress_cons b, ih]
      cases rest with
      | nil =>
        have : ¬ ((b > 0 ∧ m > 0) ∨ (b < 0 ∧ m < 0)) := by omega
        simp [this]
      | cons y ys =>
        cases ys with
        | nil => simp [altP] at hr
        | cons z zs =>
          simp only [altP, Bool.and_eq_true, decide_eq_true_eq] at hr
          have : ¬ ((b > 0 ∧ y > 0) ∨ (b < 0 ∧ y < 0)) := by omega
          simp [this]
    simp only [List.cons_append]
    rw [compress_cons a, hb']
    have : ¬ ((a > 0 ∧ b > 0) ∨ (a < 0 ∧ b < 0)) := by omega
    simp [this]

/-- one step of the lead-out loop for a single-entry lead-out `[x]`, on the popped last element -/
def tailStep (tol : Tol) (bursts : List (Int × Int)) (tt x burst : Int) : Option (List Int × Option Int) :=
  if isMatch tol burst x then some ([], some x)
  else
    match loHalfBit tol bursts 1 0 burst x with
    | some sp => some ([sp], some x)
    | none =>
      if isMatch tol x (tt + (if burst < 0 then -burst else burst)) then some ([], none)
      else
        match loFallback tol bursts burst x with
        | some sp => some ([sp], some x)
        | none => none

theorem leadOutLoop_single (tol : Tol) (bursts : List (Int × Int)) (tt x burst : Int) (body : List Int)
    (hs : x ≠ -999999999999) (r : List Int × Option Int) (h : tailStep tol bursts tt x burst = some r) :
    leadOutLoop tol bursts 1 tt [x] 0 (body ++ [burst]) [] [] = .ok (body, r.1, [r.2]) := by
  have hx' : (x == -999999999999) = false := by simpa using hs
  unfold leadOutLoop
  simp only [hx', Bool.false_eq_true, if_false]
  rw [show ((body ++ [burst]).length : Int) - (((1 : Nat) : Int) - ((0 : Nat) : Int)) = (body.length : Int) from by simp]
  rw [pyPop_mid body burst []]
  simp only [List.append_nil]
  unfold tailStep at h
  by_cases h1 : isMatch tol burst x = true
  · simp only [h1, if_true] at h ⊢
    injection h with h; subst h
    simp [leadOutLoop]
  · simp only [h1, Bool.false_eq_true, if_false] at h ⊢
    cases h2 : loHalfBit tol bursts 1 0 burst x with
    | some sp =>
      simp only [h2] at h ⊢
      injection h with h; subst h
      simp [leadOutLoop]
    | none =>
      simp only [h2] at h ⊢
      by_cases h3 : isMatch tol x (tt + (if burst < 0 then -burst else burst)) = true
      · simp only [h3, if_true] at h
        injection h with h; subst h
        simp [leadOutLoop, h3]
      · simp only [h3, Bool.false_eq_true, if_false] at h
        cases h4 : loFallback tol bursts burst x with
        | some sp =>
          simp only [h4] at h
          injection h with h; subst h
          simp [leadOutLoop, h3, h4]
        | none => simp [h4] at h

/-! ### symbol sequences with an unpaired trailing mark -/

theorem classifyAll_snoc (tol : Tol) (bursts : List (Int × Int)) (m : Int) (hm : classify tol bursts m = some m) :
    ∀ (l : List Int), classifyAll tol bursts l = .ok l → classifyAll tol bursts (l ++ [m]) = .ok (l ++ [m]) := by
  intro l
  induction l with
  | nil => intro _; simp only [List.nil_append, classifyAll, hm]; rfl
  | cons a l ih =>
    intro h
    simp only [List.cons_append, classifyAll] at h ⊢
    cases hc : classify tol bursts a with
    | none => simp [hc] at h
    | some v =>
      simp only [hc] at h ⊢
      cases hl : classifyAll tol bursts l with
      | error e => simp [hl, Except.map] at h
      | ok l' =>
        simp only [hl, Except.map] at h
        injection h with h
        injection h with h1 h2
        subst h1; subst h2
        rw [ih hl]
        rfl

theorem pairUp_snoc (m : Int) : ∀ (ps : List (List Int)) (l : List Int), pairUp l = ps → (∀ p ∈ ps, p.length = 2) →
    pairUp (l ++ [m]) = ps ++ [[m]] := by
  intro ps
  induction ps with
  | nil =>
    intro l h _
    cases l with
    | nil => rfl
    | cons a l => cases l <;> simp [pairUp] at h
  | cons p ps ih =>
    intro l h hall
    cases l with
    | nil => simp [pairUp] at h
    | cons a l =>
      cases l with
      | nil =>
        simp only [pairUp] at h
        injection h with h1 _
        have := hall p (by simp)
        rw [← h1] at this; simp at this
      | cons b l =>
        simp only [pairUp, List.cons.injEq] at h
        simp only [List.cons_append, pairUp]
        rw [ih l h.2 (fun q hq => hall q (by simp [hq])), h.1]

theorem pairsToBits_snoc (bursts : List (Int × Int)) (m s : Int) (bj : List Nat)
    (hfind : bursts.find? (fun p => p.1 == m) = some (m, s)) (hsym : symbolBits bursts m s = .ok bj) :
    ∀ (ps : List (List Int)) (bs : List Nat), pairsToBits bursts ps = .ok (bs, []) → (∀ p ∈ ps, p.length = 2) →
      pairsToBits bursts (ps ++ [[m]]) = .ok (bs ++ bj, [s]) := by
  intro ps
  induction ps with
  | nil =>
    intro bs h _
    simp only [pairsToBits] at h
    injection h with h; injection h with h1 _; subst h1
    simp only [List.nil_append, pairsToBits, List.isEmpty_nil, if_true, hfind, hsym, bind, Except.bind, pure, Except.pure]
  | cons p ps ih =>
    intro bs h hall
    have hp := hall p (by simp)
    match p, hp with
    | [a, b], _ =>
      simp only [List.cons_append, pairsToBits, bind, Except.bind] at h ⊢
      cases hsb : symbolBits bursts a b with
      | error e => simp [hsb] at h
      | ok b1 =>
        simp only [hsb] at h ⊢
        cases hr : pairsToBits bursts ps with
        | error e => simp [hr] at h
        | ok r =>
          obtain ⟨bs', ex⟩ := r
          simp only [hr, pure, Except.pure] at h
          injection h with h; injection h with h1 h2
          subst h1; subst h2
          rw [ih bs' hr (fun q hq => hall q (by simp [hq]))]
          simp [pure, Except.pure, List.append_assoc]

/-! ### class B: pulse symbols, lead-out = a single gap or frame period (no lead-out mark) -/

/-- what the lead-out step makes of the last symbol `p` of a frame whose gap is `x < 0` -/
def lastHalf (tol : Tol) (bursts : List (Int × Int)) (x : Int) (p : Int × Int) : Option (List Int) :=
  match tailStep tol bursts 0 x (p.2 + x) with
  | some (h, some y) => if y == x then some h else none
  | _ => none

/-- decidable well-formedness of class-B tables at tolerance `tol` -/
def wfBc (t : Tables) (tol : Tol) : Bool :=
  supported t &&
  (match t.leadOut with
   | [x] =>
     decide (x ≠ 0) && decide (x ≠ -999999999999) &&
     t.leadIn.all (fun e => decide (e ≠ 0)) && altP t.leadIn &&
     t.bursts.all (fun p => decide (p.1 > 0) && decide (p.2 < 0) &&
        classify tol t.bursts p.1 == some p.1 && classify tol t.bursts p.2 == some p.2 &&
        (t.bursts.find? (fun q => q.1 == p.1) == some p) &&
        (decide (x > 0) || lastHalf tol t.bursts x p == some [] || lastHalf tol t.bursts x p == some [p.2])) &&
     distinctSyms t.bursts
   | _ => false)

/-- a class-B frame: the last symbol's space is merged with the gap / with what is left of the period -/
def frameB (t : Tables) (x : Int) (idx' : List Nat) (j : Nat) : List Int :=
  match t.bursts[j]? with
  | some p =>
    let full := t.leadIn ++ symTimings t.bursts (idx' ++ [j])
    t.leadIn ++ symTimings t.bursts idx' ++ [p.1, p.2 + (if x > 0 then sumAbs full - x else x)]
  | none => []

theorem tailStep_tt (tol : Tol) (bursts : List (Int × Int)) (tt x burst : Int) (hx : x < 0) (htt : 0 ≤ tt) (hb : burst < 0) :
    tailStep tol bursts tt x burst = tailStep tol bursts 0 x burst := by
  have h1 : isMatch tol x (tt + (if burst < 0 then -burst else burst)) = false :=
    isMatch_sign tol _ _ (Or.inl ⟨hx, by simp only [hb, if_true]; omega⟩)
  have h2 : isMatch tol x (0 + (if burst < 0 then -burst else burst)) = false :=
    isMatch_sign tol _ _ (Or.inl ⟨hx, by simp only [hb, if_true]; omega⟩)
  unfold tailStep
  rw [h1, h2]

theorem tailStep_period (tol : Tol) (htol : tol.ok) (bursts : List (Int × Int)) (hbs : ∀ p ∈ bursts, p.2 < 0)
    (tt x burst : Int) (hx : x > 0) (hb : burst < 0) (htot : tt - burst = x) :
    tailStep tol bursts tt x burst = some ([], none) := by
  have h1 : isMatch tol burst x = false := isMatch_sign tol _ _ (Or.inl ⟨hb, hx⟩)
  have h2 : loHalfBit tol bursts 1 0 burst x = none := by
    unfold loHalfBit
    rw [find_none_of_all_false]
    · rfl
    · intro p hp
      have hp2 := hbs p hp
      have : isMatch tol (burst + p.2) x = false := isMatch_sign tol _ x (Or.inl ⟨by omega, hx⟩)
      simp [this]
  have h3 : isMatch tol x (tt + (if burst < 0 then -burst else burst)) = true := by
    have : tt + (if burst < 0 then -burst else burst) = x := by simp [hb]; omega
    rw [this]; exact isMatch_self tol htol x (by omega)
  unfold tailStep
  simp only [h1, Bool.false_eq_true, if_false, h2, h3, if_true]

structure SpecB (t : Tables) (tol : Tol) (x : Int) : Prop where
  lo     : t.leadOut = [x]
  x0     : x ≠ 0
  xs     : x ≠ -999999999999
  li     : ∀ e ∈ t.leadIn, e ≠ 0
  alt    : altP t.leadIn = true
  sym    : ∀ p ∈ t.bursts, p.1 > 0 ∧ p.2 < 0 ∧ classify tol t.bursts p.1 = some p.1 ∧ classify tol t.bursts p.2 = some p.2 ∧
             t.bursts.find? (fun q => q.1 == p.1) = some p ∧
             (x > 0 ∨ lastHalf tol t.bursts x p = some [] ∨ lastHalf tol t.bursts x p = some [p.2])
  dist   : distinctSyms t.bursts = true
  gen    : streamEnc t.bursts = .general

theorem wfBc_spec {t : Tables} {tol : Tol} (h : wfBc t tol = true) : ∃ x, SpecB t tol x := by
  unfold wfBc at h
  rw [Bool.and_eq_true] at h
  obtain ⟨hsup, h⟩ := h
  split at h
  · rename_i x hlo
    simp only [Bool.and_eq_true, decide_eq_true_eq, List.all_eq_true, beq_iff_eq, Bool.or_eq_true] at h
    obtain ⟨⟨⟨⟨⟨h1, h2⟩, h3⟩, h3a⟩, h4⟩, h5⟩ := h
    refine ⟨x, hlo, h1, h2, h3, h3a, ?_, h5, supported_general hsup⟩
    intro p hp
    obtain ⟨⟨⟨⟨⟨a1, a2⟩, a3⟩, a4⟩, a5⟩, a6⟩ := h4 p hp
    refine ⟨a1, a2, a3, a4, a5, ?_⟩
    rcases a6 with (a | a) | a
    · exact Or.inl a
    · exact Or.inr (Or.inl a)
    · exact Or.inr (Or.inr a)
  · simp at h

/-- **bit-level round trip for class-B tables** -/
theorem parse_frameB (t : Tables) (tol : Tol) (htol : tol.ok) (x : Int) (hS : SpecB t tol x)
    (idx' : List Nat) (j : Nat) (hidx : ∀ i ∈ idx' ++ [j], i < t.bursts.length)
    (hfit : x > 0 → sumAbs (t.leadIn ++ symTimings t.bursts (idx' ++ [j])) < x) :
    parse t tol (frameB t x idx' j) =
      .ok { bits := (idx' ++ [j]).flatMap (idxToBits t.bursts.length), cleaned := frameB t x idx' j } := by
  have hj : j < t.bursts.length := hidx j (by simp)
  have hidx' : ∀ i ∈ idx', i < t.bursts.length := fun i hi => hidx i (by simp [hi])
  have hpj : t.bursts[j]? = some t.bursts[j] := List.getElem?_eq_getElem hj
  obtain ⟨pm, ps, hcm, hcs, hfind, hlast⟩ := hS.sym _ (List.getElem_mem hj)
  obtain ⟨m, s, hms⟩ : ∃ m s, t.bursts[j] = (m, s) := ⟨_, _, rfl⟩
  rw [hms] at pm ps hcm hcs hfind hlast
  simp only at pm ps hcm hcs hfind hlast
  have hsym_j : symTimings t.bursts (idx' ++ [j]) = symTimings t.bursts idx' ++ [m, s] := by
    rw [symTimings_append]
    congr 1
    simp [symTimings, hpj, hms]
  obtain ⟨syms', hsy'⟩ : ∃ l, l = symTimings t.bursts idx' := ⟨_, rfl⟩
  obtain ⟨g, hg⟩ : ∃ g, g = (if x > 0 then sumAbs (t.leadIn ++ symTimings t.bursts (idx' ++ [j])) - x else x) := ⟨_, rfl⟩
  have hframe : frameB t x idx' j = t.leadIn ++ syms' ++ [m, s + g] := by
    simp only [frameB, hpj, hms, hsy', hg]
  have hgneg : g < 0 := by
    rw [hg]; split
    · rename_i hx; have := hfit hx; omega
    · have := hS.x0; omega
  have hT : sumAbs (t.leadIn ++ symTimings t.bursts (idx' ++ [j])) = sumAbs (t.leadIn ++ syms' ++ [m]) - s := by
    rw [hsym_j, ← hsy']
    have : t.leadIn ++ (syms' ++ [m, s]) = (t.leadIn ++ syms' ++ [m]) ++ [s] := by simp
    rw [this, sumAbs_append _ [s], sumAbs_single, if_pos ps]; omega
  have hbneg : ∀ p ∈ t.bursts, p.2 < 0 := fun p hp => (hS.sym p hp).2.1
  -- the steps
  have hdl : (t.leadIn ++ syms' ++ [m, s + g]).dropLast = t.leadIn ++ syms' ++ [m] := Props.RoundTrip.dropLast_two _ _ _
  have hgl : (t.leadIn ++ syms' ++ [m, s + g]).getLast? = some (s + g) := Props.RoundTrip.getLast?_two _ _ _
  have hperiod : periodCheck tol t.leadOut (t.leadIn ++ syms' ++ [m, s + g]) = .ok () := by
    unfold periodCheck
    rw [hS.lo]
    simp only [List.getLast?_singleton]
    split
    · rename_i hx
      rw [hgl, hdl]
      simp only []
      have hgx : g = sumAbs (t.leadIn ++ syms' ++ [m]) - s - x := by rw [hg, if_pos hx, hT]
      have : -(x - sumAbs (t.leadIn ++ syms' ++ [m])) = s + g := by rw [hgx]; omega
      rw [this, isMatch_self tol htol (s + g) (by omega)]
      rfl
    · rfl
  have hin : leadInLoop tol t.bursts t.leadIn (t.leadIn ++ syms' ++ [m, s + g]) [] = .ok (syms' ++ [m, s + g], t.leadIn) := by
    have := leadInLoop_exact tol htol t.bursts t.leadIn (syms' ++ [m, s + g]) [] hS.li
    simpa [List.append_assoc] using this
  -- the lead-out step
  have hstep : ∃ half cl, tailStep tol t.bursts (sumAbs (t.leadIn ++ syms' ++ [m])) x (s + g) = some (half, cl) ∧
      (half = [] ∨ half = [s]) ∧ ((x > 0 ∧ cl = none) ∨ (¬ x > 0 ∧ cl = some x)) := by
    by_cases hx : x > 0
    · refine ⟨[], none, ?_, Or.inl rfl, Or.inl ⟨hx, rfl⟩⟩
      apply tailStep_period tol htol t.bursts hbneg _ x (s + g) hx (by omega)
      rw [hg, if_pos hx, hT]; omega
    · have hxneg : x < 0 := by have := hS.x0; omega
      have hgx : g = x := by rw [hg, if_neg hx]
      rw [hgx, tailStep_tt tol t.bursts _ x (s + x) hxneg (sumAbs_nonneg _) (by omega)]
      rcases hlast with h | h | h
      · exact absurd h hx
      · unfold lastHalf at h
        simp only at h
        split at h
        · rename_i hh y heq
          split at h
          · rename_i hy
            injection h with h; subst h
            have : y = x := by simpa using hy
            subst this
            exact ⟨[], some y, heq, Or.inl rfl, Or.inr ⟨hx, rfl⟩⟩
          · simp at h
        · simp at h
      · unfold lastHalf at h
        simp only at h
        split at h
        · rename_i hh y heq
          split at h
          · rename_i hy
            injection h with h; subst h
            have : y = x := by simpa using hy
            subst this
            exact ⟨[s], some y, heq, Or.inr rfl, Or.inr ⟨hx, rfl⟩⟩
          · simp at h
        · simp at h
  obtain ⟨half, cl, hts, hhalf, hcl⟩ := hstep
  have hout : leadOutLoop tol t.bursts 1 (sumAbs (t.leadIn ++ syms' ++ [m])) [x] 0 (syms' ++ [m, s + g]) [] [] =
      .ok (syms' ++ [m], half, [cl]) := by
    have := leadOutLoop_single tol t.bursts (sumAbs (t.leadIn ++ syms' ++ [m])) x (s + g) (syms' ++ [m]) hS.xs (half, cl) hts
    simpa [List.append_assoc] using this
  -- classification, pairing, bits
  have hsyms := classifyAll_syms tol t.bursts (fun p hp => ⟨(hS.sym p hp).2.2.1, (hS.sym p hp).2.2.2.1⟩)
  have hbits' := pairsToBits_syms t.bursts hS.dist idx' hidx'
  have hpairs' := pairUp_syms t.bursts idx' hidx'
  have hlook := distinct_lookup t.bursts hS.dist j hj
  rw [hms] at hlook
  simp only at hlook
  have hvals : ∃ vals extra, classifyAll tol t.bursts (syms' ++ [m] ++ half) = .ok vals ∧
      pairsToBits t.bursts (pairUp vals) = .ok ((idx' ++ [j]).flatMap (idxToBits t.bursts.length), extra) ∧
      vals ++ extra = syms' ++ [m, s] := by
    rcases hhalf with rfl | rfl
    · refine ⟨syms' ++ [m], [s], ?_, ?_, by simp⟩
      · rw [List.append_nil, hsy']
        exact classifyAll_snoc tol t.bursts m hcm _ (hsyms idx' hidx')
      · rw [hsy', pairUp_snoc m _ _ hpairs' (by intro p hp; obtain ⟨i, _, rfl⟩ := List.mem_map.mp hp; rfl)]
        have := pairsToBits_snoc t.bursts m s _ hfind hlook _ _ hbits'
          (by intro p hp; obtain ⟨i, _, rfl⟩ := List.mem_map.mp hp; rfl)
        rw [this]
        simp [List.flatMap_append]
    · refine ⟨syms' ++ [m, s], [], ?_, ?_, by simp⟩
      · have : syms' ++ [m] ++ [s] = symTimings t.bursts (idx' ++ [j]) := by rw [hsym_j, hsy']; simp
        rw [this, hsyms (idx' ++ [j]) hidx, hsym_j, hsy']
      · have : syms' ++ [m, s] = symTimings t.bursts (idx' ++ [j]) := by rw [hsym_j, hsy']
        rw [this, pairUp_syms t.bursts (idx' ++ [j]) hidx, pairsToBits_syms t.bursts hS.dist (idx' ++ [j]) hidx]
  obtain ⟨vals, extra, hcls, hptb, hcat⟩ := hvals
  -- assemble
  rw [hframe]
  rw [parse_general hS.gen]
  unfold parseWith
  rw [hperiod]
  simp only [bind, Except.bind, hdl, hin, hS.lo, List.length_cons, List.length_nil, hout, hcls, hptb, pure, Except.pure]
  have hcl0 : (t.leadIn ++ vals ++ extra).map some ++ [cl] = (t.leadIn ++ syms' ++ [m, s]).map some ++ [cl] := by
    rw [List.append_assoc t.leadIn vals extra, hcat, ← List.append_assoc]
  rw [hcl0]
  have hne : ((t.leadIn ++ syms' ++ [m, s]).map some ++ [cl]).isEmpty = false := by simp
  rw [if_neg (by rw [hne]; simp)]
  congr 2
  rw [List.dropLast_concat, List.getLast?_concat]
  have hbody : ((t.leadIn ++ syms' ++ [m, s]).map some).map (·.getD 0) = t.leadIn ++ syms' ++ [m, s] :=
    Props.RoundTrip.compress_getD_map _
  rw [hbody]
  -- the lead-in and the symbols alternate; the last space and the gap merge
  have halt : altP (t.leadIn ++ syms') = true := by
    rw [hsy']
    exact altP_append _ _ hS.alt (altP_syms t.bursts (fun p hp => ⟨(hS.sym p hp).1, (hS.sym p hp).2.1⟩) idx' hidx')
  have hmerge := compress_alt_merge (t.leadIn ++ syms') m s g halt pm ps hgneg
  rcases hcl with ⟨hx, rfl⟩ | ⟨hx, rfl⟩
  · simp only [List.getLastD_cons, List.getLastD_nil]
    have hgv : -x + sumAbs (t.leadIn ++ syms' ++ [m, s]) = g := by
      rw [hg, if_pos hx, hsym_j, ← hsy']
      have : t.leadIn ++ (syms' ++ [m, s]) = t.leadIn ++ syms' ++ [m, s] := by simp
      rw [this]; omega
    rw [hgv]
    simpa [List.append_assoc] using hmerge
  · simp only []
    have hgv : x = g := by rw [hg, if_neg hx]
    rw [hgv]
    simpa [List.append_assoc] using hmerge

/-- **`_build_packet` produces a class-B frame** -/
theorem build_frameB (t : Tables) (tol : Tol) (x : Int) (hS : SpecB t tol x)
    (hL : t.bursts.length = 2 ∨ t.bursts.length = 4 ∨ t.bursts.length = 16)
    (fields : List (Nat × Nat)) (idx' : List Nat) (j : Nat) (hsplit : fields.flatMap (fieldIdx t) = idx' ++ [j])
    (hfit : x > 0 → sumAbs (t.leadIn ++ symTimings t.bursts (idx' ++ [j])) < x) :
    buildPacket t (fields.map (fun f => Item.field f.1 f.2)) = .ok (frameB t x idx' j) ∧
    altP (frameB t x idx' j) = true ∧ (∀ i ∈ idx' ++ [j], i < t.bursts.length) := by
  have hidx : ∀ i ∈ idx' ++ [j], i < t.bursts.length := by
    intro i hi
    rw [← hsplit] at hi
    obtain ⟨f, _, hf⟩ := List.mem_flatMap.mp hi
    exact (fieldIdx_spec t hL f).2 i hf
  have hj : j < t.bursts.length := hidx j (by simp)
  have hidx' : ∀ i ∈ idx', i < t.bursts.length := fun i hi => hidx i (by simp [hi])
  have hpj : t.bursts[j]? = some t.bursts[j] := List.getElem?_eq_getElem hj
  obtain ⟨pm, ps, _⟩ := hS.sym _ (List.getElem_mem hj)
  obtain ⟨m, s, hms⟩ : ∃ m s, t.bursts[j] = (m, s) := ⟨_, _, rfl⟩
  rw [hms] at pm ps
  simp only at pm ps
  have hsym_j : symTimings t.bursts (idx' ++ [j]) = symTimings t.bursts idx' ++ [m, s] := by
    rw [symTimings_append]
    congr 1
    simp [symTimings, hpj, hms]
  have hb : ∀ p ∈ t.bursts, p.1 > 0 ∧ p.2 < 0 := fun p hp => ⟨(hS.sym p hp).1, (hS.sym p hp).2.1⟩
  have halt' : altP (t.leadIn ++ symTimings t.bursts idx') = true :=
    altP_append _ _ hS.alt (altP_syms t.bursts hb idx' hidx')
  obtain ⟨g, hg⟩ : ∃ g, g = (if x > 0 then sumAbs (t.leadIn ++ symTimings t.bursts (idx' ++ [j])) - x else x) := ⟨_, rfl⟩
  have hgneg : g < 0 := by
    rw [hg]; split
    · rename_i hx; have := hfit hx; omega
    · have := hS.x0; omega
  have hframe : frameB t x idx' j = t.leadIn ++ symTimings t.bursts idx' ++ [m, s + g] := by
    simp only [frameB, hpj, hms, hg]
  have haltF : altP (frameB t x idx' j) = true := by
    rw [hframe]
    apply altP_append _ _ halt'
    simp only [altP, Bool.and_eq_true, decide_eq_true_eq]
    exact ⟨⟨pm, by omega⟩, trivial⟩
  refine ⟨?_, haltF, hidx⟩
  have haltFull : altP (t.leadIn ++ symTimings t.bursts (idx' ++ [j])) = true :=
    altP_append _ _ hS.alt (altP_syms t.bursts hb _ hidx)
  unfold buildPacket
  rw [items_timings t hL fields]
  simp only []
  rw [flatten_syms, hsplit, hS.lo]
  simp only [List.getLast?_singleton]
  by_cases hx : x > 0
  · have h1 : (t.leadIn ++ symTimings t.bursts (idx' ++ [j]) ++ [x]).getLastD 0 > 0 := by
      rw [List.getLastD_concat]; exact hx
    rw [if_pos h1, List.dropLast_concat, compress_altP _ haltFull]
    have hgx : g = sumAbs (t.leadIn ++ symTimings t.bursts (idx' ++ [j])) - x := by rw [hg, if_pos hx]
    rw [← hgx, hframe, hsym_j]
    have := compress_alt_merge (t.leadIn ++ symTimings t.bursts idx') m s g halt' pm ps hgneg
    simpa [List.append_assoc] using this
  · have h1 : ¬ (t.leadIn ++ symTimings t.bursts (idx' ++ [j]) ++ [x]).getLastD 0 > 0 := by
      rw [List.getLastD_concat]; exact hx
    rw [if_neg h1]
    have hgx : g = x := by rw [hg, if_neg hx]
    rw [hframe, hsym_j, ← hgx]
    have := compress_alt_merge (t.leadIn ++ symTimings t.bursts idx') m s g halt' pm ps hgneg
    simpa [List.append_assoc] using this

/-! ### the engine round trip, abstractly, and for class B -/

/-- what the wrapper-level theorems need from the engine: `_build_packet` on any field values gives a well-formed frame
    that a history-free base decoder decodes back to those values -/
def EngineRT (t : Tables) (tol : Tol) : Prop :=
  ∀ (vals : List Nat), vals.length = t.params.length →
    ∃ frame, buildPacket t ((fieldsOf t.params vals).map (fun f => Item.field f.1 f.2)) = .ok frame ∧
      WellFormed frame ∧ altP frame = true ∧
      (t.leadOut.getLastD 0 > 0 → sumAbs frame = t.leadOut.getLastD 0) ∧
      ∃ c, (decodeFull t { last := none, tol := tol } frame []).result = .ok c ∧
        c.fields = List.zipWith (fun p v => (p.1, v % 2 ^ (p.2.2 + 1 - p.2.1))) t.params vals ∧
        c.frame = frame ∧ t.leadIn.length + 2 ≤ frame.length

theorem engineRT_A (t : Tables) (tol : Tol) (htol : tol.ok) (hw : wfAll t tol = true) : EngineRT t tol :=
  fun vals hlen => engine_roundtrip t tol htol hw vals hlen

def fitsPeriodB (t : Tables) : Bool :=
  match t.leadOut with
  | [x] =>
    if x > 0 then
      decide (sumAbs t.leadIn + ((t.bitCount / bitsPerSymbol t.bursts.length : Nat) : Int) * maxSym t.bursts < x)
    else true
  | _ => false

/-- all decidable side conditions of the class-B engine theorem -/
def wfAllB (t : Tables) (tol : Tol) : Bool :=
  wfBc t tol && (t.bursts.length == 2 || t.bursts.length == 4 || t.bursts.length == 16) &&
  tiles t.bursts.length 0 t.params && (tilesEnd 0 t.params == t.bitCount) && fitsPeriodB t &&
  decide (bitsPerSymbol t.bursts.length ≤ t.bitCount)

theorem engineRT_B (t : Tables) (tol : Tol) (htol : tol.ok) (hw : wfAllB t tol = true) : EngineRT t tol := by
  intro vals hlen
  unfold wfAllB at hw
  simp only [Bool.and_eq_true, beq_iff_eq, Bool.or_eq_true, decide_eq_true_eq] at hw
  obtain ⟨⟨⟨⟨⟨hBc, hL'⟩, hT⟩, hE⟩, hF⟩, hbc⟩ := hw
  have hL : t.bursts.length = 2 ∨ t.bursts.length = 4 ∨ t.bursts.length = 16 := by omega
  obtain ⟨x, hS⟩ := wfBc_spec hBc
  obtain ⟨fields, hfields⟩ : ∃ f, f = fieldsOf t.params vals := ⟨_, rfl⟩
  rw [← hfields]
  have hdec := fields_decode t.order t.bursts.length t.params vals 0 [] hT hlen rfl
  rw [← hfields] at hdec
  simp only [List.nil_append] at hdec
  have hbitsEq := flatMap_fields_bits t hL fields
  have hbl : ((fields.flatMap (fieldIdx t)).flatMap (idxToBits t.bursts.length)).length = t.bitCount := by
    rw [hbitsEq, hdec.2, hE]
  have hk : 0 < bitsPerSymbol t.bursts.length := by
    rcases hL with h | h | h <;> rw [h] <;> decide
  have hnsym : (fields.flatMap (fieldIdx t)).length = t.bitCount / bitsPerSymbol t.bursts.length := by
    have := flatMap_bits_length t.bursts.length hL (fields.flatMap (fieldIdx t))
    rw [hbl] at this
    rw [this, Nat.mul_div_cancel _ hk]
  -- at least one symbol: split off the last
  have hpos : 0 < (fields.flatMap (fieldIdx t)).length := by
    rw [hnsym]; exact Nat.div_pos hbc hk
  obtain ⟨idx', j, hsplit⟩ : ∃ idx' j, fields.flatMap (fieldIdx t) = idx' ++ [j] := by
    have hne : fields.flatMap (fieldIdx t) ≠ [] := by intro h; rw [h] at hpos; simp at hpos
    exact ⟨_, _, (List.dropLast_concat_getLast hne).symm⟩
  have hidx : ∀ i ∈ idx' ++ [j], i < t.bursts.length := by
    intro i hi
    rw [← hsplit] at hi
    obtain ⟨f, _, hf⟩ := List.mem_flatMap.mp hi
    exact (fieldIdx_spec t hL f).2 i hf
  have hfit : x > 0 → sumAbs (t.leadIn ++ symTimings t.bursts (idx' ++ [j])) < x := by
    intro hx
    unfold fitsPeriodB at hF
    rw [hS.lo] at hF
    simp only [hx, if_true, decide_eq_true_eq] at hF
    have hb1 := symTimings_bound t.bursts _ hidx
    rw [← hsplit, hnsym] at hb1
    rw [sumAbs_append, ← hsplit]
    omega
  obtain ⟨hbuild, halt, _⟩ := build_frameB t tol x hS hL fields idx' j hsplit hfit
  have hparse := parse_frameB t tol htol x hS idx' j hidx hfit
  have hne : frameB t x idx' j ≠ [] := by
    have hj : j < t.bursts.length := hidx j (by simp)
    simp [frameB, List.getElem?_eq_getElem hj]
  refine ⟨_, hbuild, altP_wellFormed _ halt hne, halt, ?_, ?_⟩
  · intro hx
    rw [hS.lo] at hx ⊢
    have hx' : x > 0 := by simpa using hx
    simp only [List.getLastD_cons, List.getLastD_nil]
    have hj : j < t.bursts.length := hidx j (by simp)
    have hpj : t.bursts[j]? = some t.bursts[j] := List.getElem?_eq_getElem hj
    obtain ⟨pm, ps, _⟩ := hS.sym _ (List.getElem_mem hj)
    have hsym_j : symTimings t.bursts (idx' ++ [j]) = symTimings t.bursts idx' ++ [t.bursts[j].1, t.bursts[j].2] := by
      rw [symTimings_append]
      congr 1
      simp [symTimings, hpj]
    simp only [frameB, hpj, if_pos hx']
    have hf := hfit hx'
    rw [hsym_j] at hf ⊢
    have e1 : t.leadIn ++ (symTimings t.bursts idx' ++ [t.bursts[j].1, t.bursts[j].2]) =
        (t.leadIn ++ symTimings t.bursts idx' ++ [t.bursts[j].1]) ++ [t.bursts[j].2] := by simp
    rw [e1, sumAbs_append _ [_], sumAbs_single, if_pos ps] at hf ⊢
    have e2 : t.leadIn ++ symTimings t.bursts idx' ++ [t.bursts[j].1, t.bursts[j].2 + (sumAbs (t.leadIn ++ symTimings t.bursts idx' ++ [t.bursts[j].1]) + -t.bursts[j].2 - x)] =
        (t.leadIn ++ symTimings t.bursts idx' ++ [t.bursts[j].1]) ++ [t.bursts[j].2 + (sumAbs (t.leadIn ++ symTimings t.bursts idx' ++ [t.bursts[j].1]) + -t.bursts[j].2 - x)] := by simp
    rw [e2, sumAbs_append _ [_], sumAbs_single]
    have : t.bursts[j].2 + (sumAbs (t.leadIn ++ symTimings t.bursts idx' ++ [t.bursts[j].1]) + -t.bursts[j].2 - x) < 0 := by omega
    rw [if_pos this]; omega
  · unfold decodeFull
    rw [hparse]
    have hbl' : ((idx' ++ [j]).flatMap (idxToBits t.bursts.length)).length = t.bitCount := by rw [← hsplit]; exact hbl
    simp only [hbl', Nat.lt_irrefl, if_false]
    have hlen2 : t.leadIn.length + 2 ≤ (frameB t x idx' j).length := by
      have hj : j < t.bursts.length := hidx j (by simp)
      simp [frameB, List.getElem?_eq_getElem hj]
    by_cases hov : t.decodeOverridden
    · simp only [hov, if_true]
      exact ⟨_, rfl, by simp only [mkCode]; rw [← hsplit, hbitsEq]; exact hdec.1, rfl, hlen2⟩
    · simp only [hov, Bool.false_eq_true, if_false]
      exact ⟨_, rfl, by simp only [mkCode]; rw [← hsplit, hbitsEq]; exact hdec.1, rfl, hlen2⟩

end IRModel.Engine
