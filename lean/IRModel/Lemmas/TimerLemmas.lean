import IRModel.Timer
namespace IRModel.Timer

/-- everything but the `bound` flag -/
def Obj.core (o : Obj) : Obj := { o with bound := false }

def isRel (i : Nat) : Out → Bool
  | .released j _ => j == i
  | _ => false
def relCount (outs : List Out) (i : Nat) : Nat := outs.countP (isRel i)
def isRelJob (i : Nat) : Job → Bool
  | .release j => j == i
  | _ => false

/-- what a queued job prints -/
def jobOut (objs : List Obj) : Job → List Out
  | .decoded i => match objs[i]? with | some o => [.decoded i o.key] | none => []
  | .release i => match objs[i]? with | some o => if o.user then [.released i o.key] else [] | none => []

def SameCore (a b : List Obj) : Prop := a.map Obj.core = b.map Obj.core

theorem SameCore.refl (a : List Obj) : SameCore a a := rfl
theorem SameCore.trans {a b c : List Obj} (h1 : SameCore a b) (h2 : SameCore b c) : SameCore a c := by
  unfold SameCore at *; rw [h1, h2]
theorem SameCore.length {a b : List Obj} (h : SameCore a b) : a.length = b.length := by
  have := congrArg List.length h; simpa using this
theorem SameCore.get {a b : List Obj} (h : SameCore a b) (i : Nat) : (a[i]?).map Obj.core = (b[i]?).map Obj.core := by
  have := congrArg (fun l => l[i]?) h; simpa using this
theorem SameCore.set_bound {a : List Obj} {i : Nat} {o : Obj} (h : a[i]? = some o) (b : Bool) :
    SameCore (a.set i { o with bound := b }) a := by
  unfold SameCore
  apply List.ext_getElem?
  intro j
  simp only [List.getElem?_map, List.getElem?_set]
  by_cases hij : i = j
  · subst hij
    have hlt : i < a.length := by
      rcases Nat.lt_or_ge i a.length with h' | h'
      · exact h'
      · rw [List.getElem?_eq_none h'] at h; cases h
    have hoe : a[i] = o := by simpa [List.getElem?_eq_getElem hlt] using h
    simp [hlt, Obj.core, hoe]
  · simp [hij]

theorem jobOut_core {a b : List Obj} (h : SameCore a b) (j : Job) : jobOut a j = jobOut b j := by
  cases j with
  | release i =>
    have := h.get i
    simp only [jobOut]
    cases ha : a[i]? <;> cases hb : b[i]? <;> simp [ha, hb] at this ⊢
    have hk : _ := congrArg Obj.key this
    have hu : _ := congrArg Obj.user this
    simp [Obj.core] at hk hu
    simp [hk, hu]
  | decoded i =>
    have := h.get i
    simp only [jobOut]
    cases ha : a[i]? <;> cases hb : b[i]? <;> simp [ha, hb] at this ⊢
    have hk : _ := congrArg Obj.key this
    simp [Obj.core] at hk
    simp [hk]


theorem SameCore.get_some {a b : List Obj} (h : SameCore a b) {i : Nat} {o : Obj} (ho : a[i]? = some o) :
    ∃ o', b[i]? = some o' ∧ o'.core = o.core := by
  have := h.get i
  rw [ho] at this
  cases hb : b[i]? with
  | none => rw [hb] at this; simp at this
  | some o' => rw [hb] at this; simp at this; exact ⟨o', rfl, this.symm⟩

theorem core_fields {o o' : Obj} (h : o'.core = o.core) :
    o'.key = o.key ∧ o'.start = o.start ∧ o'.padded = o.padded ∧ o'.proc = o.proc ∧ o'.user = o.user := by
  have h1 := congrArg Obj.key h
  have h2 := congrArg Obj.start h
  have h3 := congrArg Obj.padded h
  have h4 := congrArg Obj.proc h
  have h5 := congrArg Obj.user h
  simp [Obj.core] at h1 h2 h3 h4 h5
  exact ⟨h1, h2, h3, h4, h5⟩

structure JobFrame (s s' : St) : Prop where
  now : s'.now = s.now
  duration : s'.duration = s.duration
  style : s'.style = s.style
  timerQ : s'.timerQ = s.timerQ
  procQ : s'.procQ = s.procQ
  core : SameCore s'.objs s.objs
  dec : s'.decLast = s.decLast ∨ s'.decLast = none
  disp : s'.dispLast = s.dispLast ∨ s'.dispLast = none

theorem JobFrame.refl (s : St) : JobFrame s s := ⟨rfl, rfl, rfl, rfl, rfl, SameCore.refl _, Or.inl rfl, Or.inl rfl⟩
theorem JobFrame.trans {a b c : St} (h1 : JobFrame a b) (h2 : JobFrame b c) : JobFrame a c :=
  ⟨h2.now.trans h1.now, h2.duration.trans h1.duration, h2.style.trans h1.style, h2.timerQ.trans h1.timerQ,
   h2.procQ.trans h1.procQ, h2.core.trans h1.core,
   by rcases h2.dec with h | h
      · rw [h]; exact h1.dec
      · exact Or.inr h,
   by rcases h2.disp with h | h
      · rw [h]; exact h1.disp
      · exact Or.inr h⟩

def DispBound (s : St) : Prop := ∀ j, s.dispLast = some j → ∃ o, s.objs[j]? = some o ∧ o.bound = true
def NotRunning (s : St) (i : Nat) : Prop := ∀ o, s.objs[i]? = some o → isRunning s o = false

theorem resetLast_frame (s : St) (i : Nat) (o : Obj) (ho : s.objs[i]? = some o) : JobFrame s (resetLast s i o) := by
  unfold resetLast
  split
  · split
    · split
      · exact JobFrame.refl s
      · exact ⟨rfl, rfl, rfl, rfl, rfl, SameCore.set_bound ho false, Or.inl rfl, Or.inr rfl⟩
    · exact ⟨rfl, rfl, rfl, rfl, rfl, SameCore.set_bound ho false, Or.inl rfl, Or.inl rfl⟩
  · exact ⟨rfl, rfl, rfl, rfl, rfl, SameCore.set_bound ho false, Or.inl rfl, Or.inl rfl⟩

theorem runJob_frame (s : St) (j : Job) : JobFrame s (runJob s j) ∧ (runJob s j).outs = s.outs ++ jobOut s.objs j := by
  cases j with
  | decoded i =>
    simp only [runJob, jobOut, getObj]
    cases h : s.objs[i]? with
    | none => simp [JobFrame.refl]
    | some o => exact ⟨⟨rfl, rfl, rfl, rfl, rfl, SameCore.refl _, Or.inl rfl, Or.inl rfl⟩, rfl⟩
  | release i =>
    simp only [runJob, jobOut, getObj]
    cases h : s.objs[i]? with
    | none => simp [JobFrame.refl]
    | some o =>
      simp only []
      have h1 : JobFrame s (if s.decLast == some i then { s with decLast := none } else s) := by
        split
        · exact ⟨rfl, rfl, rfl, rfl, rfl, SameCore.refl _, Or.inr rfl, Or.inl rfl⟩
        · exact JobFrame.refl s
      have h1o : (if s.decLast == some i then { s with decLast := none } else s).outs = s.outs := by split <;> rfl
      have h1b : (if s.decLast == some i then { s with decLast := none } else s).objs = s.objs := by split <;> rfl
      generalize (if s.decLast == some i then { s with decLast := none } else s) = s1 at h1 h1o h1b
      have h2 : JobFrame s (if o.bound then resetLast s1 i o else s1) ∧ (if o.bound then resetLast s1 i o else s1).outs = s.outs := by
        split
        · refine ⟨h1.trans (resetLast_frame s1 i o (by rw [h1b]; exact h)), ?_⟩
          rw [← h1o]
          unfold resetLast
          repeat' split
          all_goals rfl
        · exact ⟨h1, h1o⟩
      generalize (if o.bound then resetLast s1 i o else s1) = s2 at h2
      split
      · exact ⟨⟨h2.1.now, h2.1.duration, h2.1.style, h2.1.timerQ, h2.1.procQ, h2.1.core, h2.1.dec, h2.1.disp⟩, by simp [h2.2]⟩
      · exact ⟨h2.1, by simp [h2.2]⟩


theorem isRunning_core (s s' : St) (o o' : Obj) (hn : s'.now = s.now) (hd : s'.duration = s.duration)
    (hc : o'.core = o.core) : isRunning s' o' = isRunning s o := by
  have h1 : o'.start = o.start := by have := congrArg Obj.start hc; simpa [Obj.core] using this
  have h2 : o'.padded = o.padded := by have := congrArg Obj.padded hc; simpa [Obj.core] using this
  have h3 : o'.proc = o.proc := by have := congrArg Obj.proc hc; simpa [Obj.core] using this
  simp only [isRunning, expired, h1, h2, h3, hn, hd]

theorem NotRunning.frame {s s' : St} {i : Nat} (h : NotRunning s i) (hf : JobFrame s s') : NotRunning s' i := by
  intro o' ho'
  have hg := hf.core.get i
  rw [ho'] at hg
  cases ho : s.objs[i]? with
  | none => rw [ho] at hg; simp at hg
  | some o =>
    rw [ho] at hg
    simp only [Option.map_some, Option.some.injEq] at hg
    rw [isRunning_core s s' o o' hf.now hf.duration hg]
    exact h o ho

theorem getElem?_set_bound {a : List Obj} {i j : Nat} {o : Obj} (h : a[i]? = some o) (b : Bool) :
    (a.set i { o with bound := b })[j]? = if i = j then some { o with bound := b } else a[j]? := by
  rw [List.getElem?_set]
  by_cases hij : i = j
  · subst hij
    have hlt : i < a.length := by
      rcases Nat.lt_or_ge i a.length with h' | h'
      · exact h'
      · rw [List.getElem?_eq_none h'] at h; cases h
    simp [hlt]
  · simp [hij]

theorem resetLast_bound (s : St) (i : Nat) (o : Obj) (ho : s.objs[i]? = some o) (hb : DispBound s)
    (hnr : isRunning s o = false) :
    DispBound (resetLast s i o) ∧ (resetLast s i o).dispLast ≠ some i := by
  unfold resetLast
  cases hd : s.dispLast with
  | none =>
    simp only [Option.bind_none]
    refine ⟨?_, by simp [setObj, hd]⟩
    intro j hj; simp [setObj, hd] at hj
  | some l =>
    obtain ⟨lo, hlo, hlb⟩ := hb l hd
    simp only [Option.bind_some, getObj, hlo]
    by_cases hk : lo.key = o.key
    · simp only [hk, beq_self_eq_true, if_true, hnr, Bool.false_eq_true, if_false]
      refine ⟨?_, by simp [setObj]⟩
      intro j hj; simp [setObj] at hj
    · have hk' : (lo.key == o.key) = false := by simpa using hk
      simp only [hk', Bool.false_eq_true, if_false]
      have hli : l ≠ i := by
        intro e; subst e; rw [ho] at hlo; injection hlo with e; exact hk (by rw [e])
      refine ⟨?_, by simp [setObj, hd, hli]⟩
      intro j hj
      simp only [setObj] at hj ⊢
      rw [hd] at hj; injection hj with hj; subst hj
      rw [getElem?_set_bound ho]
      simp only [Ne.symm hli, if_false]
      exact ⟨lo, hlo, hlb⟩


theorem resetLast_dec (s : St) (i : Nat) (o : Obj) : (resetLast s i o).decLast = s.decLast := by
  unfold resetLast; repeat' split
  all_goals rfl

theorem runJob_release (s : St) (i : Nat) (o : Obj) (ho : s.objs[i]? = some o) (hb : DispBound s)
    (hnr : isRunning s o = false) :
    DispBound (runJob s (.release i)) ∧ (runJob s (.release i)).decLast ≠ some i ∧
      (runJob s (.release i)).dispLast ≠ some i := by
  simp only [runJob, getObj, ho]
  obtain ⟨s1, hs1⟩ : ∃ s1, s1 = (if s.decLast == some i then { s with decLast := none } else s) := ⟨_, rfl⟩
  rw [← hs1]
  have h1d : s1.decLast ≠ some i := by
    rw [hs1]; split
    · simp
    · rename_i h; simpa using h
  have h1o : s1.objs = s.objs ∧ s1.dispLast = s.dispLast ∧ s1.now = s.now ∧ s1.duration = s.duration := by
    rw [hs1]; split <;> exact ⟨rfl, rfl, rfl, rfl⟩
  have h1b : DispBound s1 := by
    intro j hj; rw [h1o.2.1] at hj; rw [h1o.1]; exact hb j hj
  have h1r : isRunning s1 o = false := by
    rw [isRunning_core s s1 o o h1o.2.2.1 h1o.2.2.2 rfl]; exact hnr
  have ho1 : s1.objs[i]? = some o := by rw [h1o.1]; exact ho
  obtain ⟨s2, hs2⟩ : ∃ s2, s2 = (if o.bound then resetLast s1 i o else s1) := ⟨_, rfl⟩
  rw [← hs2]
  have h2 : DispBound s2 ∧ s2.decLast ≠ some i ∧ s2.dispLast ≠ some i := by
    rw [hs2]; split
    · obtain ⟨ha, hc⟩ := resetLast_bound s1 i o ho1 h1b h1r
      exact ⟨ha, by rw [resetLast_dec]; exact h1d, hc⟩
    · rename_i hnb
      refine ⟨h1b, h1d, ?_⟩
      intro hd
      obtain ⟨o', ho', hb'⟩ := h1b i hd
      rw [ho1] at ho'; injection ho' with e; subst e; exact hnb hb'
  split
  · exact ⟨fun j hj => h2.1 j hj, h2.2.1, h2.2.2⟩
  · exact h2

theorem runJob_decoded_bound (s : St) (i : Nat) (hb : DispBound s) : DispBound (runJob s (.decoded i)) := by
  simp only [runJob]
  split
  · exact fun j hj => hb j hj
  · exact hb


theorem foldl_runJob (q : List Job) : ∀ (s : St), DispBound s → (∀ i, Job.release i ∈ q → NotRunning s i) →
    JobFrame s (q.foldl runJob s) ∧ (q.foldl runJob s).outs = s.outs ++ q.flatMap (jobOut s.objs) ∧
    DispBound (q.foldl runJob s) ∧
    ∀ i, Job.release i ∈ q → i < s.objs.length →
      (q.foldl runJob s).decLast ≠ some i ∧ (q.foldl runJob s).dispLast ≠ some i := by
  induction q with
  | nil => intro s hb _; exact ⟨JobFrame.refl s, by simp, hb, by intro i hi; cases hi⟩
  | cons j q ih =>
    intro s hb hnr
    simp only [List.foldl_cons]
    obtain ⟨hf1, ho1⟩ := runJob_frame s j
    have hb1 : DispBound (runJob s j) := by
      cases j with
      | decoded i => exact runJob_decoded_bound s i hb
      | release i =>
        cases ho : s.objs[i]? with
        | none => simp only [runJob, getObj, ho]; exact hb
        | some o => exact (runJob_release s i o ho hb (hnr i (by simp) o ho)).1
    have hnr1 : ∀ i, Job.release i ∈ q → NotRunning (runJob s j) i :=
      fun i hi => (hnr i (List.mem_cons_of_mem _ hi)).frame hf1
    obtain ⟨hf2, ho2, hb2, hc2⟩ := ih (runJob s j) hb1 hnr1
    refine ⟨hf1.trans hf2, ?_, hb2, ?_⟩
    · rw [ho2, ho1, List.flatMap_cons, List.append_assoc]
      have : jobOut (runJob s j).objs = jobOut s.objs := funext (jobOut_core hf1.core)
      rw [this]
    · intro i hi hlt
      rcases List.mem_cons.mp hi with e | hi'
      · subst e
        have hlt' : i < s.objs.length := hlt
        obtain ⟨o, ho⟩ : ∃ o, s.objs[i]? = some o := ⟨s.objs[i], List.getElem?_eq_getElem hlt'⟩
        obtain ⟨_, hd, hp⟩ := runJob_release s i o ho hb (hnr i (by simp) o ho)
        constructor
        · rcases hf2.dec with h | h
          · rw [h]; exact hd
          · rw [h]; simp
        · rcases hf2.disp with h | h
          · rw [h]; exact hp
          · rw [h]; simp
      · exact hc2 i hi' (by rw [hf1.core.length]; exact hlt)

theorem runJob_dec_keep (s : St) (j : Job) (d : Nat) (h : s.decLast = some d) (hj : j ≠ .release d) :
    (runJob s j).decLast = some d := by
  cases j with
  | decoded i => simp only [runJob]; split <;> exact h
  | release i =>
    have hid : i ≠ d := fun e => hj (by rw [e])
    simp only [runJob]
    split
    · rename_i o ho
      have h1 : (if s.decLast == some i then { s with decLast := none } else s).decLast = some d := by
        have : (s.decLast == some i) = false := by rw [h]; simpa using Ne.symm hid
        simp only [this, Bool.false_eq_true, if_false]; exact h
      generalize (if s.decLast == some i then { s with decLast := none } else s) = s1 at h1
      have h2 : (if o.bound then resetLast s1 i o else s1).decLast = some d := by
        split
        · rw [resetLast_dec]; exact h1
        · exact h1
      split <;> exact h2
    · exact h

theorem foldl_dec_keep (q : List Job) : ∀ (s : St) (d : Nat), s.decLast = some d → Job.release d ∉ q →
    (q.foldl runJob s).decLast = some d := by
  induction q with
  | nil => intro s d h _; exact h
  | cons j q ih =>
    intro s d h hn
    simp only [List.foldl_cons]
    exact ih _ d (runJob_dec_keep s j d h (fun e => hn (by rw [e]; simp))) (fun hm => hn (List.mem_cons_of_mem _ hm))

theorem runJob_disp_keep (s : St) (j : Job) (x : Nat) (ox : Obj) (hx : s.dispLast = some x) (hox : s.objs[x]? = some ox)
    (hk : ∀ i oi, j = .release i → s.objs[i]? = some oi → oi.key ≠ ox.key) : (runJob s j).dispLast = some x := by
  cases j with
  | decoded i => simp only [runJob]; split <;> exact hx
  | release i =>
    simp only [runJob, getObj]
    cases ho : s.objs[i]? with
    | none => exact hx
    | some o =>
      have hko := hk i o rfl ho
      simp only []
      have h1 : (if s.decLast == some i then { s with decLast := none } else s).dispLast = some x ∧
          (if s.decLast == some i then { s with decLast := none } else s).objs = s.objs := by split <;> exact ⟨hx, rfl⟩
      generalize (if s.decLast == some i then { s with decLast := none } else s) = s1 at h1
      have h2 : (if o.bound then resetLast s1 i o else s1).dispLast = some x := by
        split
        · unfold resetLast
          have : s1.dispLast.bind (getObj s1) = some ox := by simp [h1.1, getObj, h1.2, hox]
          rw [this]
          have hne : (ox.key == o.key) = false := by simpa using Ne.symm hko
          simp only [hne, Bool.false_eq_true, if_false, setObj]; exact h1.1
        · exact h1.1
      split <;> exact h2

theorem foldl_disp_keep (q : List Job) : ∀ (s : St) (x : Nat) (ox : Obj), s.dispLast = some x → s.objs[x]? = some ox →
    (∀ i oi, Job.release i ∈ q → s.objs[i]? = some oi → oi.key ≠ ox.key) → (q.foldl runJob s).dispLast = some x := by
  induction q with
  | nil => intro s x ox h _ _; exact h
  | cons j q ih =>
    intro s x ox hx hox hk
    simp only [List.foldl_cons]
    have hf := (runJob_frame s j).1
    obtain ⟨ox', hox', hcx⟩ : ∃ ox', (runJob s j).objs[x]? = some ox' ∧ ox'.core = ox.core := by
      have hg := hf.core.get x
      rw [hox] at hg
      cases h : (runJob s j).objs[x]? with
      | none => rw [h] at hg; simp at hg
      | some o' => rw [h] at hg; simp at hg; exact ⟨o', rfl, hg⟩
    refine ih _ x ox' (runJob_disp_keep s j x ox hx hox (fun i oi e => hk i oi (by rw [e]; simp))) hox' ?_
    intro i oi hm hoi
    obtain ⟨oi', hoi', hci⟩ := hf.core.get_some hoi
    rw [← (core_fields hci).1, (core_fields hcx).1]
    exact hk i oi' (List.mem_cons_of_mem _ hm) hoi'

/-- `drain` as a whole -/
theorem drain_spec (s : St) (hb : DispBound s) (hnr : ∀ i, Job.release i ∈ s.procQ → NotRunning s i) :
    (drain s).now = s.now ∧ (drain s).duration = s.duration ∧ (drain s).style = s.style ∧
    (drain s).timerQ = s.timerQ ∧ (drain s).procQ = [] ∧ SameCore (drain s).objs s.objs ∧
    ((drain s).decLast = s.decLast ∨ (drain s).decLast = none) ∧
    ((drain s).dispLast = s.dispLast ∨ (drain s).dispLast = none) ∧
    (drain s).outs = s.outs ++ s.procQ.flatMap (jobOut s.objs) ∧ DispBound (drain s) ∧
    ∀ i, Job.release i ∈ s.procQ → i < s.objs.length → (drain s).decLast ≠ some i ∧ (drain s).dispLast ≠ some i := by
  have hb' : DispBound { s with procQ := [] } := fun j hj => hb j hj
  have hnr' : ∀ i, Job.release i ∈ s.procQ → NotRunning { s with procQ := [] } i := fun i hi o ho => hnr i hi o ho
  obtain ⟨hf, ho, hbb, hc⟩ := foldl_runJob s.procQ { s with procQ := [] } hb' hnr'
  exact ⟨hf.now, hf.duration, hf.style, hf.timerQ, hf.procQ, hf.core, hf.dec, hf.disp, ho, hbb, hc⟩


theorem pollAct_congr (s st : St) (ho : st.objs = s.objs) (hn : st.now = s.now) (hd : st.duration = s.duration) (i : Nat) :
    pollAct st i = pollAct s i := by
  unfold pollAct getObj
  rw [ho]
  cases s.objs[i]? with
  | none => rfl
  | some o =>
    have : expired st o = expired s o := by unfold expired; rw [hn, hd]
    simp only [this]

def pollStep (st : St) (i : Nat) : St :=
  match pollAct st i with
  | 0 => st
  | 1 => { st with timerQ := st.timerQ.filter (· != i) }
  | _ => { st with timerQ := st.timerQ.filter (· != i), procQ := st.procQ ++ [.release i] }

theorem pollTimers_eq (s : St) : pollTimers s = s.timerQ.foldl pollStep s := rfl

structure PollFrame (s st : St) : Prop where
  objs : st.objs = s.objs
  now : st.now = s.now
  duration : st.duration = s.duration
  style : st.style = s.style
  dec : st.decLast = s.decLast
  disp : st.dispLast = s.dispLast
  outs : st.outs = s.outs

theorem pollAct_le (s : St) (i : Nat) : pollAct s i = 0 ∨ pollAct s i = 1 ∨ pollAct s i = 2 := by
  unfold pollAct; repeat' split
  all_goals simp

theorem foldl_pollStep (s : St) (l : List Nat) : ∀ (st : St), PollFrame s st →
    PollFrame s (l.foldl pollStep st) ∧
    (l.foldl pollStep st).timerQ = st.timerQ.filter (fun x => !(l.contains x && pollAct s x != 0)) ∧
    (l.foldl pollStep st).procQ = st.procQ ++ (l.filter (fun i => pollAct s i == 2)).map Job.release := by
  induction l with
  | nil => intro st hf; exact ⟨hf, (List.filter_eq_self.mpr (by intros; rfl)).symm, by simp⟩
  | cons i l ih =>
    intro st hf
    simp only [List.foldl_cons]
    have hact : pollAct st i = pollAct s i := pollAct_congr s st hf.objs hf.now hf.duration i
    rcases pollAct_le s i with h0 | h1 | h2
    · have hst : pollStep st i = st := by simp only [pollStep, hact, h0]
      rw [hst]
      obtain ⟨a, b, c⟩ := ih st hf
      refine ⟨a, ?_, ?_⟩
      · rw [b]; apply List.filter_congr; intro x _
        by_cases hx : x = i
        · subst hx; simp [h0]
        · have : (i == x) = false := by simpa using Ne.symm hx
          simp [List.contains_cons, this, hx]
      · rw [c]; simp [List.filter_cons, h0]
    · have hst : pollStep st i = { st with timerQ := st.timerQ.filter (· != i) } := by simp only [pollStep, hact, h1]
      rw [hst]
      obtain ⟨a, b, c⟩ := ih { st with timerQ := st.timerQ.filter (· != i) } ⟨hf.objs, hf.now, hf.duration, hf.style, hf.dec, hf.disp, hf.outs⟩
      refine ⟨a, ?_, ?_⟩
      · rw [b]; simp only [List.filter_filter]; apply List.filter_congr; intro x _
        by_cases hx : x = i
        · subst hx; simp [h1]
        · have : (i == x) = false := by simpa using Ne.symm hx
          simp [List.contains_cons, this, hx]
      · rw [c]; simp [List.filter_cons, h1]
    · have hst : pollStep st i = { st with timerQ := st.timerQ.filter (· != i), procQ := st.procQ ++ [.release i] } := by
        simp only [pollStep, hact, h2]
      rw [hst]
      obtain ⟨a, b, c⟩ := ih { st with timerQ := st.timerQ.filter (· != i), procQ := st.procQ ++ [.release i] } ⟨hf.objs, hf.now, hf.duration, hf.style, hf.dec, hf.disp, hf.outs⟩
      refine ⟨a, ?_, ?_⟩
      · rw [b]; simp only [List.filter_filter]; apply List.filter_congr; intro x _
        by_cases hx : x = i
        · subst hx; simp [h2]
        · have : (i == x) = false := by simpa using Ne.symm hx
          simp [List.contains_cons, this, hx]
      · rw [c]; simp [List.filter_cons, h2]

theorem pollTimers_spec (s : St) :
    PollFrame s (pollTimers s) ∧
    (pollTimers s).timerQ = s.timerQ.filter (fun x => pollAct s x == 0) ∧
    (pollTimers s).procQ = s.procQ ++ (s.timerQ.filter (fun i => pollAct s i == 2)).map Job.release := by
  obtain ⟨a, b, c⟩ := foldl_pollStep s s.timerQ s ⟨rfl, rfl, rfl, rfl, rfl, rfl, rfl⟩
  rw [pollTimers_eq]
  refine ⟨a, ?_, c⟩
  rw [b]; apply List.filter_congr; intro x hx
  cases h : pollAct s x == 0 <;> simp_all


/-! ### the primitives of `frame` as equations -/

theorem startTimer_eq (s : St) (i : Nat) (o : Obj) (h : s.objs[i]? = some o) :
    startTimer s i 0 = { s with objs := s.objs.set i { o with start := some s.now, padded := true, proc := 0 },
                                timerQ := if s.timerQ.contains i then s.timerQ else s.timerQ ++ [i] } := by
  simp only [startTimer, getObj, h, setObj]
  by_cases hc : s.timerQ.contains i = true
  · simp only [hc, if_true]
  · simp only [hc, if_false]; rfl

theorem stopTimer_eq (s : St) (i : Nat) (o : Obj) (h : s.objs[i]? = some o) :
    stopTimer s i = if o.start.isSome then { s with objs := s.objs.set i { o with start := none }, procQ := s.procQ ++ [.release i] } else s := by
  simp only [stopTimer, getObj, h, setObj]

theorem set_get {a : List Obj} {i : Nat} {o : Obj} (h : a[i]? = some o) (o' : Obj) (j : Nat) :
    (a.set i o')[j]? = if i = j then some o' else a[j]? := by
  rw [List.getElem?_set]
  by_cases hij : i = j
  · subst hij
    have hlt : i < a.length := by
      rcases Nat.lt_or_ge i a.length with h' | h'
      · exact h'
      · rw [List.getElem?_eq_none h'] at h; cases h
    simp [hlt]
  · simp [hij]

theorem get_lt {a : List Obj} {i : Nat} {o : Obj} (h : a[i]? = some o) : i < a.length := by
  rcases Nat.lt_or_ge i a.length with h' | h'
  · exact h'
  · rw [List.getElem?_eq_none h'] at h; cases h


/-! ### the decoder's answer to a full frame -/

def stopped (rel : List Nat) (i : Nat) (o : Obj) : Obj := if i ∈ rel then { o with start := none } else o

structure DecRes (s : St) (k : Nat) (s1 : St) (c : Nat) (rel : List Nat) : Prop where
  now : s1.now = s.now
  duration : s1.duration = s.duration
  style : s1.style = s.style
  outs : s1.outs = s.outs
  disp : s1.dispLast = s.dispLast
  timerQ : s1.timerQ = s.timerQ
  procQ : s1.procQ = s.procQ ++ rel.map Job.release
  dec : s1.decLast = some c
  old : ∀ i o, s.objs[i]? = some o → s1.objs[i]? = some (stopped rel i o)
  cases : (s.decLast = some c ∧ s1.objs.length = s.objs.length ∧ rel = [] ∧ ∃ oc, s.objs[c]? = some oc ∧ oc.key = k) ∨
          (c = s.objs.length ∧ s1.objs.length = s.objs.length + 1 ∧
            (∃ oc, s1.objs[c]? = some oc ∧ oc.key = k ∧ oc.start = some s.now ∧ oc.padded = false ∧ oc.user = false ∧ oc.bound = false) ∧
            (rel = [] ∨ ∃ d od, rel = [d] ∧ s.decLast = some d ∧ s.objs[d]? = some od ∧ od.key ≠ k))
  repl : ∀ d od, s.decLast = some d → s.objs[d]? = some od → c = s.objs.length →
           od.key ≠ k ∧ (rel = [d] ∨ (rel = [] ∧ od.start = none))

theorem newObj_res (s : St) (k t : Nat) :
    (newObj s k t).2 = s.objs.length ∧ (newObj s k t).1 = { s with objs := s.objs ++ [{ key := k, toggle := t, start := some s.now }], decLast := some s.objs.length } :=
  ⟨rfl, rfl⟩

theorem decFull_res (s : St) (k t : Nat) (hst : s.style = .sameObject) :
    ∃ rel, DecRes s k (decFull s k t).1 (decFull s k t).2 rel := by
  have fresh : (∀ d od, s.decLast = some d → s.objs[d]? = some od → od.key ≠ k ∧ od.start = none) →
      DecRes s k (newObj s k t).1 (newObj s k t).2 [] := by
    intro hrepl
    refine ⟨rfl, rfl, rfl, rfl, rfl, rfl, by simp [newObj], rfl, ?_, Or.inr ⟨rfl, by simp [newObj], ?_, Or.inl rfl⟩,
      fun d od h1 h2 _ => ⟨(hrepl d od h1 h2).1, Or.inr ⟨rfl, (hrepl d od h1 h2).2⟩⟩⟩
    · intro i o h
      have := get_lt h
      simp [newObj, stopped, List.getElem?_append_left this, h]
    · exact ⟨{ key := k, toggle := t, start := some s.now }, by simp [newObj], rfl, rfl, rfl, rfl, rfl⟩
  unfold decFull
  cases hd : s.decLast with
  | none => exact ⟨[], fresh (by intro d od h; rw [hd] at h; cases h)⟩
  | some d =>
    simp only [getObj]
    cases hod : s.objs[d]? with
    | none => exact ⟨[], fresh (by intro d' od' h h'; rw [hd] at h; injection h with h; subst h; rw [hod] at h'; cases h')⟩
    | some od =>
      simp only [hst, beq_self_eq_true, Bool.true_or, Bool.and_true]
      by_cases hk : od.key = k
      · have : (od.key == k) = true := by simpa using hk
        simp only [this, if_true]
        refine ⟨[], rfl, rfl, rfl, rfl, rfl, rfl, by simp, hd, ?_, Or.inl ⟨hd, rfl, rfl, od, hod, hk⟩, ?_⟩
        · intro i o h; simp [stopped, h]
        · intro d' od' h h' e; rw [hd] at h; injection h with h; subst h; have := get_lt hod; omega
      · have : (od.key == k) = false := by simpa using hk
        simp only [this, Bool.false_eq_true, if_false]
        rw [stopTimer_eq s d od hod]
        have hdl := get_lt hod
        by_cases hs : od.start.isSome = true
        · simp only [hs, if_true]
          refine ⟨[d], rfl, rfl, rfl, rfl, rfl, rfl, by simp [newObj], by simp [newObj], ?_, Or.inr ⟨by simp [newObj], by simp [newObj], ?_, Or.inr ⟨d, od, rfl, hd, hod, hk⟩⟩, ?_⟩
          · intro i o h
            have hi := get_lt h
            simp only [newObj]
            rw [List.getElem?_append_left (by simpa using hi), set_get hod]
            by_cases e : d = i
            · subst e; rw [hod] at h; injection h with h; subst h; simp [stopped]
            · have : i ≠ d := Ne.symm e
              simp [e, stopped, h, this]
          · exact ⟨{ key := k, toggle := t, start := some s.now }, by simp [newObj], rfl, rfl, rfl, rfl, rfl⟩
          · intro d' od' h h' _
            rw [hd] at h; injection h with h; subst h; rw [hod] at h'; injection h' with h'; subst h'
            exact ⟨hk, Or.inl rfl⟩
        · simp only [hs, Bool.false_eq_true, if_false]
          refine ⟨[], fresh ?_⟩
          intro d' od' h h'
          rw [hd] at h; injection h with h; subst h; rw [hod] at h'; injection h' with h'; subst h'
          refine ⟨hk, ?_⟩
          cases hst' : od.start with
          | none => rfl
          | some v => rw [hst'] at hs; simp at hs


def KeyAgree (s : St) : Prop :=
  ∀ d l od ol, s.decLast = some d → s.dispLast = some l → s.objs[d]? = some od → s.objs[l]? = some ol → od.key = ol.key

/-- what a frame event leaves behind before the process worker runs: `cur` is the delivered (held) object, `rel` the
    stopped one, if any -/
structure Facts (s f : St) (cur : Nat) (rel : List Nat) : Prop where
  now : f.now = s.now
  duration : f.duration = s.duration
  style : f.style = s.style
  outs : f.outs = s.outs
  procQ : f.procQ = s.procQ ++ rel.map Job.release ++ [Job.decoded cur]
  timerQ : f.timerQ = if s.timerQ.contains cur then s.timerQ else s.timerQ ++ [cur]
  disp : f.dispLast = some cur
  curObj : ∃ oc, f.objs[cur]? = some oc ∧ oc.start = some s.now ∧ oc.padded = true ∧ oc.proc = 0 ∧ oc.bound = true ∧ oc.user = true
  reach : cur = s.objs.length ∨ s.decLast = some cur ∨ s.dispLast = some cur
  dec : f.decLast = s.decLast ∨ (f.decLast = some s.objs.length ∧ f.objs.length = s.objs.length + 1)
  len : s.objs.length ≤ f.objs.length ∧ f.objs.length ≤ s.objs.length + 1
  relc : rel = [] ∨ ∃ l, rel = [l] ∧ s.decLast = some l ∧ l ≠ cur ∧ l < s.objs.length
  old : ∀ i o, s.objs[i]? = some o → i ≠ cur → ∃ o', f.objs[i]? = some o' ∧ o'.key = o.key ∧ o'.user = o.user ∧
          o'.padded = o.padded ∧ o'.proc = o.proc ∧ o'.start = (stopped rel i o).start
  oldcur : ∀ o oc, s.objs[cur]? = some o → f.objs[cur]? = some oc → oc.key = o.key
  newo : ∀ o', f.objs[s.objs.length]? = some o' → s.objs.length ≠ cur → o'.user = false
  ka : KeyAgree f
  dd : f.decLast = some cur
  sw : ∀ x ox, s.dispLast = some x → x ≠ cur → s.objs[x]? = some ox → x ∈ rel ∨ ox.start = none
  relkey : ∀ l ol oc, l ∈ rel → f.objs[l]? = some ol → f.objs[cur]? = some oc → ol.key ≠ oc.key

/-- the hypotheses on the state before the event -/
structure Pre (s : St) : Prop where
  db : DispBound s
  du : ∀ x ox, s.dispLast = some x → s.objs[x]? = some ox → ox.user = true
  ka : KeyAgree s
  st : s.style = .sameObject
  bd : ∀ d, s.decLast = some d → d < s.objs.length
  dd : ∀ x, s.dispLast = some x → s.decLast = some x

def restart (s : St) (x : Nat) : St := { (startTimer s x 0) with procQ := (startTimer s x 0).procQ ++ [.decoded x] }

theorem restart_facts (s : St) (hp : Pre s) (x : Nat) (ox : Obj) (hx : s.dispLast = some x)
    (hox : s.objs[x]? = some ox) : Facts s (restart s x) x [] := by
  unfold restart
  rw [startTimer_eq s x ox hox]
  obtain ⟨ob, hob, hbound⟩ := hp.db x hx
  rw [hox] at hob; injection hob with hob; subst hob
  have hxl := get_lt hox
  refine { now := rfl, duration := rfl, style := rfl, outs := rfl, procQ := by simp, timerQ := rfl, disp := hx,
           curObj := ⟨{ ox with start := some s.now, padded := true, proc := 0 }, by simp [set_get hox], rfl, rfl, rfl, hbound, hp.du x ox hx hox⟩,
           reach := Or.inr (Or.inr hx), dec := Or.inl rfl, len := by simp, relc := Or.inl rfl,
           old := ?_, oldcur := ?_, newo := ?_, ka := ?_, dd := hp.dd x hx,
           sw := (by intro x' ox' h hne; rw [hx] at h; injection h with h; exact absurd h.symm hne),
           relkey := (by intro l ol oc h; cases h) }
  · intro i o hi hne
    refine ⟨o, ?_, rfl, rfl, rfl, rfl, by simp [stopped]⟩
    simp only [set_get hox, Ne.symm hne, if_false]; exact hi
  · intro o oc ho hoc
    rw [hox] at ho; injection ho with ho; subst ho
    simp only [set_get hox, if_true] at hoc; injection hoc with hoc; subst hoc; rfl
  · intro o' ho' _
    simp only [List.length_set] at ho'
    rw [set_get hox] at ho'
    have : x ≠ s.objs.length := Nat.ne_of_lt hxl
    simp [this] at ho'
  · intro d l od ol hd hl hod hol
    simp only at hd hl hod hol
    rw [set_get hox] at hod hol
    have key : ∀ j oj, (if x = j then some { ox with start := some s.now, padded := true, proc := 0 } else s.objs[j]?) = some oj →
        ∃ oj', s.objs[j]? = some oj' ∧ oj'.key = oj.key := by
      intro j oj h
      by_cases e : x = j
      · subst e; simp at h; subst h; exact ⟨ox, hox, rfl⟩
      · simp [e] at h; exact ⟨oj, h, rfl⟩
    obtain ⟨od', hod', e1⟩ := key d od hod
    obtain ⟨ol', hol', e2⟩ := key l ol hol
    rw [← e1, ← e2]; exact hp.ka d l od' ol' hd hl hod' hol'


def armedObj (now : Int) (o : Obj) : Obj := { o with bound := true, user := true, start := some now, padded := true, proc := 0 }

def armed (s1 : St) (cur : Nat) (oc1 : Obj) : St :=
  { s1 with objs := s1.objs.set cur (armedObj s1.now oc1), dispLast := some cur,
            timerQ := if s1.timerQ.contains cur then s1.timerQ else s1.timerQ ++ [cur],
            procQ := s1.procQ ++ [.decoded cur] }

theorem stopped_key (rel : List Nat) (i : Nat) (o : Obj) : (stopped rel i o).key = o.key := by
  unfold stopped; split <;> rfl

theorem facts_armed (s s1 : St) (k c cur : Nat) (rel : List Nat) (oc1 : Obj) (hp : Pre s) (hd : DecRes s k s1 c rel)
    (hoc : s1.objs[cur]? = some oc1)
    (hcur : cur = c ∨ (s.dispLast = some cur ∧ cur ∉ rel ∧ oc1.key = k)) :
    Facts s (armed s1 cur oc1) cur rel := by
  have hcl := get_lt hoc
  have hckey : ∃ oc, s1.objs[c]? = some oc ∧ oc.key = k := by
    rcases hd.cases with ⟨_, _, _, oc, h1, h2⟩ | ⟨_, _, ⟨oc, h1, h2, _⟩, _⟩
    · exact ⟨_, hd.old c oc h1, by rw [stopped_key]; exact h2⟩
    · exact ⟨oc, h1, h2⟩
  refine { now := hd.now, duration := hd.duration, style := hd.style, outs := hd.outs,
           procQ := by simp [armed, hd.procQ], timerQ := by simp [armed, hd.timerQ], disp := rfl,
           curObj := ⟨armedObj s1.now oc1, by simp [armed, set_get hoc], by simp [armedObj, hd.now], rfl, rfl, rfl, rfl⟩,
           reach := ?_, dec := ?_, len := ?_, relc := ?_, old := ?_, oldcur := ?_, newo := ?_, ka := ?_,
           dd := ?_, sw := ?_, relkey := ?_ }
  · rcases hcur with e | ⟨h, _⟩
    · subst e
      rcases hd.cases with ⟨h1, _⟩ | ⟨h1, _⟩
      · exact Or.inr (Or.inl h1)
      · exact Or.inl h1
    · exact Or.inr (Or.inr h)
  · rcases hd.cases with ⟨h1, _⟩ | ⟨h1, h2, _⟩
    · left; simp [armed, hd.dec, h1]
    · right; simp [armed, hd.dec, h1, h2]
  · rcases hd.cases with ⟨_, h2, _⟩ | ⟨_, h2, _⟩ <;> simp [armed, h2]
  · rcases hd.cases with ⟨_, _, h3, _⟩ | ⟨h1, h2, _, h4⟩
    · exact Or.inl h3
    · rcases h4 with h4 | ⟨d, od, h5, h6, h7, _⟩
      · exact Or.inl h4
      · refine Or.inr ⟨d, h5, h6, ?_, get_lt h7⟩
        have hdl := get_lt h7
        rcases hcur with e | ⟨_, hn, _⟩
        · omega
        · intro e; subst e; exact hn (by simp [h5])
  · intro i o hi hne
    refine ⟨stopped rel i o, ?_, stopped_key _ _ _, ?_, ?_, ?_, rfl⟩
    · simp only [armed, set_get hoc, Ne.symm hne, if_false]; exact hd.old i o hi
    all_goals (unfold stopped; split <;> rfl)
  · intro o oc ho hoc'
    have := hd.old cur o ho
    rw [hoc] at this; injection this with this
    simp only [armed, set_get hoc, if_true] at hoc'; injection hoc' with hoc'
    rw [← hoc', this]; simp [armedObj, stopped_key]
  · intro o' ho' hne
    simp only [armed, set_get hoc, Ne.symm hne, if_false] at ho'
    rcases hd.cases with ⟨_, h2, _⟩ | ⟨h1, _, ⟨oc, h3, _, _, _, h4, _⟩, _⟩
    · have := get_lt ho'; omega
    · rw [← h1, h3] at ho'; injection ho' with ho'; rw [← ho']; exact h4
  · intro d l od ol hdd hl hod hol
    simp only [armed] at hdd hl hod hol
    rw [hd.dec] at hdd; injection hdd with hdd; injection hl with hl; subst hdd; subst hl
    rw [set_get hoc] at hod hol
    simp only [if_true] at hol; injection hol with hol
    obtain ⟨oc, hc1, hc2⟩ := hckey
    by_cases e : cur = c
    · subst e; simp only [if_true] at hod; injection hod with hod; rw [← hod, ← hol]
    · simp only [e, if_false] at hod
      rw [hc1] at hod; injection hod with hod
      rcases hcur with e' | ⟨_, _, h3⟩
      · exact absurd e' e
      · rw [← hod, ← hol, hc2]; simp [armedObj, h3]
  · -- the decoder's held code is the delivered one
    show s1.decLast = some cur
    rw [hd.dec]
    rcases hcur with e | ⟨h1, _, h3⟩
    · rw [e]
    · have hdc := hp.dd cur h1
      rcases hd.cases with ⟨h4, _⟩ | ⟨h4, _⟩
      · rw [hdc] at h4; injection h4 with h4; rw [h4]
      · exfalso
        obtain ⟨ob, hob, _⟩ := hp.db cur h1
        have := (hd.repl cur ob hdc hob h4).1
        have h5 := hd.old cur ob hob
        rw [hoc] at h5; injection h5 with h5
        rw [h5, stopped_key] at h3; exact this h3
  · intro x ox hx hne hox
    rcases hcur with e | ⟨h1, _⟩
    · have hdc := hp.dd x hx
      rcases hd.cases with ⟨h4, _⟩ | ⟨h4, _⟩
      · rw [hdc] at h4; injection h4 with h4; exact absurd (h4.trans e.symm) hne
      · rcases (hd.repl x ox hdc hox h4).2 with h5 | ⟨_, h5⟩
        · left; rw [h5]; simp
        · right; exact h5
    · rw [hx] at h1; injection h1 with h1; exact absurd h1 hne
  · intro l ol oc' hl hol hoc'
    have hck : oc'.key = k := by
      simp only [armed, set_get hoc, if_true] at hoc'; injection hoc' with hoc'
      rw [← hoc']
      rcases hcur with e | ⟨_, _, h3⟩
      · obtain ⟨oc, hc1, hc2⟩ := hckey
        rw [e, hc1] at hoc; injection hoc with hoc; rw [← hoc]; exact hc2
      · exact h3
    rcases hd.cases with ⟨_, _, h3, _⟩ | ⟨_, _, _, h4⟩
    · rw [h3] at hl; cases hl
    · rcases h4 with h4 | ⟨d, od, h5, h6, h7, h8⟩
      · rw [h4] at hl; cases hl
      · rw [h5] at hl; simp only [List.mem_singleton] at hl; subst hl
        have hlc : l ≠ cur := by
          rcases hcur with e | ⟨_, hn, _⟩
          · have := get_lt h7; rcases hd.cases with ⟨a1, a2, a3, _⟩ | ⟨a1, _⟩
            · rw [a3] at h5; cases h5
            · omega
          · intro e; subst e; exact hn (by rw [h5]; simp)
        simp only [armed, set_get hoc, Ne.symm hlc, if_false] at hol
        have := hd.old l od h7
        rw [hol] at this; injection this with this
        rw [this, stopped_key, hck]; exact h8


theorem St.ext' {a b : St} (h1 : a.now = b.now) (h2 : a.duration = b.duration) (h3 : a.style = b.style)
    (h4 : a.objs = b.objs) (h5 : a.decLast = b.decLast) (h6 : a.dispLast = b.dispLast) (h7 : a.timerQ = b.timerQ)
    (h8 : a.procQ = b.procQ) (h9 : a.outs = b.outs) : a = b := by
  cases a; cases b; simp_all

theorem frame_none_eq (s : St) (k t : Nat) (hx : s.dispLast = none) (oc : Obj)
    (hoc : (decFull s k t).1.objs[(decFull s k t).2]? = some oc) :
    frame s k t 0 = armed (decFull s k t).1 (decFull s k t).2 oc := by
  have hb : s.dispLast.bind (getObj s) = none := by simp [hx]
  unfold frame; rw [hb]
  cases hdf : decFull s k t with
  | mk s1 c =>
    rw [hdf] at hoc
    simp only [getObj] at hoc ⊢
    simp only [hoc, setObj]
    rw [startTimer_eq _ c { oc with bound := true, user := true } (by simp [set_get hoc])]
    apply St.ext' <;> simp [armed, armedObj]

theorem frame_some_eq (s : St) (k t : Nat) (hp : Pre s) (x : Nat) (ox : Obj) (hx : s.dispLast = some x)
    (hox : s.objs[x]? = some ox) (hne : (ox.key == k && ox.toggle == t) = false)
    (rel : List Nat) (hd : DecRes s k (decFull s k t).1 (decFull s k t).2 rel) :
    ∃ cur oc1, (decFull s k t).1.objs[cur]? = some oc1 ∧
      (cur = (decFull s k t).2 ∨ (s.dispLast = some cur ∧ cur ∉ rel ∧ oc1.key = k)) ∧
      (ox.key = k → cur = x) ∧
      frame s k t 0 = armed (decFull s k t).1 cur oc1 := by
  have hb : s.dispLast.bind (getObj s) = some ox := by simp [hx, getObj, hox]
  unfold frame; rw [hb]; simp only [hne, Bool.false_eq_true, if_false]
  cases hdf : decFull s k t with
  | mk s1 c =>
    rw [hdf] at hd
    simp only at hd ⊢
    have hckey : ∃ oc, s1.objs[c]? = some oc ∧ oc.key = k := by
      rcases hd.cases with ⟨_, _, _, oc, h1, h2⟩ | ⟨_, _, ⟨oc, h1, h2, _⟩, _⟩
      · exact ⟨_, hd.old c oc h1, by rw [stopped_key]; exact h2⟩
      · exact ⟨oc, h1, h2⟩
    obtain ⟨oc, hc1, hc2⟩ := hckey
    obtain ⟨ob, hob, hbound⟩ := hp.db x hx
    rw [hox] at hob; injection hob with hob; subst hob
    by_cases hk : k = ox.key
    · -- the decoder's answer equals the held code: the dispatcher keeps its own object
      have hxr : x ∉ rel := by
        rcases hd.cases with ⟨_, _, h3, _⟩ | ⟨_, _, _, h4⟩
        · rw [h3]; simp
        · rcases h4 with h4 | ⟨d, od, h5, _, h7, h8⟩
          · rw [h4]; simp
          · rw [h5]; simp only [List.mem_singleton]; intro e; subst e
            rw [hox] at h7; injection h7 with h7; subst h7; exact h8 hk.symm
      have hx1 : s1.objs[x]? = some ox := by
        have := hd.old x ox hox; simpa [stopped, hxr] using this
      refine ⟨x, ox, hx1, Or.inr ⟨hx, hxr, hk.symm⟩, fun _ => rfl, ?_⟩
      have had : adopt s1 c ox.key = s1 := by simp [adopt, getObj, hc1, hc2, hk]
      rw [had, hd.disp, hx]
      simp only [Option.getD_some]
      rw [startTimer_eq s1 x ox hx1]
      simp only [markUser, getObj, set_get hx1, if_true, setObj]
      apply St.ext' <;> simp [armed, armedObj, hd.disp, hx, hbound]
    · have hk' : (oc.key == ox.key) = false := by rw [hc2]; simpa using hk
      refine ⟨c, oc, hc1, Or.inl rfl, fun e => absurd e.symm hk, ?_⟩
      have had : adopt s1 c ox.key = { s1 with objs := s1.objs.set c { oc with bound := true }, dispLast := some c } := by
        simp [adopt, getObj, hc1, hk', setObj]
      rw [had]
      simp only [Option.getD_some]
      rw [startTimer_eq _ c { oc with bound := true } (by simp [set_get hc1])]
      simp only [markUser, getObj, setObj]
      have : ((s1.objs.set c { oc with bound := true }).set c
          { key := oc.key, toggle := oc.toggle, start := some s1.now, padded := true, proc := 0, bound := true, user := oc.user })[c]? =
          some { key := oc.key, toggle := oc.toggle, start := some s1.now, padded := true, proc := 0, bound := true, user := oc.user } := by
        simp [get_lt hc1]
      simp only [this]
      apply St.ext' <;> simp [armed, armedObj]


theorem frame_timingEq (s : St) (k t : Nat) (x : Nat) (ox : Obj) (hx : s.dispLast = some x)
    (hox : s.objs[x]? = some ox) (heq : (ox.key == k && ox.toggle == t) = true) :
    frame s k t 0 = restart s x := by
  have hb : s.dispLast.bind (getObj s) = some ox := by simp [hx, getObj, hox]
  unfold frame restart; rw [hb]; simp only [heq, if_true, hx, Option.getD_some]

theorem armed_curkey (s1 : St) (cur : Nat) (oc1 : Obj) (hoc : s1.objs[cur]? = some oc1) (oc : Obj)
    (h : (armed s1 cur oc1).objs[cur]? = some oc) : oc.key = oc1.key := by
  simp only [armed, set_get hoc, if_true] at h; injection h with h; rw [← h]; rfl

/-- a full frame of key `k`, before the process worker runs -/
theorem frame_facts (s : St) (k t : Nat) (hp : Pre s) :
    ∃ cur rel, Facts s (frame s k t 0) cur rel ∧
      (∀ x ox, s.dispLast = some x → s.objs[x]? = some ox → ox.key = k → cur = x ∧ rel = []) ∧
      (∀ oc, (frame s k t 0).objs[cur]? = some oc → oc.key = k) := by
  obtain ⟨rel, hd⟩ := decFull_res s k t hp.st
  have hckey : ∃ oc, (decFull s k t).1.objs[(decFull s k t).2]? = some oc ∧ oc.key = k := by
    rcases hd.cases with ⟨_, _, _, oc, h1, h2⟩ | ⟨_, _, ⟨oc, h1, h2, _⟩, _⟩
    · exact ⟨_, hd.old _ oc h1, by rw [stopped_key]; exact h2⟩
    · exact ⟨oc, h1, h2⟩
  cases hx : s.dispLast with
  | none =>
    obtain ⟨oc, hc1, hc2⟩ := hckey
    rw [frame_none_eq s k t hx oc hc1]
    refine ⟨_, rel, facts_armed s _ k _ _ rel oc hp hd hc1 (Or.inl rfl), ?_, ?_⟩
    · intro x ox h; cases h
    · intro oc' h; rw [armed_curkey _ _ _ hc1 _ h]; exact hc2
  | some x =>
    obtain ⟨ox, hox, hbound⟩ := hp.db x hx
    by_cases heq : (ox.key == k && ox.toggle == t) = true
    · rw [frame_timingEq s k t x ox hx hox heq]
      refine ⟨x, [], restart_facts s hp x ox hx hox, ?_, ?_⟩
      · intro x' ox' h _ _; injection h with h; exact ⟨h, rfl⟩
      · intro oc h
        have := (restart_facts s hp x ox hx hox).oldcur ox oc hox h
        rw [this]; simp only [Bool.and_eq_true, beq_iff_eq] at heq; exact heq.1
    · have heq' : (ox.key == k && ox.toggle == t) = false := by simpa using heq
      obtain ⟨cur, oc1, h1, h2, h3, h4⟩ := frame_some_eq s k t hp x ox hx hox heq' rel hd
      rw [h4]
      refine ⟨cur, rel, facts_armed s _ k _ cur rel oc1 hp hd h1 h2, ?_, ?_⟩
      · intro x' ox' h hox' hk
        injection h with h; subst h
        rw [hox] at hox'; injection hox' with hox'; subst hox'
        refine ⟨h3 hk, ?_⟩
        rcases hd.cases with ⟨_, _, r, _⟩ | ⟨_, _, _, r⟩
        · exact r
        · rcases r with r | ⟨d, od, _, r2, r3, r4⟩
          · exact r
          · exact absurd ((hp.ka d x od ox r2 hx r3 hox).trans hk) r4
      · intro oc' h
        rw [armed_curkey _ _ _ h1 _ h]
        rcases h2 with e | ⟨_, _, c⟩
        · obtain ⟨oc, hc1, hc2⟩ := hckey
          rw [e, hc1] at h1; injection h1 with h1; rw [← h1]; exact hc2
        · exact c


theorem rep_eq (s : St) (hp : Pre s) :
    repeatFrame s 0 = s ∨ ∃ x ox, s.dispLast = some x ∧ s.objs[x]? = some ox ∧ repeatFrame s 0 = restart s x := by
  unfold repeatFrame
  cases hx : s.dispLast with
  | none => left; simp
  | some x =>
    obtain ⟨ox, hox, _⟩ := hp.db x hx
    cases hd : s.decLast with
    | none => left; simp [getObj, hox]
    | some d =>
      right
      have hdl := hp.bd d hd
      have hod : s.objs[d]? = some s.objs[d] := List.getElem?_eq_getElem hdl
      have hk := hp.ka d x _ ox hd hx hod hox
      refine ⟨x, ox, rfl, hox, ?_⟩
      have had : adopt s d ox.key = s := by simp [adopt, getObj, hod, hk]
      simp only [Option.bind_some, getObj, hox, had, hx, Option.getD_some, restart]


theorem drain_dec_keep (s : St) (d : Nat) (h : s.decLast = some d) (hn : Job.release d ∉ s.procQ) :
    (drain s).decLast = some d :=
  foldl_dec_keep s.procQ { s with procQ := [] } d h hn

theorem drain_disp_keep (s : St) (x : Nat) (ox : Obj) (hx : s.dispLast = some x) (hox : s.objs[x]? = some ox)
    (hk : ∀ i oi, Job.release i ∈ s.procQ → s.objs[i]? = some oi → oi.key ≠ ox.key) : (drain s).dispLast = some x :=
  foldl_disp_keep s.procQ { s with procQ := [] } x ox hx hox hk

/-! ### the invariant between events -/

def Dead (s : St) (i : Nat) (o : Obj) : Prop :=
  s.decLast ≠ some i ∧ s.dispLast ≠ some i ∧ (o.start = none ∨ i ∉ s.timerQ)

structure Inv (s : St) : Prop where
  pq : s.procQ = []
  pre : Pre s
  tq : ∀ i ∈ s.timerQ, i < s.objs.length
  nd : s.timerQ.Nodup
  once : ∀ i o, s.objs[i]? = some o → relCount s.outs i ≤ 1 ∧ (relCount s.outs i = 1 → Dead s i o)
  beyond : ∀ i, s.objs.length ≤ i → relCount s.outs i = 0
  live : ∀ i o, s.objs[i]? = some o → o.user = true → relCount s.outs i = 0 →
           i ∈ s.timerQ ∧ ∃ t, o.start = some t ∧ t ≤ s.now ∧ o.padded = true ∧ o.proc = 0
  deliv : ∀ i o, s.objs[i]? = some o → o.user = true → Out.decoded i o.key ∈ s.outs
  relafter : ∀ i k, Out.released i k ∈ s.outs → Out.decoded i k ∈ s.outs
  delivu : ∀ i k, Out.decoded i k ∈ s.outs → ∃ o, s.objs[i]? = some o ∧ o.user = true ∧ o.key = k
  armedq : ∀ i ∈ s.timerQ, ∀ o, s.objs[i]? = some o → o.start ≠ none → s.dispLast = some i

theorem relCount_append (a b : List Out) (i : Nat) : relCount (a ++ b) i = relCount a i + relCount b i := by
  simp [relCount, List.countP_append]

theorem relCount_release (objs : List Obj) (l i : Nat) :
    relCount (jobOut objs (.release l)) i = if l = i ∧ (∃ o, objs[l]? = some o ∧ o.user = true) then 1 else 0 := by
  simp only [jobOut]
  cases h : objs[l]? with
  | none => simp [relCount]
  | some o =>
    by_cases hu : o.user = true
    · by_cases e : l = i
      · simp [relCount, isRel, hu, e]
      · simp [relCount, isRel, hu, e]
    · simp [relCount, hu]

theorem relCount_decoded (objs : List Obj) (c i : Nat) : relCount (jobOut objs (.decoded c)) i = 0 := by
  simp only [jobOut]
  cases objs[c]? <;> simp [relCount, isRel]



theorem facts_drain (s f : St) (cur : Nat) (rel : List Nat) (hi : Inv s) (hf : Facts s f cur rel) :
    DispBound f ∧ (∀ i, Job.release i ∈ f.procQ → NotRunning f i) ∧
    f.procQ = rel.map Job.release ++ [Job.decoded cur] := by
  have hq : f.procQ = rel.map Job.release ++ [Job.decoded cur] := by rw [hf.procQ, hi.pq]; simp
  refine ⟨?_, ?_, hq⟩
  · intro j hj
    rw [hf.disp] at hj; injection hj with hj; subst hj
    obtain ⟨oc, h1, _, _, _, h2, _⟩ := hf.curObj
    exact ⟨oc, h1, h2⟩
  · intro i hmem o ho
    rw [hq] at hmem
    have hir : i ∈ rel := by
      simp only [List.mem_append, List.mem_map, List.mem_singleton] at hmem
      rcases hmem with ⟨a, ha, e⟩ | e
      · injection e with e; subst e; exact ha
      · cases e
    rcases hf.relc with h | ⟨l, h1, h2, h3, h4⟩
    · rw [h] at hir; cases hir
    · rw [h1] at hir; simp only [List.mem_singleton] at hir; subst hir
      obtain ⟨o', ho', _, _, _, _, hs⟩ := hf.old i s.objs[i] (List.getElem?_eq_getElem h4) h3
      rw [ho] at ho'; injection ho' with ho'; subst ho'
      simp only [isRunning, hs, stopped, h1, List.mem_singleton, if_true, Option.isSome_none, Bool.false_and]


theorem released_mem_flatMap (objs : List Obj) (q : List Job) (i k : Nat)
    (h : Out.released i k ∈ q.flatMap (jobOut objs)) :
    Job.release i ∈ q ∧ ∃ o, objs[i]? = some o ∧ o.user = true ∧ o.key = k := by
  obtain ⟨j, hj, hm⟩ := List.mem_flatMap.mp h
  cases j with
  | decoded c =>
    simp only [jobOut] at hm
    cases hc : objs[c]? <;> simp [hc] at hm
  | release l =>
    simp only [jobOut] at hm
    cases hl : objs[l]? with
    | none => simp [hl] at hm
    | some o =>
      simp only [hl] at hm
      by_cases hu : o.user = true
      · simp only [hu, if_true, List.mem_singleton] at hm
        injection hm with e1 e2
        subst e1; exact ⟨hj, o, hl, hu, e2.symm⟩
      · simp [hu] at hm

theorem decoded_mem_flatMap (objs : List Obj) (q : List Job) (i k : Nat)
    (h : Out.decoded i k ∈ q.flatMap (jobOut objs)) :
    Job.decoded i ∈ q ∧ ∃ o, objs[i]? = some o ∧ o.key = k := by
  obtain ⟨j, hj, hm⟩ := List.mem_flatMap.mp h
  cases j with
  | release l =>
    simp only [jobOut] at hm
    cases hl : objs[l]? with
    | none => simp [hl] at hm
    | some o => simp only [hl] at hm; split at hm <;> simp at hm
  | decoded c =>
    simp only [jobOut] at hm
    cases hc : objs[c]? with
    | none => simp [hc] at hm
    | some o =>
      simp only [hc, List.mem_singleton] at hm
      injection hm with e1 e2
      subst e1; exact ⟨hj, o, hc, e2.symm⟩

theorem relCount_queue (objs : List Obj) (cur : Nat) (rel : List Nat) (i : Nat)
    (hrel : rel = [] ∨ ∃ l, rel = [l]) :
    relCount ((rel.map Job.release ++ [Job.decoded cur]).flatMap (jobOut objs)) i =
      if i ∈ rel ∧ (∃ o, objs[i]? = some o ∧ o.user = true) then 1 else 0 := by
  rcases hrel with h | ⟨l, h⟩
  · subst h; simp [relCount_decoded]
  · subst h
    simp only [List.map_cons, List.map_nil, List.cons_append, List.nil_append, List.flatMap_cons, List.flatMap_nil,
      List.append_nil, relCount_append, relCount_decoded, relCount_release, Nat.add_zero, List.mem_singleton]
    by_cases e : l = i
    · subst e; simp
    · have : ¬ i = l := fun h => e h.symm
      simp [e, this]

theorem inv_after (s f : St) (cur : Nat) (rel : List Nat) (hi : Inv s) (hf : Facts s f cur rel) :
    Inv (drain f) := by
  obtain ⟨hdbf, hnrf, hq⟩ := facts_drain s f cur rel hi hf
  obtain ⟨hnow, hdur, hsty, htq, hpq, hcore, hdec, hdisp, houts, hdb, hclr⟩ := drain_spec f hdbf hnrf
  have hlen : (drain f).objs.length = f.objs.length := hcore.length
  obtain ⟨occ, hocc, hcs, hcp, hcpr, hcb, hcu⟩ := hf.curObj
  have hcurlt : cur < f.objs.length := get_lt hocc
  have hrel' : rel = [] ∨ ∃ l, rel = [l] := by
    rcases hf.relc with h | ⟨l, h, _⟩
    · exact Or.inl h
    · exact Or.inr ⟨l, h⟩
  have hcount : ∀ i, relCount (drain f).outs i = relCount s.outs i +
      (if i ∈ rel ∧ (∃ o, f.objs[i]? = some o ∧ o.user = true) then 1 else 0) := by
    intro i
    rw [houts, relCount_append, hf.outs, hq, relCount_queue f.objs cur rel i hrel']
  have hrelmem : ∀ i, i ∈ rel → s.decLast = some i ∧ i ≠ cur ∧ i < s.objs.length := by
    intro i hir
    rcases hf.relc with h | ⟨l, h1, h2, h3, h4⟩
    · rw [h] at hir; cases hir
    · rw [h1] at hir; simp only [List.mem_singleton] at hir; subst hir; exact ⟨h2, h3, h4⟩
  -- an object ofo the state after the drain, traced back
  have hback : ∀ (i : Nat) (og : Obj), (drain f).objs[i]? = some og → ∃ ofo : Obj, f.objs[i]? = some ofo ∧ ofo.core = og.core := by
    intro i og h
    obtain ⟨ofo, h1, h2⟩ := hcore.get_some h
    exact ⟨ofo, h1, h2⟩
  have hdecg : ∀ d, (drain f).decLast = some d → f.decLast = some d := by
    intro d h; rcases hdec with e | e
    · rw [← e]; exact h
    · rw [e] at h; cases h
  have hdispg : ∀ d, (drain f).dispLast = some d → d = cur := by
    intro d h; rcases hdisp with e | e
    · rw [e, hf.disp] at h; injection h with h; exact h.symm
    · rw [e] at h; cases h
  have hcur_notdead : ∀ i o, s.objs[i]? = some o → relCount s.outs i = 1 → i ≠ cur := by
    intro i o ho h1 e
    obtain ⟨hd1, hd2, _⟩ := (hi.once i o ho).2 h1
    rcases hf.reach with r | r | r
    · have := get_lt ho; omega
    · exact hd1 (e ▸ r)
    · exact hd2 (e ▸ r)
  have hcurrel : Job.release cur ∉ f.procQ := by
    rw [hq]; intro h
    simp only [List.mem_append, List.mem_map, List.mem_singleton] at h
    rcases h with ⟨a, ha, e⟩ | e
    · injection e with e; subst e; exact (hrelmem a ha).2.1 rfl
    · cases e
  have hdd : ∀ x, (drain f).dispLast = some x → (drain f).decLast = some x := by
    intro x hx
    have := hdispg x hx; subst this
    exact drain_dec_keep f x hf.dd hcurrel
  have harm : ∀ i ∈ (drain f).timerQ, ∀ o, (drain f).objs[i]? = some o → o.start ≠ none → (drain f).dispLast = some i := by
    intro i hmem og hog hst
    obtain ⟨ofo, hof, hcf⟩ := hback i og hog
    by_cases e : i = cur
    · subst e
      refine drain_disp_keep f i occ hf.disp hocc ?_
      intro l ol hl hol
      rw [hq] at hl
      have hlr : l ∈ rel := by
        simp only [List.mem_append, List.mem_map, List.mem_singleton] at hl
        rcases hl with ⟨a, ha, e⟩ | e
        · injection e with e; subst e; exact ha
        · cases e
      exact hf.relkey l ol occ hlr hol hocc
    · exfalso
      rw [htq, hf.timerQ] at hmem
      have hms : i ∈ s.timerQ := by
        split at hmem
        · exact hmem
        · simp only [List.mem_append, List.mem_singleton] at hmem
          rcases hmem with h | h
          · exact h
          · exact absurd h e
      have hlt := hi.tq i hms
      have hoi : s.objs[i]? = some s.objs[i] := List.getElem?_eq_getElem hlt
      obtain ⟨o', ho', _, _, _, _, hs⟩ := hf.old i _ hoi e
      rw [hof] at ho'; injection ho' with ho'; subst ho'
      have hst' : (stopped rel i s.objs[i]).start ≠ none := by rw [← hs, (core_fields hcf).2.1]; exact hst
      have hir : i ∉ rel := by intro h; simp [stopped, h] at hst'
      have hss : (s.objs[i]).start ≠ none := by simpa [stopped, hir] using hst'
      have hd := hi.armedq i hms _ hoi hss
      rcases hf.sw i _ hd e hoi with h | h
      · exact hir h
      · exact hss h
  refine { pq := hpq, pre := { db := hdb, du := ?_, ka := ?_, st := by rw [hsty, hf.style]; exact hi.pre.st, bd := ?_, dd := hdd },
           tq := ?_, nd := ?_, once := ?_, beyond := ?_, live := ?_, deliv := ?_, relafter := ?_, delivu := ?_, armedq := harm }
  · intro x ox hx hox
    have := hdispg x hx; subst this
    obtain ⟨ofo, h1, h2⟩ := hback _ ox hox
    rw [hocc] at h1; injection h1 with h1; subst h1
    rw [← (core_fields h2).2.2.2.2]; exact hcu
  · intro d l od ol h1 h2 h3 h4
    have hl := hdispg l h2; subst hl
    obtain ⟨od', h5, h6⟩ := hback _ od h3
    obtain ⟨ol', h7, h8⟩ := hback _ ol h4
    rw [← (core_fields h6).1, ← (core_fields h8).1]
    exact hf.ka d _ od' ol' (hdecg d h1) hf.disp h5 h7
  · intro d h
    have := hdecg d h
    rw [hlen]
    rcases hf.dec with e | ⟨e1, e2⟩
    · rw [e] at this; have := hi.pre.bd d this; have := hf.len.1; omega
    · rw [e1] at this; injection this with this; omega
  · intro i hmem
    rw [htq, hf.timerQ] at hmem
    rw [hlen]
    split at hmem
    · have := hi.tq i hmem; have := hf.len.1; omega
    · simp only [List.mem_append, List.mem_singleton] at hmem
      rcases hmem with h | h
      · have := hi.tq i h; have := hf.len.1; omega
      · rw [h]; exact hcurlt
  · rw [htq, hf.timerQ]
    split
    · exact hi.nd
    · rename_i hc
      have : cur ∉ s.timerQ := by simpa using hc
      exact List.nodup_append.mpr ⟨hi.nd, by simp, by intro a ha b hb; simp at hb; subst hb; intro e; subst e; exact this ha⟩
  · -- at most one release per object
    intro i og hog
    obtain ⟨ofo, hof, hcf⟩ := hback i og hog
    by_cases hir : i ∈ rel
    · obtain ⟨r1, r2, r3⟩ := hrelmem i hir
      have hoi : s.objs[i]? = some s.objs[i] := List.getElem?_eq_getElem r3
      have h0 : relCount s.outs i = 0 := by
        have h := hi.once i _ hoi
        rcases Nat.lt_or_ge (relCount s.outs i) 1 with h' | h'
        · omega
        · have : relCount s.outs i = 1 := by omega
          exact absurd r1 ((h.2 this).1)
      rw [hcount i, h0]
      constructor
      · split <;> omega
      · intro _
        obtain ⟨hc1, hc2⟩ := hclr i (by rw [hq]; simp [hir]) (by have := hf.len.1; omega)
        refine ⟨hc1, hc2, Or.inl ?_⟩
        obtain ⟨o', ho', _, _, _, _, hs⟩ := hf.old i _ hoi r2
        rw [hof] at ho'; injection ho' with ho'; subst ho'
        rw [← (core_fields hcf).2.1, hs]; simp [stopped, hir]
    · have hc : relCount (drain f).outs i = relCount s.outs i := by rw [hcount i]; simp [hir]
      rw [hc]
      by_cases hlt : i < s.objs.length
      · have hoi : s.objs[i]? = some s.objs[i] := List.getElem?_eq_getElem hlt
        refine ⟨(hi.once i _ hoi).1, ?_⟩
        intro h1
        obtain ⟨hd1, hd2, hd3⟩ := (hi.once i _ hoi).2 h1
        have hne := hcur_notdead i _ hoi h1
        refine ⟨?_, ?_, ?_⟩
        · intro e
          have := hdecg i e
          rcases hf.dec with e' | ⟨e1, _⟩
          · rw [e'] at this; exact hd1 this
          · rw [e1] at this; injection this with this; omega
        · intro e; exact hne (hdispg i e)
        · obtain ⟨o', ho', _, _, _, _, hs⟩ := hf.old i _ hoi hne
          rw [hof] at ho'; injection ho' with ho'; subst ho'
          rcases hd3 with h | h
          · left; rw [← (core_fields hcf).2.1, hs]; simp [stopped, hir, h]
          · right; rw [htq, hf.timerQ]; split
            · exact h
            · simp only [List.mem_append, List.mem_singleton, not_or]; exact ⟨h, hne⟩
      · have h0 := hi.beyond i (by omega)
        rw [h0]; exact ⟨by omega, by intro h; cases h⟩
  · intro i hge
    rw [hlen] at hge
    have hir : i ∉ rel := by intro h; have := (hrelmem i h).2.2; have := hf.len.1; omega
    rw [hcount i]; simp only [hir, false_and, if_false, Nat.add_zero]
    exact hi.beyond i (by have := hf.len.1; omega)
  · -- a delivered, unreleased object is armed
    intro i og hog hu h0
    obtain ⟨ofo, hof, hcf⟩ := hback i og hog
    obtain ⟨ck, cs, cp, cpr, cu⟩ := core_fields hcf
    rw [hnow, hf.now, htq]
    by_cases e : i = cur
    · subst e
      rw [hocc] at hof; injection hof with hof; subst hof
      refine ⟨?_, s.now, by rw [← cs, hcs], Int.le_refl _, by rw [← cp, hcp], by rw [← cpr, hcpr]⟩
      rw [hf.timerQ]; split
      · rename_i h; simpa using h
      · simp
    · by_cases hlt : i < s.objs.length
      · have hoi : s.objs[i]? = some s.objs[i] := List.getElem?_eq_getElem hlt
        obtain ⟨o', ho', _, hu', hp', hpr', hs⟩ := hf.old i _ hoi e
        rw [hof] at ho'; injection ho' with ho'; subst ho'
        have hus : (s.objs[i]).user = true := by rw [← hu', cu]; exact hu
        have hcnt := hcount i
        rw [h0] at hcnt
        have hs0 : relCount s.outs i = 0 := by omega
        have hir : i ∉ rel := by
          intro hir
          have : (if i ∈ rel ∧ (∃ o, f.objs[i]? = some o ∧ o.user = true) then 1 else 0) = 1 := by
            rw [if_pos ⟨hir, _, hof, by rw [cu]; exact hu⟩]
          omega
        obtain ⟨hm, t, ht, hle, hpd, hpr⟩ := hi.live i _ hoi hus hs0
        refine ⟨?_, t, ?_, hle, by rw [← cp, hp']; exact hpd, by rw [← cpr, hpr']; exact hpr⟩
        · rw [hf.timerQ]; split
          · exact hm
          · exact List.mem_append_left _ hm
        · rw [← cs, hs]; simp [stopped, hir, ht]
      · -- the object created by this frame, not delivered
        have hin : i = s.objs.length := by have := get_lt hof; have := hf.len.2; omega
        subst hin
        have := hf.newo _ hof e
        rw [← cu, this] at hu; cases hu
  · intro i og hog hu
    obtain ⟨ofo, hof, hcf⟩ := hback i og hog
    obtain ⟨ck, cs, cp, cpr, cu⟩ := core_fields hcf
    rw [houts, hf.outs, hq]
    by_cases e : i = cur
    · subst e
      apply List.mem_append_right
      simp only [List.flatMap_append, List.mem_append]
      right
      simp [jobOut, hof, ck]
    · by_cases hlt : i < s.objs.length
      · have hoi : s.objs[i]? = some s.objs[i] := List.getElem?_eq_getElem hlt
        obtain ⟨o', ho', hk', hu', _⟩ := hf.old i _ hoi e
        rw [hof] at ho'; injection ho' with ho'; subst ho'
        apply List.mem_append_left
        rw [← ck, hk']
        exact hi.deliv i _ hoi (by rw [← hu', cu]; exact hu)
      · have hin : i = s.objs.length := by have := get_lt hof; have := hf.len.2; omega
        subst hin
        have := hf.newo _ hof e
        rw [← cu, this] at hu; cases hu
  · intro i k h
    rw [houts, hf.outs] at h ⊢
    rcases List.mem_append.mp h with h | h
    · exact List.mem_append_left _ (hi.relafter i k h)
    · obtain ⟨hj, o, ho, hu, hk⟩ := released_mem_flatMap f.objs f.procQ i k h
      rw [hq] at hj
      have hir : i ∈ rel := by
        simp only [List.mem_append, List.mem_map, List.mem_singleton] at hj
        rcases hj with ⟨a, ha, e⟩ | e
        · injection e with e; subst e; exact ha
        · cases e
      obtain ⟨_, r2, r3⟩ := hrelmem i hir
      have hoi : s.objs[i]? = some s.objs[i] := List.getElem?_eq_getElem r3
      obtain ⟨o', ho', hk', hu', _⟩ := hf.old i _ hoi r2
      rw [ho] at ho'; injection ho' with ho'; subst ho'
      apply List.mem_append_left
      rw [← hk, hk']
      exact hi.deliv i _ hoi (by rw [← hu']; exact hu)
  · intro i k h
    have hcurg : ∃ og, (drain f).objs[cur]? = some og ∧ og.core = occ.core := by
      have h1 := hcore.get cur
      rw [hocc] at h1
      cases hg : (drain f).objs[cur]? with
      | none => rw [hg] at h1; simp at h1
      | some og => rw [hg] at h1; simp at h1; exact ⟨og, rfl, h1⟩
    have fromf : ∀ (ofo : Obj), f.objs[i]? = some ofo → ofo.user = true → ofo.key = k →
        ∃ o, (drain f).objs[i]? = some o ∧ o.user = true ∧ o.key = k := by
      intro ofo h1 h2 h3
      have hg := hcore.get i
      rw [h1] at hg
      cases hgi : (drain f).objs[i]? with
      | none => rw [hgi] at hg; simp at hg
      | some og =>
        rw [hgi] at hg; simp at hg
        obtain ⟨ck, _, _, _, cu⟩ := core_fields hg
        exact ⟨og, rfl, by rw [cu]; exact h2, by rw [ck]; exact h3⟩
    rw [houts, hf.outs] at h
    rcases List.mem_append.mp h with h | h
    · obtain ⟨o, ho, hu, hk⟩ := hi.delivu i k h
      by_cases e : i = cur
      · subst e
        exact fromf occ hocc hcu (by rw [hf.oldcur o occ ho hocc]; exact hk)
      · obtain ⟨o', ho', hk', hu', _⟩ := hf.old i o ho e
        exact fromf o' ho' (by rw [hu']; exact hu) (by rw [hk']; exact hk)
    · obtain ⟨hj, o, ho, hk⟩ := decoded_mem_flatMap f.objs f.procQ i k h
      rw [hq] at hj
      have e : i = cur := by
        simp only [List.mem_append, List.mem_map, List.mem_singleton] at hj
        rcases hj with ⟨a, _, e⟩ | e
        · cases e
        · injection e
      subst e
      rw [hocc] at ho; injection ho with ho; subst ho
      exact fromf occ hocc hcu hk

theorem relCount_fired (objs : List Obj) (i : Nat) : ∀ (fired : List Nat), fired.Nodup →
    relCount ((fired.map Job.release).flatMap (jobOut objs)) i =
      if i ∈ fired ∧ (∃ o, objs[i]? = some o ∧ o.user = true) then 1 else 0
  | [], _ => by simp [relCount]
  | l :: fired, hnd => by
    have hnd' := List.nodup_cons.mp hnd
    simp only [List.map_cons, List.flatMap_cons, relCount_append, relCount_release, relCount_fired objs i fired hnd'.2,
      List.mem_cons]
    by_cases e : l = i
    · subst e
      have : l ∉ fired := hnd'.1
      simp [this]
    · have : ¬ i = l := fun h => e h.symm
      simp [e, this]

theorem pollAct_two {s : St} {i : Nat} (h : pollAct s i = 2) :
    ∃ o, s.objs[i]? = some o ∧ o.start ≠ none ∧ expired s o = true := by
  unfold pollAct getObj at h
  cases ho : s.objs[i]? with
  | none => rw [ho] at h; simp at h
  | some o =>
    rw [ho] at h; simp only at h
    by_cases h1 : o.start.isNone = true
    · simp [h1] at h
    · by_cases h2 : expired s o = true
      · refine ⟨o, rfl, ?_, h2⟩
        intro e; rw [e] at h1; simp at h1
      · simp [h1, h2] at h

theorem pollAct_zero_of {s : St} {i : Nat} {o : Obj} (ho : s.objs[i]? = some o) (hs : o.start ≠ none)
    (h2 : pollAct s i ≠ 2) : pollAct s i = 0 := by
  unfold pollAct getObj at h2 ⊢
  rw [ho] at h2 ⊢
  simp only at h2 ⊢
  have h1 : ¬ o.start.isNone = true := by cases h : o.start <;> simp_all
  simp only [h1, if_false] at h2 ⊢
  by_cases h3 : expired s o = true
  · simp [h3] at h2
  · simp [h3]

theorem inv_poll (s : St) (hi : Inv s) : Inv (drain (pollTimers s)) := by
  obtain ⟨hpf, hptq, hppq⟩ := pollTimers_spec s
  rw [hi.pq, List.nil_append] at hppq
  have hdbp : DispBound (pollTimers s) := by
    intro j hj; rw [hpf.disp] at hj; rw [hpf.objs]; exact hi.pre.db j hj
  have hfired : ∀ i, Job.release i ∈ (pollTimers s).procQ → i ∈ s.timerQ ∧ pollAct s i = 2 := by
    intro i h
    rw [hppq] at h
    simp only [List.mem_map, List.mem_filter, beq_iff_eq] at h
    obtain ⟨a, ⟨h1, h2⟩, e⟩ := h
    injection e with e; subst e; exact ⟨h1, h2⟩
  have hnrp : ∀ i, Job.release i ∈ (pollTimers s).procQ → NotRunning (pollTimers s) i := by
    intro i h o ho
    obtain ⟨o', ho', _, hex⟩ := pollAct_two (hfired i h).2
    rw [hpf.objs, ho'] at ho; injection ho with ho; subst ho
    have : expired (pollTimers s) o' = expired s o' := by unfold expired; rw [hpf.now, hpf.duration]
    simp [isRunning, this, hex]
  obtain ⟨hnow, hdur, hsty, htq, hpq, hcore, hdec, hdisp, houts, hdb, hclr⟩ := drain_spec (pollTimers s) hdbp hnrp
  rw [hpf.objs] at hcore houts
  rw [hpf.outs, hppq] at houts
  rw [hpf.dec] at hdec
  rw [hpf.disp] at hdisp
  rw [hptq] at htq
  rw [hpf.now] at hnow
  have hlen : (drain (pollTimers s)).objs.length = s.objs.length := hcore.length
  have hnd2 : (s.timerQ.filter (fun i => pollAct s i == 2)).Nodup := hi.nd.filter _
  have hcount : ∀ i, relCount (drain (pollTimers s)).outs i = relCount s.outs i +
      (if i ∈ s.timerQ.filter (fun i => pollAct s i == 2) ∧ (∃ o, s.objs[i]? = some o ∧ o.user = true) then 1 else 0) := by
    intro i
    rw [houts, relCount_append, relCount_fired s.objs i _ hnd2]
  have hback : ∀ (i : Nat) (og : Obj), (drain (pollTimers s)).objs[i]? = some og →
      ∃ os : Obj, s.objs[i]? = some os ∧ os.core = og.core := by
    intro i og h
    obtain ⟨os, h1, h2⟩ := hcore.get_some h
    exact ⟨os, h1, h2⟩
  have hdecg : ∀ d, (drain (pollTimers s)).decLast = some d → s.decLast = some d := by
    intro d h; rcases hdec with e | e
    · rw [← e]; exact h
    · rw [e] at h; cases h
  have hdispg : ∀ d, (drain (pollTimers s)).dispLast = some d → s.dispLast = some d := by
    intro d h; rcases hdisp with e | e
    · rw [← e]; exact h
    · rw [e] at h; cases h
  have hfired2 : ∀ j, Job.release j ∈ (pollTimers s).procQ → s.dispLast = some j := by
    intro j hj
    obtain ⟨h1, h2⟩ := hfired j hj
    obtain ⟨oj, hoj, hstj, _⟩ := pollAct_two h2
    exact hi.armedq j h1 oj hoj hstj
  have hdd : ∀ x, (drain (pollTimers s)).dispLast = some x → (drain (pollTimers s)).decLast = some x := by
    intro x hx
    have hsx := hdispg x hx
    have hsd := hi.pre.dd x hsx
    refine drain_dec_keep (pollTimers s) x (by rw [hpf.dec]; exact hsd) ?_
    intro hrel
    have hlt : x < (pollTimers s).objs.length := by
      rw [hpf.objs]; obtain ⟨ox, hox, _⟩ := hi.pre.db x hsx; exact get_lt hox
    exact (hclr x hrel hlt).2 hx
  have harm : ∀ i ∈ (drain (pollTimers s)).timerQ, ∀ o, (drain (pollTimers s)).objs[i]? = some o → o.start ≠ none →
      (drain (pollTimers s)).dispLast = some i := by
    intro i hmem og hog hst
    obtain ⟨os, hos, hcs⟩ := hback i og hog
    rw [htq] at hmem
    obtain ⟨hms, hact⟩ := List.mem_filter.mp hmem
    have hsd := hi.armedq i hms os hos (by rw [(core_fields hcs).2.1]; exact hst)
    refine drain_disp_keep (pollTimers s) i os (by rw [hpf.disp]; exact hsd) (by rw [hpf.objs]; exact hos) ?_
    intro j oj hj _
    exfalso
    have hji := hfired2 j hj
    rw [hsd] at hji; injection hji with hji; subst hji
    have := (hfired i hj).2
    simp [this] at hact
  refine { pq := hpq, pre := { db := hdb, du := ?_, ka := ?_, st := by rw [hsty, hpf.style]; exact hi.pre.st, bd := ?_, dd := hdd },
           tq := ?_, nd := ?_, once := ?_, beyond := ?_, live := ?_, deliv := ?_, relafter := ?_, delivu := ?_, armedq := harm }
  · intro x ox hx hox
    obtain ⟨os, h1, h2⟩ := hback _ ox hox
    rw [← (core_fields h2).2.2.2.2]; exact hi.pre.du x os (hdispg x hx) h1
  · intro d l od ol h1 h2 h3 h4
    obtain ⟨od', h5, h6⟩ := hback _ od h3
    obtain ⟨ol', h7, h8⟩ := hback _ ol h4
    rw [← (core_fields h6).1, ← (core_fields h8).1]
    exact hi.pre.ka d l od' ol' (hdecg d h1) (hdispg l h2) h5 h7
  · intro d h; rw [hlen]; exact hi.pre.bd d (hdecg d h)
  · intro i hmem
    rw [htq] at hmem
    rw [hlen]; exact hi.tq i (List.mem_filter.mp hmem).1
  · rw [htq]; exact hi.nd.filter _
  · intro i og hog
    obtain ⟨os, hos, hcs⟩ := hback i og hog
    by_cases hir : i ∈ s.timerQ.filter (fun i => pollAct s i == 2)
    · have hm := List.mem_filter.mp hir
      have h2 : pollAct s i = 2 := by simpa using hm.2
      obtain ⟨o', ho', hst, _⟩ := pollAct_two h2
      rw [hos] at ho'; injection ho' with ho'; subst ho'
      have h0 : relCount s.outs i = 0 := by
        have h := hi.once i _ hos
        rcases Nat.lt_or_ge (relCount s.outs i) 1 with h' | h'
        · omega
        · have : relCount s.outs i = 1 := by omega
          rcases (h.2 this).2.2 with h3 | h3
          · exact absurd h3 hst
          · exact absurd hm.1 h3
      rw [hcount i, h0]
      constructor
      · split <;> omega
      · intro _
        obtain ⟨hc1, hc2⟩ := hclr i (by rw [hppq]; exact List.mem_map.mpr ⟨i, hir, rfl⟩) (by rw [hpf.objs]; exact get_lt hos)
        refine ⟨hc1, hc2, Or.inr ?_⟩
        rw [htq]; intro hmem
        have := (List.mem_filter.mp hmem).2
        simp [h2] at this
    · have hc : relCount (drain (pollTimers s)).outs i = relCount s.outs i := by rw [hcount i]; simp [hir]
      rw [hc]
      refine ⟨(hi.once i _ hos).1, ?_⟩
      intro h1
      obtain ⟨hd1, hd2, hd3⟩ := (hi.once i _ hos).2 h1
      refine ⟨fun e => hd1 (hdecg i e), fun e => hd2 (hdispg i e), ?_⟩
      rcases hd3 with h | h
      · left; rw [← (core_fields hcs).2.1]; exact h
      · right; rw [htq]; intro hm; exact h (List.mem_filter.mp hm).1
  · intro i hge
    rw [hlen] at hge
    have hir : i ∉ s.timerQ.filter (fun i => pollAct s i == 2) := by
      intro h; have := hi.tq i (List.mem_filter.mp h).1; omega
    rw [hcount i]; simp only [hir, false_and, if_false, Nat.add_zero]
    exact hi.beyond i hge
  · intro i og hog hu h0
    obtain ⟨os, hos, hcs⟩ := hback i og hog
    obtain ⟨ck, cs, cp, cpr, cu⟩ := core_fields hcs
    have hus : os.user = true := by rw [cu]; exact hu
    have hcnt := hcount i
    rw [h0] at hcnt
    have hs0 : relCount s.outs i = 0 := by omega
    have hir : i ∉ s.timerQ.filter (fun i => pollAct s i == 2) := by
      intro hir
      have : (if i ∈ s.timerQ.filter (fun i => pollAct s i == 2) ∧ (∃ o, s.objs[i]? = some o ∧ o.user = true) then 1 else 0) = 1 := by
        rw [if_pos ⟨hir, _, hos, hus⟩]
      omega
    obtain ⟨hm, t, ht, hle, hpd, hpr⟩ := hi.live i _ hos hus hs0
    rw [hnow, htq]
    refine ⟨?_, t, by rw [← cs]; exact ht, hle, by rw [← cp]; exact hpd, by rw [← cpr]; exact hpr⟩
    apply List.mem_filter.mpr
    refine ⟨hm, ?_⟩
    have : pollAct s i ≠ 2 := by
      intro h2; exact hir (List.mem_filter.mpr ⟨hm, by simp [h2]⟩)
    have := pollAct_zero_of hos (by rw [ht]; simp) this
    simp [this]
  · intro i og hog hu
    obtain ⟨os, hos, hcs⟩ := hback i og hog
    obtain ⟨ck, cs, cp, cpr, cu⟩ := core_fields hcs
    rw [houts, ← ck]
    exact List.mem_append_left _ (hi.deliv i os hos (by rw [cu]; exact hu))
  · intro i k h
    rw [houts] at h ⊢
    rcases List.mem_append.mp h with h | h
    · exact List.mem_append_left _ (hi.relafter i k h)
    · obtain ⟨_, o, ho, hu, hk⟩ := released_mem_flatMap s.objs _ i k h
      apply List.mem_append_left
      rw [← hk]
      exact hi.deliv i o ho hu
  · intro i k h
    rw [houts] at h
    rcases List.mem_append.mp h with h | h
    · obtain ⟨o, ho, hu, hk⟩ := hi.delivu i k h
      have hg := hcore.get i
      rw [ho] at hg
      cases hgi : (drain (pollTimers s)).objs[i]? with
      | none => rw [hgi] at hg; simp at hg
      | some og =>
        rw [hgi] at hg; simp at hg
        obtain ⟨ck, _, _, _, cu⟩ := core_fields hg
        exact ⟨og, rfl, by rw [cu]; exact hu, by rw [ck]; exact hk⟩
    · obtain ⟨hj, _⟩ := decoded_mem_flatMap s.objs _ i k h
      simp at hj


theorem drain_nil (s : St) (h : s.procQ = []) : drain s = s := by
  unfold drain; rw [h]; simp only [List.foldl_nil]
  apply St.ext' <;> simp [h]

theorem inv_tick (s : St) (hi : Inv s) (d : Int) (hd : 0 ≤ d) : Inv { s with now := s.now + d } :=
  { pq := hi.pq,
    pre := { db := hi.pre.db, du := hi.pre.du, ka := hi.pre.ka, st := hi.pre.st, bd := hi.pre.bd, dd := hi.pre.dd },
    armedq := hi.armedq, tq := hi.tq, nd := hi.nd, once := hi.once, beyond := hi.beyond,
    live := by
      intro i o ho hu h0
      obtain ⟨hm, t, ht, hle, hp⟩ := hi.live i o ho hu h0
      exact ⟨hm, t, ht, by simp only; omega, hp⟩,
    deliv := hi.deliv, relafter := hi.relafter, delivu := hi.delivu }

theorem inv_init (d : Int) : Inv { duration := d } :=
  { pq := rfl,
    pre := { db := (by intro j h; cases h), du := (by intro x ox h; cases h), ka := (by intro d l od ol h; cases h),
             st := rfl, bd := (by intro d h; cases h), dd := (by intro x h; cases h) },
    armedq := (by intro i h; cases h),
    tq := (by intro i h; cases h), nd := List.nodup_nil,
    once := (by intro i o h; simp at h), beyond := (by intro i _; rfl),
    live := (by intro i o h; simp at h), deliv := (by intro i o h; simp at h), relafter := (by intro i k h; cases h), delivu := (by intro i k h; cases h) }

/-- time does not run backwards -/
def Ev.ok : Ev → Prop
  | .advance d => 0 ≤ d
  | .tick d => 0 ≤ d
  | _ => True

theorem inv_step (s : St) (hi : Inv s) (e : Ev) (he : e.ok) : Inv (step s e) := by
  cases e with
  | frame k t =>
    obtain ⟨cur, rel, hf, _, _⟩ := frame_facts s k t hi.pre
    exact inv_after s _ cur rel hi hf
  | rep =>
    rcases rep_eq s hi.pre with h | ⟨x, ox, hx, hox, h⟩
    · simp only [step, h, drain_nil s hi.pq]; exact hi
    · simp only [step, h]; exact inv_after s _ x [] hi (restart_facts s hi.pre x ox hx hox)
  | advance d => exact inv_poll _ (inv_tick s hi d he)
  | tick d => exact inv_tick s hi d he
  | poll => exact inv_poll s hi

theorem inv_run (w : List Ev) : ∀ (s : St), Inv s → (∀ e ∈ w, e.ok) → Inv (run s w) := by
  induction w with
  | nil => intro s hi _; exact hi
  | cons e w ih =>
    intro s hi hok
    exact ih (step s e) (inv_step s hi e (hok e (by simp))) (fun e' h => hok e' (by simp [h]))


theorem poll_outs (s : St) (hi : Inv s) :
    (drain (pollTimers s)).outs =
      s.outs ++ ((s.timerQ.filter (fun i => pollAct s i == 2)).map Job.release).flatMap (jobOut s.objs) ∧
    SameCore (drain (pollTimers s)).objs s.objs := by
  obtain ⟨hpf, hptq, hppq⟩ := pollTimers_spec s
  rw [hi.pq, List.nil_append] at hppq
  have hdbp : DispBound (pollTimers s) := by
    intro j hj; rw [hpf.disp] at hj; rw [hpf.objs]; exact hi.pre.db j hj
  have hnrp : ∀ i, Job.release i ∈ (pollTimers s).procQ → NotRunning (pollTimers s) i := by
    intro i h o ho
    rw [hppq] at h
    simp only [List.mem_map, List.mem_filter, beq_iff_eq] at h
    obtain ⟨a, ⟨h1, h2⟩, e⟩ := h
    injection e with e; subst e
    obtain ⟨o', ho', _, hex⟩ := pollAct_two h2
    rw [hpf.objs, ho'] at ho; injection ho with ho; subst ho
    have : expired (pollTimers s) o' = expired s o' := by unfold expired; rw [hpf.now, hpf.duration]
    simp [isRunning, this, hex]
  obtain ⟨_, _, _, _, _, hcore, _, _, houts, _, _⟩ := drain_spec (pollTimers s) hdbp hnrp
  rw [hpf.objs] at hcore houts
  rw [hpf.outs, hppq] at houts
  exact ⟨houts, hcore⟩

/-- after a silence of at least the padded timeout every delivered code has been released exactly once -/
theorem silence_releases (s : St) (hi : Inv s) (δ : Int) (hδ : 0 ≤ δ) (hlong : 5 * δ ≥ 6 * s.duration) :
    Inv (advance s δ) ∧
    ∀ i o, (advance s δ).objs[i]? = some o → o.user = true → relCount (advance s δ).outs i = 1 := by
  have hi' := inv_tick s hi δ hδ
  have hig : Inv (advance s δ) := inv_poll _ hi'
  refine ⟨hig, ?_⟩
  intro i o ho hu
  obtain ⟨houts, hcore⟩ := poll_outs _ hi'
  have hle := (hig.once i o ho).1
  rcases Nat.lt_or_ge (relCount (advance s δ).outs i) 1 with h0 | h1
  · exfalso
    have h0' : relCount (advance s δ).outs i = 0 := by omega
    unfold advance at h0' ho
    rw [houts, relCount_append, relCount_fired _ i _ (hi'.nd.filter _)] at h0'
    obtain ⟨os, hos, hcs⟩ := hcore.get_some ho
    simp only at hos
    obtain ⟨ck, cs, cp, cpr, cu⟩ := core_fields hcs
    have hus : os.user = true := by rw [cu]; exact hu
    have hs0 : relCount s.outs i = 0 := by simp only at h0'; omega
    obtain ⟨hm, t, ht, htl, hpd, hpr⟩ := hi.live i os hos hus hs0
    have hexp : expired { s with now := s.now + δ } os = true := by
      simp only [expired, ht, hpd, hpr, if_true, decide_eq_true_eq]
      omega
    have hact : pollAct { s with now := s.now + δ } i = 2 := by
      simp only [pollAct, getObj, hos, ht, Option.isNone_some, Bool.false_eq_true, if_false, hexp, if_true]
    have : i ∈ List.filter (fun i => pollAct { s with now := s.now + δ } i == 2) s.timerQ :=
      List.mem_filter.mpr ⟨hm, by simp [hact]⟩
    rw [if_pos ⟨this, os, hos, hus⟩] at h0'
    omega
  · omega


theorem foldl_jobFrame (q : List Job) : ∀ (s : St), JobFrame s (q.foldl runJob s) := by
  induction q with
  | nil => intro s; exact JobFrame.refl s
  | cons j q ih => intro s; exact (runJob_frame s j).1.trans (ih _)

theorem drain_duration (s : St) : (drain s).duration = s.duration :=
  (foldl_jobFrame s.procQ { s with procQ := [] }).duration

theorem step_duration (s : St) (hi : Inv s) (e : Ev) : (step s e).duration = s.duration := by
  cases e with
  | frame k t =>
    obtain ⟨cur, rel, hf, _, _⟩ := frame_facts s k t hi.pre
    show (drain (frame s k t 0)).duration = _
    rw [drain_duration, hf.duration]
  | rep =>
    show (drain (repeatFrame s 0)).duration = _
    rw [drain_duration]
    rcases rep_eq s hi.pre with h | ⟨x, ox, hx, hox, h⟩
    · rw [h]
    · rw [h, (restart_facts s hi.pre x ox hx hox).duration]
  | advance d =>
    show (drain (pollTimers { s with now := s.now + d })).duration = _
    rw [drain_duration, (pollTimers_spec _).1.duration]
  | tick d => rfl
  | poll =>
    show (drain (pollTimers s)).duration = _
    rw [drain_duration, (pollTimers_spec _).1.duration]

theorem run_duration (w : List Ev) : ∀ (s : St), Inv s → (∀ e ∈ w, e.ok) → (run s w).duration = s.duration := by
  induction w with
  | nil => intro s _ _; rfl
  | cons e w ih =>
    intro s hi hok
    show (run (step s e) w).duration = _
    rw [ih (step s e) (inv_step s hi e (hok e (by simp))) (fun e' h => hok e' (by simp [h])), step_duration s hi e]


/-! ### while a key is held -/

/-- an event word during which key `K` stays held: every full frame is a frame of `K`, and the time since the last
    frame (full or ditto) stays below the padded timeout -/
def HeldWord (dur : Int) (K : Nat) : Int → List Ev → Prop
  | _, [] => True
  | _, .frame k _ :: w => k = K ∧ HeldWord dur K 0 w
  | _, .rep :: w => HeldWord dur K 0 w
  | acc, .advance δ :: w => 0 ≤ δ ∧ 5 * (acc + δ) < 6 * dur ∧ HeldWord dur K (acc + δ) w
  | acc, .tick δ :: w => 0 ≤ δ ∧ 5 * (acc + δ) < 6 * dur ∧ HeldWord dur K (acc + δ) w
  | acc, .poll :: w => HeldWord dur K acc w

structure HeldInv (s : St) (h K : Nat) (acc : Int) : Prop where
  inv : Inv s
  disp : s.dispLast = some h
  obj : ∃ oh t0, s.objs[h]? = some oh ∧ oh.key = K ∧ oh.start = some t0 ∧ s.now - t0 ≤ acc ∧ oh.padded = true ∧ oh.proc = 0
  cnt : relCount s.outs h = 0
  acc0 : 0 ≤ acc
  accd : 5 * acc < 6 * s.duration

/-- after a frame event that delivers `cur` with key `K`: the output, and the held-state invariant -/
theorem held_after (s f : St) (cur K : Nat) (rel : List Nat) (hi : Inv s) (hdur : 0 < s.duration) (hf : Facts s f cur rel)
    (hkey : ∀ oc, f.objs[cur]? = some oc → oc.key = K) :
    (drain f).outs = s.outs ++ rel.flatMap (fun l => jobOut f.objs (.release l)) ++ [.decoded cur K] ∧
    HeldInv (drain f) cur K 0 := by
  obtain ⟨hdbf, hnrf, hq⟩ := facts_drain s f cur rel hi hf
  obtain ⟨hnow, hdur', _, _, _, hcore, _, _, houts, _, _⟩ := drain_spec f hdbf hnrf
  obtain ⟨occ, hocc, hcs, hcp, hcpr, _, _⟩ := hf.curObj
  have hig := inv_after s f cur rel hi hf
  have hdisp : (drain f).dispLast = some cur := by
    refine drain_disp_keep f cur occ hf.disp hocc ?_
    intro l ol hl hol
    rw [hq] at hl
    have hlr : l ∈ rel := by
      simp only [List.mem_append, List.mem_map, List.mem_singleton] at hl
      rcases hl with ⟨a, ha, e⟩ | e
      · injection e with e; subst e; exact ha
      · cases e
    exact hf.relkey l ol occ hlr hol hocc
  refine ⟨?_, { inv := hig, disp := hdisp, obj := ?_, cnt := ?_, acc0 := Int.le_refl 0, accd := by rw [hdur', hf.duration]; omega }⟩
  · rw [houts, hf.outs, hq, List.flatMap_append, ← List.append_assoc]
    have h1 : List.flatMap (jobOut f.objs) (List.map Job.release rel) = rel.flatMap (fun l => jobOut f.objs (.release l)) := by
      simp [List.flatMap_map]
    have h2 : List.flatMap (jobOut f.objs) [Job.decoded cur] = [Out.decoded cur K] := by
      simp [jobOut, hocc, hkey occ hocc]
    rw [h1, h2]
  · have hg := hcore.get cur
    rw [hocc] at hg
    cases hgc : (drain f).objs[cur]? with
    | none => rw [hgc] at hg; simp at hg
    | some og =>
      rw [hgc] at hg; simp at hg
      obtain ⟨ck, cs, cp, cpr, _⟩ := core_fields hg
      exact ⟨og, s.now, rfl, by rw [ck]; exact hkey occ hocc, by rw [cs]; exact hcs, by rw [hnow, hf.now]; omega,
        by rw [cp]; exact hcp, by rw [cpr]; exact hcpr⟩
  · obtain ⟨ob, hob, _⟩ := hig.pre.db cur hdisp
    have h1 := hig.once cur ob hob
    rcases Nat.lt_or_ge (relCount (drain f).outs cur) 1 with h | h
    · omega
    · exact absurd hdisp ((h1.2 (by omega)).2.1)


theorem heldInv_dur {s : St} {h K : Nat} {acc : Int} (hh : HeldInv s h K acc) : 0 < s.duration := by
  have := hh.acc0; have := hh.accd; omega

/-- a full frame of the held key: reported with the held object, which stays held -/
theorem held_frame (s : St) (h K t : Nat) (acc : Int) (hh : HeldInv s h K acc) :
    (step s (.frame K t)).outs = s.outs ++ [.decoded h K] ∧ HeldInv (step s (.frame K t)) h K 0 := by
  obtain ⟨cur, rel, hf, hheld, hkey⟩ := frame_facts s K t hh.inv.pre
  obtain ⟨oh, t0, hoh, hk, _⟩ := hh.obj
  obtain ⟨e1, e2⟩ := hheld h oh hh.disp hoh hk
  subst e1; subst e2
  have := held_after s _ cur K [] hh.inv (heldInv_dur hh) hf hkey
  simpa [step] using this

/-- a ditto frame while the key is held: reported with the held object -/
theorem held_rep (s : St) (h K : Nat) (acc : Int) (hh : HeldInv s h K acc) :
    (step s .rep).outs = s.outs ++ [.decoded h K] ∧ HeldInv (step s .rep) h K 0 := by
  obtain ⟨oh, t0, hoh, hk, _⟩ := hh.obj
  rcases rep_eq s hh.inv.pre with e | ⟨x, ox, hx, hox, e⟩
  · exfalso
    -- the decoder holds the dispatcher's code: a ditto frame is never ignored
    have hd := hh.inv.pre.dd h hh.disp
    have : repeatFrame s 0 = restart s h := by
      unfold repeatFrame
      have hk' := hh.inv.pre.ka h h oh oh hd hh.disp hoh hoh
      have had : adopt s h oh.key = s := by simp [adopt, getObj, hoh]
      simp only [hh.disp, Option.bind_some, getObj, hoh, hd, had, Option.getD_some, restart]
    rw [this] at e
    have hf := restart_facts s hh.inv.pre h oh hh.disp hoh
    have := hf.procQ
    rw [e, hh.inv.pq] at this
    simp at this
  · rw [hh.disp] at hx; injection hx with hx; subst hx
    rw [hoh] at hox; injection hox with hox; subst hox
    have hf := restart_facts s hh.inv.pre h oh hh.disp hoh
    have hkey : ∀ oc, (restart s h).objs[h]? = some oc → oc.key = K := by
      intro oc hoc; rw [hf.oldcur oh oc hoh hoc]; exact hk
    have := held_after s _ h K [] hh.inv (heldInv_dur hh) hf hkey
    simpa [step, e] using this

theorem held_tick (s : St) (h K : Nat) (acc δ : Int) (hh : HeldInv s h K acc) (hδ : 0 ≤ δ)
    (hlt : 5 * (acc + δ) < 6 * s.duration) : HeldInv { s with now := s.now + δ } h K (acc + δ) := by
  obtain ⟨oh, t0, hoh, hk, hst, hle, hp, hpr⟩ := hh.obj
  exact { inv := inv_tick s hh.inv δ hδ, disp := hh.disp,
          obj := ⟨oh, t0, hoh, hk, hst, (by simp only; omega), hp, hpr⟩,
          cnt := hh.cnt, acc0 := (by have := hh.acc0; omega), accd := hlt }

/-- a poll of the timer thread while the key is held and its timer has not run out: nothing fires -/
theorem held_poll (s : St) (h K : Nat) (acc : Int) (hh : HeldInv s h K acc) :
    (drain (pollTimers s)).outs = s.outs ∧ HeldInv (drain (pollTimers s)) h K acc := by
  obtain ⟨oh, t0, hoh, hk, hst, hle, hp, hpr⟩ := hh.obj
  obtain ⟨hpf, hptq, hppq⟩ := pollTimers_spec s
  have hnofire : s.timerQ.filter (fun i => pollAct s i == 2) = [] := by
    apply List.filter_eq_nil_iff.mpr
    intro j hj hact
    have h2 : pollAct s j = 2 := by simpa using hact
    obtain ⟨oj, hoj, hstj, hexp⟩ := pollAct_two h2
    have hd := hh.inv.armedq j hj oj hoj hstj
    rw [hh.disp] at hd; injection hd with hd; subst hd
    rw [hoh] at hoj; injection hoj with hoj; subst hoj
    simp only [expired, hst, hp, hpr, if_true, decide_eq_true_eq] at hexp
    have := hh.accd
    omega
  rw [hh.inv.pq, hnofire] at hppq
  simp only [List.map_nil, List.append_nil] at hppq
  have hdr : drain (pollTimers s) = pollTimers s := drain_nil _ hppq
  have hig := inv_poll s hh.inv
  rw [hdr] at hig ⊢
  have hnew : HeldInv (pollTimers s) h K acc :=
    { inv := hig, disp := (by rw [hpf.disp]; exact hh.disp),
      obj := ⟨oh, t0, (by rw [hpf.objs]; exact hoh), hk, hst, (by rw [hpf.now]; exact hle), hp, hpr⟩,
      cnt := (by rw [hpf.outs]; exact hh.cnt), acc0 := hh.acc0, accd := (by rw [hpf.duration]; exact hh.accd) }
  exact ⟨hpf.outs, hnew⟩

/-- one event of a held word -/
theorem held_step (s : St) (h K : Nat) (acc : Int) (hh : HeldInv s h K acc) (e : Ev) (w : List Ev)
    (hw : HeldWord s.duration K acc (e :: w)) :
    ∃ acc', HeldInv (step s e) h K acc' ∧ HeldWord (step s e).duration K acc' w ∧
      (step s e).duration = s.duration ∧
      (match e with
       | .frame _ _ => (step s e).outs = s.outs ++ [.decoded h K]
       | .rep => (step s e).outs = s.outs ++ [.decoded h K]
       | _ => (step s e).outs = s.outs) := by
  have hdur := step_duration s hh.inv e
  cases e with
  | frame k t =>
    obtain ⟨hk, hw'⟩ := hw
    subst hk
    obtain ⟨ho, hi'⟩ := held_frame s h k t acc hh
    exact ⟨0, hi', by rw [hdur]; exact hw', hdur, ho⟩
  | rep =>
    obtain ⟨ho, hi'⟩ := held_rep s h K acc hh
    exact ⟨0, hi', by rw [hdur]; exact hw, hdur, ho⟩
  | advance δ =>
    obtain ⟨h0, h1, hw'⟩ := hw
    have ht := held_tick s h K acc δ hh h0 h1
    obtain ⟨ho, hi'⟩ := held_poll _ h K _ ht
    exact ⟨acc + δ, hi', by rw [hdur]; exact hw', hdur, ho⟩
  | tick δ =>
    obtain ⟨h0, h1, hw'⟩ := hw
    exact ⟨acc + δ, held_tick s h K acc δ hh h0 h1, hw', rfl, rfl⟩
  | poll =>
    obtain ⟨ho, hi'⟩ := held_poll s h K acc hh
    exact ⟨acc, hi', by rw [hdur]; exact hw, hdur, ho⟩

/-- a whole held word, split anywhere -/
theorem held_run (w1 : List Ev) : ∀ (s : St) (h K : Nat) (acc : Int) (w2 : List Ev), HeldInv s h K acc →
    HeldWord s.duration K acc (w1 ++ w2) →
    ∃ acc', HeldInv (run s w1) h K acc' ∧ HeldWord (run s w1).duration K acc' w2 := by
  induction w1 with
  | nil => intro s h K acc w2 hh hw; exact ⟨acc, hh, hw⟩
  | cons e w1 ih =>
    intro s h K acc w2 hh hw
    obtain ⟨acc', hi', hw', _, _⟩ := held_step s h K acc hh e (w1 ++ w2) hw
    exact ih (step s e) h K acc' w2 hi' hw'


/-- a full frame of key `K` in ANY reachable state starts a held phase of the object it delivers -/
theorem enter_held (s : St) (hi : Inv s) (hdur : 0 < s.duration) (K t : Nat) :
    ∃ h, HeldInv (step s (.frame K t)) h K 0 ∧ ∃ pre, (step s (.frame K t)).outs = pre ++ [.decoded h K] := by
  obtain ⟨cur, rel, hf, _, hkey⟩ := frame_facts s K t hi.pre
  obtain ⟨ho, hh⟩ := held_after s _ cur K rel hi hdur hf hkey
  exact ⟨cur, hh, _, ho⟩

theorem run_append (s : St) (w1 w2 : List Ev) : run s (w1 ++ w2) = run (run s w1) w2 := by
  simp [run, List.foldl_append]

end IRModel.Timer
