import IRModel.Lemmas.TolLemmas
/-! classification of quarter-tolerance perturbed durations -/
namespace IRModel.Engine
open IRModel IRModel.Py IRModel.Match IRModel.CodeWrapper

/-- scan order of the general path: mark, space of symbol 0, mark, space of symbol 1, … -/
def scanList (bursts : List (Int × Int)) : List Int := bursts.flatMap (fun p => [p.1, p.2])

theorem classify_eq_find (tol : Tol) (bursts : List (Int × Int)) (v : Int) :
    classify tol bursts v = (scanList bursts).find? (fun x => isMatch tol v x) := by
  induction bursts with
  | nil => rfl
  | cons p rest ih =>
    obtain ⟨m, s⟩ := p
    simp only [classify, scanList, List.flatMap_cons, List.cons_append, List.nil_append, List.find?_cons]
    by_cases h1 : isMatch tol v m = true
    · simp [h1]
    · by_cases h2 : isMatch tol v s = true
      · simp [h1, h2]
      · simp only [h1, h2, Bool.false_eq_true, if_false]
        exact ih

/-- bounds of the quarter-tolerance interval of `e`, scaled by `D = 400·den` -/
def qLo (tol : Tol) (e : Int) : Int :=
  if e < 0 then e * ((400 * tol.den : Nat) + (tol.num : Int)) else e * ((400 * tol.den : Nat) - (tol.num : Int))
def qHi (tol : Tol) (e : Int) : Int :=
  if e < 0 then e * ((400 * tol.den : Nat) - (tol.num : Int)) else e * ((400 * tol.den : Nat) + (tol.num : Int))

theorem Q_bounds (tol : Tol) (v e : Int) (h : Q tol v e) :
    qLo tol e ≤ v * (400 * tol.den : Nat) ∧ v * (400 * tol.den : Nat) ≤ qHi tol e := by
  obtain ⟨hs, h1, h2⟩ := h
  unfold qLo qHi
  rcases hs with ⟨he, hv⟩ | ⟨he, hv⟩
  · have hne : ¬ e < 0 := by omega
    rw [if_neg hne] at h1 h2 ⊢
    rw [Int.sub_mul] at h1 h2
    rw [Int.mul_sub, Int.mul_add]
    have : (tol.num : Int) * e = e * (tol.num : Int) := Int.mul_comm _ _
    constructor <;> omega
  · rw [if_pos he] at h1 h2 ⊢
    rw [Int.sub_mul] at h1 h2
    rw [Int.mul_sub, Int.mul_add]
    have : (tol.num : Int) * (-e) = -(e * (tol.num : Int)) := by rw [Int.mul_neg, Int.mul_comm]
    constructor <;> omega

/-- the window of `x` cannot contain any quarter-perturbation of `e` -/
def sep (tol : Tol) (e x : Int) : Bool :=
  (decide (e > 0) && decide (x < 0)) || (decide (e < 0) && decide (x > 0)) ||
  decide ((window x tol).2 * (400 * tol.den : Nat) < qLo tol e) ||
  decide ((window x tol).1 * (400 * tol.den : Nat) > qHi tol e)

theorem not_match_of_sep (tol : Tol) (htol : tol.ok) (v e x : Int) (hq : Q tol v e) (hsep : sep tol e x = true) :
    isMatch tol v x = false := by
  have hb := Q_bounds tol v e hq
  have hD : (0 : Int) < ((400 * tol.den : Nat) : Int) := by have := htol.1; omega
  unfold sep at hsep
  simp only [Bool.or_eq_true, Bool.and_eq_true, decide_eq_true_eq] at hsep
  obtain ⟨hs, _, _⟩ := hq
  unfold isMatch
  by_cases hsg : (v < 0 ∧ 0 < x) ∨ (v > 0 ∧ 0 > x)
  · rw [if_pos hsg]
  · rw [if_neg hsg]
    simp only []
    rcases hsep with ((hA | hA) | hA) | hA
    · exfalso; omega
    · exfalso; omega
    · -- v > window.2
      have : ¬ (v ≤ (window x tol).2) := by
        intro hle
        have := Int.mul_le_mul_of_nonneg_right hle (Int.le_of_lt hD)
        omega
      simp [this]
    · have : ¬ ((window x tol).1 ≤ v) := by
        intro hle
        have := Int.mul_le_mul_of_nonneg_right hle (Int.le_of_lt hD)
        omega
      simp [this]

/-- decidable: every table value is separated from all values scanned before its first occurrence -/
def wfTol (t : Tables) (tol : Tol) : Bool :=
  (scanList t.bursts).all fun e =>
    ((scanList t.bursts).takeWhile (fun x => x != e)).all fun x => sep tol e x

theorem find_first {α} (l : List α) (p : α → Bool) (e : α) [DecidableEq α] (he : e ∈ l) (hp : p e = true)
    (hbefore : ∀ x ∈ l.takeWhile (fun x => x != e), p x = false) : l.find? p = some e := by
  induction l with
  | nil => simp at he
  | cons a l ih =>
    by_cases hae : a = e
    · subst hae; simp [hp]
    · have hne : (a != e) = true := by simpa using hae
      have hpa : p a = false := hbefore a (by simp [List.takeWhile, hne])
      simp only [List.find?_cons, hpa]
      apply ih
      · rcases List.mem_cons.mp he with rfl | h
        · exact absurd rfl hae
        · exact h
      · intro x hx
        exact hbefore x (by simp [List.takeWhile, hne, hx])

/-- a quarter-perturbed table value classifies as that value -/
theorem classify_Q (t : Tables) (tol : Tol) (htol : tol.ok) (hw : wfTol t tol = true) (v e : Int)
    (he : e ∈ scanList t.bursts) (hq : Q tol v e) : classify tol t.bursts v = some e := by
  rw [classify_eq_find]
  apply find_first _ _ e he (isMatch_of_Q tol htol v e hq)
  intro x hx
  unfold wfTol at hw
  rw [List.all_eq_true] at hw
  have := hw e he
  rw [List.all_eq_true] at this
  exact not_match_of_sep tol htol v e x hq (this x hx)

end IRModel.Engine
