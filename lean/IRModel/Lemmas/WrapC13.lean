import IRModel.Lemmas.WrapC08
import IRModel.Props.C13
/-! C13 for a traced protocol decoder: a rejected input leaves the instance as it was; the chunking theorem instantiated. -/
namespace IRModel.Wrap
open IRModel IRModel.Py IRModel.Proto IRModel.Stream

theorem raisePure_paths : ∀ tr, raisePure tr = true → ∀ p ∈ paths tr, ∀ cls, p.2.2 = .raise cls → p.2.1 = [] := by
  intro tr
  induction tr with
  | leaf e o =>
    intro h p hp cls hc
    simp only [paths, List.mem_singleton] at hp
    subst hp
    simp only at hc
    subst hc
    simpa [raisePure] using h
  | ite c a b iha ihb =>
    intro h p hp cls hc
    simp only [raisePure, Bool.and_eq_true] at h
    simp only [paths, List.mem_append, List.mem_map] at hp
    rcases hp with ⟨q, hq, rfl⟩ | ⟨q, hq, rfl⟩
    · exact iha h.1 q hq cls hc
    · exact ihb h.2 q hq cls hc

/-- states of one decoder instance that the protocol's own `decode()` can reach -/
def WFInst (t : Tables) (i : Inst) : Prop := ∀ l, i.last = some l → WFCode t l

/-- **a rejected input leaves the decoder as it was**: for `c13OK`, when `decode()` raises, `_last_code` (and the
    tolerance) are unchanged -/
theorem decodeW_reject_pure (t : Tables) (w : Wrapper) (hS : C08Spec t w) (hpN : raisePure w.treeNone = true)
    (hpS : raisePure w.treeSome = true) (inst : Inst) (hwf : WFInst t inst) (data : List Int) (e : PyErr)
    (h : (decodeW t w inst data).result = .error e) : (decodeW t w inst data).inst = inst := by
  have hbi := baseDecode_inst_overridden t inst data hS.ov
  cases hb : (baseDecode t inst data).result with
  | error e' =>
    have : decodeW t w inst data = baseDecode t inst data := by unfold decodeW; simp only [hb]
    rw [this, hbi]
  | ok c =>
    have hnames' : ∀ prm ∈ t.params, t.params.find? (fun q => q.1 == prm.1) = some prm ∧ prm.2.1 ≤ prm.2.2 + 1 :=
      fun prm hm => ⟨(hS.names prm hm).1, by have := (hS.names prm hm).2; omega⟩
    have hcwf : WFCode t c := by
      rcases baseDecode_ok_cases t inst data c hS.ov hb with ⟨V, hV, hlt⟩ | hl
      · refine ⟨V, hV, ?_⟩
        intro prm hm
        have h1 := hlt prm
        have h2 := (hS.names prm hm).2
        have : prm.2.2 - prm.2.1 + 1 = widthP prm := by unfold widthP; omega
        rw [this] at h1; exact h1
      · exact hwf c hl
    obtain ⟨V, hcV, hVlt⟩ := hcwf
    have hGN := goodEnv_decoded t c V hcV hnames' hVlt (fun _ => 0) (fun _ => by omega)
    -- which leaf the run reaches
    have key : ∀ (env : Env) (le : Bool) (tree : DTree) (P : List (Cond × Bool) × List Eff × Outcome),
        P ∈ paths tree → raisePure tree = true → leavesOK t tree = true → env.fields = fieldEnv t c →
        runTree env le tree = runTree env le (.leaf P.2.1 P.2.2) →
        (∀ cls, P.2.2 = .raise cls → True) →
        ((runTree env le tree).1 = .error e ∨ True) →
        (∀ e', (runTree env le tree).1 = .error e' → (runTree env le tree).2 = []) ∧
        (noLastTree tree = true → (runTree env le tree).1 ≠ .ok .last) := by
      intro env le tree P hP hrp hlv henv hr _ _
      have hleaf := leavesOK_paths t tree hlv P hP
      rw [hr]
      refine ⟨?_, ?_⟩
      · intro e' he'
        obtain ⟨cs, effs, out⟩ := P
        dsimp only at he' hleaf ⊢
        cases out with
        | raise cls => simp only [runTree]; exact raisePure_paths tree hrp _ hP cls rfl
        | ret fs same =>
          obtain ⟨_, hfs⟩ := retIdentity_spec t fs hleaf
          rw [ret_leaf_eval t c V hcV hnames' env henv le effs fs same hfs] at he'
          simp at he'
        | retLast => simp [runTree] at he'
        | retOther => simp [leafOK] at hleaf
      · intro hnl
        obtain ⟨_, hne⟩ := paths_noLast tree hnl P hP
        obtain ⟨cs, effs, out⟩ := P
        dsimp only at hne hleaf ⊢
        cases out with
        | raise cls => simp [runTree]
        | ret fs same =>
          obtain ⟨_, hfs⟩ := retIdentity_spec t fs hleaf
          rw [ret_leaf_eval t c V hcV hnames' env henv le effs fs same hfs]
          simp
        | retLast => exact absurd rfl hne
        | retOther => simp [leafOK] at hleaf
    unfold decodeW at h ⊢
    simp only [hb] at h ⊢
    cases hl : inst.last with
    | none =>
      simp only [hl] at h ⊢
      obtain ⟨P, hP, _, hr⟩ := runTree_path (widthsOf t) [] _ hGN (lastOK_nil _) false w.treeNone hS.safeN
      obtain ⟨hk, hk2⟩ := key _ false w.treeNone P hP hpN hS.leavesN rfl hr (fun _ _ => trivial) (Or.inr trivial)
      have hk2' := hk2 hS.noLastN
      generalize hrt : runTree { params := fun _ => 0, fields := fieldEnv t c, last := fun _ => none } false w.treeNone = rt at h hk hk2' ⊢
      obtain ⟨r, effs⟩ := rt
      cases r with
      | error e2 =>
        have := hk e2 rfl
        simp only at this
        subst this
        simp only [applyEffs]
        exact hbi
      | ok res =>
        cases res with
        | last => exact absurd rfl hk2'
        | code fs => simp at h
    | some l =>
      simp only [hl] at h ⊢
      obtain ⟨VL, hlV, hVLlt⟩ := hwf l hl
      have hGL := goodEnv_decoded t l VL hlV hnames' hVLlt (fun _ => 0) (fun _ => by omega)
      have hGS : GoodEnv (widthsOf t) { params := fun _ => 0, fields := fieldEnv t c, last := fieldEnv t l } :=
        ⟨fun _ => by simp, hGN.fields⟩
      obtain ⟨P, hP, _, hr⟩ := runTree_path (widthsOf t) (widthsOf t) _ hGS hGL.fields
        ((baseDecode t inst data).isLast || sameCode t l c) w.treeSome hS.safeS
      obtain ⟨hk, _⟩ := key _ ((baseDecode t inst data).isLast || sameCode t l c) w.treeSome P hP hpS hS.leavesS rfl hr (fun _ _ => trivial) (Or.inr trivial)
      generalize hrt : runTree { params := fun _ => 0, fields := fieldEnv t c, last := fieldEnv t l } ((baseDecode t inst data).isLast || sameCode t l c) w.treeSome = rt at h hk ⊢
      obtain ⟨r, effs⟩ := rt
      cases r with
      | error e2 =>
        have := hk e2 rfl
        simp only at this
        subst this
        simp only [applyEffs]
        exact hbi
      | ok res =>
        cases res with
        | last => simp at h
        | code fs => simp at h

theorem decodeP_wf (t : Tables) (w : Wrapper) (hS : C08Spec t w) (i : Inst) (hwf : WFInst t i) (x : List Int) :
    WFInst t (decodeP t w i x).inst := by
  intro l hl
  unfold decodeP at hl
  rw [if_pos hS.ov] at hl
  exact decodeW_last t w hS i hwf x l hl

/-- reachable states of one decoder instance -/
def PState (t : Tables) := { i : Inst // WFInst t i }

/-- one protocol's `decode()` as the streaming thread's dispatcher: a candidate is accepted when `decode()` returns a
    code (delivered to the callback), rejected when it raises -/
def protoDec (t : Tables) (w : Wrapper) (hS : C08Spec t w) : Dec (PState t) CodeV :=
  { decode := fun s x _ =>
      match (decodeP t w s.1 x).result with
      | .ok c => (true, ⟨(decodeP t w s.1 x).inst, decodeP_wf t w hS s.1 s.2 x⟩, [c])
      | .error _ => (false, ⟨(decodeP t w s.1 x).inst, decodeP_wf t w hS s.1 s.2 x⟩, []) }

theorem protoDec_rejectPure (t : Tables) (w : Wrapper) (hS : C08Spec t w) (hpN : raisePure w.treeNone = true)
    (hpS : raisePure w.treeSome = true) (f : Nat) : IRModel.Props.C13.RejectPure (protoDec t w hS) f := by
  intro s x hrej
  simp only [protoDec] at hrej ⊢
  cases hr : (decodeP t w s.1 x).result with
  | ok c => rw [hr] at hrej; simp at hrej
  | error e =>
    refine ⟨?_, rfl⟩
    apply Subtype.ext
    show (decodeP t w s.1 x).inst = s.1
    have hdp : decodeP t w s.1 x = decodeW t w s.1 x := by unfold decodeP; rw [if_pos hS.ov]
    rw [hdp] at hr ⊢
    exact decodeW_reject_pure t w hS hpN hpS s.1 s.2 x e hr

/-- **C13 for a traced protocol decoder**: with this protocol's `decode()` as the dispatcher, any two chunkings of the
    same duration stream leave the decoder in the same state, deliver the same sequence of codes and leave the same
    remainder pending. -/
theorem C13_wrapper_spec (t : Tables) (w : Wrapper) (hS : C08Spec t w) (hpN : raisePure w.treeNone = true)
    (hpS : raisePure w.treeSome = true) (f : Nat) (s : PState t) (chunks₁ chunks₂ : List (List Int))
    (h : chunks₁.flatten = chunks₂.flatten) :
    runChunks (protoDec t w hS) f s [] chunks₁ = runChunks (protoDec t w hS) f s [] chunks₂ :=
  IRModel.Props.C13.C13 (protoDec t w hS) f (protoDec_rejectPure t w hS hpN hpS f) s chunks₁ chunks₂ h

end IRModel.Wrap
