import IRModel.Lemmas.EngineLemmas
/-! quarter-tolerance perturbations stay inside the matching window -/
namespace IRModel.Engine
open IRModel IRModel.Py IRModel.Match IRModel.CodeWrapper

/-- `v` is `e` perturbed by at most a quarter of the tolerance `tol` (same sign) -/
def Q (tol : Tol) (v e : Int) : Prop :=
  ((e > 0 ∧ v > 0) ∨ (e < 0 ∧ v < 0)) ∧
  (v - e) * (400 * tol.den : Nat) ≤ (tol.num : Int) * (if e < 0 then -e else e) ∧
  (e - v) * (400 * tol.den : Nat) ≤ (tol.num : Int) * (if e < 0 then -e else e)

/-- pointwise relation of two lists of equal length -/
inductive Pw {α β} (R : α → β → Prop) : List α → List β → Prop
  | nil : Pw R [] []
  | cons {a b l₁ l₂} : R a b → Pw R l₁ l₂ → Pw R (a :: l₁) (b :: l₂)

theorem isMatch_of_Q (tol : Tol) (htol : tol.ok) (v e : Int) (h : Q tol v e) : isMatch tol v e = true := by
  obtain ⟨hs, h1, h2⟩ := h
  have hd : (0 : Int) < (tol.den : Int) := by have := htol.1; omega
  have hc : (0 : Int) < ((100 * tol.den : Nat) : Int) := by omega
  unfold isMatch window
  rcases hs with ⟨he, hv⟩ | ⟨he, hv⟩
  · have hns : ¬ ((v < 0 ∧ 0 < e) ∨ (v > 0 ∧ 0 > e)) := by omega
    have hne : ¬ e < 0 := by omega
    rw [if_neg hns, if_neg hne]
    rw [if_neg hne] at h1 h2
    simp only [Bool.and_eq_true, decide_eq_true_eq]
    constructor
    · -- loOf e ≤ v
      unfold loOf
      have : e * (((100 * tol.den : Nat) : Int) - (tol.num : Int)) / ((100 * tol.den : Nat) : Int) < v + 1 := by
        rw [Int.ediv_lt_iff_lt_mul hc]
        have e1 : ((400 * tol.den : Nat) : Int) = 4 * ((100 * tol.den : Nat) : Int) := by omega
        rw [e1] at h2
        have hn : 0 ≤ (tol.num : Int) * e := Int.mul_nonneg (by omega) (by omega)
        rw [Int.mul_sub, Int.add_mul]
        have h3 : (e - v) * (4 * ((100 * tol.den : Nat) : Int)) = 4 * (e * ((100 * tol.den : Nat) : Int)) - 4 * (v * ((100 * tol.den : Nat) : Int)) := by
          rw [Int.sub_mul]; simp [Int.mul_comm, Int.mul_left_comm]
        rw [h3] at h2
        have h4 : e * (tol.num : Int) = (tol.num : Int) * e := Int.mul_comm _ _
        omega
      omega
    · -- v ≤ hiOf e
      unfold hiOf
      rw [Int.le_ediv_iff_mul_le hc]
      have e1 : ((400 * tol.den : Nat) : Int) = 4 * ((100 * tol.den : Nat) : Int) := by omega
      rw [e1] at h1
      have e2 : ((100 * tol.den + tol.num : Nat) : Int) = ((100 * tol.den : Nat) : Int) + (tol.num : Int) := by omega
      rw [e2, Int.mul_add]
      have hn : 0 ≤ (tol.num : Int) * e := Int.mul_nonneg (by omega) (by omega)
      have h3 : (v - e) * (4 * ((100 * tol.den : Nat) : Int)) = 4 * (v * ((100 * tol.den : Nat) : Int)) - 4 * (e * ((100 * tol.den : Nat) : Int)) := by
        rw [Int.sub_mul]; simp [Int.mul_comm, Int.mul_left_comm]
      rw [h3] at h1
      have h4 : e * (tol.num : Int) = (tol.num : Int) * e := Int.mul_comm _ _
      omega
  · have hns : ¬ ((v < 0 ∧ 0 < e) ∨ (v > 0 ∧ 0 > e)) := by omega
    rw [if_neg hns, if_pos he]
    rw [if_pos he] at h1 h2
    simp only [Bool.and_eq_true, decide_eq_true_eq]
    constructor
    · -- hiOf e ≤ v   (e < 0)
      unfold hiOf
      have : e * ((100 * tol.den + tol.num : Nat) : Int) / ((100 * tol.den : Nat) : Int) < v + 1 := by
        rw [Int.ediv_lt_iff_lt_mul hc]
        have e1 : ((400 * tol.den : Nat) : Int) = 4 * ((100 * tol.den : Nat) : Int) := by omega
        rw [e1] at h2
        have e2 : ((100 * tol.den + tol.num : Nat) : Int) = ((100 * tol.den : Nat) : Int) + (tol.num : Int) := by omega
        rw [e2, Int.mul_add, Int.add_mul]
        have hn : (tol.num : Int) * (-e) ≥ 0 := Int.mul_nonneg (by omega) (by omega)
        have h3 : (e - v) * (4 * ((100 * tol.den : Nat) : Int)) = 4 * (e * ((100 * tol.den : Nat) : Int)) - 4 * (v * ((100 * tol.den : Nat) : Int)) := by
          rw [Int.sub_mul]; simp [Int.mul_comm, Int.mul_left_comm]
        rw [h3] at h2
        have h4 : e * (tol.num : Int) = -((tol.num : Int) * (-e)) := by rw [Int.mul_neg, Int.neg_neg, Int.mul_comm]
        omega
      omega
    · -- v ≤ loOf e   (e < 0)
      unfold loOf
      rw [Int.le_ediv_iff_mul_le hc]
      have e1 : ((400 * tol.den : Nat) : Int) = 4 * ((100 * tol.den : Nat) : Int) := by omega
      rw [e1] at h1
      rw [Int.mul_sub]
      have hn : (tol.num : Int) * (-e) ≥ 0 := Int.mul_nonneg (by omega) (by omega)
      have h3 : (v - e) * (4 * ((100 * tol.den : Nat) : Int)) = 4 * (v * ((100 * tol.den : Nat) : Int)) - 4 * (e * ((100 * tol.den : Nat) : Int)) := by
        rw [Int.sub_mul]; simp [Int.mul_comm, Int.mul_left_comm]
      rw [h3] at h1
      have h4 : e * (tol.num : Int) = -((tol.num : Int) * (-e)) := by rw [Int.mul_neg, Int.neg_neg, Int.mul_comm]
      omega

end IRModel.Engine
