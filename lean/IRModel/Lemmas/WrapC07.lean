import IRModel.Lemmas.WrapC05
import IRModel.Props.C07
import IRModel.Props.C08
/-! Lemmas for C07 at wrapper level: the base decoder of an overriding class on a long frame, expressions that do not
mention the held code, compatible paths of the two decode trees, and the specification form of the theorem. -/
namespace IRModel.Wrap
open IRModel IRModel.Py IRModel.Encode IRModel.Proto IRModel.CodeWrapper IRModel.Bits

/-! ### the base decoder on a long frame, for a class that overrides `decode` -/

theorem baseDecode_long (t : Tables) (inst : Inst) (data : List Int) (hrb : t.repeatBursts = [])
    (hlong : data.length > t.repeatLeadIn.length + t.repeatLeadOut.length) :
    baseDecode t inst data = decodeFull t inst data [] := by
  unfold baseDecode
  split
  · rename_i l hl
    split
    · rw [hrb]
      split
      · rename_i p hp
        have := IRModel.Props.C07.repeat_branch_short _ _ _ _ _ hp
        omega
      · rename_i e he
        have hlib := IRModel.Props.C08.parseWith_lib _ _ _ _ _ _ he
        rw [if_pos hlib]
    · rfl
  · rfl

/-- for an overriding class the full decode does not look at `_last_code` -/
theorem decodeFull_overridden (t : Tables) (inst : Inst) (data : List Int) (hov : t.decodeOverridden = true) :
    decodeFull t inst data [] =
      { result := (decodeFull t { last := none, tol := inst.tol } data []).result, inst := inst, effects := [], isLast := false } := by
  unfold decodeFull
  simp only []
  cases parse t inst.tol data with
  | error e => rfl
  | ok p =>
    simp only []
    split
    · rfl
    · split
      · rfl
      · first | rfl | simp only [hov]

/-- a code the full decode returns has every `_parameters` field, in width -/
theorem decodeFull_fields (t : Tables) (tol : Match.Tol) (data : List Int) (c : CodeV)
    (h : (decodeFull t { last := none, tol := tol } data []).result = .ok c) :
    ∃ V : String × Nat × Nat → Nat, c.fields = t.params.map (fun prm => (prm.1, V prm)) ∧
      ∀ prm, V prm < 2 ^ (prm.2.2 - prm.2.1 + 1) := by
  unfold decodeFull at h
  simp only [] at h
  cases hp : parse t tol data with
  | error e => simp [hp] at h
  | ok p =>
    simp only [hp] at h
    split at h
    · simp at h
    · split at h
      · simp at h
      · refine ⟨fun prm => fieldValue t.order p.bits prm.2.1 prm.2.2, ?_, ?_⟩
        · split at h
          · injection h with h; rw [← h]; rfl
          · injection h with h; rw [← h]; rfl
        · intro prm
          exact IRModel.Props.C19.new_wf _ _

/-! ### expressions that do not mention the held code -/

theorem eval_noLast (env env' : Env) (hf : env.fields = env'.fields) (hp : env.params = env'.params) :
    ∀ e, noLast e = true → eval env e = eval env' e := by
  intro e
  induction e with
  | param n => intro _; simp only [eval, hp]
  | field n => intro _; simp only [eval, hf]
  | lastfield n => intro h; simp [noLast] at h
  | const k => intro _; rfl
  | mk e w ih => intro h; simp only [noLast] at h; simp only [eval, ih h]
  | mkd e ih => intro h; simp only [noLast] at h; simp only [eval, ih h]
  | neg e ih => intro h; simp only [noLast] at h; simp only [eval, ih h]
  | pos e ih => intro h; simp only [noLast] at h; simp only [eval, ih h]
  | abs e ih => intro h; simp only [noLast] at h; simp only [eval, ih h]
  | inv e ih => intro h; simp only [noLast] at h; simp only [eval, ih h]
  | rev e ih => intro h; simp only [noLast] at h; simp only [eval, ih h]
  | invbits e nb ih => intro h; simp only [noLast] at h; simp only [eval, ih h]
  | revbits e nb ih => intro h; simp only [noLast] at h; simp only [eval, ih h]
  | slice e s st sp ih => intro h; simp only [noLast] at h; simp only [eval, ih h]
  | popcount e ih => intro h; simp only [noLast] at h; simp only [eval, ih h]
  | bit e i ih => intro h; simp only [noLast] at h; simp only [eval, ih h]
  | bin op a b iha ihb => intro h; simp only [noLast, Bool.and_eq_true] at h; simp only [eval, iha h.1, ihb h.2]
  | ibin op a b iha ihb => intro h; simp only [noLast, Bool.and_eq_true] at h; simp only [eval, iha h.1, ihb h.2]
  | shl a b iha ihb => intro h; simp only [noLast, Bool.and_eq_true] at h; simp only [eval, iha h.1, ihb h.2]
  | shr a b iha ihb => intro h; simp only [noLast, Bool.and_eq_true] at h; simp only [eval, iha h.1, ihb h.2]

theorem evalCond_noLast (env env' : Env) (hf : env.fields = env'.fields) (hp : env.params = env'.params) (le le' : Bool) :
    ∀ c, noLastCond c = true → evalCond env le c = evalCond env' le' c := by
  intro c
  induction c with
  | cmp op a b =>
    intro h; simp only [noLastCond, Bool.and_eq_true] at h
    simp only [evalCond, eval_noLast env env' hf hp a h.1, eval_noLast env env' hf hp b h.2]
  | lastEq => intro h; simp [noLastCond] at h
  | not c ih => intro h; simp only [noLastCond] at h; simp only [evalCond, ih h]
  | nbitsNe0 a => intro h; simp only [noLastCond] at h; simp only [evalCond, eval_noLast env env' hf hp a h]

/-- every decision on a path of a tree without held-code references is such a condition -/
theorem paths_noLast : ∀ tr, noLastTree tr = true → ∀ p ∈ paths tr,
    (∀ cb ∈ p.1, noLastCond cb.1 = true) ∧ p.2.2 ≠ .retLast := by
  intro tr
  induction tr with
  | leaf e o =>
    intro h p hp
    simp only [paths, List.mem_singleton] at hp
    subst hp
    refine ⟨by simp, ?_⟩
    cases o <;> simp_all [noLastTree]
  | ite c t e iht ihe =>
    intro h p hp
    simp only [noLastTree, Bool.and_eq_true] at h
    simp only [paths, List.mem_append, List.mem_map] at hp
    rcases hp with ⟨q, hq, rfl⟩ | ⟨q, hq, rfl⟩
    · obtain ⟨h1, h2⟩ := iht h.1.2 q hq
      exact ⟨by intro cb hcb; rcases List.mem_cons.mp hcb with rfl | h'; exact h.1.1; exact h1 cb h', h2⟩
    · obtain ⟨h1, h2⟩ := ihe h.2 q hq
      exact ⟨by intro cb hcb; rcases List.mem_cons.mp hcb with rfl | h'; exact h.1.1; exact h1 cb h', h2⟩

/-! ### C07 at wrapper level -/

/-- a code of this protocol: every `_parameters` field present, in width -/
def WFCode (t : Tables) (l : CodeV) : Prop :=
  ∃ V : String × Nat × Nat → Nat, l.fields = t.params.map (fun prm => (prm.1, V prm)) ∧
    ∀ prm ∈ t.params, V prm < 2 ^ widthP prm

/-- what `decodeW` makes of the tree's answer when the code `l` is held -/
def finishHeld (t : Tables) (c l : CodeV) : Except PyErr Res → Except PyErr CodeV
  | .error e => .error e
  | .ok .last => .ok l
  | .ok (.code fs) =>
    .ok { c with fields := t.params.filterMap (fun prm => (fs.find? (fun p => p.1 == prm.1)).map (fun p => (prm.1, p.2.v.toNat))) }

theorem decodeW_held_result (t : Tables) (w : Wrapper) (inst : Inst) (l : CodeV) (hl : inst.last = some l)
    (data : List Int) (c : CodeV) (effs0 : List Effect)
    (hb : baseDecode t inst data = { result := .ok c, inst := inst, effects := effs0, isLast := false }) :
    (decodeW t w inst data).result =
      finishHeld t c l (runTree { params := fun _ => 0, fields := fieldEnv t c, last := fieldEnv t l } (sameCode t l c) w.treeSome).1 := by
  unfold decodeW
  simp only [hb, hl, Bool.false_or]
  generalize runTree { params := fun _ => 0, fields := fieldEnv t c, last := fieldEnv t l } (sameCode t l c) w.treeSome = rt
  obtain ⟨r, effs⟩ := rt
  cases r with
  | error e => rfl
  | ok res =>
    cases res with
    | last => rfl
    | code fs => rfl

theorem decodeW_base_error (t : Tables) (w : Wrapper) (inst : Inst) (data : List Int) (e : PyErr)
    (hb : (baseDecode t inst data).result = .error e) : (decodeW t w inst data).result = .error e := by
  unfold decodeW
  simp only [hb]

structure C07Spec (t : Tables) (w : Wrapper) : Prop where
  ov     : t.decodeOverridden = true
  rb     : t.repeatBursts = []
  names  : ∀ prm ∈ t.params, t.params.find? (fun q => q.1 == prm.1) = some prm ∧ prm.2.1 ≤ prm.2.2
  safeN  : treeSafe (widthsOf t) [] w.treeNone = true
  noLastN : noLastTree w.treeNone = true
  safeS  : treeSafe (widthsOf t) (widthsOf t) w.treeSome = true
  pairs  : ∀ Ps ∈ paths w.treeSome, ∀ Pn ∈ paths w.treeNone, opposite Ps.1 Pn.1 = true ∨ outcomeAgree t Ps Pn = true

theorem retIdentity_spec (t : Tables) (fs : List (String × WExp)) (h : retIdentity t fs = true) :
    (∀ prm ∈ t.params, ∃ f ∈ fs, f.1 = prm.1) ∧ (∀ f ∈ fs, ∃ prm ∈ t.params, prm.1 = f.1 ∧ f.2 = .field prm.1) := by
  simp only [retIdentity, Bool.and_eq_true, List.all_eq_true, List.any_eq_true, beq_iff_eq] at h
  refine ⟨?_, ?_⟩
  · intro prm hm
    obtain ⟨f, hf, hn, _⟩ := h.1 prm hm
    exact ⟨f, hf, hn⟩
  · intro f hf
    obtain ⟨prm, hm, hn, he⟩ := h.2 f hf
    exact ⟨prm, hm, hn, he⟩

theorem identity_get (t : Tables) (l c : CodeV) (h : sameCode t l c = true) (k : String)
    (hk : t.codeOrder.any (fun p => p.1 == k) = true) : l.get k = c.get k := by
  simp only [sameCode, identity, beq_iff_eq] at h
  simp only [List.any_eq_true, beq_iff_eq] at hk
  obtain ⟨p, hp, rfl⟩ := hk
  have := congrArg (fun (f : List (Option Nat)) => f) h
  -- pointwise on the code order
  have hmap : ∀ (ps : List (String × Nat)), ps.map (fun p => l.get p.1) = ps.map (fun p => c.get p.1) → ∀ q ∈ ps, l.get q.1 = c.get q.1 := by
    intro ps
    induction ps with
    | nil => intro _ q hq; simp at hq
    | cons a ps ih =>
      intro he q hq
      simp only [List.map_cons, List.cons.injEq] at he
      rcases List.mem_cons.mp hq with rfl | hq'
      · exact he.1
      · exact ih he.2 q hq'
  exact hmap t.codeOrder h p hp

theorem fieldEnv_some (t : Tables) (c : CodeV) (k : String) (y : IWV) (h : fieldEnv t c k = some y) :
    ∃ v : Nat, c.get k = some v ∧ y.v = (v : Int) := by
  unfold fieldEnv at h
  cases hf : t.params.find? (fun p => p.1 == k) with
  | none => simp [hf] at h
  | some p =>
    simp only [hf] at h
    cases hg : c.get k with
    | none => simp [hg] at h
    | some v =>
      simp only [hg] at h
      have h' : some ({ v := (v : Int), n := (p.2.2 : Int) + 1 - p.2.1 } : IWV) = some y := h
      injection h' with h'
      exact ⟨v, rfl, by rw [← h']⟩

theorem sameOnPath_sound (t : Tables) (l c : CodeV) (env : Env) (hf : env.fields = fieldEnv t c) (hlast : env.last = fieldEnv t l)
    (P : List (Cond × Bool)) (hP : ∀ cb ∈ P, evalCond env (sameCode t l c) cb.1 = .ok cb.2)
    (k : String) (h : sameOnPath t P k = true) : l.get k = c.get k := by
  unfold sameOnPath at h
  simp only [Bool.or_eq_true, Bool.and_eq_true, List.any_eq_true, beq_iff_eq, Bool.not_eq_true'] at h
  rcases h with ⟨⟨cb, hcb, hle⟩, hk⟩ | ⟨cb, hcb, hm⟩
  · have hev := hP cb hcb
    have hs : sameCode t l c = true := by
      rcases hle with ⟨h1, h2⟩ | ⟨h1, h2⟩
      · rw [h1] at hev; simp only [evalCond] at hev; injection hev with hev; rw [hev, h2]
      · rw [h1] at hev; simp only [evalCond, bind, Except.bind, pure, Except.pure] at hev
        injection hev with hev
        rw [h2] at hev
        simpa using hev
    exact identity_get t l c hs k (by simp only [List.any_eq_true, beq_iff_eq]; exact hk)
  · have hev := hP cb hcb
    obtain ⟨cnd, b⟩ := cb
    cases cnd with
    | cmp op a bb =>
      simp only [Bool.and_eq_true, Bool.or_eq_true, beq_iff_eq, Bool.not_eq_true'] at hm
      obtain ⟨hop, hside⟩ := hm
      simp only [evalCond] at hev
      cases hea : eval env a with
      | error err => simp [hea, bind, Except.bind] at hev
      | ok xa =>
        cases heb : eval env bb with
        | error err => simp [hea, heb, bind, Except.bind] at hev
        | ok xb =>
          simp only [hea, heb, bind, Except.bind, pure, Except.pure] at hev
          injection hev with hev
          have heq : xa.v = xb.v := by
            rcases hop with ⟨rfl, rfl⟩ | ⟨rfl, rfl⟩
            · simpa [cmpVal] using hev
            · simpa [cmpVal] using hev
          have key : ∀ (xl xc : IWV), eval env (.lastfield k) = .ok xl → eval env (.field k) = .ok xc → xl.v = xc.v → l.get k = c.get k := by
            intro xl xc h1 h2 h3
            simp only [eval, hlast] at h1
            simp only [eval, hf] at h2
            cases hfl : fieldEnv t l k with
            | none => simp [hfl] at h1
            | some yl =>
              cases hfc : fieldEnv t c k with
              | none => simp [hfc] at h2
              | some yc =>
                simp only [hfl] at h1; simp only [hfc] at h2
                injection h1 with h1; injection h2 with h2
                obtain ⟨vl, hgl, hvl⟩ := fieldEnv_some t l k yl hfl
                obtain ⟨vc, hgc, hvc⟩ := fieldEnv_some t c k yc hfc
                rw [hgl, hgc]
                have : (vl : Int) = (vc : Int) := by rw [← hvl, ← hvc, h1, h2, h3]
                congr 1
                exact_mod_cast this
          rcases hside with ⟨rfl, rfl⟩ | ⟨rfl, rfl⟩
          · exact key xa xb hea heb heq
          · exact key xb xa heb hea heq.symm
    | lastEq => simp at hm
    | not c' => simp at hm
    | nbitsNe0 a => simp at hm

theorem opposite_absurd (envS envN : Env) (hf : envS.fields = envN.fields) (hp : envS.params = envN.params) (leS : Bool)
    (Ps Pn : List (Cond × Bool))
    (hS : ∀ cb ∈ Ps, evalCond envS leS cb.1 = .ok cb.2) (hN : ∀ cb ∈ Pn, evalCond envN false cb.1 = .ok cb.2)
    (hnl : ∀ cb ∈ Pn, noLastCond cb.1 = true) : opposite Ps Pn = false := by
  cases ho : opposite Ps Pn with
  | false => rfl
  | true =>
    exfalso
    simp only [opposite, List.any_eq_true, Bool.and_eq_true, decide_eq_true_eq, bne_iff_ne, ne_eq] at ho
    obtain ⟨cb, hcb, cb', hcb', heq, hne⟩ := ho
    have h1 := hS cb hcb
    have h2 := hN cb' hcb'
    rw [← heq] at h2
    rw [evalCond_noLast envS envN hf hp leS false cb.1 (by rw [heq]; exact hnl cb' hcb')] at h1
    rw [h1] at h2
    injection h2 with h2
    exact hne h2

/-- **C07 at wrapper level** (specification form): with any well-formed code held, `decode()` of a frame longer than a
    repeat marker gives the same rejection as a decoder without history, or a code reporting the same parameters. -/
theorem C07_wrapper_spec (t : Tables) (w : Wrapper) (hS : C07Spec t w) (inst : Inst) (l : CodeV) (hl : inst.last = some l)
    (hwf : WFCode t l) (data : List Int) (hlong : data.length > t.repeatLeadIn.length + t.repeatLeadOut.length) :
    match (decodeP t w inst data).result, (decodeP t w { last := none, tol := inst.tol } data).result with
    | .ok c, .ok c' => ∀ ep ∈ t.encodeParams, c.get (Props.C01.viewKey ep.1) = c'.get (Props.C01.viewKey ep.1)
    | .error e, .error e' => e = e'
    | _, _ => False := by
  have hdp : ∀ i, decodeP t w i data = decodeW t w i data := by intro i; unfold decodeP; rw [if_pos hS.ov]
  rw [hdp, hdp]
  have hbH : baseDecode t inst data = { result := (decodeFull t { last := none, tol := inst.tol } data []).result, inst := inst, effects := [], isLast := false } := by
    rw [baseDecode_long t inst data hS.rb hlong, decodeFull_overridden t inst data hS.ov]
  have hbF : (baseDecode t { last := none, tol := inst.tol } data).result = (decodeFull t { last := none, tol := inst.tol } data []).result := rfl
  cases hR : (decodeFull t { last := none, tol := inst.tol } data []).result with
  | error e =>
    rw [decodeW_base_error t w inst data e (by rw [hbH]; exact hR), decodeW_base_error t w _ data e (by rw [hbF]; exact hR)]
  | ok c =>
    rw [hR] at hbH
    rw [decodeW_held_result t w inst l hl data c [] hbH, decodeW_fresh_result t w inst.tol data c (by rw [hbF]; exact hR)]
    -- environments
    obtain ⟨V, hcV, hVlt⟩ := decodeFull_fields t inst.tol data c hR
    obtain ⟨VL, hlV, hVLlt⟩ := hwf
    have hnames' : ∀ prm ∈ t.params, t.params.find? (fun q => q.1 == prm.1) = some prm ∧ prm.2.1 ≤ prm.2.2 + 1 :=
      fun prm hm => ⟨(hS.names prm hm).1, by have := (hS.names prm hm).2; omega⟩
    have hVlt' : ∀ prm ∈ t.params, V prm < 2 ^ widthP prm := by
      intro prm hm
      have h1 := hVlt prm
      have h2 := (hS.names prm hm).2
      have : prm.2.2 - prm.2.1 + 1 = widthP prm := by unfold widthP; omega
      rw [this] at h1; exact h1
    have hGN := goodEnv_decoded t c V hcV hnames' hVlt' (fun _ => 0) (fun _ => by omega)
    have hGL := goodEnv_decoded t l VL hlV hnames' hVLlt (fun _ => 0) (fun _ => by omega)
    have hGS : GoodEnv (widthsOf t) { params := fun _ => 0, fields := fieldEnv t c, last := fieldEnv t l } :=
      ⟨fun _ => by simp, hGN.fields⟩
    have hLS : LastOK (widthsOf t) { params := fun _ => 0, fields := fieldEnv t c, last := fieldEnv t l } := hGL.fields
    obtain ⟨Ps, hPs, hcS, hrS⟩ := runTree_path (widthsOf t) (widthsOf t) _ hGS hLS (sameCode t l c) w.treeSome hS.safeS
    obtain ⟨Pn, hPn, hcN, hrN⟩ := runTree_path (widthsOf t) [] _ hGN (lastOK_nil _) false w.treeNone hS.safeN
    rw [hrS, hrN]
    obtain ⟨hnlN, hnotLast⟩ := paths_noLast w.treeNone hS.noLastN Pn hPn
    have hopp := opposite_absurd { params := fun _ => 0, fields := fieldEnv t c, last := fieldEnv t l } { params := fun _ => 0, fields := fieldEnv t c, last := fun _ => none } rfl rfl (sameCode t l c) Ps.1 Pn.1 hcS hcN hnlN
    have hagree : outcomeAgree t Ps Pn = true := by
      rcases hS.pairs Ps hPs Pn hPn with h | h
      · rw [hopp] at h; exact absurd h (by simp)
      · exact h
    obtain ⟨cS, eS, oS⟩ := Ps
    obtain ⟨cN, eN, oN⟩ := Pn
    dsimp only at hagree hcS hcN hnotLast ⊢
    cases oS with
    | retOther => cases oN <;> simp [outcomeAgree] at hagree
    | raise a =>
      cases oN with
      | raise b =>
        simp only [outcomeAgree, decide_eq_true_eq] at hagree
        simp only [runTree, finishHeld, finishFresh, hagree]
      | ret _ _ => simp [outcomeAgree] at hagree
      | retLast => simp [outcomeAgree] at hagree
      | retOther => simp [outcomeAgree] at hagree
    | ret fs same =>
      cases oN with
      | ret fn same' =>
        simp only [outcomeAgree, Bool.and_eq_true] at hagree
        obtain ⟨hallS, hfsS⟩ := retIdentity_spec t fs hagree.1
        obtain ⟨hallN, hfsN⟩ := retIdentity_spec t fn hagree.2
        rw [ret_leaf_eval t c V hcV hnames' _ rfl _ eS fs same hfsS, ret_leaf_eval t c V hcV hnames' _ rfl _ eN fn same' hfsN]
        simp only [finishHeld, finishFresh]
        rw [ret_fields_eq t c V hcV hnames' fs hallS, ret_fields_eq t c V hcV hnames' fn hallN]
        intro ep _; rfl
      | raise _ => simp [outcomeAgree] at hagree
      | retLast => simp [outcomeAgree] at hagree
      | retOther => simp [outcomeAgree] at hagree
    | retLast =>
      cases oN with
      | ret fn same' =>
        simp only [outcomeAgree, Bool.and_eq_true, List.all_eq_true] at hagree
        obtain ⟨hallN, hfsN⟩ := retIdentity_spec t fn hagree.1
        rw [ret_leaf_eval t c V hcV hnames' _ rfl _ eN fn same' hfsN]
        simp only [runTree, finishHeld, finishFresh]
        rw [ret_fields_eq t c V hcV hnames' fn hallN]
        intro ep hep
        exact sameOnPath_sound t l c _ rfl rfl cS hcS _ (hagree.2 ep hep)
      | raise _ => simp [outcomeAgree] at hagree
      | retLast => exact absurd rfl hnotLast
      | retOther => simp [outcomeAgree] at hagree

theorem c07OK_spec (t : Tables) (w : Wrapper) (h : c07OK t w = true) : C07Spec t w := by
  unfold c07OK at h
  simp only [Bool.and_eq_true, List.all_eq_true, List.isEmpty_iff, decide_eq_true_eq, beq_iff_eq, Bool.or_eq_true] at h
  obtain ⟨⟨⟨⟨⟨⟨⟨_, hov⟩, hrb⟩, hnames⟩, hsN⟩, hnl⟩, hsS⟩, hpairs⟩ := h
  exact ⟨hov, hrb, hnames, hsN, hnl, hsS, hpairs⟩

end IRModel.Wrap
