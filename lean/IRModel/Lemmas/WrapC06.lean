import IRModel.Lemmas.WrapC08
import IRModel.Lemmas.WrapC03
/-! C06 at wrapper level, full-frame repeat style: composition of the C01, C03, C07 and C08 wrapper theorems. -/
namespace IRModel.Wrap
open IRModel IRModel.Py IRModel.Encode IRModel.Proto IRModel.Props.EngineThm IRModel.Engine

/-- the frame list of a trace whose frames are all the first packet -/
theorem encodeFrames_repeat (t : Tables) (w : Wrapper) (u : String → Int) (rc : Nat) (tr : EncTrace)
    (htr : w.enc[rc]? = some tr) (p0 : Packet) (rest : List Packet) (hp : tr.packets = p0 :: rest)
    (hfr : ∀ r ∈ tr.frames, r = FrameRef.packet 0) (fs : List (List Int)) (h : encodeFrames t w u rc = .ok fs) :
    ∃ f, buildTraced t { params := u, fields := fun _ => none, last := fun _ => none } p0 = .ok f ∧
      fs = List.replicate tr.frames.length f := by
  simp only [encodeFrames, htr, hp, List.mapM_cons, bind, Except.bind] at h
  cases hb : buildTraced t { params := u, fields := fun _ => none, last := fun _ => none } p0 with
  | error e => simp [hb] at h
  | ok f =>
    simp only [hb] at h
    cases hm : rest.mapM (buildTraced t { params := u, fields := fun _ => none, last := fun _ => none }) with
    | error e => simp [hm] at h
    | ok fr =>
      simp only [hm, pure, Except.pure] at h
      refine ⟨f, rfl, ?_⟩
      -- every frame looks up index 0
      have : ∀ (l : List FrameRef), (∀ r ∈ l, r = FrameRef.packet 0) → ∀ out,
          l.mapM (fun r => match r with
            | FrameRef.packet k => (match (f :: fr)[k]? with | some g => Except.ok g | none => Except.error PyErr.indexError)
            | FrameRef.lit ds => Except.ok ds) = Except.ok out → out = List.replicate l.length f := by
        intro l
        induction l with
        | nil => intro _ out ho; simp only [List.mapM_nil, pure, Except.pure] at ho; injection ho with ho; simp [← ho]
        | cons a l ih =>
          intro ha out ho
          have h0 : a = FrameRef.packet 0 := ha a (by simp)
          subst h0
          simp only [List.mapM_cons, List.getElem?_cons_zero, bind, Except.bind] at ho
          cases hl : l.mapM (fun r => match r with
            | FrameRef.packet k => (match (f :: fr)[k]? with | some g => Except.ok g | none => Except.error PyErr.indexError)
            | FrameRef.lit ds => Except.ok ds) with
          | error e => simp [hl] at ho
          | ok o' =>
            simp only [hl, pure, Except.pure] at ho
            injection ho with ho
            rw [← ho, ih (fun r hr => ha r (by simp [hr])) o' hl]
            simp [List.replicate_succ]
      exact this tr.frames hfr fs h

/-- feeding the same input `n` times -/
theorem runInputs_replicate (t : Tables) (w : Wrapper) (f : List Int) (P : Except PyErr CodeV → Prop) (I : Inst → Prop)
    (hstep : ∀ inst, I inst → P (decodeP t w inst f).result ∧ I (decodeP t w inst f).inst) :
    ∀ n inst, I inst → ∀ r ∈ runInputs t w inst (List.replicate n f), P r := by
  intro n
  induction n with
  | zero => intro inst _ r hr; simp [runInputs] at hr
  | succ n ih =>
    intro inst hI r hr
    simp only [List.replicate_succ, runInputs, List.mem_cons] at hr
    rcases hr with rfl | hr
    · exact (hstep inst hI).1
    · exact ih _ (hstep inst hI).2 r hr

theorem applyEffs_tol (c : CodeV) : ∀ (effs : List Eff) (i : Inst) (acc : List Effect), (applyEffs c effs i acc).1.tol = i.tol := by
  intro effs
  induction effs with
  | nil => intro i acc; rfl
  | cons e effs ih =>
    intro i acc
    cases e with
    | setLastCode => simp only [applyEffs]; exact ih _ _
    | setLastNone => simp only [applyEffs]; exact ih _ _
    | setLastLast => simp only [applyEffs]; exact ih _ _
    | stopLast =>
      simp only [applyEffs]
      cases i.last with
      | none => exact ih _ _
      | some l => exact ih _ _

theorem decodeW_tol (t : Tables) (w : Wrapper) (hov : t.decodeOverridden = true) (inst : Inst) (data : List Int) :
    (decodeW t w inst data).inst.tol = inst.tol := by
  have hb := baseDecode_inst_overridden t inst data hov
  cases hr : (baseDecode t inst data).result with
  | error e =>
    have : decodeW t w inst data = baseDecode t inst data := by unfold decodeW; simp only [hr]
    rw [this, hb]
  | ok c =>
    unfold decodeW
    simp only [hr]
    generalize runTree _ _ _ = rt
    obtain ⟨r, effs⟩ := rt
    cases r with
    | error e => simp only []; rw [applyEffs_tol, hb]
    | ok res =>
      cases res with
      | last =>
        cases inst.last with
        | none => simp only []; rw [applyEffs_tol, hb]
        | some l => simp only []; rw [applyEffs_tol, hb]
      | code fs => simp only []; rw [applyEffs_tol, hb]

/-- the first frame is longer than a repeat marker can be -/
theorem firstFrame_length (t : Tables) (w : Wrapper) (tol : Match.Tol) (htol : tol.ok) (hw : EngineRT t tol)
    (p : Packet) (hS : C01Spec t w p) (u : String → Int) (hu : ∀ n, 0 ≤ u n) (f : List Int)
    (hf : firstFrame t w u = .ok f) : t.leadIn.length + 2 ≤ f.length := by
  obtain ⟨envU, henvU⟩ : ∃ e : Env, e = { params := u, fields := fun _ => none, last := fun _ => none } := ⟨_, rfl⟩
  have hu' : ∀ n, 0 ≤ envU.params n := by rw [henvU]; exact hu
  have hitems := packetItems_eq t p envU hu' hS.args hS.fields
  obtain ⟨frame, hbuild, _, _, _, c, _, _, _, hlen⟩ := hw (t.params.map (kwVal p envU)) (by simp)
  rw [fieldsOf_map] at hbuild
  rw [firstFrame_of_packet t w u p hS.first, ← henvU] at hf
  simp only [buildTraced, hitems, bind, Except.bind] at hf
  rw [hbuild] at hf
  injection hf with hf
  rw [← hf]; exact hlen

/-- **C06 at wrapper level** (full-frame repeat style): the whole key-held sequence on one fresh decoder -/
theorem C06_wrapper_spec (t : Tables) (w : Wrapper) (tol : Match.Tol) (htol : tol.ok) (hw : EngineRT t tol)
    (h1 : c01OK t w = true) (h3 : c03OK t w = true) (h6 : c06OK t w = true) (h7 : c07OK t w = true) (h8 : c08OK t w = true)
    (u : String → Int) (hu : ∀ n, 0 ≤ u n) (hr : ∀ ep ∈ t.encodeParams, u ep.1 ≤ ep.2.2) (rc : Nat) (hrc : rc < 3) :
    ∃ fs, encodeFrames t w u rc = .ok fs ∧ fs ≠ [] ∧
      ∀ r ∈ runInputs t w { last := none, tol := tol } fs,
        ∃ c, r = .ok c ∧ ∀ ep ∈ t.encodeParams, c.get (Props.C01.viewKey ep.1) = some (u ep.1).toNat := by
  obtain ⟨p, hS1⟩ := c01OK_spec t w h1
  have hS7 := c07OK_spec t w h7
  have hS8 := c08OK_spec t w h8
  -- the trace
  simp only [c03OK, Bool.and_eq_true, beq_iff_eq, List.all_eq_true, decide_eq_true_eq] at h3
  obtain ⟨⟨⟨⟨⟨hlen3, hall3⟩, _⟩, _⟩, _⟩, _⟩ := h3
  have hlt : rc < w.enc.length := by omega
  have htr : w.enc[rc]? = some w.enc[rc] := List.getElem?_eq_getElem hlt
  obtain ⟨fs, hfs, hfslen, hne, _⟩ := C03_trace t tol htol hw w rc w.enc[rc] htr (hall3 _ (List.getElem_mem hlt)) u hu
  refine ⟨fs, hfs, hne, ?_⟩
  -- all frames are the first packet
  unfold c06OK at h6
  rw [hS1.first] at h6
  simp only [Bool.and_eq_true, List.all_eq_true, decide_eq_true_eq] at h6
  obtain ⟨hall6, hrl⟩ := h6
  obtain ⟨hhead, hframes⟩ := hall6 _ (List.getElem_mem hlt)
  obtain ⟨rest, hpk⟩ : ∃ rest, w.enc[rc].packets = p :: rest := by
    cases hp : w.enc[rc].packets with
    | nil => rw [hp] at hhead; simp at hhead
    | cons a l => rw [hp] at hhead; simp at hhead; exact ⟨l, by rw [hhead]⟩
  obtain ⟨f, hbf, hrep⟩ := encodeFrames_repeat t w u rc w.enc[rc] htr p rest hpk hframes fs hfs
  have hff : firstFrame t w u = .ok f := by rw [firstFrame_of_packet t w u p hS1.first]; exact hbf
  -- one frame, any well-formed state
  obtain ⟨frame, c0, hff', hdec0, hview0⟩ := C01_wrapper_spec t w tol htol hw p hS1 u hu hr
  have hfe : frame = f := by rw [hff] at hff'; injection hff' with h; exact h.symm
  subst hfe
  have hlong : frame.length > t.repeatLeadIn.length + t.repeatLeadOut.length := by
    have := firstFrame_length t w tol htol hw p hS1 u hu frame hff
    omega
  rw [hrep]
  apply runInputs_replicate t w frame
    (fun r => ∃ c, r = .ok c ∧ ∀ ep ∈ t.encodeParams, c.get (Props.C01.viewKey ep.1) = some (u ep.1).toNat)
    (fun inst => inst.tol = tol ∧ ∀ l, inst.last = some l → WFCode t l)
  · intro inst ⟨htolI, hwfI⟩
    have hdp : decodeP t w inst frame = decodeW t w inst frame := by unfold decodeP; rw [if_pos hS8.ov]
    refine ⟨?_, ?_, ?_⟩
    · cases hl : inst.last with
      | none =>
        have hinst : inst = { last := none, tol := tol } := by
          cases inst with
          | mk la to => simp only at hl htolI; subst hl; subst htolI; rfl
        rw [hinst]
        exact ⟨c0, hdec0, hview0⟩
      | some l =>
        have h7' := C07_wrapper_spec t w hS7 inst l hl (hwfI l hl) frame hlong
        rw [htolI, hdec0] at h7'
        cases hres : (decodeP t w inst frame).result with
        | error e => rw [hres] at h7'; exact absurd h7' (by simp)
        | ok c =>
          rw [hres] at h7'
          simp only [] at h7'
          exact ⟨c, rfl, fun ep hep => by rw [h7' ep hep]; exact hview0 ep hep⟩
    · rw [hdp, decodeW_tol t w hS8.ov]; exact htolI
    · intro l hl
      rw [hdp] at hl
      exact decodeW_last t w hS8 inst hwfI frame l hl
  · exact ⟨rfl, by intro l hl; simp at hl⟩

end IRModel.Wrap
