import IRModel.Lemmas.WrapSound
import IRModel.Props.EngineThm
import IRModel.Lemmas.EngineB
/-! Glue between the traced wrappers and the engine theorems: what `_build_packet` receives from a traced `encode()`,
what the traced `decode()` tree sees after the engine round trip, and the specification form of `c01OK`. -/
namespace IRModel.Wrap
open IRModel IRModel.Py IRModel.Encode IRModel.Proto IRModel.Props.EngineThm IRModel.Engine

abbrev widthP (prm : String × Nat × Nat) : Nat := prm.2.2 + 1 - prm.2.1

/-- the value the encoder stores in the field of `_parameters` entry `prm` -/
def kwVal (p : Packet) (env : Env) (prm : String × Nat × Nat) : Nat :=
  match p.kwargs.find? (fun k => k.1 == prm.1) with
  | some k => match eval env k.2.2 with
    | .ok x => (x.v % 2 ^ widthP prm).toNat
    | .error _ => 0
  | none => 0

/-- per-field hypothesis extracted from `c01OK` -/
def FieldOK (p : Packet) (prm : String × Nat × Nat) : Prop :=
  ∃ k, p.kwargs.find? (fun k => k.1 == prm.1) = some k ∧ safe [] [] k.2.2 = true ∧
    (k.2.1 = true → staticW [] k.2.2 = some (widthP prm))

theorem kw_eval (p : Packet) (env : Env) (hp : ∀ n, 0 ≤ env.params n) (prm : String × Nat × Nat)
    (h : FieldOK p prm) :
    ∃ k x, p.kwargs.find? (fun k => k.1 == prm.1) = some k ∧ eval env k.2.2 = .ok x ∧ 0 ≤ x.v ∧
      kwVal p env prm = (x.v % 2 ^ widthP prm).toNat ∧
      (k.2.1 = true → x.n = (widthP prm : Int) ∧ x.v < 2 ^ widthP prm) := by
  obtain ⟨k, hk, hs, hw⟩ := h
  obtain ⟨x, hx, hxv⟩ := safe_eval [] env (goodEnv_nil env hp) k.2.2 hs
  refine ⟨k, x, hk, hx, hxv, by simp only [kwVal, hk, hx], ?_⟩
  intro hiw
  have := staticW_eval [] env (goodEnv_nil env hp) k.2.2 hs _ (hw hiw) x hx
  exact ⟨this.1, this.2.2⟩

theorem fieldItem_of (x : IWV) (w : Nat) (hn : x.n = (w : Int)) :
    fieldItem x = .field (x.v % 2 ^ w).toNat w := by
  simp only [fieldItem, hn, Int.toNat_natCast]

theorem item_of_kw (p : Packet) (env : Env) (hp : ∀ n, 0 ≤ env.params n) (prm : String × Nat × Nat)
    (h : FieldOK p prm) :
    ∃ k, p.kwargs.find? (fun k => k.1 == prm.1) = some k ∧
      kwItem env (prm, k) = .ok (.field (kwVal p env prm) (widthP prm)) := by
  obtain ⟨k, x, hk, hx, hxv, hval, hiw⟩ := kw_eval p env hp prm h
  refine ⟨k, hk, ?_⟩
  simp only [kwItem, hx, bind, Except.bind, pure, Except.pure]
  by_cases hb : k.2.1 = true
  · simp only [hb, if_true]
    rw [fieldItem_of x _ (hiw hb).1, hval]
  · simp only [hb, Bool.false_eq_true, if_false]
    have hw : ((prm.2.2 : Int) + 1 - prm.2.1).toNat = widthP prm := by unfold widthP; omega
    obtain ⟨h1, h2, _, _⟩ := mkIW_some_nonneg hxv ((prm.2.2 : Int) + 1 - prm.2.1)
    simp only [fieldItem, h1, h2, hw, Int.emod_emod_of_dvd _ (Int.dvd_refl _), hval]

theorem kw_mapM (p : Packet) (env : Env) (hp : ∀ n, 0 ≤ env.params n) :
    ∀ (ps : List (String × Nat × Nat)), (∀ prm ∈ ps, FieldOK p prm) →
      (ps.filterMap (fun (prm : String × Nat × Nat) =>
        (p.kwargs.find? (fun k => k.1 == prm.1)).map (fun k => (prm, k)))).mapM (kwItem env)
      = .ok (ps.map (fun prm => Item.field (kwVal p env prm) (widthP prm))) := by
  intro ps
  induction ps with
  | nil => intro _; rfl
  | cons prm ps ih =>
    intro h
    obtain ⟨k, hk, hi⟩ := item_of_kw p env hp prm (h prm (by simp))
    have ih' := ih (fun q hq => h q (by simp [hq]))
    simp only [List.filterMap_cons, hk, Option.map_some, List.mapM_cons, hi, ih', bind, Except.bind, pure, Except.pure, List.map_cons]

theorem packetItems_eq (t : Tables) (p : Packet) (env : Env) (hp : ∀ n, 0 ≤ env.params n)
    (hargs : p.args = []) (h : ∀ prm ∈ t.params, FieldOK p prm) :
    packetItems t env p = .ok (t.params.map (fun prm => Item.field (kwVal p env prm) (widthP prm))) := by
  simp only [packetItems, hargs, List.mapM_nil, kwPairs, kw_mapM p env hp t.params h, bind, Except.bind, pure, Except.pure, List.nil_append]

theorem fieldsOf_map (ps : List (String × Nat × Nat)) (v : String × Nat × Nat → Nat) :
    (fieldsOf ps (ps.map v)).map (fun f => Item.field f.1 f.2) = ps.map (fun prm => Item.field (v prm) (widthP prm)) := by
  induction ps with
  | nil => rfl
  | cons a ps ih =>
    simp only [fieldsOf, List.map_cons, List.zipWith_cons_cons] at ih ⊢
    rw [ih]

theorem firstFrame_of_packet (t : Tables) (w : Wrapper) (u : String → Int) (p : Packet)
    (h : firstPacket w = some p) :
    firstFrame t w u = buildTraced t { params := u, fields := fun _ => none, last := fun _ => none } p := by
  unfold firstPacket at h
  unfold firstFrame
  cases he : w.enc[0]? with
  | none => simp [he] at h
  | some tr =>
    simp only [he] at h ⊢
    cases hf : tr.frames.head? with
    | none => simp [hf] at h
    | some r =>
      cases r with
      | lit ds => simp [hf] at h
      | packet k =>
        simp only [hf] at h ⊢
        simp only [h]

/-- what `decodeW` makes of the tree's answer on an instance without history -/
def finishFresh (t : Tables) (c : CodeV) : Except PyErr Res → Except PyErr CodeV
  | .error e => .error e
  | .ok .last => .error .typeError
  | .ok (.code fs) =>
    .ok { c with fields := t.params.filterMap (fun prm => (fs.find? (fun p => p.1 == prm.1)).map (fun p => (prm.1, p.2.v.toNat))) }

/-- `.result` of the wrapper decode on a history-free instance, once the base decoder's answer is known -/
theorem decodeW_fresh_result (t : Tables) (w : Wrapper) (tol : Match.Tol) (data : List Int) (c : CodeV)
    (hb : (baseDecode t { last := none, tol := tol } data).result = .ok c) :
    (decodeW t w { last := none, tol := tol } data).result =
      finishFresh t c (runTree { params := fun _ => 0, fields := fieldEnv t c, last := fun _ => none } false w.treeNone).1 := by
  unfold decodeW
  simp only [hb]
  generalize runTree { params := fun _ => 0, fields := fieldEnv t c, last := fun _ => none } false w.treeNone = rt
  obtain ⟨r, effs⟩ := rt
  cases r with
  | error e => rfl
  | ok res =>
    cases res with
    | last => rfl
    | code fs => rfl

theorem get_of_fields (c : CodeV) (ps : List (String × Nat × Nat)) (V : String × Nat × Nat → Nat)
    (hc : c.fields = ps.map (fun prm => (prm.1, V prm))) (n : String) :
    c.get n = (ps.find? (fun q => q.1 == n)).map V := by
  unfold CodeV.get
  rw [hc, List.find?_map]
  have hfun : ((fun (p : String × Nat) => p.1 == n) ∘ fun (prm : String × Nat × Nat) => (prm.1, V prm)) = (fun q => q.1 == n) := rfl
  rw [hfun]
  cases ps.find? (fun q => q.1 == n) <;> rfl

theorem fieldEnv_of (t : Tables) (c : CodeV) (V : String × Nat × Nat → Nat)
    (hc : c.fields = t.params.map (fun prm => (prm.1, V prm)))
    (prm : String × Nat × Nat) (hf : t.params.find? (fun q => q.1 == prm.1) = some prm) (hw : prm.2.1 ≤ prm.2.2 + 1) :
    fieldEnv t c prm.1 = some ⟨(V prm : Int), (widthP prm : Int)⟩ := by
  unfold fieldEnv
  rw [hf, get_of_fields c t.params V hc prm.1]
  have : (fun (q : String × Nat × Nat) => q.1 == prm.1) = (fun q => q.1 == prm.1) := rfl
  simp only [hf, Option.map_some]
  have : (prm.2.2 : Int) + 1 - prm.2.1 = ((widthP prm : Nat) : Int) := by unfold widthP; omega
  rw [this]
  rfl

theorem fieldEnv_none (t : Tables) (c : CodeV) (n : String) (hf : t.params.find? (fun q => q.1 == n) = none) :
    fieldEnv t c n = none := by
  unfold fieldEnv; rw [hf]

theorem filterMap_eq_map {α β} (l : List α) (G : α → Option β) (g : α → β) (h : ∀ a ∈ l, G a = some (g a)) :
    l.filterMap G = l.map g := by
  induction l with
  | nil => rfl
  | cons a l ih =>
    simp only [List.filterMap_cons, h a (by simp), List.map_cons]
    rw [ih (fun b hb => h b (by simp [hb]))]

theorem mapM_ok {α β ε} (l : List α) (f : α → Except ε β) (g : α → β) (h : ∀ a ∈ l, f a = .ok (g a)) :
    l.mapM f = .ok (l.map g) := by
  induction l with
  | nil => rfl
  | cons a l ih =>
    simp only [List.mapM_cons, h a (by simp), ih (fun b hb => h b (by simp [hb])), bind, Except.bind, pure, Except.pure, List.map_cons]

/-- the value a `return code` leaf with unmodified fields evaluates to, whatever the held code is -/
def retFields (t : Tables) (c : CodeV) (fs : List (String × WExp)) : List (String × IWV) :=
  fs.map (fun q => (q.1, match fieldEnv t c q.1 with | some x => x | none => ⟨0, 0⟩))

theorem ret_leaf_eval (t : Tables) (c : CodeV) (V : String × Nat × Nat → Nat)
    (hc : c.fields = t.params.map (fun prm => (prm.1, V prm)))
    (hnames : ∀ prm ∈ t.params, t.params.find? (fun q => q.1 == prm.1) = some prm ∧ prm.2.1 ≤ prm.2.2 + 1)
    (env : Env) (henv : env.fields = fieldEnv t c) (le : Bool)
    (effs : List Eff) (fs : List (String × WExp)) (same : Bool)
    (hfs : ∀ f ∈ fs, ∃ prm ∈ t.params, prm.1 = f.1 ∧ f.2 = .field prm.1) :
    runTree env le (.leaf effs (.ret fs same)) = (.ok (.code (retFields t c fs)), effs) := by
  have hleaf : fs.mapM (fun (q : String × WExp) => (eval env q.2).map (fun x => (q.1, x))) = .ok (retFields t c fs) := by
    apply mapM_ok
    intro f hf
    obtain ⟨prm, hm, hn, hfe⟩ := hfs f hf
    have hfv := fieldEnv_of t c V hc prm (hnames prm hm).1 (hnames prm hm).2
    rw [hfe]
    simp only [eval, henv, ← hn, hfv]
    rfl
  simp only [runTree]
  rw [hleaf]

theorem ret_fields_eq (t : Tables) (c : CodeV) (V : String × Nat × Nat → Nat)
    (hc : c.fields = t.params.map (fun prm => (prm.1, V prm)))
    (hnames : ∀ prm ∈ t.params, t.params.find? (fun q => q.1 == prm.1) = some prm ∧ prm.2.1 ≤ prm.2.2 + 1)
    (fs : List (String × WExp)) (hall : ∀ prm ∈ t.params, ∃ f ∈ fs, f.1 = prm.1) :
    ({ c with fields := t.params.filterMap (fun prm => ((retFields t c fs).find? (fun p => p.1 == prm.1)).map (fun p => (prm.1, p.2.v.toNat))) } : CodeV) = c := by
  have : t.params.filterMap (fun prm => ((retFields t c fs).find? (fun p => p.1 == prm.1)).map (fun p => (prm.1, p.2.v.toNat)))
      = t.params.map (fun prm => (prm.1, V prm)) := by
    apply filterMap_eq_map
    intro prm hm
    obtain ⟨f, hf, hfn⟩ := hall prm hm
    unfold retFields
    rw [List.find?_map]
    have hfun : ((fun (p : String × IWV) => p.1 == prm.1) ∘ fun (q : String × WExp) => (q.1, match fieldEnv t c q.1 with | some x => x | none => (⟨0, 0⟩ : IWV))) = (fun q => q.1 == prm.1) := rfl
    rw [hfun]
    cases hfd : fs.find? (fun q => q.1 == prm.1) with
    | none =>
      have := List.find?_eq_none.mp hfd f hf
      simp [hfn] at this
    | some f' =>
      have hn' : f'.1 = prm.1 := by simpa using List.find?_some hfd
      have hfv := fieldEnv_of t c V hc prm (hnames prm hm).1 (hnames prm hm).2
      simp only [Option.map_some, hn', hfv, Int.toNat_natCast]
  rw [this, ← hc]

/-- a `return code` leaf that reports the decoded fields returns the base decoder's code -/
theorem leaf_ret_result (t : Tables) (c : CodeV) (V : String × Nat × Nat → Nat)
    (hc : c.fields = t.params.map (fun prm => (prm.1, V prm)))
    (hnames : ∀ prm ∈ t.params, t.params.find? (fun q => q.1 == prm.1) = some prm ∧ prm.2.1 ≤ prm.2.2 + 1)
    (effs : List Eff) (fs : List (String × WExp)) (same : Bool)
    (hall : ∀ prm ∈ t.params, ∃ f ∈ fs, f.1 = prm.1)
    (hfs : ∀ f ∈ fs, ∃ prm ∈ t.params, prm.1 = f.1 ∧ f.2 = .field prm.1) :
    finishFresh t c (runTree { params := fun _ => 0, fields := fieldEnv t c, last := fun _ => none } false (.leaf effs (.ret fs same))).1
      = (.ok c : Except PyErr CodeV) := by
  rw [ret_leaf_eval t c V hc hnames _ rfl false effs fs same hfs]
  simp only [finishFresh]
  rw [ret_fields_eq t c V hc hnames fs hall]

/-- what `c01OK` says, as propositions -/
structure C01Spec (t : Tables) (w : Wrapper) (p : Packet) : Prop where
  first  : firstPacket w = some p
  args   : p.args = []
  names  : ∀ prm ∈ t.params, t.params.find? (fun q => q.1 == prm.1) = some prm ∧ prm.2.1 ≤ prm.2.2 + 1
  fields : ∀ prm ∈ t.params, FieldOK p prm
  tree   : t.decodeOverridden = true → ∃ effs fs same,
             symRun (sigmaOf t p) w.treeNone = some (effs, .ret fs same) ∧
             (∀ prm ∈ t.params, ∃ f ∈ fs, f.1 = prm.1) ∧
             (∀ f ∈ fs, ∃ prm ∈ t.params, prm.1 = f.1 ∧ f.2 = .field prm.1)
  view   : ∀ ep ∈ t.encodeParams, ∃ prm k,
             t.params.find? (fun q => q.1 == Props.C01.viewKey ep.1) = some prm ∧
             p.kwargs.find? (fun k => k.1 == Props.C01.viewKey ep.1) = some k ∧
             isParamExpr k.2.2 ep.1 ep.2.2 = true ∧ ep.2.2 < 2 ^ widthP prm

theorem agree_of_spec (t : Tables) (w : Wrapper) (p : Packet) (hS : C01Spec t w p) (u : String → Int)
    (hu : ∀ n, 0 ≤ u n) (c : CodeV)
    (hc : c.fields = t.params.map (fun prm => (prm.1, kwVal p { params := u, fields := fun _ => none, last := fun _ => none } prm))) :
    Agree (sigmaOf t p) { params := fun _ => 0, fields := fieldEnv t c, last := fun _ => none }
      { params := u, fields := fun _ => none, last := fun _ => none } := by
  refine ⟨rfl, fun _ => rfl, ?_, ?_⟩
  · intro n e hσ
    unfold sigmaOf at hσ
    cases hfp : t.params.find? (fun prm => prm.1 == n) with
    | none => simp [hfp] at hσ
    | some prm =>
      have hmem : prm ∈ t.params := List.mem_of_find?_eq_some hfp
      have hn : prm.1 = n := by simpa using List.find?_some hfp
      subst hn
      obtain ⟨k, x, hk, hx, hxv, hval, hiw⟩ := kw_eval p { params := u, fields := fun _ => none, last := fun _ => none } hu prm (hS.fields prm hmem)
      simp only [hfp, hk] at hσ
      have hfe := fieldEnv_of t c _ hc prm (hS.names prm hmem).1 (hS.names prm hmem).2
      show ∃ x, eval _ e = Except.ok x ∧ fieldEnv t c prm.1 = some x
      rw [hfe]
      by_cases hb : k.2.1 = true
      · simp only [hb, if_true] at hσ
        injection hσ with hσ; subst hσ
        refine ⟨x, hx, ?_⟩
        obtain ⟨h1, h2⟩ := hiw hb
        congr 1
        rw [hval]
        have : x.v % 2 ^ widthP prm = x.v := Int.emod_eq_of_lt hxv h2
        rw [this]
        cases x with
        | mk xv xn =>
          simp only at h1 hxv ⊢
          subst h1
          congr 1
          omega
      · simp only [hb, Bool.false_eq_true, if_false] at hσ
        injection hσ with hσ; subst hσ
        refine ⟨mkIW x.v (some ((prm.2.2 : Int) + 1 - prm.2.1)), by simp only [eval, hx, bind, Except.bind, pure, Except.pure], ?_⟩
        obtain ⟨h1, h2, h3, _⟩ := mkIW_some_nonneg hxv ((prm.2.2 : Int) + 1 - prm.2.1)
        have hw : ((prm.2.2 : Int) + 1 - prm.2.1).toNat = widthP prm := by unfold widthP; omega
        have hw2 : (prm.2.2 : Int) + 1 - prm.2.1 = ((widthP prm : Nat) : Int) := by have := (hS.names prm hmem).2; unfold widthP; omega
        congr 1
        generalize hm : mkIW x.v (some ((prm.2.2 : Int) + 1 - prm.2.1)) = m at h1 h2 h3
        cases m with
        | mk mv mn =>
          simp only at h1 h2 h3
          rw [hval, ← hw, ← h1, h2, hw2]
          congr 1
          omega
  · intro n hσ
    unfold sigmaOf at hσ
    cases hfp : t.params.find? (fun prm => prm.1 == n) with
    | none => exact fieldEnv_none t c n hfp
    | some prm =>
      have hmem : prm ∈ t.params := List.mem_of_find?_eq_some hfp
      have hn : prm.1 = n := by simpa using List.find?_some hfp
      subst hn
      obtain ⟨k, hk, _, _⟩ := hS.fields prm hmem
      simp only [hfp, hk] at hσ
      split at hσ <;> exact absurd hσ (by simp)

theorem isParamExpr_val (e : WExp) (name : String) (hi : Nat) (h : isParamExpr e name hi = true)
    (u : String → Int) (hu : ∀ n, 0 ≤ u n) (hle : u name ≤ hi) (x : IWV)
    (hx : eval { params := u, fields := fun _ => none, last := fun _ => none } e = .ok x) : x.v = u name := by
  cases e with
  | param n =>
    simp only [isParamExpr, beq_iff_eq] at h; subst h
    simp only [eval] at hx; injection hx with hx; subst hx; rfl
  | mk e' w =>
    cases e' with
    | param n =>
      simp only [isParamExpr, Bool.and_eq_true, beq_iff_eq, decide_eq_true_eq] at h
      obtain ⟨⟨rfl, hw0⟩, hlt⟩ := h
      simp only [eval, bind, Except.bind, pure, Except.pure] at hx
      injection hx with hx; subst hx
      have h0 := hu n
      obtain ⟨h1, _, _, _⟩ := mkIW_some_nonneg (v := (mkIW (u n) none).v) h0 w
      rw [h1]
      show u n % 2 ^ w.toNat = u n
      apply Int.emod_eq_of_lt h0
      have : ((hi : Nat) : Int) < ((2 ^ w.toNat : Nat) : Int) := by exact_mod_cast hlt
      have h2 : ((2 ^ w.toNat : Nat) : Int) = (2 : Int) ^ w.toNat := by simp
      omega
    | _ => simp [isParamExpr] at h
  | _ => simp [isParamExpr] at h

/-- **C01 at wrapper level.**  For a class-A protocol (`wfAll`, engine obligation) whose traced wrapper meets `C01Spec`
    (the propositional content of the kernel-checked obligation `c01OK`), and EVERY assignment `u` of naturals to the
    encode parameters within the advertised upper bounds: the first frame `encode(**u)` emits is decoded by a
    history-free decoder of the protocol — base decoder plus the traced `decode()` wrapper — into a code that reports
    exactly `u` for every advertised parameter. -/
theorem C01_wrapper_spec (t : Tables) (w : Wrapper) (tol : Match.Tol) (htol : tol.ok) (hw : EngineRT t tol)
    (p : Packet) (hS : C01Spec t w p) (u : String → Int) (hu : ∀ n, 0 ≤ u n)
    (hr : ∀ ep ∈ t.encodeParams, u ep.1 ≤ ep.2.2) :
    ∃ frame c, firstFrame t w u = .ok frame ∧
      (decodeP t w { last := none, tol := tol } frame).result = .ok c ∧
      ∀ ep ∈ t.encodeParams, c.get (Props.C01.viewKey ep.1) = some (u ep.1).toNat := by
  obtain ⟨envU, henvU⟩ : ∃ e : Env, e = { params := u, fields := fun _ => none, last := fun _ => none } := ⟨_, rfl⟩
  have hu' : ∀ n, 0 ≤ envU.params n := by rw [henvU]; exact hu
  obtain ⟨V, hV⟩ : ∃ V : String × Nat × Nat → Nat, V = kwVal p envU := ⟨_, rfl⟩
  -- encode side
  have hitems := packetItems_eq t p envU hu' hS.args hS.fields
  rw [← hV] at hitems
  have hvals : (t.params.map V).length = t.params.length := by simp
  obtain ⟨frame, hbuild, _, _, _, c, hdec, hcf, _⟩ := hw (t.params.map V) hvals
  rw [fieldsOf_map] at hbuild
  have hff : firstFrame t w u = .ok frame := by
    rw [firstFrame_of_packet t w u p hS.first, ← henvU]
    simp only [buildTraced, hitems, bind, Except.bind]
    exact hbuild
  -- the decoded fields are the encoder's values
  have hVlt : ∀ prm ∈ t.params, V prm < 2 ^ widthP prm := by
    intro prm hm
    obtain ⟨k, x, _, _, hxv, hval, _⟩ := kw_eval p envU hu' prm (hS.fields prm hm)
    rw [hV, hval]
    have hp := pow_pos' (widthP prm)
    have h1 := Int.emod_nonneg x.v (b := 2 ^ widthP prm) (by omega)
    have h2 := Int.emod_lt_of_pos x.v hp
    have : ((x.v % 2 ^ widthP prm).toNat : Int) < ((2 ^ widthP prm : Nat) : Int) := by
      have h3 : ((2 ^ widthP prm : Nat) : Int) = (2 : Int) ^ widthP prm := by simp
      omega
    exact_mod_cast this
  have hcf' : c.fields = t.params.map (fun prm => (prm.1, V prm)) := by
    rw [hcf]
    clear hcf hdec hbuild hitems hff
    have : ∀ (ps : List (String × Nat × Nat)), (∀ prm ∈ ps, V prm < 2 ^ widthP prm) →
        List.zipWith (fun (p : String × Nat × Nat) v => (p.1, v % 2 ^ (p.2.2 + 1 - p.2.1))) ps (ps.map V) = ps.map (fun prm => (prm.1, V prm)) := by
      intro ps
      induction ps with
      | nil => intro _; rfl
      | cons a ps ih =>
        intro h
        simp only [List.map_cons, List.zipWith_cons_cons]
        rw [ih (fun q hq => h q (by simp [hq])), Nat.mod_eq_of_lt (h a (by simp))]
    exact this t.params hVlt
  have hbase : (baseDecode t { last := none, tol := tol } frame).result = .ok c := by
    simpa [baseDecode] using hdec
  -- the view
  have hview : ∀ ep ∈ t.encodeParams, c.get (Props.C01.viewKey ep.1) = some (u ep.1).toNat := by
    intro ep hep
    obtain ⟨prm, k, hfp, hk, hpe, hlt⟩ := hS.view ep hep
    rw [get_of_fields c t.params V hcf' _, hfp]
    simp only [Option.map_some]
    have hmem : prm ∈ t.params := List.mem_of_find?_eq_some hfp
    have hn : prm.1 = Props.C01.viewKey ep.1 := by simpa using List.find?_some hfp
    obtain ⟨k', x, hk', hx, hxv, hval, _⟩ := kw_eval p envU hu' prm (hS.fields prm hmem)
    rw [hn, hk] at hk'
    injection hk' with hk'; subst hk'
    have hxu := isParamExpr_val k.2.2 ep.1 ep.2.2 hpe u hu (hr ep hep) x (by rw [← henvU]; exact hx)
    rw [hV, hval, hxu]
    have h0 := hu ep.1
    have hle := hr ep hep
    have : u ep.1 % 2 ^ widthP prm = u ep.1 := by
      apply Int.emod_eq_of_lt h0
      have h1 : ((ep.2.2 : Nat) : Int) < ((2 ^ widthP prm : Nat) : Int) := by exact_mod_cast hlt
      have h2 : ((2 ^ widthP prm : Nat) : Int) = (2 : Int) ^ widthP prm := by simp
      omega
    rw [this]
  by_cases hov : t.decodeOverridden = true
  · -- the traced wrapper
    refine ⟨frame, c, hff, ?_, hview⟩
    unfold decodeP
    rw [if_pos hov, decodeW_fresh_result t w tol frame c hbase]
    obtain ⟨effs, fs, same, hsym, hall, hfs⟩ := hS.tree hov
    have hA := agree_of_spec t w p hS u hu c (by rw [← henvU, ← hV]; exact hcf')
    rw [symRun_sound (sigmaOf t p) _ _ hA hu false w.treeNone effs (.ret fs same) hsym]
    exact leaf_ret_result t c V hcf' hS.names effs fs same hall hfs
  · -- no override: the base decoder is the decoder
    refine ⟨frame, c, hff, ?_, hview⟩
    unfold decodeP
    rw [if_neg hov]
    exact hbase

theorem c01OK_spec (t : Tables) (w : Wrapper) (h : c01OK t w = true) : ∃ p, C01Spec t w p := by
  unfold c01OK at h
  cases hfp : firstPacket w with
  | none => simp [hfp] at h
  | some p =>
    simp only [hfp, Bool.and_eq_true, List.all_eq_true, List.isEmpty_iff, decide_eq_true_eq, beq_iff_eq] at h
    obtain ⟨⟨⟨⟨⟨hargs, _⟩, hnames⟩, hfields⟩, htree⟩, hview⟩ := h
    refine ⟨p, hfp, hargs, ?_, ?_, ?_, ?_⟩
    · intro prm hm
      exact hnames prm hm
    · intro prm hm
      have := hfields prm hm
      cases hk : p.kwargs.find? (fun k => k.1 == prm.1) with
      | none => simp [hk] at this
      | some k =>
        simp only [hk, Bool.and_eq_true, Bool.or_eq_true, Bool.not_eq_true', beq_iff_eq] at this
        refine ⟨k, hk, this.1, ?_⟩
        intro hb
        rcases this.2 with h1 | h1
        · rw [hb] at h1; exact absurd h1 (by simp)
        · exact h1
    · intro hov
      simp only [hov, Bool.not_true, Bool.false_or] at htree
      cases hs : symRun (sigmaOf t p) w.treeNone with
      | none => simp [hs] at htree
      | some r =>
        obtain ⟨effs, out⟩ := r
        cases out with
        | ret fs same =>
          simp only [hs, Bool.and_eq_true, List.all_eq_true, List.any_eq_true, beq_iff_eq] at htree
          refine ⟨effs, fs, same, rfl, ?_, ?_⟩
          · intro prm hm
            obtain ⟨f, hf, h1, _⟩ := htree.1 prm hm
            exact ⟨f, hf, h1⟩
          · intro f hf
            obtain ⟨prm, hm, h1, h2⟩ := htree.2 f hf
            exact ⟨prm, hm, h1, h2⟩
        | retLast => simp [hs] at htree
        | raise c => simp [hs] at htree
        | retOther => simp [hs] at htree
    · intro ep hep
      have := hview ep hep
      cases h1 : t.params.find? (fun prm => prm.1 == Props.C01.viewKey ep.1) with
      | none => simp [h1] at this
      | some prm =>
        cases h2 : p.kwargs.find? (fun k => k.1 == Props.C01.viewKey ep.1) with
        | none => simp [h1, h2] at this
        | some k =>
          simp only [h1, h2, Bool.and_eq_true, decide_eq_true_eq] at this
          exact ⟨prm, k, rfl, rfl, this.1, this.2⟩

end IRModel.Wrap
