import IRModel.Lemmas.WrapGlue
/-! Lemmas for C03 at wrapper level: every packet / literal frame of a traced `encode()` is well formed. -/
namespace IRModel.Wrap
open IRModel IRModel.Py IRModel.Encode IRModel.Proto IRModel.Props.EngineThm IRModel.Engine

theorem mapM_ok_prop {α β ε} (P : β → Prop) (f : α → Except ε β) :
    ∀ (l : List α), (∀ a ∈ l, ∃ b, f a = .ok b ∧ P b) →
      ∃ bs, l.mapM f = .ok bs ∧ bs.length = l.length ∧ ∀ b ∈ bs, P b := by
  intro l
  induction l with
  | nil => intro _; exact ⟨[], rfl, rfl, by simp⟩
  | cons a l ih =>
    intro h
    obtain ⟨b, hb, hP⟩ := h a (by simp)
    obtain ⟨bs, hbs, hlen, hall⟩ := ih (fun x hx => h x (by simp [hx]))
    refine ⟨b :: bs, ?_, by simp [hlen], ?_⟩
    · simp only [List.mapM_cons, hb, hbs, bind, Except.bind, pure, Except.pure]
    · intro x hx
      rcases List.mem_cons.mp hx with rfl | hx'
      · exact hP
      · exact hall x hx'

/-- what C03 says about one frame of a protocol with tables `t` -/
def FrameOK (t : Tables) (f : List Int) : Prop :=
  WellFormed f ∧ (t.leadOut.getLastD 0 > 0 → sumAbs f = t.leadOut.getLastD 0)

theorem packetOK_fields (t : Tables) (p : Packet) (h : packetOK t p = true) :
    p.args = [] ∧ ∀ prm ∈ t.params, FieldOK p prm := by
  simp only [packetOK, Bool.and_eq_true, List.isEmpty_iff, List.all_eq_true] at h
  refine ⟨h.1, ?_⟩
  intro prm hm
  have := h.2 prm hm
  cases hk : p.kwargs.find? (fun k => k.1 == prm.1) with
  | none => simp [hk] at this
  | some k =>
    simp only [hk, Bool.and_eq_true, Bool.or_eq_true, Bool.not_eq_true', beq_iff_eq] at this
    refine ⟨k, hk, this.1, ?_⟩
    intro hb
    rcases this.2 with h1 | h1
    · rw [hb] at h1; exact absurd h1 (by simp)
    · exact h1

/-- a packet that passes `packetOK` builds a well-formed frame, for every non-negative parameter assignment -/
theorem packet_frame (t : Tables) (tol : Match.Tol) (htol : tol.ok) (hw : EngineRT t tol)
    (p : Packet) (h : packetOK t p = true) (env : Env) (hp : ∀ n, 0 ≤ env.params n) :
    ∃ f, buildTraced t env p = .ok f ∧ FrameOK t f := by
  obtain ⟨hargs, hfields⟩ := packetOK_fields t p h
  have hitems := packetItems_eq t p env hp hargs hfields
  obtain ⟨frame, hbuild, hwf, _, hper, _⟩ := hw (t.params.map (kwVal p env)) (by simp)
  rw [fieldsOf_map] at hbuild
  exact ⟨frame, by simp only [buildTraced, hitems, bind, Except.bind]; exact hbuild, hwf, hper⟩

theorem litOK_frame (t : Tables) (ds : List Int) (h : litOK t ds = true) : FrameOK t ds := by
  simp only [litOK, Bool.and_eq_true, Bool.or_eq_true, decide_eq_true_eq, beq_iff_eq, Bool.not_eq_true', List.isEmpty_eq_false_iff] at h
  refine ⟨altP_wellFormed ds h.1.1 h.1.2, ?_⟩
  intro hpos
  rcases h.2 with h' | h'
  · omega
  · exact h'

/-- **C03 at wrapper level** for one repeat count: every frame of `encode(**u, repeat_count = rc)` -/
theorem C03_trace (t : Tables) (tol : Match.Tol) (htol : tol.ok) (hw : EngineRT t tol)
    (w : Wrapper) (rc : Nat) (tr : EncTrace) (htr : w.enc[rc]? = some tr) (hok : traceOK t tr = true)
    (u : String → Int) (hu : ∀ n, 0 ≤ u n) :
    ∃ fs, encodeFrames t w u rc = .ok fs ∧ fs.length = tr.frames.length ∧ fs ≠ [] ∧ ∀ f ∈ fs, FrameOK t f := by
  simp only [traceOK, Bool.and_eq_true, List.all_eq_true, Bool.not_eq_true', List.isEmpty_eq_false_iff] at hok
  obtain ⟨⟨hpk, hne⟩, hfr⟩ := hok
  obtain ⟨envU, henvU⟩ : ∃ e : Env, e = { params := u, fields := fun _ => none, last := fun _ => none } := ⟨_, rfl⟩
  have hu' : ∀ n, 0 ≤ envU.params n := by rw [henvU]; exact hu
  obtain ⟨pk, hpkm, hpklen, hpkall⟩ := mapM_ok_prop (FrameOK t) (buildTraced t envU) tr.packets
    (fun p hp => packet_frame t tol htol hw p (hpk p hp) envU hu')
  have hfm := mapM_ok_prop (FrameOK t)
    (fun r => match r with
      | FrameRef.packet k => (match pk[k]? with | some f => Except.ok f | none => Except.error PyErr.indexError)
      | FrameRef.lit ds => Except.ok ds) tr.frames
    (by
      intro r hr
      have := hfr r hr
      cases r with
      | packet k =>
        simp only [decide_eq_true_eq] at this
        have hk : k < pk.length := by rw [hpklen]; exact this
        refine ⟨pk[k], by simp only [List.getElem?_eq_getElem hk], hpkall _ (List.getElem_mem hk)⟩
      | lit ds => exact ⟨ds, rfl, litOK_frame t ds this⟩)
  obtain ⟨fs, hfs, hlen, hall⟩ := hfm
  refine ⟨fs, ?_, hlen, ?_, hall⟩
  · simp only [encodeFrames, htr, ← henvU, hpkm, bind, Except.bind]
    exact hfs
  · intro hnil
    rw [hnil] at hlen
    simp only [List.length_nil] at hlen
    exact hne (List.length_eq_zero_iff.mp hlen.symm)

end IRModel.Wrap
