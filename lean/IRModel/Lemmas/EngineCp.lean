import IRModel.Lemmas.EngineC
/-!
# Class C with a frame period: RC5 family, StreamZap, Motorola, AdNotham

The frame is `compress (lead-in ++ half bits ++ [total − period])`; `_build_packet` compresses twice
(`compress_compress_append`), the period check sees exactly the last duration (`sumAbs_compress`), the lead-out step
always takes the whole last duration for the period's gap (`tailStep_period'`) — so a last half bit that is a space is
never split off but restored by the completion of the trailing single half bit (`completion_C`).
-/
namespace IRModel.Engine
open IRModel IRModel.Py IRModel.Match IRModel.Bits IRModel.CodeWrapper IRModel.Encode IRModel.Props.Manchester IRModel.Proto IRModel.Props.EngineThm IRModel.Props.C19

theorem sumAbs_cons' (a : Int) (l : List Int) : sumAbs (a :: l) = (if a < 0 then -a else a) + sumAbs l := by
  have := sumAbs_append [a] l
  simpa [sumAbs_single] using this

theorem sumAbs_compress : ∀ (l : List Int), sumAbs (compress l) = sumAbs l
  | [] => rfl
  | a :: l => by
    have ih := sumAbs_compress l
    rw [compress_cons]
    cases hc : compress l with
    | nil =>
      rw [hc] at ih
      simp only []
      rw [sumAbs_cons' a l, ← ih]; simp [sumAbs_single, sumAbs]
    | cons y ys =>
      rw [hc] at ih
      simp only []
      rw [sumAbs_cons' a l, ← ih, sumAbs_cons' y ys]
      split
      · rename_i h
        rw [sumAbs_cons']
        rcases h with ⟨h1, h2⟩ | ⟨h1, h2⟩
        · have : ¬ (a + y < 0) := by omega
          have : ¬ (a < 0) := by omega
          have : ¬ (y < 0) := by omega
          simp [*]; omega
        · have : a + y < 0 := by omega
          simp [*]; omega
      · rw [sumAbs_cons', sumAbs_cons']

/-- compressing a compressed prefix again changes nothing -/
theorem compress_compress_append : ∀ (A B : List Int), compress (compress A ++ B) = compress (A ++ B)
  | [], _ => rfl
  | a :: A, B => by
    have ih := compress_compress_append A B
    show compress (compress (a :: A) ++ B) = compress (a :: (A ++ B))
    rw [compress_cons a (A ++ B), ← ih, compress_cons a A]
    cases hc : compress A with
    | nil =>
      simp only [List.nil_append]
      show compress (a :: B) = _
      rw [compress_cons]
    | cons y ys =>
      simp only [List.cons_append]
      rw [compress_cons y (ys ++ B)]
      by_cases hs : (a > 0 ∧ y > 0) ∨ (a < 0 ∧ y < 0)
      · rw [if_pos hs]
        show compress ((a + y) :: (ys ++ B)) = _
        rw [compress_cons]
        cases hz : compress (ys ++ B) with
        | nil => simp [hs]
        | cons z zs =>
          simp only []
          by_cases hyz : (y > 0 ∧ z > 0) ∨ (y < 0 ∧ z < 0)
          · have h1 : (a + y > 0 ∧ z > 0) ∨ (a + y < 0 ∧ z < 0) := by omega
            have h2 : (a > 0 ∧ y + z > 0) ∨ (a < 0 ∧ y + z < 0) := by omega
            rw [if_pos h1, if_pos hyz]
            simp only [h2, if_true]
            congr 1; omega
          · have h1 : ¬ ((a + y > 0 ∧ z > 0) ∨ (a + y < 0 ∧ z < 0)) := by omega
            rw [if_neg h1, if_neg hyz]
            simp only [hs, if_true]
      · rw [if_neg hs]
        show compress (a :: y :: (ys ++ B)) = _
        rw [compress_cons a, compress_cons y]


/-- the last half bit was swallowed by the lead-out step: the main loop decodes the rest, and the completion of the
    trailing single half bit restores the last symbol -/
theorem completion_C (tol : Tol) (m s : Int) (hopp : oppSign m s) (hsep : sepM tol m s = true)
    (idx : List Nat) (hne : idx ≠ []) (hidx : ∀ i ∈ idx, i < 2) (h1 : Int) (M : List Int) (hl : Int)
    (hH : symTimings [(m, s), (s, m)] idx = h1 :: M ++ [hl]) (hhl : hl = m ∨ hl = s)
    (hdata : compress (h1 :: M ++ [hl]) = h1 :: compress M ++ [hl])
    (hmanch : manchAll tol m s (compress (h1 :: M ++ [hl])) = .ok (h1 :: M ++ [hl])) :
    manchAll tol m s (h1 :: compress M) = .ok (h1 :: M) ∧
    pairsToBits [(m, s), (s, m)] (pairUp (h1 :: M)) = .ok (idx.flatMap (idxToBits 2), [hl]) := by
  have hm1 : manchAll tol m s (h1 :: compress M) = .ok (h1 :: M) := by
    have hone : manchOne tol m s hl = some [hl] := by
      obtain ⟨om, os, _, _⟩ := manchOne_facts hsep
      rcases hhl with rfl | rfl
      · exact om
      · exact os
    have happ : ∀ (l : List Int), manchAll tol m s (l ++ [hl]) = (manchAll tol m s l).map (· ++ [hl]) := by
      intro l
      induction l with
      | nil => simp [manchAll, hone, Except.map]
      | cons a l ih =>
        simp only [List.cons_append, manchAll]
        cases manchOne tol m s a with
        | none => rfl
        | some v =>
          simp only [ih]
          cases manchAll tol m s l with
          | error e => rfl
          | ok w => simp [Except.map]
    have h2 := hmanch
    rw [hdata, show h1 :: compress M ++ [hl] = (h1 :: compress M) ++ [hl] from rfl, happ] at h2
    cases hr : manchAll tol m s (h1 :: compress M) with
    | error e' => rw [hr] at h2; simp [Except.map] at h2
    | ok w =>
      rw [hr] at h2; simp only [Except.map] at h2
      injection h2 with h2
      have : w = h1 :: M := by
        have h3 : w ++ [hl] = (h1 :: M) ++ [hl] := by simpa using h2
        exact List.append_cancel_right h3
      rw [this]
  -- the last symbol
  obtain ⟨idx', j, hij⟩ : ∃ idx' j, idx = idx' ++ [j] := ⟨_, _, (List.dropLast_concat_getLast hne).symm⟩
  have hj : j < 2 := hidx j (by rw [hij]; simp)
  have hidx' : ∀ i ∈ idx', i < [(m, s), (s, m)].length := by
    intro i hi; have := hidx i (by rw [hij]; simp [hi]); simpa using this
  have hmsne : m ≠ s := by have := hopp; unfold oppSign at this; omega
  obtain ⟨c, d, hcd, hfind, hsb⟩ : ∃ c d, symTimings [(m, s), (s, m)] [j] = [c, d] ∧
      [(m, s), (s, m)].find? (fun p => p.1 == c) = some (c, d) ∧
      symbolBits [(m, s), (s, m)] c d = .ok (idxToBits 2 j) := by
    have hd : distinctSyms [(m, s), (s, m)] = true := by
      unfold distinctSyms
      simp [List.range_succ, List.findIdx?_cons]
      intro h; exact absurd h hmsne
    rcases Nat.lt_or_ge j 1 with h0 | h1'
    · have : j = 0 := by omega
      subst this
      exact ⟨m, s, rfl, by simp, distinct_lookup _ hd 0 (by simp)⟩
    · have : j = 1 := by omega
      subst this
      refine ⟨s, m, rfl, ?_, distinct_lookup _ hd 1 (by simp)⟩
      have : (m == s) = false := by simpa using hmsne
      simp [List.find?_cons, this]
  have hHs : symTimings [(m, s), (s, m)] idx' ++ [c] ++ [d] = (h1 :: M) ++ [hl] := by
    have := symTimings_append [(m, s), (s, m)] idx' [j]
    rw [← hij, hH, hcd] at this
    simpa using this.symm
  obtain ⟨e1, e2⟩ := List.append_inj' hHs rfl
  have e2' : d = hl := by simpa using e2
  have hpu : pairUp (symTimings [(m, s), (s, m)] idx' ++ [c]) =
      idx'.map (fun i => [([(m, s), (s, m)][i]?.getD (0, 0)).1, ([(m, s), (s, m)][i]?.getD (0, 0)).2]) ++ [[c]] :=
    pairUp_snoc c _ _ (pairUp_syms _ idx' hidx') (by intro p hp; simp at hp; obtain ⟨i, _, rfl⟩ := hp; rfl)
  have hd : distinctSyms [(m, s), (s, m)] = true := by
    unfold distinctSyms
    simp [List.range_succ, List.findIdx?_cons]
    intro h; exact absurd h hmsne
  have hptb := pairsToBits_snoc [(m, s), (s, m)] c d (idxToBits 2 j) hfind hsb _ _
    (pairsToBits_syms _ hd idx' hidx') (by intro p hp; simp at hp; obtain ⟨i, _, rfl⟩ := hp; rfl)
  refine ⟨hm1, ?_⟩
  rw [← e1, hpu, hptb, hij, e2']
  simp

/-- class C with a frame period as lead-out (RC5 family, StreamZap, Motorola, AdNotham) -/
structure SpecCp (t : Tables) (tol : Tol) (m s x : Int) (L' : List Int) (e : Int) : Prop where
  tab  : t.bursts = [(m, s), (s, m)]
  opp  : oppSign m s
  sep  : sepM tol m s = true
  li   : t.leadIn = L' ++ [e]
  alt  : altS (L' ++ [e]) = true
  lo   : t.leadOut = [x]
  xpos : x > 0
  liM  : ∀ h, (h = m ∨ h = s) → sameSign e h → isMatch tol (e + h) e = false ∧
           ∃ p, t.bursts.find? (fun p => isMatch tol (e + h) (e + p.1)) = some p ∧ p.1 = h

theorem tailStep_period' (tol : Tol) (htol : tol.ok) (bursts : List (Int × Int))
    (tt x burst : Int) (hx : x > 0) (hb : burst < 0) (htot : tt - burst = x) :
    tailStep tol bursts tt x burst = some ([], none) := by
  have h1 : isMatch tol burst x = false := isMatch_sign tol _ _ (Or.inl ⟨hb, hx⟩)
  have h2 : loHalfBit tol bursts 1 0 burst x = none := by
    unfold loHalfBit
    rw [find_none_of_all_false]
    · rfl
    · intro p hp
      by_cases hp2 : p.2 < 0
      · have : isMatch tol (burst + p.2) x = false := isMatch_sign tol _ x (Or.inl ⟨by omega, hx⟩)
        simp [this]
      · simp [hp2]
  have h3 : isMatch tol x (tt + (if burst < 0 then -burst else burst)) = true := by
    have : tt + (if burst < 0 then -burst else burst) = x := by simp [hb]; omega
    rw [this]; exact isMatch_self tol htol x (by omega)
  unfold tailStep
  simp only [h1, Bool.false_eq_true, if_false, h2, h3, if_true]


/-- **bit-level round trip for class-C tables with a frame period** -/
theorem parse_frameCp (t : Tables) (tol : Tol) (htol : tol.ok) (m s x : Int) (L' : List Int) (e : Int)
    (hS : SpecCp t tol m s x L' e) (idx : List Nat) (hne : idx ≠ []) (hidx : ∀ i ∈ idx, i < 2)
    (hfit : sumAbs (t.leadIn ++ symTimings t.bursts idx) < x) :
    parse t tol (compress (t.leadIn ++ symTimings t.bursts idx ++ [sumAbs (t.leadIn ++ symTimings t.bursts idx) - x])) =
      .ok { bits := idx.flatMap (idxToBits 2),
            cleaned := compress (t.leadIn ++ symTimings t.bursts idx ++ [sumAbs (t.leadIn ++ symTimings t.bursts idx) - x]) } ∧
    t.leadIn.length + idx.length ≤
      (compress (t.leadIn ++ symTimings t.bursts idx ++ [sumAbs (t.leadIn ++ symTimings t.bursts idx) - x])).length + 1 := by
  obtain ⟨h1, M, hl, hH, hh1, hhl, hM1, hM2⟩ := symTimings_ends m s hS.opp idx hne hidx
  have hHlen := symTimings_two_length m s idx hidx
  have hmt : manchTable t.bursts m s := ⟨hS.tab, by have := hS.opp; unfold oppSign at this; exact this⟩
  obtain ⟨hmanch, hbits⟩ := manch_data_roundtrip tol t.bursts m s hmt hS.sep idx hidx
  rw [hS.tab] at hmanch hbits
  rw [hS.tab, hS.li, hH] at hfit ⊢
  rw [hH] at hmanch hbits
  obtain ⟨g, hg⟩ : ∃ g, g = sumAbs (L' ++ [e] ++ (h1 :: M ++ [hl])) - x := ⟨_, rfl⟩
  rw [← hg]
  have hgneg : g < 0 := by omega
  obtain ⟨hshape, hdata⟩ := frameC_shape L' e h1 M hl g hS.alt hM1 hM2
  have hm0 : m ≠ 0 ∧ s ≠ 0 := by have := hS.opp; unfold oppSign at this; omega
  have hh10 : h1 ≠ 0 := by rcases hh1 with rfl | rfl <;> omega
  have hhl0 : hl ≠ 0 := by rcases hhl with rfl | rfl <;> omega
  have he0 : e ≠ 0 := altS_ne_zero _ hS.alt e (by simp)
  have hL0 : ∀ a ∈ L', a ≠ 0 := fun a ha => altS_ne_zero _ hS.alt a (by simp [ha])
  -- the frame
  obtain ⟨F, hF⟩ : ∃ F, F = compress (L' ++ [e] ++ (h1 :: M ++ [hl]) ++ [g]) := ⟨_, rfl⟩
  obtain ⟨back, hback⟩ : ∃ b, b = compress [hl, g] := ⟨_, rfl⟩
  have hFs : F = L' ++ compress [e, h1] ++ compress M ++ back := by rw [hF, hshape, hback]
  have hin : leadInLoop tol [(m, s), (s, m)] (L' ++ [e]) F [] = .ok (h1 :: compress M ++ back, L' ++ [e]) := by
    rw [hFs]
    have e1 : L' ++ compress [e, h1] ++ compress M ++ back = L' ++ (compress [e, h1] ++ compress M ++ back) := by simp
    rw [e1, leadInLoop_prefix tol htol _ L' [e] _ [] hL0]
    by_cases hss : sameSign e h1
    · obtain ⟨hno, p, hfind, hp1⟩ := hS.liM h1 hh1 hss
      rw [hS.tab] at hfind
      have hc : compress [e, h1] = [e + h1] := by
        have : (e > 0 ∧ h1 > 0) ∨ (e < 0 ∧ h1 < 0) := hss
        simp [compress, this]
      rw [hc]
      simp only [List.nil_append, List.cons_append, leadInLoop, hno, Bool.false_eq_true, if_false, hfind, hp1]
    · have hc : compress [e, h1] = [e, h1] := by
        have : ¬ ((e > 0 ∧ h1 > 0) ∨ (e < 0 ∧ h1 < 0)) := hss
        simp [compress, this]
      rw [hc]
      have hme : isMatch tol e e = true := isMatch_self tol htol e he0
      simp only [List.nil_append, List.cons_append, leadInLoop, hme, if_true]
  -- the frame sums to the period; its last duration is negative
  have hsumF : sumAbs F = x := by
    rw [hF, sumAbs_compress, sumAbs_append, sumAbs_single, if_pos hgneg, hg]; omega
  obtain ⟨Finit, y, hFy, hyneg⟩ := compress_last_neg g hgneg (L' ++ [e] ++ (h1 :: M ++ [hl]))
  rw [← hF] at hFy
  have hdl : F.dropLast = Finit := by rw [hFy, List.dropLast_concat]
  have htot : sumAbs F.dropLast - y = x := by
    rw [hdl]
    have := hsumF
    rw [hFy, sumAbs_append, sumAbs_single, if_pos hyneg] at this
    omega
  have hperiod : periodCheck tol [x] F = .ok () := by
    unfold periodCheck
    have hl1 : F.getLast? = some y := by rw [hFy]; exact List.getLast?_concat
    simp only [List.getLast?_singleton, hS.xpos, if_true, hl1]
    have : -(x - sumAbs F.dropLast) = y := by omega
    rw [this, isMatch_self tol htol y (by omega)]
    rfl
  -- the lead-out step takes the whole last duration for the period's gap; a merged last half bit is restored by the
  -- completion of the trailing single half bit
  have hvals : ∃ code2 vals extra,
      leadOutLoop tol [(m, s), (s, m)] 1 (sumAbs F.dropLast) [x] 0 (h1 :: compress M ++ back) [] [] = .ok (code2, [], [none]) ∧
      manchAll tol m s (code2 ++ []) = .ok vals ∧
      pairsToBits [(m, s), (s, m)] (pairUp vals) = .ok (idx.flatMap (idxToBits 2), extra) ∧
      vals ++ extra = h1 :: M ++ [hl] := by
    have hxs : x ≠ -999999999999 := by have := hS.xpos; omega
    by_cases hneg : hl < 0
    · have hb : back = [hl + g] := by
        rw [hback]; have : (hl > 0 ∧ g > 0) ∨ (hl < 0 ∧ g < 0) := Or.inr ⟨hneg, hgneg⟩
        simp [compress, this]
      have hy : y = hl + g := by
        have : F = (L' ++ compress [e, h1] ++ compress M) ++ [hl + g] := by rw [hFs, hb]
        rw [hFy] at this
        exact (List.append_inj' this rfl).2 |> fun h => by simpa using h
      have hts := tailStep_period' tol htol [(m, s), (s, m)] (sumAbs F.dropLast) x (hl + g) hS.xpos (by omega) (by rw [← hy]; exact htot)
      obtain ⟨hm1, hpb⟩ := completion_C tol m s hS.opp hS.sep idx hne hidx h1 M hl hH hhl hdata hmanch
      refine ⟨h1 :: compress M, h1 :: M, [hl], ?_, by simpa using hm1, hpb, by simp⟩
      rw [hb]
      have := leadOutLoop_single tol [(m, s), (s, m)] (sumAbs F.dropLast) x (hl + g) (h1 :: compress M) hxs _ hts
      simpa using this
    · have hb : back = [hl, g] := by
        rw [hback]; have : ¬ ((hl > 0 ∧ g > 0) ∨ (hl < 0 ∧ g < 0)) := by omega
        simp [compress, this]
      have hy : y = g := by
        have : F = (L' ++ compress [e, h1] ++ compress M ++ [hl]) ++ [g] := by rw [hFs, hb]; simp
        rw [hFy] at this
        exact (List.append_inj' this rfl).2 |> fun h => by simpa using h
      have hts := tailStep_period' tol htol [(m, s), (s, m)] (sumAbs F.dropLast) x g hS.xpos hgneg (by rw [← hy]; exact htot)
      refine ⟨h1 :: compress M ++ [hl], h1 :: M ++ [hl], [], ?_, ?_, hbits, by simp⟩
      · rw [hb]
        have := leadOutLoop_single tol [(m, s), (s, m)] (sumAbs F.dropLast) x g (h1 :: compress M ++ [hl]) hxs _ hts
        simpa using this
      · rw [List.append_nil, ← hdata]; exact hmanch
  -- length of the frame
  have hlenF : (L' ++ [e]).length + idx.length ≤ F.length + 1 := by
    have h2 := manchAll_length tol m s _ _ hmanch
    rw [hdata] at h2
    have h3 : (h1 :: M ++ [hl]).length = 2 * idx.length := by rw [← hH]; exact hHlen
    rw [h3] at h2
    have hc1 : 1 ≤ (compress [e, h1]).length := by
      have := compress_ne_nil [e, h1] (by simp)
      cases hc : compress [e, h1] with
      | nil => exact absurd hc this
      | cons a b => simp
    have hc2 : 1 ≤ back.length := by
      rw [hback]
      have := compress_ne_nil [hl, g] (by simp)
      cases hc : compress [hl, g] with
      | nil => exact absurd hc this
      | cons a b => simp
    rw [hFs]
    simp only [List.length_append, List.length_cons, List.length_nil] at h2 ⊢
    omega
  refine ⟨?_, by rw [← hF]; exact hlenF⟩
  have hgen : streamEnc t.bursts = .manchester := by rw [hS.tab]; simp [streamEnc, detect]
  rw [← hF, parse_manchester hgen, hS.tab, hS.li, hS.lo]
  unfold parseWithM
  rw [hperiod]
  obtain ⟨code2, vals, extra, hlo, hmv, hpb, hcat⟩ := hvals
  simp only [bind, Except.bind, hin, List.length_cons, List.length_nil, hlo, List.headD_cons, hmv, hpb, pure, Except.pure]
  have hcl0 : (L' ++ [e] ++ vals ++ extra).map some ++ [none] = (L' ++ [e] ++ (h1 :: M ++ [hl])).map some ++ [none] := by
    rw [List.append_assoc (L' ++ [e]) vals extra, hcat]
  rw [hcl0]
  have hne0 : ((L' ++ [e] ++ (h1 :: M ++ [hl])).map some ++ [(none : Option Int)]).isEmpty = false := by simp
  rw [if_neg (by rw [hne0]; simp)]
  congr 2
  rw [List.dropLast_concat, List.getLast?_concat]
  have hbody : ((L' ++ [e] ++ (h1 :: M ++ [hl])).map some).map (fun (o : Option Int) => o.getD 0) = L' ++ [e] ++ (h1 :: M ++ [hl]) :=
    Props.RoundTrip.compress_getD_map _
  rw [hbody, hF]
  simp only [List.getLastD_cons, List.getLastD_nil]
  have : -x + sumAbs (L' ++ [e] ++ (h1 :: M ++ [hl])) = g := by omega
  rw [this]


/-- all decidable side conditions of the class-C engine theorem for a frame period -/
def wfAllCp (t : Tables) (tol : Tol) : Bool :=
  supportedM t &&
  (match t.bursts, t.leadOut, t.leadIn.getLast?, t.leadIn.head? with
   | [(m, s), (s', m')], [x], some e, some e0 =>
     (s' == s) && (m' == m) && decide (oppSign m s) && sepM tol m s && altS t.leadIn && decide (x > 0) && decide (e0 > 0) &&
     [m, s].all (fun h => !decide (sameSign e h) ||
        (!isMatch tol (e + h) e &&
          (match t.bursts.find? (fun p => isMatch tol (e + h) (e + p.1)) with | some p => p.1 == h | none => false)))
   | _, _, _, _ => false) &&
  tiles 2 0 t.params && (tilesEnd 0 t.params == t.bitCount) && decide (3 ≤ t.bitCount) && fitsPeriodB t

theorem wfAllCp_spec {t : Tables} {tol : Tol} (h : wfAllCp t tol = true) :
    ∃ m s x e, SpecCp t tol m s x t.leadIn.dropLast e ∧ (∀ a, t.leadIn.head? = some a → a > 0) ∧
      tiles 2 0 t.params = true ∧ tilesEnd 0 t.params = t.bitCount ∧ 3 ≤ t.bitCount ∧ fitsPeriodB t = true := by
  unfold wfAllCp at h
  simp only [Bool.and_eq_true, beq_iff_eq, decide_eq_true_eq] at h
  obtain ⟨⟨⟨⟨⟨_, hm⟩, hT⟩, hE⟩, hB⟩, hfp⟩ := h
  split at hm
  · rename_i m s s' m' x e e0 hb hlo hlast hhead
    simp only [Bool.and_eq_true, beq_iff_eq, decide_eq_true_eq, List.all_cons, List.all_nil, Bool.and_true,
      Bool.or_eq_true, Bool.not_eq_true', decide_eq_false_iff_not] at hm
    obtain ⟨⟨⟨⟨⟨⟨⟨e1, e2⟩, hopp⟩, hsep⟩, halt⟩, hx⟩, he0⟩, ⟨hliM, hliS⟩⟩ := hm
    subst e1; subst e2
    have hne : t.leadIn ≠ [] := by intro h; rw [h] at hlast; simp at hlast
    have hli : t.leadIn = t.leadIn.dropLast ++ [e] := by
      have := (List.dropLast_concat_getLast hne).symm
      have hl : t.leadIn.getLast hne = e := by
        have := List.getLast?_eq_getLast hne
        rw [this] at hlast; injection hlast
      rw [hl] at this; exact this
    refine ⟨m', s', x, e, ⟨hb, hopp, hsep, hli, by rw [← hli]; exact halt, hlo, hx, ?_⟩, ?_, hT, hE, hB, hfp⟩
    · intro h hh hss
      have key : ∀ h, (¬ sameSign e h ∨ (isMatch tol (e + h) e = false ∧
          (match t.bursts.find? (fun p => isMatch tol (e + h) (e + p.1)) with | some p => p.1 == h | none => false) = true)) →
          sameSign e h → isMatch tol (e + h) e = false ∧ ∃ p, t.bursts.find? (fun p => isMatch tol (e + h) (e + p.1)) = some p ∧ p.1 = h := by
        intro h hor hss
        rcases hor with hn | ⟨a, b⟩
        · exact absurd hss hn
        · refine ⟨a, ?_⟩
          cases hf : t.bursts.find? (fun p => isMatch tol (e + h) (e + p.1)) with
          | none => rw [hf] at b; simp at b
          | some p => rw [hf] at b; exact ⟨p, rfl, by simpa using b⟩
      rcases hh with rfl | rfl
      · exact key _ hliM hss
      · exact key _ hliS hss
    · intro a ha; rw [hhead] at ha; injection ha with ha; rw [← ha]; exact he0
  · simp at hm

theorem engineRT_Cp (t : Tables) (tol : Tol) (htol : tol.ok) (hw : wfAllCp t tol = true) : EngineRT t tol := by
  intro vals hlen
  obtain ⟨m, s, x, e, hS, hhead, hT, hE, hB, hfp⟩ := wfAllCp_spec hw
  have hlen2 : t.bursts.length = 2 := by rw [hS.tab]; rfl
  have hL : t.bursts.length = 2 ∨ t.bursts.length = 4 ∨ t.bursts.length = 16 := Or.inl hlen2
  obtain ⟨fields, hfields⟩ : ∃ f, f = fieldsOf t.params vals := ⟨_, rfl⟩
  rw [← hfields]
  have hT' : tiles t.bursts.length 0 t.params = true := by rw [hlen2]; exact hT
  have hdec := fields_decode t.order t.bursts.length t.params vals 0 [] hT' hlen rfl
  rw [← hfields] at hdec
  simp only [List.nil_append] at hdec
  have hbitsEq := flatMap_fields_bits t hL fields
  have hbl : ((fields.flatMap (fieldIdx t)).flatMap (idxToBits t.bursts.length)).length = t.bitCount := by
    rw [hbitsEq, hdec.2, hE]
  have hnsym : (fields.flatMap (fieldIdx t)).length = t.bitCount := by
    have := flatMap_bits_length t.bursts.length hL (fields.flatMap (fieldIdx t))
    rw [hbl, hlen2] at this
    have hb1 : bitsPerSymbol 2 = 1 := by decide
    rw [hb1] at this; omega
  obtain ⟨idx, hidxdef⟩ : ∃ idx, idx = fields.flatMap (fieldIdx t) := ⟨_, rfl⟩
  rw [← hidxdef] at hbl hnsym hbitsEq
  have hne : idx ≠ [] := by intro h; rw [h] at hnsym; simp at hnsym; omega
  have hidx : ∀ i ∈ idx, i < 2 := by
    intro i hi
    rw [hidxdef] at hi
    obtain ⟨f, _, hf⟩ := List.mem_flatMap.mp hi
    have := (fieldIdx_spec t hL f).2 i hf
    omega
  have hidxL : ∀ i ∈ idx, i < t.bursts.length := by intro i hi; rw [hlen2]; exact hidx i hi
  have hfit : sumAbs (t.leadIn ++ symTimings t.bursts idx) < x := by
    unfold fitsPeriodB at hfp
    rw [hS.lo] at hfp
    simp only [hS.xpos, if_true, decide_eq_true_eq] at hfp
    have hb1 := symTimings_bound t.bursts _ hidxL
    rw [hnsym] at hb1
    have hbp : bitsPerSymbol t.bursts.length = 1 := by rw [hlen2]; decide
    rw [hbp, Nat.div_one] at hfp
    rw [sumAbs_append]
    omega
  obtain ⟨hparse, hlenF⟩ := parse_frameCp t tol htol m s x _ e hS idx hne hidx hfit
  obtain ⟨g, hg⟩ : ∃ g, g = sumAbs (t.leadIn ++ symTimings t.bursts idx) - x := ⟨_, rfl⟩
  rw [← hg] at hparse hlenF
  have hgneg : g < 0 := by omega
  obtain ⟨F, hF⟩ : ∃ F, F = compress (t.leadIn ++ symTimings t.bursts idx ++ [g]) := ⟨_, rfl⟩
  rw [← hF] at hparse hlenF
  have hbuild : buildPacket t (fields.map (fun f => Item.field f.1 f.2)) = .ok F := by
    unfold buildPacket
    rw [items_timings t hL fields]
    simp only []
    rw [flatten_syms, ← hidxdef, hS.lo]
    simp only [List.getLast?_singleton]
    have h1 : (t.leadIn ++ symTimings t.bursts idx ++ [x]).getLastD 0 > 0 := by
      rw [List.getLastD_concat]; exact hS.xpos
    rw [if_pos h1, List.dropLast_concat, sumAbs_compress, ← hg, compress_compress_append, hF]
  have hnz : ∀ a ∈ t.leadIn ++ symTimings t.bursts idx ++ [g], a ≠ 0 := by
    intro a ha
    simp only [List.mem_append, List.mem_singleton] at ha
    rcases ha with (ha | ha) | ha
    · rw [hS.li] at ha; exact altS_ne_zero _ hS.alt a ha
    · rw [hS.tab] at ha
      have := (symTimings_two m s idx hidx).1 a ha
      have ho := hS.opp; unfold oppSign at ho
      rcases this with rfl | rfl <;> omega
    · rw [ha]; omega
  have haltS : altS F = true := by rw [hF]; exact altS_compress _ hnz
  have hFhead : ∀ a, F.head? = some a → a > 0 := by
    intro a ha
    have hne1 : t.leadIn ≠ [] := by rw [hS.li]; simp
    cases hli : t.leadIn with
    | nil => exact absurd hli hne1
    | cons b B =>
      have hb0 : b > 0 := hhead b (by rw [hli]; rfl)
      rw [hF, hli] at ha
      obtain ⟨y, ys, hy, hs⟩ := compress_head b (B ++ symTimings t.bursts idx ++ [g]) (by omega)
      have e1 : b :: B ++ symTimings t.bursts idx ++ [g] = b :: (B ++ symTimings t.bursts idx ++ [g]) := by simp
      rw [e1, hy] at ha
      simp at ha; rw [← ha]; omega
  have hFlast : ∀ a, F.getLast? = some a → a < 0 := by
    intro a ha
    obtain ⟨init, y, hc, hy⟩ := compress_last_neg g hgneg (t.leadIn ++ symTimings t.bursts idx)
    rw [hF, hc, List.getLast?_concat] at ha
    injection ha with ha; rw [← ha]; exact hy
  have haltP : altP F = true := altP_of_altS F haltS hFhead hFlast
  have hFne : F ≠ [] := by rw [hF]; exact compress_ne_nil _ (by simp)
  refine ⟨F, hbuild, altP_wellFormed _ haltP hFne, haltP, ?_, ?_⟩
  · intro _
    rw [hS.lo]
    simp only [List.getLastD_cons, List.getLastD_nil]
    rw [hF, sumAbs_compress, sumAbs_append, sumAbs_single, if_pos hgneg, hg]; omega
  · unfold decodeFull
    rw [hparse]
    have hbl' : (idx.flatMap (idxToBits 2)).length = t.bitCount := by rw [← hlen2]; exact hbl
    simp only [hbl', Nat.lt_irrefl, if_false]
    have hlen3 : t.leadIn.length + 2 ≤ F.length := by rw [hnsym] at hlenF; omega
    have hflds : (mkCode t { bits := idx.flatMap (idxToBits 2), cleaned := F }).fields =
        List.zipWith (fun p v => (p.1, v % 2 ^ (p.2.2 + 1 - p.2.1))) t.params vals := by
      have hb2 : idx.flatMap (idxToBits 2) = fields.flatMap (fun f => (IW.new f.1 f.2).orderedBits t.order t.bursts.length) := by
        rw [← hbitsEq, hlen2]
      simp only [mkCode]; rw [hb2]; exact hdec.1
    by_cases hov : t.decodeOverridden
    · simp only [hov, if_true]
      exact ⟨_, rfl, hflds, rfl, hlen3⟩
    · simp only [hov, Bool.false_eq_true, if_false]
      exact ⟨_, rfl, hflds, rfl, hlen3⟩

end IRModel.Engine
