import IRModel.Lemmas.BuildLemmas
/-! from decoded bits back to field values -/
namespace IRModel.Engine
open IRModel IRModel.Py IRModel.Bits IRModel.CodeWrapper IRModel.Props.C19

/-- `_parameters` tile the bit string from `off` on, each field a whole number of symbols wide -/
def tiles (L : Nat) : Nat → List (String × Nat × Nat) → Bool
  | _, [] => true
  | off, (_, a, b) :: rest => a == off && decide (a ≤ b) && padCount L (b + 1 - a) == 0 && tiles L (b + 1) rest

def tilesEnd : Nat → List (String × Nat × Nat) → Nat
  | off, [] => off
  | _, (_, _, b) :: rest => tilesEnd (b + 1) rest

/-- the (value, width) fields `_build_packet` renders for raw integer keyword arguments -/
def fieldsOf (params : List (String × Nat × Nat)) (vals : List Nat) : List (Nat × Nat) :=
  List.zipWith (fun p v => (v, p.2.2 + 1 - p.2.1)) params vals

/-- the symbols of a field expand back to its ordered bit list -/
theorem fieldIdx_bits (t : Tables) (hL : t.bursts.length = 2 ∨ t.bursts.length = 4 ∨ t.bursts.length = 16)
    (f : Nat × Nat) :
    (fieldIdx t f).flatMap (idxToBits t.bursts.length) = (IW.new f.1 f.2).orderedBits t.order t.bursts.length := by
  have hspec := (fieldIdx_spec t hL f).1
  have hx : IW.WF (IW.new f.1 f.2) := new_wf f.1 f.2
  have hbits := orderedBits_bits (IW.new f.1 f.2) hx t.order t.bursts.length
  have hlen := orderedBits_length (IW.new f.1 f.2) t.order t.bursts.length
  have hn : (IW.new f.1 f.2).n = f.2 := rfl
  unfold IW.symbolIdx at hspec
  rcases hL with h | h | h
  · rw [h] at hspec hbits hlen ⊢
    have hb2 : bitsPerSymbol 2 = 1 := by decide
    rw [hb2] at hspec
    have hc1 : ∀ bs : List Nat, chunkIdx 1 bs = some bs := by intro bs; cases bs <;> rfl
    rw [hc1] at hspec
    have : fieldIdx t f = (IW.new f.1 f.2).orderedBits t.order 2 := by simpa using hspec.symm
    rw [this]
    have h2 : idxToBits 2 = fun n => [n] := by funext n; simp [idxToBits]
    rw [h2]; exact List.flatMap_singleton' _
  · rw [h] at hspec hbits hlen ⊢
    have hl2 : ((IW.new f.1 f.2).orderedBits t.order 4).length = 2 * ((f.2 + 1) / 2) := by
      rw [hlen, hn]; simp [padCount]; omega
    obtain ⟨syms, h1, h2, _, _⟩ := chunk2_roundtrip _ _ hl2 hbits
    have hb4 : bitsPerSymbol 4 = 2 := by decide
    rw [hb4, h1] at hspec
    have : fieldIdx t f = syms := by simpa using hspec.symm
    rw [this, h2]
  · rw [h] at hspec hbits hlen ⊢
    have hl4 : ((IW.new f.1 f.2).orderedBits t.order 16).length = 4 * ((f.2 + 3) / 4) := by
      rw [hlen, hn]; simp [padCount]; omega
    obtain ⟨syms, h1, h2, _, _⟩ := chunk4_roundtrip _ _ hl4 hbits
    have hb16 : bitsPerSymbol 16 = 4 := by decide
    rw [hb16, h1] at hspec
    have : fieldIdx t f = syms := by simpa using hspec.symm
    rw [this, h2]

theorem flatMap_fields_bits (t : Tables) (hL : t.bursts.length = 2 ∨ t.bursts.length = 4 ∨ t.bursts.length = 16)
    (fields : List (Nat × Nat)) :
    (fields.flatMap (fieldIdx t)).flatMap (idxToBits t.bursts.length)
      = fields.flatMap (fun f => (IW.new f.1 f.2).orderedBits t.order t.bursts.length) := by
  induction fields with
  | nil => rfl
  | cons f fs ih => simp [List.flatMap_cons, List.flatMap_append, fieldIdx_bits t hL f, ih]

/-- reading the tiled fields back returns every value reduced modulo its width -/
theorem fields_decode (o : Order) (L : Nat) :
    ∀ (params : List (String × Nat × Nat)) (vals : List Nat) (off : Nat) (pre : List Nat),
      tiles L off params = true → vals.length = params.length → pre.length = off →
      params.map (fun p => (p.1, fieldValue o
          (pre ++ (fieldsOf params vals).flatMap (fun f => (IW.new f.1 f.2).orderedBits o L)) p.2.1 p.2.2))
        = List.zipWith (fun p v => (p.1, v % 2 ^ (p.2.2 + 1 - p.2.1))) params vals ∧
      (pre ++ (fieldsOf params vals).flatMap (fun f => (IW.new f.1 f.2).orderedBits o L)).length
        = tilesEnd off params := by
  intro params
  induction params with
  | nil =>
    intro vals off pre _ hl hp
    have : vals = [] := List.length_eq_zero_iff.mp (by simpa using hl)
    subst this
    simp [fieldsOf, tilesEnd, hp]
  | cons p ps ih =>
    intro vals off pre ht hl hp
    obtain ⟨n, a, b⟩ := p
    match vals, hl with
    | v :: vs, hl =>
      simp only [tiles, Bool.and_eq_true, beq_iff_eq, decide_eq_true_eq] at ht
      obtain ⟨⟨⟨ha, hab⟩, hpad⟩, hrest⟩ := ht
      have hpa : pre.length = a := by omega
      have hx : IW.WF (IW.new v (b + 1 - a)) := new_wf _ _
      obtain ⟨ob, hob⟩ : ∃ ob, ob = (IW.new v (b + 1 - a)).orderedBits o L := ⟨_, rfl⟩
      have hoblen : ob.length = b + 1 - a := by
        rw [hob, orderedBits_length]; show (b + 1 - a) + padCount L (b + 1 - a) = _
        rw [hpad]; rfl
      have hval : valueOfBits o ob = v % 2 ^ (b + 1 - a) := by
        rw [hob, valueOfBits_orderedBits _ hx]; exact (new_val v _).1
      have hfo : fieldsOf ((n, a, b) :: ps) (v :: vs) = (v, b + 1 - a) :: fieldsOf ps vs := rfl
      have hih := ih vs (b + 1) (pre ++ ob) hrest (by simpa using hl) (by rw [List.length_append, hoblen]; omega)
      rw [hfo]
      simp only [List.flatMap_cons, ← hob]
      rw [show pre ++ (ob ++ (fieldsOf ps vs).flatMap (fun f => (IW.new f.1 f.2).orderedBits o L))
            = (pre ++ ob) ++ (fieldsOf ps vs).flatMap (fun f => (IW.new f.1 f.2).orderedBits o L) from by simp]
      refine ⟨?_, by simpa [tilesEnd] using hih.2⟩
      simp only [List.map_cons, List.zipWith_cons_cons]
      rw [hih.1]
      congr 1
      -- the head field
      simp only [fieldValue, getValue]
      have hdrop : ((pre ++ ob ++ (fieldsOf ps vs).flatMap (fun f => (IW.new f.1 f.2).orderedBits o L)).drop a).take (b + 1 - a) = ob := by
        rw [← hpa, List.append_assoc, List.drop_left, List.take_left' (by rw [hoblen, hpa])]
      rw [hdrop, hval]
      congr 1
      show maskLoop _ _ = _
      rw [maskLoop_eq_mod]
      have hw : b - a + 1 = b + 1 - a := by omega
      rw [hw, Nat.mod_mod]

end IRModel.Engine
