import IRModel.WrapCheck
/-! Lemmas about the wrapper language: Python-int bit operations keep non-negative values non-negative, `safe`
expressions evaluate without error, static widths, closed expressions, substitution of encoder expressions for
decoded fields. -/
namespace IRModel.Wrap
open IRModel IRModel.Py

theorem ldiff_le (a b : Nat) : ldiff a b ≤ a := by
  apply Nat.le_of_testBit
  intro i h
  unfold ldiff at h
  rw [Nat.testBit_bitwise (by rfl)] at h
  simp at h
  exact h.1

theorem iand_nonneg_right {a b : Int} (hb : 0 ≤ b) : 0 ≤ iand a b := by
  cases a <;> cases b <;> simp_all [iand]
  all_goals omega

theorem iand_nonneg_left {a b : Int} (ha : 0 ≤ a) : 0 ≤ iand a b := by
  cases a <;> cases b <;> simp_all [iand]
  all_goals omega

theorem ior_nonneg {a b : Int} (ha : 0 ≤ a) (hb : 0 ≤ b) : 0 ≤ ior a b := by
  cases a <;> cases b <;> simp_all [ior]
  all_goals omega

theorem ixor_nonneg {a b : Int} (ha : 0 ≤ a) (hb : 0 ≤ b) : 0 ≤ ixor a b := by
  cases a <;> cases b <;> simp_all [ixor]
  all_goals omega

theorem iand_one_le (a : Int) : iand a 1 ≤ 1 := by
  cases a with
  | ofNat m =>
    show ((m &&& 1 : Nat) : Int) ≤ 1
    have : m &&& 1 ≤ 1 := Nat.and_le_right
    omega
  | negSucc m =>
    show ((ldiff 1 m : Nat) : Int) ≤ 1
    have := ldiff_le 1 m
    omega

theorem orBits_nonneg (is : List Nat) (g : Nat → Int) (hg : ∀ i, 0 ≤ g i) : 0 ≤ orBits is g := by
  unfold orBits
  suffices h : ∀ acc : Int, 0 ≤ acc → 0 ≤ is.foldl (fun acc i => ior acc (g i)) acc from h 0 (by omega)
  induction is with
  | nil => intro acc h; simpa
  | cons i is ih => intro acc h; simp only [List.foldl_cons]; exact ih _ (ior_nonneg h (hg i))

theorem bitAt_nonneg (a : IWV) (i : Nat) : 0 ≤ bitAt a i := iand_nonneg_right (by omega)
theorem bitAt_le_one (a : IWV) (i : Nat) : bitAt a i ≤ 1 := iand_one_le _

theorem pow_pos' (k : Nat) : (0 : Int) < 2 ^ k := Int.pow_pos (by omega)

theorem mkIW_some_nonneg {v : Int} (hv : 0 ≤ v) (w : Int) :
    (mkIW v (some w)).v = v % 2 ^ w.toNat ∧ (mkIW v (some w)).n = w ∧ 0 ≤ (mkIW v (some w)).v ∧ (mkIW v (some w)).v < 2 ^ w.toNat := by
  have hp := pow_pos' w.toNat
  simp only [mkIW, hv, if_true, true_and]
  exact ⟨Int.emod_nonneg _ (by omega), Int.emod_lt_of_pos _ hp⟩

theorem mkIW_none_v (v : Int) : (mkIW v none).v = v := rfl

theorem revBits_form (a : IWV) (nb : Int) : ∃ z, 0 ≤ z ∧ revBits a nb = mkIW z (some nb) :=
  ⟨_, orBits_nonneg _ _ (fun i => Int.mul_nonneg (bitAt_nonneg a i) (by have := pow_pos' (nb.toNat - 1 - i); omega)), rfl⟩

theorem invBits_form (a : IWV) (nb : Int) : ∃ z, 0 ≤ z ∧ invBits a nb = mkIW z (some nb) :=
  ⟨_, orBits_nonneg _ _ (fun i => Int.mul_nonneg (by have := bitAt_le_one a i; omega) (by have := pow_pos' i; omega)), rfl⟩

theorem popCount_nonneg (a : IWV) : 0 ≤ (popCount a).v := by
  unfold popCount
  rw [mkIW_none_v]
  suffices h : ∀ (l : List Nat) (acc : Int), 0 ≤ acc → 0 ≤ l.foldl (fun c i => c + iand (a.v >>> i) 1) acc from h _ 0 (by omega)
  intro l
  induction l with
  | nil => intro acc h; simpa
  | cons i l ih =>
    intro acc h; simp only [List.foldl_cons]
    exact ih _ (by have := iand_nonneg_right (a := a.v >>> i) (b := 1) (by omega); omega)

end IRModel.Wrap
namespace IRModel.Wrap
open IRModel IRModel.Py

structure GoodEnv (F : FieldWidths) (env : Env) : Prop where
  params : ∀ n, 0 ≤ env.params n
  fields : ∀ n w, (F.find? (fun p => p.1 == n)).map (·.2) = some w →
      ∃ x, env.fields n = some x ∧ 0 ≤ x.v ∧ x.v < 2 ^ w ∧ x.n = w

theorem mkIW_nonneg {v : Int} (hv : 0 ≤ v) (w : Option Int) : 0 ≤ (mkIW v w).v := by
  cases w with
  | none => exact hv
  | some w => exact (mkIW_some_nonneg hv w).2.2.1

theorem sliceFin_form (s : SliceStart) (c : IWV) (hc : 0 ≤ c.v) : 0 ≤ (sliceFin s c).v := by
  cases s with
  | none => exact hc
  | compl =>
    obtain ⟨z, hz, he⟩ := invBits_form c c.n
    show 0 ≤ (invBits c c.n).v
    rw [he]; exact mkIW_nonneg hz _

theorem revBits_nonneg (c : IWV) (nb : Int) : 0 ≤ (revBits c nb).v := by
  obtain ⟨z, hz, he⟩ := revBits_form c nb; rw [he]; exact mkIW_nonneg hz _

theorem orBitsShift_nonneg (a : IWV) (is : List Nat) (f : Nat → Nat) : 0 ≤ orBits is (fun i => bitAt a i * 2 ^ (f i)) :=
  orBits_nonneg _ _ (fun i => Int.mul_nonneg (bitAt_nonneg a i) (by have := pow_pos' (f i); omega))

theorem sliceCut_nonneg (a : IWV) (ha : 0 ≤ a.v) (st sp : Option Int)
    (hsp : ∀ k, sp = some k → 0 ≤ k) (hpat : ¬ (st = none ∧ sp.isSome = true)) :
    ∃ c, sliceCut a st sp = .ok c ∧ 0 ≤ c.v := by
  unfold sliceCut
  cases st with
  | none =>
    cases sp with
    | none => exact ⟨a, rfl, ha⟩
    | some k => exact absurd ⟨rfl, rfl⟩ hpat
  | some stv =>
    cases sp with
    | none =>
      simp only []
      split
      · exact ⟨_, rfl, mkIW_nonneg (orBitsShift_nonneg a _ (fun i => i)) _⟩
      · split
        · exact ⟨_, rfl, revBits_nonneg _ _⟩
        · exact ⟨a, rfl, ha⟩
    | some k =>
      have hk := hsp k rfl
      simp only []
      split
      · rw [if_neg (by omega)]
        exact ⟨_, rfl, mkIW_nonneg (orBitsShift_nonneg a _ (fun i => i - k.toNat)) _⟩
      · split
        · exact ⟨_, rfl, mkIW_nonneg (orBitsShift_nonneg a _ (fun i => i)) _⟩
        · split
          · split
            · exact ⟨_, rfl, revBits_nonneg _ _⟩
            · exact ⟨_, rfl, revBits_nonneg _ _⟩
          · exact ⟨a, rfl, ha⟩

theorem sliceIW_nonneg (a : IWV) (ha : 0 ≤ a.v) (s : SliceStart) (st sp : Option Int)
    (hsp : ∀ k, sp = some k → 0 ≤ k) (hpat : ¬ (st = none ∧ sp.isSome = true)) :
    ∃ x, sliceIW a s st sp = .ok x ∧ 0 ≤ x.v := by
  obtain ⟨c, hc, hcv⟩ := sliceCut_nonneg a ha st sp hsp hpat
  exact ⟨sliceFin s c, by unfold sliceIW; rw [hc], sliceFin_form s c hcv⟩

def okBinV (op : BinOp) (y : Int) : Bool :=
  match op with
  | .add => true | .mul => true | .and => true | .or => true | .xor => true
  | .mod => decide (0 < y)
  | .sub => false | .fdiv => false | .shl => false | .shr => false

theorem binVal_safe (op : BinOp) (x y : Int) (hx : 0 ≤ x) (hy : 0 ≤ y) (hop : okBinV op y = true) :
    ∃ r, binVal op x y = .ok r ∧ 0 ≤ r := by
  cases op <;> simp only [binVal, okBinV] at hop ⊢
  · exact ⟨_, rfl, by omega⟩
  · simp at hop
  · exact ⟨_, rfl, Int.mul_nonneg hx hy⟩
  · simp at hop
  · have hy' : 0 < y := by simpa using hop
    rw [if_neg (by omega)]
    refine ⟨_, rfl, ?_⟩
    rw [Int.fmod_eq_emod_of_nonneg _ (by omega)]
    exact Int.emod_nonneg _ (by omega)
  · exact ⟨_, rfl, iand_nonneg_left hx⟩
  · exact ⟨_, rfl, ior_nonneg hx hy⟩
  · exact ⟨_, rfl, ixor_nonneg hx hy⟩
  · simp at hop
  · simp at hop

theorem okBin_okBinV (env : Env) (op : BinOp) (b : WExp) (y : IWV) (h : okBin op b = true) (hy : eval env b = .ok y) :
    okBinV op y.v = true := by
  cases op <;> simp only [okBin, okBinV] at h ⊢ <;> try exact h
  cases b with
  | const k =>
    simp only [isPosConst] at h
    simp only [eval] at hy
    have : y = mkIW k none := by injection hy with h'; exact h'.symm
    rw [this, mkIW_none_v]; exact h
  | _ => simp [isPosConst] at h

theorem isNonnegConst_eval (env : Env) (k : WExp) (h : isNonnegConst k = true) :
    ∃ c, 0 ≤ c ∧ eval env k = .ok (mkIW c none) := by
  cases k with
  | const c => exact ⟨c, by simpa [isNonnegConst] using h, rfl⟩
  | _ => simp [isNonnegConst] at h

/-- the fields of the held code named in `L` are present, non-negative and in width -/
def LastOK (L : FieldWidths) (env : Env) : Prop :=
  ∀ n w, (L.find? (fun p => p.1 == n)).map (·.2) = some w →
    ∃ x, env.last n = some x ∧ 0 ≤ x.v ∧ x.v < 2 ^ w ∧ x.n = w

theorem safeL_eval (F L : FieldWidths) (env : Env) (h : GoodEnv F env) (hl : LastOK L env) :
    ∀ e, safe F L e = true → ∃ x, eval env e = .ok x ∧ 0 ≤ x.v := by
  intro e
  induction e with
  | param n => intro _; exact ⟨_, rfl, h.params n⟩
  | field n =>
    intro hs
    simp only [safe] at hs
    obtain ⟨p, hp⟩ := Option.isSome_iff_exists.mp hs
    obtain ⟨x, hx, hv, _, _⟩ := h.fields n p.2 (by rw [hp]; rfl)
    exact ⟨x, by simp only [eval, hx], hv⟩
  | lastfield n =>
    intro hs
    simp only [safe] at hs
    obtain ⟨p, hp⟩ := Option.isSome_iff_exists.mp hs
    obtain ⟨x, hx, hv, _, _⟩ := hl n p.2 (by rw [hp]; rfl)
    exact ⟨x, by simp only [eval, hx], hv⟩
  | const k => intro hs; simp only [safe, decide_eq_true_eq] at hs; exact ⟨_, rfl, hs⟩
  | mk e w ih =>
    intro hs; simp only [safe] at hs
    obtain ⟨x, hx, hv⟩ := ih hs
    exact ⟨_, by simp only [eval, hx, bind, Except.bind, pure, Except.pure] <;> rfl, mkIW_nonneg hv _⟩
  | mkd e ih =>
    intro hs; simp only [safe] at hs
    obtain ⟨x, hx, hv⟩ := ih hs
    exact ⟨mkIW x.v none, by simp only [eval, hx, bind, Except.bind, pure, Except.pure], hv⟩
  | bin op a b iha ihb =>
    intro hs; simp only [safe, Bool.and_eq_true] at hs
    obtain ⟨⟨ha, hb⟩, hop⟩ := hs
    obtain ⟨x, hx, hxv⟩ := iha ha
    obtain ⟨y, hy, hyv⟩ := ihb hb
    obtain ⟨r, hr, hrv⟩ := binVal_safe op x.v y.v hxv hyv (okBin_okBinV env op b y hop hy)
    exact ⟨_, by simp only [eval, hx, hy, hr, bind, Except.bind, pure, Except.pure] <;> rfl, hrv⟩
  | ibin op a b iha ihb =>
    intro hs; simp only [safe, Bool.and_eq_true] at hs
    obtain ⟨⟨ha, hb⟩, hop⟩ := hs
    obtain ⟨x, hx, hxv⟩ := iha ha
    obtain ⟨y, hy, hyv⟩ := ihb hb
    obtain ⟨r, hr, hrv⟩ := binVal_safe op x.v y.v hxv hyv (okBin_okBinV env op b y hop hy)
    exact ⟨_, by simp only [eval, hx, hy, hr, bind, Except.bind, pure, Except.pure] <;> rfl, hrv⟩
  | shl a k iha _ =>
    intro hs; simp only [safe, Bool.and_eq_true] at hs
    obtain ⟨x, hx, hxv⟩ := iha hs.1
    obtain ⟨c, hc, hk⟩ := isNonnegConst_eval env k hs.2
    refine ⟨mkIW (x.v * 2 ^ c.toNat) (some (x.n + c)), ?_, ?_⟩
    · simp only [eval, hx, hk, bind, Except.bind, pure, Except.pure]
      rw [if_neg (by show ¬ c < 0; omega)]
      rfl
    · exact mkIW_nonneg (Int.mul_nonneg hxv (by have := pow_pos' c.toNat; omega)) _
  | shr a k iha _ =>
    intro hs; simp only [safe, Bool.and_eq_true] at hs
    obtain ⟨x, hx, hxv⟩ := iha hs.1
    obtain ⟨c, hc, hk⟩ := isNonnegConst_eval env k hs.2
    refine ⟨mkIW (x.v >>> c.toNat) (some (x.n - c)), ?_, ?_⟩
    · simp only [eval, hx, hk, bind, Except.bind, pure, Except.pure]
      rw [if_neg (by show ¬ c < 0; omega)]
      rfl
    · refine mkIW_nonneg ?_ _
      rw [Int.shiftRight_eq_div_pow]
      exact Int.ediv_nonneg hxv (Int.natCast_nonneg _)
  | neg a _ => intro hs; simp [safe] at hs
  | pos a _ => intro hs; simp [safe] at hs
  | abs a _ => intro hs; simp [safe] at hs
  | inv a _ => intro hs; simp [safe] at hs
  | rev a ih =>
    intro hs; simp only [safe] at hs
    obtain ⟨x, hx, _⟩ := ih hs
    exact ⟨_, by simp only [eval, hx, bind, Except.bind, pure, Except.pure] <;> rfl, revBits_nonneg _ _⟩
  | invbits a nb ih =>
    intro hs; simp only [safe] at hs
    obtain ⟨x, hx, _⟩ := ih hs
    obtain ⟨z, hz, he⟩ := invBits_form x (nb.getD x.n)
    exact ⟨_, by simp only [eval, hx, bind, Except.bind, pure, Except.pure] <;> rfl, by rw [he]; exact mkIW_nonneg hz _⟩
  | revbits a nb ih =>
    intro hs; simp only [safe] at hs
    obtain ⟨x, hx, _⟩ := ih hs
    exact ⟨_, by simp only [eval, hx, bind, Except.bind, pure, Except.pure] <;> rfl, revBits_nonneg _ _⟩
  | slice a s st sp ih =>
    intro hs; simp only [safe, Bool.and_eq_true] at hs
    obtain ⟨ha, hok⟩ := hs
    obtain ⟨x, hx, hxv⟩ := ih ha
    simp only [okSlice, Bool.and_eq_true, Bool.not_eq_true'] at hok
    obtain ⟨r, hr, hrv⟩ := sliceIW_nonneg x hxv s st sp
      (by intro k hk; subst hk; simpa using hok.1)
      (by rintro ⟨rfl, h2⟩; have := hok.2; simp [h2] at this)
    exact ⟨r, by simp only [eval, hx, bind, Except.bind]; exact hr, hrv⟩
  | popcount a ih =>
    intro hs; simp only [safe] at hs
    obtain ⟨x, hx, _⟩ := ih hs
    exact ⟨_, by simp only [eval, hx, bind, Except.bind, pure, Except.pure] <;> rfl, popCount_nonneg _⟩
  | bit a i _ => intro hs; simp [safe] at hs

theorem safe_eval (F : FieldWidths) (env : Env) (h : GoodEnv F env) :
    ∀ e, safe F [] e = true → ∃ x, eval env e = .ok x ∧ 0 ≤ x.v :=
  safeL_eval F [] env h (by intro n w hw; simp at hw)

/-! ### static widths -/

theorem sliceCut_form (a : IWV) (st : Int) (hst : 0 < st) (sp : Option Int) (hsp : ∀ k, sp = some k → 0 ≤ k) :
    ∃ z, 0 ≤ z ∧ sliceCut a (some st) sp = .ok (mkIW z (some st)) := by
  unfold sliceCut
  cases sp with
  | none =>
    simp only []
    rw [if_pos hst]
    exact ⟨_, orBitsShift_nonneg a _ (fun i => i), rfl⟩
  | some k =>
    have hk := hsp k rfl
    simp only []
    split
    · rw [if_neg (by omega)]
      exact ⟨_, orBitsShift_nonneg a _ (fun i => i - k.toNat), rfl⟩
    · first
        | rw [if_pos hst]; exact ⟨_, orBitsShift_nonneg a _ (fun i => i), rfl⟩
        | exact ⟨_, orBitsShift_nonneg a _ (fun i => i), rfl⟩

theorem mkIW_bound {z : Int} (hz : 0 ≤ z) (w : Nat) :
    (mkIW z (some (w : Int))).n = (w : Int) ∧ 0 ≤ (mkIW z (some (w : Int))).v ∧ (mkIW z (some (w : Int))).v < 2 ^ w := by
  obtain ⟨_, h2, h3, h4⟩ := mkIW_some_nonneg hz (w : Int)
  refine ⟨h2, h3, ?_⟩
  simpa using h4

theorem staticW_eval (F : FieldWidths) (env : Env) (h : GoodEnv F env) (e : WExp) (hs : safe F [] e = true)
    (w : Nat) (hw : staticW F e = some w) (x : IWV) (hx : eval env e = .ok x) :
    x.n = (w : Int) ∧ 0 ≤ x.v ∧ x.v < 2 ^ w := by
  cases e with
  | field n =>
    simp only [staticW] at hw
    obtain ⟨y, hy, h1, h2, h3⟩ := h.fields n w hw
    simp only [eval, hy] at hx
    injection hx with hx; subst hx
    exact ⟨h3, h1, h2⟩
  | mk e' w' =>
    simp only [staticW] at hw
    split at hw
    · rename_i hw0
      injection hw with hw; subst hw
      simp only [safe] at hs
      obtain ⟨y, hy, hyv⟩ := safe_eval F env h e' hs
      simp only [eval, hy, bind, Except.bind, pure, Except.pure] at hx
      injection hx with hx; subst hx
      have : w' = ((w'.toNat : Nat) : Int) := by omega
      rw [this]; exact mkIW_bound hyv _
    · exact absurd hw (by simp)
  | invbits a nb =>
    cases nb with
    | none => simp [staticW] at hw
    | some k =>
      simp only [staticW] at hw
      split at hw
      · injection hw with hw; subst hw
        simp only [safe] at hs
        obtain ⟨y, hy, _⟩ := safe_eval F env h a hs
        simp only [eval, hy, bind, Except.bind, pure, Except.pure, Option.getD] at hx
        injection hx with hx; subst hx
        obtain ⟨z, hz, he⟩ := invBits_form y k
        rw [he]
        have : k = ((k.toNat : Nat) : Int) := by omega
        rw [this]; exact mkIW_bound hz _
      · exact absurd hw (by simp)
  | revbits a nb =>
    cases nb with
    | none => simp [staticW] at hw
    | some k =>
      simp only [staticW] at hw
      split at hw
      · injection hw with hw; subst hw
        simp only [safe] at hs
        obtain ⟨y, hy, _⟩ := safe_eval F env h a hs
        simp only [eval, hy, bind, Except.bind, pure, Except.pure, Option.getD] at hx
        injection hx with hx; subst hx
        obtain ⟨z, hz, he⟩ := revBits_form y k
        rw [he]
        have : k = ((k.toNat : Nat) : Int) := by omega
        rw [this]; exact mkIW_bound hz _
      · exact absurd hw (by simp)
  | slice a s st sp =>
    cases st with
    | none => simp [staticW] at hw
    | some stv =>
      simp only [staticW] at hw
      split at hw
      · rename_i hpos
        injection hw with hw; subst hw
        obtain ⟨W, rfl⟩ : ∃ W : Nat, stv = (W : Int) := ⟨stv.toNat, by omega⟩
        simp only [Int.toNat_natCast]
        simp only [safe, Bool.and_eq_true, okSlice] at hs
        obtain ⟨y, hy, _⟩ := safe_eval F env h a hs.1
        obtain ⟨z, hz, hc⟩ := sliceCut_form y (W : Int) hpos sp (by intro k hk; subst hk; simpa using hs.2.1)
        simp only [eval, hy, bind, Except.bind, sliceIW, hc] at hx
        injection hx with hx; subst hx
        cases s with
        | none => exact mkIW_bound hz _
        | compl =>
          have hfin : sliceFin SliceStart.compl (mkIW z (some (W : Int))) =
              invBits (mkIW z (some (W : Int))) (mkIW z (some (W : Int))).n := rfl
          obtain ⟨z', hz', he⟩ := invBits_form (mkIW z (some (W : Int))) (mkIW z (some (W : Int))).n
          have hn : (mkIW z (some (W : Int))).n = (W : Int) := (mkIW_some_nonneg hz _).2.1
          rw [hfin, he, hn]; exact mkIW_bound hz' _
      · exact absurd hw (by simp)
  | _ => simp [staticW] at hw

/-! ### closed expressions, substitution -/

theorem closed_eval (env env' : Env) : ∀ e, closed e = true → eval env e = eval env' e := by
  intro e
  induction e with
  | param n => intro h; simp [closed] at h
  | field n => intro h; simp [closed] at h
  | lastfield n => intro h; simp [closed] at h
  | const k => intro _; rfl
  | mk e w ih => intro h; simp only [closed] at h; simp only [eval, ih h]
  | mkd e ih => intro h; simp only [closed] at h; simp only [eval, ih h]
  | bin op a b iha ihb => intro h; simp only [closed, Bool.and_eq_true] at h; simp only [eval, iha h.1, ihb h.2]
  | ibin op a b iha ihb => intro h; simp only [closed, Bool.and_eq_true] at h; simp only [eval, iha h.1, ihb h.2]
  | shl a b iha ihb => intro h; simp only [closed, Bool.and_eq_true] at h; simp only [eval, iha h.1, ihb h.2]
  | shr a b iha ihb => intro h; simp only [closed, Bool.and_eq_true] at h; simp only [eval, iha h.1, ihb h.2]
  | neg e ih => intro h; simp only [closed] at h; simp only [eval, ih h]
  | pos e ih => intro h; simp only [closed] at h; simp only [eval, ih h]
  | abs e ih => intro h; simp only [closed] at h; simp only [eval, ih h]
  | inv e ih => intro h; simp only [closed] at h; simp only [eval, ih h]
  | rev e ih => intro h; simp only [closed] at h; simp only [eval, ih h]
  | invbits e nb ih => intro h; simp only [closed] at h; simp only [eval, ih h]
  | revbits e nb ih => intro h; simp only [closed] at h; simp only [eval, ih h]
  | slice e s st sp ih => intro h; simp only [closed] at h; simp only [eval, ih h]
  | popcount e ih => intro h; simp only [closed] at h; simp only [eval, ih h]
  | bit e i ih => intro h; simp only [closed] at h; simp only [eval, ih h]

/-- the decode-side environment agrees with the encoder's expressions -/
structure Agree (σ : String → Option WExp) (envD envE : Env) : Prop where
  last  : envD.last = envE.last
  nofld : ∀ n, envE.fields n = none
  some' : ∀ n e, σ n = some e → ∃ x, eval envE e = .ok x ∧ envD.fields n = some x
  none' : ∀ n, σ n = none → envD.fields n = none

theorem eval_subst (σ : String → Option WExp) (envD envE : Env) (hA : Agree σ envD envE) :
    ∀ e, noParam e = true → eval envD e = eval envE (subst σ e) := by
  intro e
  induction e with
  | param n => intro h; simp [noParam] at h
  | field n =>
    intro _
    simp only [subst]
    cases hσ : σ n with
    | none => simp only [eval, hA.none' n hσ, hA.nofld n]
    | some e' =>
      obtain ⟨x, hx, hf⟩ := hA.some' n e' hσ
      simp only [eval, hf, hx]
  | lastfield n => intro _; simp only [subst, eval, hA.last]
  | const k => intro _; rfl
  | mk e w ih => intro h; simp only [noParam] at h; simp only [subst, eval, ih h]
  | mkd e ih => intro h; simp only [noParam] at h; simp only [subst, eval, ih h]
  | bin op a b iha ihb => intro h; simp only [noParam, Bool.and_eq_true] at h; simp only [subst, eval, iha h.1, ihb h.2]
  | ibin op a b iha ihb => intro h; simp only [noParam, Bool.and_eq_true] at h; simp only [subst, eval, iha h.1, ihb h.2]
  | shl a b iha ihb => intro h; simp only [noParam, Bool.and_eq_true] at h; simp only [subst, eval, iha h.1, ihb h.2]
  | shr a b iha ihb => intro h; simp only [noParam, Bool.and_eq_true] at h; simp only [subst, eval, iha h.1, ihb h.2]
  | neg e ih => intro h; simp only [noParam] at h; simp only [subst, eval, ih h]
  | pos e ih => intro h; simp only [noParam] at h; simp only [subst, eval, ih h]
  | abs e ih => intro h; simp only [noParam] at h; simp only [subst, eval, ih h]
  | inv e ih => intro h; simp only [noParam] at h; simp only [subst, eval, ih h]
  | rev e ih => intro h; simp only [noParam] at h; simp only [subst, eval, ih h]
  | invbits e nb ih => intro h; simp only [noParam] at h; simp only [subst, eval, ih h]
  | revbits e nb ih => intro h; simp only [noParam] at h; simp only [subst, eval, ih h]
  | slice e s st sp ih => intro h; simp only [noParam] at h; simp only [subst, eval, ih h]
  | popcount e ih => intro h; simp only [noParam] at h; simp only [subst, eval, ih h]
  | bit e i ih => intro h; simp only [noParam] at h; simp only [subst, eval, ih h]

end IRModel.Wrap
