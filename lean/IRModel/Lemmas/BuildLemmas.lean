import IRModel.Lemmas.AltLemmas
import IRModel.Lemmas.EngineLemmas
import IRModel.Props.C19
/-! `_build_packet` on keyword fields yields a class-A frame -/
namespace IRModel.Engine
open IRModel IRModel.Py IRModel.Bits IRModel.Encode

/-- symbol indices a field renders to -/
def fieldIdx (t : Tables) (f : Nat × Nat) : List Nat :=
  ((IW.new f.1 f.2).symbolIdx t.order t.bursts.length).getD []

/-- decidable well-formedness of class-A tables, encode side -/
def wfB (t : Tables) : Bool :=
  (t.bursts.length == 2 || t.bursts.length == 4 || t.bursts.length == 16) &&
  altP t.leadIn &&
  t.bursts.all (fun p => decide (p.1 > 0) && decide (p.2 < 0)) &&
  (match t.leadOut with
   | [mo, x] => decide (mo > 0) && decide (x ≠ 0)
   | _ => false)

theorem symTimings_append (b : List (Int × Int)) (i j : List Nat) :
    symTimings b (i ++ j) = symTimings b i ++ symTimings b j := by
  simp [symTimings, List.flatMap_append]

theorem fieldIdx_spec (t : Tables) (hL : t.bursts.length = 2 ∨ t.bursts.length = 4 ∨ t.bursts.length = 16)
    (f : Nat × Nat) :
    (IW.new f.1 f.2).symbolIdx t.order t.bursts.length = some (fieldIdx t f) ∧
    (∀ i ∈ fieldIdx t f, i < t.bursts.length) := by
  obtain ⟨syms, h1, _, h3, _⟩ := IRModel.Props.C19.render_parse f.1 f.2 t.order t.bursts.length hL
  unfold fieldIdx
  rw [h1]
  exact ⟨rfl, h3⟩

theorem mapM_getElem (b : List (Int × Int)) :
    ∀ (idx : List Nat), (∀ i ∈ idx, i < b.length) →
      idx.mapM (fun i => b[i]?) = some (idx.map (fun i => b[i]?.getD (0, 0))) := by
  intro idx
  induction idx with
  | nil => intro _; rfl
  | cons i idx ih =>
    intro h
    have hi : i < b.length := h i (by simp)
    simp only [List.mapM_cons, List.getElem?_eq_getElem hi, ih (fun j hj => h j (by simp [hj]))]
    simp [bind, Option.bind, pure, List.getElem?_eq_getElem hi]

theorem flatMap_syms (b : List (Int × Int)) :
    ∀ (idx : List Nat), (∀ i ∈ idx, i < b.length) →
      (idx.map (fun i => b[i]?.getD (0, 0))).flatMap (fun p => [p.1, p.2]) = symTimings b idx := by
  intro idx
  induction idx with
  | nil => intro _; rfl
  | cons i idx ih =>
    intro h
    have hi : i < b.length := h i (by simp)
    simp only [List.map_cons, List.flatMap_cons, List.getElem?_eq_getElem hi, Option.getD_some,
      ih (fun j hj => h j (by simp [hj]))]
    rw [symTimings_cons b i idx _ (List.getElem?_eq_getElem hi)]
    rfl

theorem fieldTimings_spec (t : Tables) (hL : t.bursts.length = 2 ∨ t.bursts.length = 4 ∨ t.bursts.length = 16)
    (f : Nat × Nat) : fieldTimings t f.1 f.2 = some (symTimings t.bursts (fieldIdx t f)) := by
  obtain ⟨h1, h2⟩ := fieldIdx_spec t hL f
  unfold fieldTimings
  rw [h1]
  simp only [mapM_getElem t.bursts _ h2, Option.map_some, flatMap_syms t.bursts _ h2]

theorem items_timings (t : Tables) (hL : t.bursts.length = 2 ∨ t.bursts.length = 4 ∨ t.bursts.length = 16) :
    ∀ (fields : List (Nat × Nat)),
      (fields.map (fun f => Item.field f.1 f.2)).mapM (itemTimings t)
        = some (fields.map (fun f => symTimings t.bursts (fieldIdx t f))) := by
  intro fields
  induction fields with
  | nil => rfl
  | cons f fs ih =>
    simp only [List.map_cons, List.mapM_cons, itemTimings, fieldTimings_spec t hL f, ih]
    rfl

theorem flatten_syms (t : Tables) :
    ∀ (fields : List (Nat × Nat)),
      (fields.map (fun f => symTimings t.bursts (fieldIdx t f))).flatten
        = symTimings t.bursts (fields.flatMap (fieldIdx t)) := by
  intro fields
  induction fields with
  | nil => rfl
  | cons f fs ih => simp [List.flatMap_cons, symTimings_append, ih]

theorem altP_syms (b : List (Int × Int)) (hb : ∀ p ∈ b, p.1 > 0 ∧ p.2 < 0) :
    ∀ (idx : List Nat), (∀ i ∈ idx, i < b.length) → altP (symTimings b idx) = true := by
  intro idx
  induction idx with
  | nil => intro _; rfl
  | cons i idx ih =>
    intro h
    have hi : i < b.length := h i (by simp)
    rw [symTimings_cons b i idx _ (List.getElem?_eq_getElem hi)]
    have := hb _ (List.getElem_mem hi)
    simp only [altP, Bool.and_eq_true, decide_eq_true_eq]
    exact ⟨⟨this.1, this.2⟩, ih (fun j hj => h j (by simp [hj]))⟩

theorem wfB_spec {t : Tables} (h : wfB t = true) :
    (t.bursts.length = 2 ∨ t.bursts.length = 4 ∨ t.bursts.length = 16) ∧ altP t.leadIn = true ∧
    (∀ p ∈ t.bursts, p.1 > 0 ∧ p.2 < 0) ∧ ∃ mo x, t.leadOut = [mo, x] ∧ mo > 0 ∧ x ≠ 0 := by
  unfold wfB at h
  simp only [Bool.and_eq_true, Bool.or_eq_true, beq_iff_eq, List.all_eq_true, decide_eq_true_eq] at h
  obtain ⟨⟨⟨h1, h2⟩, h3⟩, h4⟩ := h
  refine ⟨by omega, h2, h3, ?_⟩
  split at h4
  · rename_i mo x hlo
    simp only [Bool.and_eq_true, decide_eq_true_eq] at h4
    exact ⟨mo, x, hlo, h4.1, h4.2⟩
  · simp at h4

/-- **`_build_packet` produces a class-A frame** (and that frame is a list of +mark/−space pairs) -/
theorem build_frameA (t : Tables) (hB : wfB t = true) (mo x : Int) (hlo : t.leadOut = [mo, x])
    (fields : List (Nat × Nat))
    (hfit : x > 0 → sumAbs (t.leadIn ++ symTimings t.bursts (fields.flatMap (fieldIdx t)) ++ [mo]) < x) :
    buildPacket t (fields.map (fun f => Item.field f.1 f.2))
        = .ok (frameA t mo x (fields.flatMap (fieldIdx t))) ∧
    altP (frameA t mo x (fields.flatMap (fieldIdx t))) = true ∧
    (∀ i ∈ fields.flatMap (fieldIdx t), i < t.bursts.length) := by
  obtain ⟨hL, hli, hb, mo', x', hlo', hmo, hx0⟩ := wfB_spec hB
  rw [hlo] at hlo'
  obtain ⟨rfl, rfl⟩ : mo = mo' ∧ x = x' := by simpa using hlo'
  have hidx : ∀ i ∈ fields.flatMap (fieldIdx t), i < t.bursts.length := by
    intro i hi
    obtain ⟨f, _, hf⟩ := List.mem_flatMap.mp hi
    exact (fieldIdx_spec t hL f).2 i hf
  obtain ⟨idx, hidxdef⟩ : ∃ idx, idx = fields.flatMap (fieldIdx t) := ⟨_, rfl⟩
  rw [← hidxdef] at hidx hfit ⊢
  have hsy : altP (symTimings t.bursts idx) = true := altP_syms t.bursts hb idx hidx
  have hbody : altP (t.leadIn ++ symTimings t.bursts idx) = true := altP_append _ _ hli hsy
  have hgneg : lastGap mo x (t.leadIn ++ symTimings t.bursts idx) < 0 := by
    unfold lastGap
    split
    · rename_i hx; have := hfit hx; omega
    · omega
  have halt : altP (frameA t mo x idx) = true := by
    unfold frameA
    apply altP_append _ _ hbody
    simp only [altP, Bool.and_eq_true, decide_eq_true_eq]
    exact ⟨⟨hmo, hgneg⟩, trivial⟩
  refine ⟨?_, halt, hidx⟩
  unfold buildPacket
  rw [items_timings t hL fields]
  simp only []
  rw [flatten_syms, ← hidxdef, hlo]
  simp only [List.getLast?_cons_cons, List.getLast?_singleton]
  by_cases hx : x > 0
  · have h1 : (t.leadIn ++ symTimings t.bursts idx ++ [mo, x]).getLastD 0 > 0 := by
      have : t.leadIn ++ symTimings t.bursts idx ++ [mo, x] = (t.leadIn ++ symTimings t.bursts idx ++ [mo]) ++ [x] := by simp
      rw [this, List.getLastD_concat]; exact hx
    rw [if_pos h1]
    have h2 : (t.leadIn ++ symTimings t.bursts idx ++ [mo, x]).dropLast = t.leadIn ++ symTimings t.bursts idx ++ [mo] := by
      have : t.leadIn ++ symTimings t.bursts idx ++ [mo, x] = (t.leadIn ++ symTimings t.bursts idx ++ [mo]) ++ [x] := by simp
      rw [this, List.dropLast_concat]
    rw [h2, compress_altP_snoc _ mo hbody hmo]
    have h3 : t.leadIn ++ symTimings t.bursts idx ++ [mo] ++ [sumAbs (t.leadIn ++ symTimings t.bursts idx ++ [mo]) - x]
        = frameA t mo x idx := by
      unfold frameA lastGap; simp only [if_pos hx]; simp
    rw [h3, compress_altP _ halt]
  · have h1 : ¬ (t.leadIn ++ symTimings t.bursts idx ++ [mo, x]).getLastD 0 > 0 := by
      have : t.leadIn ++ symTimings t.bursts idx ++ [mo, x] = (t.leadIn ++ symTimings t.bursts idx ++ [mo]) ++ [x] := by simp
      rw [this, List.getLastD_concat]; exact hx
    rw [if_neg h1]
    have h3 : t.leadIn ++ symTimings t.bursts idx ++ [mo, x] = frameA t mo x idx := by
      unfold frameA lastGap; simp only [if_neg hx]
    rw [h3, compress_altP _ halt]

end IRModel.Engine
