import IRModel.Lemmas.WrapGlue
/-! Lemmas for C05 at wrapper level: decision paths of a decode tree, `normF`, `substParam`, `justified`, and the
specification form of the theorem. -/
namespace IRModel.Wrap
open IRModel IRModel.Py IRModel.Encode IRModel.Proto IRModel.Props.EngineThm IRModel.Engine

/-! ### paths -/

theorem lastOK_nil (env : Env) : LastOK [] env := by intro n w hw; simp at hw

theorem condSafe_eval (F L : FieldWidths) (env : Env) (h : GoodEnv F env) (hl : LastOK L env) (le : Bool) :
    ∀ c, condSafe F L c = true → ∃ b, evalCond env le c = .ok b := by
  intro c
  induction c with
  | cmp op a b =>
    intro hs
    simp only [condSafe, Bool.and_eq_true] at hs
    obtain ⟨x, hx, _⟩ := safeL_eval F L env h hl a hs.1
    obtain ⟨y, hy, _⟩ := safeL_eval F L env h hl b hs.2
    exact ⟨cmpVal op x.v y.v, by simp only [evalCond, hx, hy, bind, Except.bind, pure, Except.pure]⟩
  | lastEq => intro _; exact ⟨le, rfl⟩
  | not c ih =>
    intro hs
    obtain ⟨b, hb⟩ := ih hs
    exact ⟨!b, by simp only [evalCond, hb, bind, Except.bind, pure, Except.pure]⟩
  | nbitsNe0 a => intro hs; simp [condSafe] at hs

theorem runTree_path (F L : FieldWidths) (env : Env) (h : GoodEnv F env) (hl : LastOK L env) (le : Bool) :
    ∀ tr, treeSafe F L tr = true →
      ∃ p ∈ paths tr, (∀ cb ∈ p.1, evalCond env le cb.1 = .ok cb.2) ∧
        runTree env le tr = runTree env le (.leaf p.2.1 p.2.2) := by
  intro tr
  induction tr with
  | leaf e o => intro _; exact ⟨([], e, o), by simp [paths], by simp, rfl⟩
  | ite c t e iht ihe =>
    intro hs
    simp only [treeSafe, Bool.and_eq_true] at hs
    obtain ⟨b, hb⟩ := condSafe_eval F L env h hl le c hs.1.1
    cases b with
    | true =>
      obtain ⟨p, hp, hc, hr⟩ := iht hs.1.2
      refine ⟨((c, true) :: p.1, p.2), ?_, ?_, ?_⟩
      · simp only [paths, List.mem_append, List.mem_map]
        exact Or.inl ⟨p, hp, rfl⟩
      · intro cb hcb
        rcases List.mem_cons.mp hcb with rfl | h'
        · exact hb
        · exact hc cb h'
      · rw [runTree, hb]; exact hr
    | false =>
      obtain ⟨p, hp, hc, hr⟩ := ihe hs.2
      refine ⟨((c, false) :: p.1, p.2), ?_, ?_, ?_⟩
      · simp only [paths, List.mem_append, List.mem_map]
        exact Or.inr ⟨p, hp, rfl⟩
      · intro cb hcb
        rcases List.mem_cons.mp hcb with rfl | h'
        · exact hb
        · exact hc cb h'
      · rw [runTree, hb]; exact hr

/-! ### normF -/

theorem normF_eval (F : FieldWidths) (env : Env) (h : GoodEnv F env) : ∀ e, eval env (normF F e) = eval env e := by
  intro e
  induction e with
  | mk e w ih =>
    simp only [normF]
    split
    · rename_i n hn
      split
      · rename_i hw
        -- `mk (field n) w` with `w` the width of `n`
        rw [hn] at ih
        simp only [eval] at ih ⊢
        rw [← ih]
        cases hf : F.find? (fun p => p.1 == n) with
        | none => simp [hf] at hw
        | some q =>
          simp only [hf, Option.map_some, beq_iff_eq, Option.some.injEq] at hw
          obtain ⟨x, hx, hxv, hlt, hxn⟩ := h.fields n q.2 (by rw [hf]; rfl)
          simp only [hx, bind, Except.bind, pure, Except.pure]
          congr 1
          obtain ⟨h1, h2, _, _⟩ := mkIW_some_nonneg hxv w
          cases x with
          | mk xv xn =>
            simp only at hxn hxv hlt h1 h2 ⊢
            generalize hm : mkIW xv (some w) = m at h1 h2
            cases m with
            | mk mv mn =>
              simp only at h1 h2
              subst hxn
              rw [h1, h2, ← hw]
              congr 1
              rw [Int.toNat_natCast]
              exact (Int.emod_eq_of_lt hxv hlt).symm
      · rw [hn] at ih
        simp only [eval] at ih ⊢
        rw [ih]
    · rename_i hne
      simp only [eval, ih]
  | param n => rfl
  | field n => rfl
  | lastfield n => rfl
  | const k => rfl
  | mkd e ih => simp only [normF, eval, ih]
  | bin op a b iha ihb => simp only [normF, eval, iha, ihb]
  | ibin op a b iha ihb => simp only [normF, eval, iha, ihb]
  | shl a b iha ihb => simp only [normF, eval, iha, ihb]
  | shr a b iha ihb => simp only [normF, eval, iha, ihb]
  | neg e ih => simp only [normF, eval, ih]
  | pos e ih => simp only [normF, eval, ih]
  | abs e ih => simp only [normF, eval, ih]
  | inv e ih => simp only [normF, eval, ih]
  | rev e ih => simp only [normF, eval, ih]
  | invbits e nb ih => simp only [normF, eval, ih]
  | revbits e nb ih => simp only [normF, eval, ih]
  | slice e s st sp ih => simp only [normF, eval, ih]
  | popcount e ih => simp only [normF, eval, ih]
  | bit e i ih => simp only [normF, eval, ih]

/-! ### substParam -/

/-- the encoder evaluated on the reported parameters = its expressions, with parameters replaced by the reporting
    fields, evaluated on the decoded fields -/
theorem substParam_eval (F : FieldWidths) (ρ : String → String) (envU envD : Env)
    (hρ : ∀ n, (F.find? (fun p => p.1 == ρ n)).isSome = true → ∃ x, envD.fields (ρ n) = some x ∧ x.v = envU.params n) :
    ∀ e, valueOnly e = true → paramsCovered F ρ e = true → ∀ x, eval envU e = .ok x →
      ∃ y, eval envD (substParam ρ e) = .ok y ∧ y.v = x.v ∧ (isParam e = false → y = x) := by
  intro e
  induction e with
  | param n =>
    intro _ hc x hx
    simp only [paramsCovered] at hc
    obtain ⟨y, hy, hv⟩ := hρ n hc
    simp only [eval] at hx
    injection hx with hx; subst hx
    exact ⟨y, by simp only [substParam, eval, hy], hv, by simp [isParam]⟩
  | field n => intro h; simp [valueOnly] at h
  | lastfield n => intro h; simp [valueOnly] at h
  | const k => intro _ _ x hx; exact ⟨x, hx, rfl, fun _ => rfl⟩
  | mk e w ih =>
    intro hv hc x hx
    simp only [valueOnly] at hv; simp only [paramsCovered] at hc
    cases he : eval envU e with
    | error err => simp [eval, he, bind, Except.bind] at hx
    | ok x0 =>
      obtain ⟨y0, hy0, hv0, _⟩ := ih hv hc x0 he
      simp only [eval, he, bind, Except.bind, pure, Except.pure] at hx
      injection hx with hx; subst hx
      refine ⟨_, ?_, rfl, fun _ => rfl⟩
      simp only [substParam, eval, hy0, bind, Except.bind, pure, Except.pure, hv0]
  | mkd e ih =>
    intro hv hc x hx
    simp only [valueOnly] at hv; simp only [paramsCovered] at hc
    cases he : eval envU e with
    | error err => simp [eval, he, bind, Except.bind] at hx
    | ok x0 =>
      obtain ⟨y0, hy0, hv0, _⟩ := ih hv hc x0 he
      simp only [eval, he, bind, Except.bind, pure, Except.pure] at hx
      injection hx with hx; subst hx
      refine ⟨_, ?_, rfl, fun _ => rfl⟩
      simp only [substParam, eval, hy0, bind, Except.bind, pure, Except.pure, hv0]
  | bin op a b iha ihb =>
    intro hv hc x hx
    simp only [valueOnly, Bool.and_eq_true] at hv; simp only [paramsCovered, Bool.and_eq_true] at hc
    cases hea : eval envU a with
    | error err => simp [eval, hea, bind, Except.bind] at hx
    | ok xa =>
      cases heb : eval envU b with
      | error err => simp [eval, hea, heb, bind, Except.bind] at hx
      | ok xb =>
        obtain ⟨ya, hya, hva, _⟩ := iha hv.1 hc.1 xa hea
        obtain ⟨yb, hyb, hvb, _⟩ := ihb hv.2 hc.2 xb heb
        simp only [eval, hea, heb, bind, Except.bind] at hx
        refine ⟨x, ?_, rfl, fun _ => rfl⟩
        simp only [substParam, eval, hya, hyb, bind, Except.bind, hva, hvb]
        exact hx
  | ibin op a b iha ihb =>
    intro hv hc x hx
    simp only [valueOnly, Bool.and_eq_true] at hv; simp only [paramsCovered, Bool.and_eq_true] at hc
    cases hea : eval envU a with
    | error err => simp [eval, hea, bind, Except.bind] at hx
    | ok xa =>
      cases heb : eval envU b with
      | error err => simp [eval, hea, heb, bind, Except.bind] at hx
      | ok xb =>
        obtain ⟨ya, hya, hva, _⟩ := iha hv.1 hc.1 xa hea
        obtain ⟨yb, hyb, hvb, _⟩ := ihb hv.2 hc.2 xb heb
        simp only [eval, hea, heb, bind, Except.bind] at hx
        refine ⟨x, ?_, rfl, fun _ => rfl⟩
        simp only [substParam, eval, hya, hyb, bind, Except.bind, hva, hvb]
        exact hx
  | shl a k iha ihk =>
    intro hv hc x hx
    simp only [valueOnly, Bool.and_eq_true, Bool.not_eq_true'] at hv; simp only [paramsCovered, Bool.and_eq_true] at hc
    cases hea : eval envU a with
    | error err => simp [eval, hea, bind, Except.bind] at hx
    | ok xa =>
      cases hek : eval envU k with
      | error err => simp [eval, hea, hek, bind, Except.bind] at hx
      | ok xk =>
        obtain ⟨ya, hya, _, hfa⟩ := iha hv.1.1 hc.1 xa hea
        obtain ⟨yk, hyk, hvk, _⟩ := ihk hv.2 hc.2 xk hek
        have := hfa hv.1.2; subst this
        simp only [eval, hea, hek, bind, Except.bind] at hx
        refine ⟨x, ?_, rfl, fun _ => rfl⟩
        simp only [substParam, eval, hya, hyk, bind, Except.bind, hvk]
        exact hx
  | shr a k iha ihk =>
    intro hv hc x hx
    simp only [valueOnly, Bool.and_eq_true, Bool.not_eq_true'] at hv; simp only [paramsCovered, Bool.and_eq_true] at hc
    cases hea : eval envU a with
    | error err => simp [eval, hea, bind, Except.bind] at hx
    | ok xa =>
      cases hek : eval envU k with
      | error err => simp [eval, hea, hek, bind, Except.bind] at hx
      | ok xk =>
        obtain ⟨ya, hya, _, hfa⟩ := iha hv.1.1 hc.1 xa hea
        obtain ⟨yk, hyk, hvk, _⟩ := ihk hv.2 hc.2 xk hek
        have := hfa hv.1.2; subst this
        simp only [eval, hea, hek, bind, Except.bind] at hx
        refine ⟨x, ?_, rfl, fun _ => rfl⟩
        simp only [substParam, eval, hya, hyk, bind, Except.bind, hvk]
        exact hx
  | neg e ih =>
    intro hv hc x hx
    simp only [valueOnly, Bool.and_eq_true, Bool.not_eq_true'] at hv; simp only [paramsCovered] at hc
    cases he : eval envU e with
    | error err => simp [eval, he, bind, Except.bind] at hx
    | ok x0 =>
      obtain ⟨y0, hy0, _, hf⟩ := ih hv.1 hc x0 he
      have := hf hv.2; subst this
      refine ⟨x, ?_, rfl, fun _ => rfl⟩
      simp only [eval, he] at hx
      simp only [substParam, eval, hy0]
      exact hx
  | pos e ih =>
    intro hv hc x hx
    simp only [valueOnly, Bool.and_eq_true, Bool.not_eq_true'] at hv; simp only [paramsCovered] at hc
    cases he : eval envU e with
    | error err => simp [eval, he, bind, Except.bind] at hx
    | ok x0 =>
      obtain ⟨y0, hy0, _, hf⟩ := ih hv.1 hc x0 he
      have := hf hv.2; subst this
      refine ⟨x, ?_, rfl, fun _ => rfl⟩
      simp only [eval, he] at hx
      simp only [substParam, eval, hy0]
      exact hx
  | abs e ih =>
    intro hv hc x hx
    simp only [valueOnly, Bool.and_eq_true, Bool.not_eq_true'] at hv; simp only [paramsCovered] at hc
    cases he : eval envU e with
    | error err => simp [eval, he, bind, Except.bind] at hx
    | ok x0 =>
      obtain ⟨y0, hy0, _, hf⟩ := ih hv.1 hc x0 he
      have := hf hv.2; subst this
      refine ⟨x, ?_, rfl, fun _ => rfl⟩
      simp only [eval, he] at hx
      simp only [substParam, eval, hy0]
      exact hx
  | inv e ih =>
    intro hv hc x hx
    simp only [valueOnly, Bool.and_eq_true, Bool.not_eq_true'] at hv; simp only [paramsCovered] at hc
    cases he : eval envU e with
    | error err => simp [eval, he, bind, Except.bind] at hx
    | ok x0 =>
      obtain ⟨y0, hy0, _, hf⟩ := ih hv.1 hc x0 he
      have := hf hv.2; subst this
      refine ⟨x, ?_, rfl, fun _ => rfl⟩
      simp only [eval, he] at hx
      simp only [substParam, eval, hy0]
      exact hx
  | rev e ih =>
    intro hv hc x hx
    simp only [valueOnly, Bool.and_eq_true, Bool.not_eq_true'] at hv; simp only [paramsCovered] at hc
    cases he : eval envU e with
    | error err => simp [eval, he, bind, Except.bind] at hx
    | ok x0 =>
      obtain ⟨y0, hy0, _, hf⟩ := ih hv.1 hc x0 he
      have := hf hv.2; subst this
      refine ⟨x, ?_, rfl, fun _ => rfl⟩
      simp only [eval, he] at hx
      simp only [substParam, eval, hy0]
      exact hx
  | invbits e nb ih =>
    intro hv hc x hx
    simp only [valueOnly, Bool.and_eq_true, Bool.not_eq_true'] at hv; simp only [paramsCovered] at hc
    cases he : eval envU e with
    | error err => simp [eval, he, bind, Except.bind] at hx
    | ok x0 =>
      obtain ⟨y0, hy0, _, hf⟩ := ih hv.1 hc x0 he
      have := hf hv.2; subst this
      refine ⟨x, ?_, rfl, fun _ => rfl⟩
      simp only [eval, he] at hx
      simp only [substParam, eval, hy0]
      exact hx
  | revbits e nb ih =>
    intro hv hc x hx
    simp only [valueOnly, Bool.and_eq_true, Bool.not_eq_true'] at hv; simp only [paramsCovered] at hc
    cases he : eval envU e with
    | error err => simp [eval, he, bind, Except.bind] at hx
    | ok x0 =>
      obtain ⟨y0, hy0, _, hf⟩ := ih hv.1 hc x0 he
      have := hf hv.2; subst this
      refine ⟨x, ?_, rfl, fun _ => rfl⟩
      simp only [eval, he] at hx
      simp only [substParam, eval, hy0]
      exact hx
  | slice e s st sp ih =>
    intro hv hc x hx
    simp only [valueOnly, Bool.and_eq_true, Bool.not_eq_true'] at hv; simp only [paramsCovered] at hc
    cases he : eval envU e with
    | error err => simp [eval, he, bind, Except.bind] at hx
    | ok x0 =>
      obtain ⟨y0, hy0, _, hf⟩ := ih hv.1 hc x0 he
      have := hf hv.2; subst this
      refine ⟨x, ?_, rfl, fun _ => rfl⟩
      simp only [eval, he] at hx
      simp only [substParam, eval, hy0]
      exact hx
  | popcount e ih =>
    intro hv hc x hx
    simp only [valueOnly, Bool.and_eq_true, Bool.not_eq_true'] at hv; simp only [paramsCovered] at hc
    cases he : eval envU e with
    | error err => simp [eval, he, bind, Except.bind] at hx
    | ok x0 =>
      obtain ⟨y0, hy0, _, hf⟩ := ih hv.1 hc x0 he
      have := hf hv.2; subst this
      refine ⟨x, ?_, rfl, fun _ => rfl⟩
      simp only [eval, he] at hx
      simp only [substParam, eval, hy0]
      exact hx
  | bit e i ih =>
    intro hv hc x hx
    simp only [valueOnly, Bool.and_eq_true, Bool.not_eq_true'] at hv; simp only [paramsCovered] at hc
    cases he : eval envU e with
    | error err => simp [eval, he, bind, Except.bind] at hx
    | ok x0 =>
      obtain ⟨y0, hy0, _, hf⟩ := ih hv.1 hc x0 he
      have := hf hv.2; subst this
      refine ⟨x, ?_, rfl, fun _ => rfl⟩
      simp only [eval, he] at hx
      simp only [substParam, eval, hy0]
      exact hx

/-! ### justified -/

theorem sameVal_sound (x y : WExp) (h : sameVal x y = true) (env : Env) (a b : IWV)
    (ha : eval env x = .ok a) (hb : eval env y = .ok b) : a.v = b.v := by
  unfold sameVal at h
  simp only [Bool.or_eq_true, beq_iff_eq, Bool.and_eq_true] at h
  rcases h with rfl | ⟨⟨hcx, hcy⟩, hv⟩
  · rw [ha] at hb; injection hb with hb; rw [hb]
  · rw [closed_eval env env0 x hcx] at ha
    rw [closed_eval env env0 y hcy] at hb
    simp only [ha, hb, beq_iff_eq] at hv
    exact hv

/-- if the decisions of `path` hold in `env`, a justified field has the value of the expression -/
theorem justified_sound (F : FieldWidths) (env : Env) (hG : GoodEnv F env) (le : Bool)
    (path : List (Cond × Bool)) (hp : ∀ cb ∈ path, evalCond env le cb.1 = .ok cb.2)
    (k : String) (e' : WExp) (hj : justified F path k e' = true)
    (fk : IWV) (hfk : env.fields k = some fk) (y : IWV) (hy : eval env e' = .ok y) : fk.v = y.v := by
  unfold justified at hj
  simp only [Bool.or_eq_true, beq_iff_eq, List.any_eq_true] at hj
  rcases hj with rfl | ⟨cb, hcb, hm⟩
  · simp only [eval, hfk] at hy
    injection hy with hy; rw [hy]
  · have hev := hp cb hcb
    obtain ⟨c, b⟩ := cb
    cases c with
    | cmp op a bb =>
      simp only [Bool.and_eq_true, Bool.or_eq_true, beq_iff_eq, Bool.not_eq_true'] at hm
      obtain ⟨hop, hside⟩ := hm
      -- the comparison says the two values are equal
      simp only [evalCond] at hev
      cases hea : eval env a with
      | error err => simp [hea, bind, Except.bind] at hev
      | ok xa =>
        cases heb : eval env bb with
        | error err => simp [hea, heb, bind, Except.bind] at hev
        | ok xb =>
          simp only [hea, heb, bind, Except.bind, pure, Except.pure] at hev
          injection hev with hev
          have heq : xa.v = xb.v := by
            rcases hop with ⟨rfl, rfl⟩ | ⟨rfl, rfl⟩
            · simpa [cmpVal] using hev
            · simpa [cmpVal] using hev
          have hna := normF_eval F env hG a
          have hnb := normF_eval F env hG bb
          rcases hside with ⟨hk, hs⟩ | ⟨hk, hs⟩
          · -- a is the field, b the expression
            rw [hk] at hna
            simp only [eval, hfk] at hna
            rw [hea] at hna
            injection hna with hna
            have := sameVal_sound _ _ hs env xb y (by rw [hnb]; exact heb) hy
            rw [hna, heq, this]
          · rw [hk] at hnb
            simp only [eval, hfk] at hnb
            rw [heb] at hnb
            injection hnb with hnb
            have := sameVal_sound _ _ hs env xa y (by rw [hna]; exact hea) hy
            rw [hnb, ← heq, this]
    | lastEq => simp at hm
    | not c => simp at hm
    | nbitsNe0 a => simp at hm

/-! ### C05 glue -/

/-- the `IntegerWrapper`-form expression of a field and what it evaluates to -/
theorem sigma_eval (t : Tables) (p : Packet) (env : Env) (hp : ∀ n, 0 ≤ env.params n) (prm : String × Nat × Nat)
    (hfind : t.params.find? (fun q => q.1 == prm.1) = some prm) (hw : prm.2.1 ≤ prm.2.2 + 1) (h : FieldOK p prm) :
    ∃ k e x, p.kwargs.find? (fun k => k.1 == prm.1) = some k ∧ sigmaOf t p prm.1 = some e ∧
      (e = k.2.2 ∨ e = .mk k.2.2 ((prm.2.2 : Int) + 1 - prm.2.1)) ∧
      eval env e = .ok x ∧ x.v = (kwVal p env prm : Int) := by
  obtain ⟨k, x, hk, hx, hxv, hval, hiw⟩ := kw_eval p env hp prm h
  by_cases hb : k.2.1 = true
  · refine ⟨k, k.2.2, x, hk, by simp only [sigmaOf, hfind, hk, hb, if_true], Or.inl rfl, hx, ?_⟩
    obtain ⟨_, h2⟩ := hiw hb
    rw [hval, Int.emod_eq_of_lt hxv h2]; omega
  · refine ⟨k, .mk k.2.2 ((prm.2.2 : Int) + 1 - prm.2.1), mkIW x.v (some ((prm.2.2 : Int) + 1 - prm.2.1)), hk, ?_, Or.inr rfl, ?_, ?_⟩
    · simp only [sigmaOf, hfind, hk, hb, Bool.false_eq_true, if_false]
    · simp only [eval, hx, bind, Except.bind, pure, Except.pure]
    · obtain ⟨h1, _, h3, _⟩ := mkIW_some_nonneg hxv ((prm.2.2 : Int) + 1 - prm.2.1)
      have hwn : ((prm.2.2 : Int) + 1 - prm.2.1).toNat = widthP prm := by unfold widthP; omega
      rw [h1, hval, hwn]
      have := Int.emod_nonneg x.v (b := 2 ^ widthP prm) (by have := pow_pos' (widthP prm); omega)
      omega

structure C05Spec (t : Tables) (w : Wrapper) (p : Packet) : Prop where
  first  : firstPacket w = some p
  args   : p.args = []
  ov     : t.decodeOverridden = true
  names  : ∀ prm ∈ t.params, t.params.find? (fun q => q.1 == prm.1) = some prm ∧ prm.2.1 ≤ prm.2.2 + 1
  fields : ∀ prm ∈ t.params, FieldOK p prm
  vonly  : ∀ prm ∈ t.params, ∀ k, p.kwargs.find? (fun k => k.1 == prm.1) = some k →
             valueOnly k.2.2 = true ∧ paramsCovered (widthsOf t) (rhoOf t) k.2.2 = true
  safeT  : treeSafe (widthsOf t) [] w.treeNone = true
  pathsOK : ∀ pth ∈ paths w.treeNone,
    match pth.2.2 with
    | .ret fs _ =>
      (∀ prm ∈ t.params, ∃ f ∈ fs, f.1 = prm.1) ∧
      (∀ f ∈ fs, ∃ prm ∈ t.params, prm.1 = f.1 ∧ f.2 = .field prm.1) ∧
      (∀ prm ∈ t.params, ∃ e, sigmaOf t p prm.1 = some e ∧
          justified (widthsOf t) pth.1 prm.1 (normF (widthsOf t) (substParam (rhoOf t) e)) = true)
    | .raise cls => (errOfName cls).isLibrary = true
    | .retLast => False
    | .retOther => False

theorem widthsOf_find (t : Tables) (n : String) :
    (widthsOf t).find? (fun p => p.1 == n) = (t.params.find? (fun q => q.1 == n)).map (fun prm => (prm.1, widthP prm)) := by
  unfold widthsOf
  rw [List.find?_map]
  have : ((fun (p : String × Nat) => p.1 == n) ∘ fun (p : String × Nat × Nat) => (p.1, p.2.2 + 1 - p.2.1)) = (fun q => q.1 == n) := rfl
  rw [this]

theorem goodEnv_decoded (t : Tables) (c : CodeV) (V : String × Nat × Nat → Nat)
    (hc : c.fields = t.params.map (fun prm => (prm.1, V prm)))
    (hnames : ∀ prm ∈ t.params, t.params.find? (fun q => q.1 == prm.1) = some prm ∧ prm.2.1 ≤ prm.2.2 + 1)
    (hfit : ∀ prm ∈ t.params, V prm < 2 ^ widthP prm) (ps : String → Int) (hps : ∀ n, 0 ≤ ps n) :
    GoodEnv (widthsOf t) { params := ps, fields := fieldEnv t c, last := fun _ => none } := by
  refine ⟨hps, ?_⟩
  intro n w hw
  rw [widthsOf_find] at hw
  cases hf : t.params.find? (fun q => q.1 == n) with
  | none => simp [hf] at hw
  | some prm =>
    simp only [hf, Option.map_some, Option.some.injEq] at hw
    have hmem : prm ∈ t.params := List.mem_of_find?_eq_some hf
    have hn : prm.1 = n := by simpa using List.find?_some hf
    subst hn; subst hw
    have := fieldEnv_of t c V hc prm (hnames prm hmem).1 (hnames prm hmem).2
    refine ⟨_, this, by simp, ?_, rfl⟩
    have h1 := hfit prm hmem
    show ((V prm : Nat) : Int) < 2 ^ widthP prm
    have h2 : ((2 ^ widthP prm : Nat) : Int) = (2 : Int) ^ widthP prm := by simp
    have h3 : ((V prm : Nat) : Int) < ((2 ^ widthP prm : Nat) : Int) := by exact_mod_cast h1
    omega

/-- **C05 at wrapper level** (specification form).  For a class-A protocol whose traced wrapper meets `C05Spec`, and EVERY
    assignment `V` of in-width values to the `_parameters` fields — i.e. every frame that differs from a valid one by
    substituted data symbols, checksum / complement / constant fields included — the decoder either raises a library
    error or returns a code whose reported parameters re-encode to EXACTLY that frame. -/
theorem C05_wrapper_spec (t : Tables) (w : Wrapper) (tol : Match.Tol) (htol : tol.ok) (hw : EngineRT t tol)
    (p : Packet) (hS : C05Spec t w p) (V : String × Nat × Nat → Nat) (hfit : ∀ prm ∈ t.params, V prm < 2 ^ widthP prm) :
    ∃ frame, buildPacket t (t.params.map (fun prm => Item.field (V prm) (widthP prm))) = .ok frame ∧
      (∀ e, (decodeP t w { last := none, tol := tol } frame).result = .error e → e.isLibrary = true) ∧
      (∀ c, (decodeP t w { last := none, tol := tol } frame).result = .ok c →
        firstFrame t w (fun n => (((c.get (Props.C01.viewKey n)).getD 0 : Nat) : Int)) = .ok frame) := by
  have hvals : (t.params.map V).length = t.params.length := by simp
  obtain ⟨frame, hbuild, _, _, _, c, hdec, hcf, _⟩ := hw (t.params.map V) hvals
  rw [fieldsOf_map] at hbuild
  have hcf' : c.fields = t.params.map (fun prm => (prm.1, V prm)) := by
    rw [hcf]
    have : ∀ (ps : List (String × Nat × Nat)), (∀ prm ∈ ps, V prm < 2 ^ widthP prm) →
        List.zipWith (fun (p : String × Nat × Nat) v => (p.1, v % 2 ^ (p.2.2 + 1 - p.2.1))) ps (ps.map V) = ps.map (fun prm => (prm.1, V prm)) := by
      intro ps
      induction ps with
      | nil => intro _; rfl
      | cons a ps ih =>
        intro h
        simp only [List.map_cons, List.zipWith_cons_cons]
        rw [ih (fun q hq => h q (by simp [hq])), Nat.mod_eq_of_lt (h a (by simp))]
    exact this t.params hfit
  have hbase : (baseDecode t { last := none, tol := tol } frame).result = .ok c := by
    simpa [baseDecode] using hdec
  refine ⟨frame, hbuild, ?_⟩
  have hG := goodEnv_decoded t c V hcf' hS.names hfit (fun _ => 0) (fun _ => by omega)
  obtain ⟨pth, hpm, hconds, hrun⟩ := runTree_path (widthsOf t) [] _ hG (lastOK_nil _) false w.treeNone hS.safeT
  have hres := decodeW_fresh_result t w tol frame c hbase
  rw [hrun] at hres
  have hdp : (decodeP t w { last := none, tol := tol } frame).result = (decodeW t w { last := none, tol := tol } frame).result := by
    unfold decodeP; rw [if_pos hS.ov]
  rw [hdp, hres]
  have hpo := hS.pathsOK pth hpm
  obtain ⟨conds, effs, out⟩ := pth
  dsimp only at hconds hpo ⊢
  cases out with
  | retLast => exact absurd hpo (by simp)
  | retOther => exact absurd hpo (by simp)
  | raise cls =>
    simp only [] at hpo
    simp only [runTree, finishFresh]
    exact ⟨fun e he => by injection he with he; rw [← he]; exact hpo, fun c' hc' => by simp at hc'⟩
  | ret fs same =>
    simp only [] at hpo
    obtain ⟨hall, hfs, hjust⟩ := hpo
    rw [leaf_ret_result t c V hcf' hS.names effs fs same hall hfs]
    refine ⟨fun e he => by simp at he, ?_⟩
    intro c' hc'
    injection hc' with hc'; subst hc'
    -- re-encode the reported parameters
    obtain ⟨envU, henvU⟩ : ∃ e : Env, e = { params := fun n => (((c.get (Props.C01.viewKey n)).getD 0 : Nat) : Int), fields := fun _ => none, last := fun _ => none } := ⟨_, rfl⟩
    have hu' : ∀ n, 0 ≤ envU.params n := by rw [henvU]; intro n; exact Int.natCast_nonneg _
    rw [firstFrame_of_packet t w _ p hS.first, ← henvU]
    have hitems := packetItems_eq t p envU hu' hS.args hS.fields
    simp only [buildTraced, hitems, bind, Except.bind]
    rw [← hbuild]
    congr 1
    apply List.map_congr_left
    intro prm hm
    congr 1
    -- the value the encoder stores in this field is the decoded value
    obtain ⟨hfind, hwle⟩ := hS.names prm hm
    obtain ⟨k, e, xs, hk, hσ, hform, hxs, hxsv⟩ := sigma_eval t p envU hu' prm hfind hwle (hS.fields prm hm)
    obtain ⟨e2, hσ2, hj⟩ := hjust prm hm
    rw [hσ] at hσ2; injection hσ2 with hσ2; subst hσ2
    obtain ⟨hvo, hpc⟩ := hS.vonly prm hm k hk
    have hvo' : valueOnly e = true := by rcases hform with rfl | rfl <;> simpa [valueOnly] using hvo
    have hpc' : paramsCovered (widthsOf t) (rhoOf t) e = true := by rcases hform with rfl | rfl <;> simpa [paramsCovered] using hpc
    have hρ : ∀ n, ((widthsOf t).find? (fun q => q.1 == rhoOf t n)).isSome = true →
        ∃ x, ({ params := fun _ => 0, fields := fieldEnv t c, last := fun _ => none } : Env).fields (rhoOf t n) = some x ∧ x.v = envU.params n := by
      intro n hn
      rw [widthsOf_find] at hn
      cases hf : t.params.find? (fun q => q.1 == rhoOf t n) with
      | none => simp [hf] at hn
      | some prm' =>
        have hmem' : prm' ∈ t.params := List.mem_of_find?_eq_some hf
        have hn' : prm'.1 = rhoOf t n := by simpa using List.find?_some hf
        have hfe := fieldEnv_of t c V hcf' prm' (hS.names prm' hmem').1 (hS.names prm' hmem').2
        rw [hn'] at hfe
        refine ⟨_, hfe, ?_⟩
        rw [henvU]
        show ((V prm' : Nat) : Int) = (((c.get (Props.C01.viewKey n)).getD 0 : Nat) : Int)
        have : c.get (Props.C01.viewKey n) = some (V prm') := by
          rw [get_of_fields c t.params V hcf' _]
          show (t.params.find? (fun q => q.1 == rhoOf t n)).map V = _
          rw [hf]; rfl
        rw [this]; rfl
    obtain ⟨y, hy, hyv, _⟩ := substParam_eval (widthsOf t) (rhoOf t) envU _ hρ e hvo' hpc' xs hxs
    have hfe := fieldEnv_of t c V hcf' prm hfind hwle
    have hjs := justified_sound (widthsOf t) _ hG false conds hconds prm.1 _ hj _ hfe y (by rw [normF_eval _ _ hG]; exact hy)
    simp only at hjs
    have : ((V prm : Nat) : Int) = ((kwVal p envU prm : Nat) : Int) := by rw [hjs, hyv, hxsv]
    exact_mod_cast this.symm

theorem c05OK_spec (t : Tables) (w : Wrapper) (h : c05OK t w = true) : ∃ p, C05Spec t w p := by
  unfold c05OK at h
  cases hfp : firstPacket w with
  | none => simp [hfp] at h
  | some p =>
    simp only [hfp, Bool.and_eq_true, List.all_eq_true, List.isEmpty_iff, decide_eq_true_eq, beq_iff_eq] at h
    obtain ⟨⟨⟨⟨⟨⟨hargs, _⟩, hov⟩, hnames⟩, hfields⟩, hsafe⟩, hpaths⟩ := h
    refine ⟨p, hfp, hargs, hov, ?_, ?_, ?_, hsafe, ?_⟩
    · intro prm hm; exact hnames prm hm
    · intro prm hm
      have := hfields prm hm
      cases hk : p.kwargs.find? (fun k => k.1 == prm.1) with
      | none => simp [hk] at this
      | some k =>
        simp only [hk, Bool.and_eq_true, Bool.or_eq_true, Bool.not_eq_true', beq_iff_eq] at this
        refine ⟨k, hk, this.1.1.1, ?_⟩
        intro hb
        rcases this.2 with h1 | h1
        · rw [hb] at h1; exact absurd h1 (by simp)
        · exact h1
    · intro prm hm k hk
      have := hfields prm hm
      simp only [hk, Bool.and_eq_true] at this
      exact ⟨this.1.1.2, this.1.2⟩
    · intro pth hpm
      have := hpaths pth hpm
      obtain ⟨conds, effs, out⟩ := pth
      dsimp only at this ⊢
      cases out with
      | ret fs same =>
        simp only [Bool.and_eq_true, List.all_eq_true, List.any_eq_true, beq_iff_eq] at this
        obtain ⟨⟨h1, h2⟩, h3⟩ := this
        refine ⟨?_, ?_, ?_⟩
        · intro prm hm
          obtain ⟨f, hf, hn, _⟩ := h1 prm hm
          exact ⟨f, hf, hn⟩
        · intro f hf
          obtain ⟨prm, hm, hn, he⟩ := h2 f hf
          exact ⟨prm, hm, hn, he⟩
        · intro prm hm
          have := h3 prm hm
          cases hσ : sigmaOf t p prm.1 with
          | none => simp [hσ] at this
          | some e => simp only [hσ] at this; exact ⟨e, rfl, this⟩
      | raise cls => simpa using this
      | retLast => simp at this
      | retOther => simp at this

end IRModel.Wrap
