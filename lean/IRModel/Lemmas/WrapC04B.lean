import IRModel.Lemmas.WrapC04
import IRModel.Props.C04B
import IRModel.Props.C02B
/-! C04 at wrapper level (accept half) for class-B protocols with a frame period (Sony family, PID0003). -/
namespace IRModel.Wrap
open IRModel IRModel.Py IRModel.Encode IRModel.Proto IRModel.Props.EngineThm IRModel.Engine IRModel.CodeWrapper IRModel.Match

/-- the first frame of `encode(**u)` is the class-B frame of some symbol sequence; every list of durations whose lead-in,
    data durations and last mark are each within a quarter of the tolerance of that frame's, the final space absorbing the
    difference to the fixed period, decodes on a decoder without history to a code reporting exactly `u`. -/
theorem C04_wrapper_specB (t : Tables) (w : Wrapper) (tol : Tol) (htol : tol.ok) (hw : wfAllB t tol = true)
    (hwt : wfTol t tol = true) (p : Packet) (hS : C01Spec t w p) (u : String → Int) (hu : ∀ n, 0 ≤ u n)
    (hr : ∀ ep ∈ t.encodeParams, u ep.1 ≤ ep.2.2) :
    ∃ x idx' j, t.leadOut = [x] ∧ firstFrame t w u = .ok (frameB t x idx' j) ∧
      (x > 0 → ∀ (li' sy' : List Int) (m' g' : Int),
        Pw (Q tol) li' t.leadIn → Pw (Q tol) sy' (symTimings t.bursts idx') →
        (∀ q, t.bursts[j]? = some q → Q tol m' q.1) →
        g' = sumAbs (li' ++ sy' ++ [m']) - x → g' < 0 →
        ∃ c, (decodeP t w { last := none, tol := tol } (li' ++ sy' ++ [m', g'])).result = .ok c ∧
          ∀ ep ∈ t.encodeParams, c.get (Props.C01.viewKey ep.1) = some (u ep.1).toNat) := by
  obtain ⟨envU, henvU⟩ : ∃ e : Env, e = { params := u, fields := fun _ => none, last := fun _ => none } := ⟨_, rfl⟩
  have hu' : ∀ n, 0 ≤ envU.params n := by rw [henvU]; exact hu
  have hitems := packetItems_eq t p envU hu' hS.args hS.fields
  obtain ⟨x, idx', j, hSB, hsplit, hbuild, hidx, hfit⟩ :=
    IRModel.Props.C02.build_wfAllB t tol hw (t.params.map (kwVal p envU)) (by simp)
  rw [fieldsOf_map] at hbuild
  have hff : firstFrame t w u = .ok (frameB t x idx' j) := by
    rw [firstFrame_of_packet t w u p hS.first, ← henvU]
    simp only [buildTraced, hitems, bind, Except.bind]
    exact hbuild
  refine ⟨x, idx', j, hSB.lo, hff, ?_⟩
  intro hx li' sy' m' g' hli hsy hm' hg hneg
  have hpp := IRModel.Props.C04.parse_perturbedB t tol htol x hSB hx hwt idx' j hidx (hfit hx) li' sy' m' g' hli hsy hm' hg hneg
  have hpe := parse_frameB t tol htol x hSB idx' j hidx hfit
  obtain ⟨frame, c0, hff', hdec0, hview0⟩ := C01_wrapper_spec t w tol htol (engineRT_B t tol htol hw) p hS u hu hr
  have hfe : frame = frameB t x idx' j := by rw [hff] at hff'; injection hff' with h; exact h.symm
  have hcong := decodeP_fresh_congr t w tol (li' ++ sy' ++ [m', g']) frame (by rw [hpp, hfe, hpe])
  exact ⟨c0, by rw [hcong]; exact hdec0, hview0⟩

end IRModel.Wrap
