import IRModel.Engine
/-! step lemmas for the parse/build round trip of class-A tables -/
namespace IRModel.Engine
open IRModel IRModel.Py IRModel.Match IRModel.Bits IRModel.CodeWrapper

/-- lead-in loop consumes an exact lead-in -/
theorem leadInLoop_exact (tol : Tol) (htol : tol.ok) (bursts : List (Int × Int)) :
    ∀ (es code cleaned : List Int), (∀ e ∈ es, e ≠ 0) →
      leadInLoop tol bursts es (es ++ code) cleaned = .ok (code, cleaned ++ es) := by
  intro es
  induction es with
  | nil => intro code cleaned _; simp [leadInLoop]
  | cons e es ih =>
    intro code cleaned h
    have he : isMatch tol e e = true := isMatch_self tol htol e (h e (by simp))
    simp only [List.cons_append, leadInLoop, he, if_true]
    rw [ih code (cleaned ++ [e]) (fun x hx => h x (by simp [hx]))]
    simp

theorem symTimings_cons (bursts : List (Int × Int)) (i : Nat) (idx : List Nat) (p : Int × Int)
    (hp : bursts[i]? = some p) :
    symTimings bursts (i :: idx) = p.1 :: p.2 :: symTimings bursts idx := by
  simp [symTimings, hp]

/-- every duration of a symbol sequence classifies as itself -/
theorem classifyAll_syms (tol : Tol) (bursts : List (Int × Int))
    (hb : ∀ p ∈ bursts, classify tol bursts p.1 = some p.1 ∧ classify tol bursts p.2 = some p.2) :
    ∀ (idx : List Nat), (∀ i ∈ idx, i < bursts.length) →
      classifyAll tol bursts (symTimings bursts idx) = .ok (symTimings bursts idx) := by
  intro idx
  induction idx with
  | nil => intro _; simp [symTimings, classifyAll]
  | cons i idx ih =>
    intro h
    have hi : i < bursts.length := h i (by simp)
    have hp : bursts[i]? = some bursts[i] := List.getElem?_eq_getElem hi
    have hmem : bursts[i] ∈ bursts := List.getElem_mem hi
    obtain ⟨h1, h2⟩ := hb _ hmem
    rw [symTimings_cons bursts i idx _ hp]
    simp only [classifyAll, h1, h2]
    rw [ih (fun j hj => h j (by simp [hj]))]
    rfl

/-- pairing a symbol sequence gives back the symbols -/
theorem pairUp_syms (bursts : List (Int × Int)) :
    ∀ (idx : List Nat), (∀ i ∈ idx, i < bursts.length) →
      pairUp (symTimings bursts idx) = idx.map (fun i => [(bursts[i]?.getD (0, 0)).1, (bursts[i]?.getD (0, 0)).2]) := by
  intro idx
  induction idx with
  | nil => intro _; simp [symTimings, pairUp]
  | cons i idx ih =>
    intro h
    have hi : i < bursts.length := h i (by simp)
    have hp : bursts[i]? = some bursts[i] := List.getElem?_eq_getElem hi
    rw [symTimings_cons bursts i idx _ hp]
    simp only [pairUp, List.map_cons, hp, Option.getD_some]
    rw [ih (fun j hj => h j (by simp [hj]))]

theorem distinct_lookup (bursts : List (Int × Int)) (hd : distinctSyms bursts = true) (i : Nat)
    (hi : i < bursts.length) :
    symbolBits bursts bursts[i].1 bursts[i].2 = .ok (idxToBits bursts.length i) := by
  unfold distinctSyms at hd
  rw [List.all_eq_true] at hd
  have := hd i (List.mem_range.mpr hi)
  rw [List.getElem?_eq_getElem hi] at this
  simp only [] at this
  unfold symbolBits
  have h2 : bursts.findIdx? (fun q => q.1 == bursts[i].1 && q.2 == bursts[i].2) = some i := by
    simpa using this
  rw [h2]

/-- complete pairs decode to the bits of their indices, with no completion entry -/
theorem pairsToBits_syms (bursts : List (Int × Int)) (hd : distinctSyms bursts = true) :
    ∀ (idx : List Nat), (∀ i ∈ idx, i < bursts.length) →
      pairsToBits bursts (idx.map (fun i => [(bursts[i]?.getD (0, 0)).1, (bursts[i]?.getD (0, 0)).2]))
        = .ok (idx.flatMap (idxToBits bursts.length), []) := by
  intro idx
  induction idx with
  | nil => intro _; simp [pairsToBits]
  | cons i idx ih =>
    intro h
    have hi : i < bursts.length := h i (by simp)
    have hp : bursts[i]? = some bursts[i] := List.getElem?_eq_getElem hi
    simp only [List.map_cons, hp, Option.getD_some, pairsToBits]
    rw [distinct_lookup bursts hd i hi, ih (fun j hj => h j (by simp [hj]))]
    simp [bind, Except.bind, pure, Except.pure]

end IRModel.Engine

namespace IRModel.Engine
open IRModel IRModel.Py IRModel.Match IRModel.Bits IRModel.CodeWrapper

theorem pyPop_mid {α} (xs : List α) (y : α) (ys : List α) :
    pyPop (xs ++ y :: ys) (xs.length : Int) = .ok (y, xs ++ ys) := by
  unfold pyPop
  have h1 : ¬ ((xs.length : Int) < 0) := by omega
  have hn : (xs ++ y :: ys).length = xs.length + ys.length + 1 := by
    simp [List.length_append]; omega
  have h3 : ¬ (False ∨ (xs.length : Int) ≥ ((xs ++ y :: ys).length : Int)) := by
    intro h
    rcases h with h | h
    · exact h
    · have : xs.length ≥ (xs ++ y :: ys).length := by exact_mod_cast h
      omega
  simp only [h1, if_false]
  rw [if_neg h3]
  simp [List.eraseIdx_append_of_length_le]

theorem sumAbs_foldl (l : List Int) (a : Int) :
    l.foldl (fun acc x => acc + (if x < 0 then -x else x)) a = a + sumAbs l := by
  induction l generalizing a with
  | nil => simp [sumAbs]
  | cons x l ih =>
    simp only [List.foldl_cons, sumAbs]
    rw [ih, ih (0 + _)]
    omega

theorem sumAbs_append (a b : List Int) : sumAbs (a ++ b) = sumAbs a + sumAbs b := by
  unfold sumAbs
  rw [List.foldl_append, sumAbs_foldl, sumAbs_foldl a 0]
  unfold sumAbs; omega

theorem sumAbs_nonneg (l : List Int) : 0 ≤ sumAbs l := by
  induction l with
  | nil => simp [sumAbs]
  | cons x l ih =>
    have : sumAbs (x :: l) = sumAbs [x] + sumAbs l := sumAbs_append [x] l
    rw [this]
    have : 0 ≤ sumAbs [x] := by simp [sumAbs]; split <;> omega
    omega

theorem sumAbs_single (x : Int) : sumAbs [x] = if x < 0 then -x else x := by simp [sumAbs]

theorem find_none_of_all_false {α} (l : List α) (p : α → Bool) (h : ∀ a ∈ l, p a = false) :
    l.find? p = none := by
  rw [List.find?_eq_none]; intro a ha; simp [h a ha]

/-- lead-out loop on an exact class-A tail, gap form (`x < 0`) -/
theorem leadOutLoop_gap (tol : Tol) (htol : tol.ok) (bursts : List (Int × Int)) (tt mo x : Int)
    (hmo : mo > 0) (hx : x < 0) (hs : x ≠ -999999999999) (body : List Int) :
    leadOutLoop tol bursts 2 tt [mo, x] 0 (body ++ [mo, x]) [] []
      = .ok (body, [], [some mo, some x]) := by
  have hmo' : (mo == -999999999999) = false := by simp; omega
  have hx' : (x == -999999999999) = false := by simpa using hs
  have hm1 : isMatch tol mo mo = true := isMatch_self tol htol mo (by omega)
  have hm2 : isMatch tol x x = true := isMatch_self tol htol x (by omega)
  have hlen2 : ((body ++ [x]).length : Int) - (((2 : Nat) : Int) - ((0 + 1 : Nat) : Int)) = (body.length : Int) := by
    simp
  unfold leadOutLoop
  simp only [hmo', Bool.false_eq_true, if_false]
  rw [show ((body ++ [mo, x]).length : Int) - (((2 : Nat) : Int) - ((0 : Nat) : Int)) = (body.length : Int) from by simp]
  rw [pyPop_mid body mo [x]]
  simp only [hm1, if_true]
  unfold leadOutLoop
  simp only [hx', Bool.false_eq_true, if_false]
  rw [hlen2, pyPop_mid body x []]
  simp only [hm2, if_true, List.append_nil]
  simp [leadOutLoop]

/-- lead-out loop on an exact class-A tail, period form (`x > 0`, gap `g = tt - x < 0` where `tt`
    is the total time of the frame without its last entry) -/
theorem leadOutLoop_period (tol : Tol) (htol : tol.ok) (bursts : List (Int × Int)) (tt mo x : Int)
    (hb : ∀ p ∈ bursts, p.2 < 0)
    (hmo : mo > 0) (hx : x > 0) (body : List Int) (g : Int) (hg : g = tt - x) (hneg : g < 0) :
    leadOutLoop tol bursts 2 tt [mo, x] 0 (body ++ [mo, g]) [] []
      = .ok (body, [], [some mo, none]) := by
  have hmo' : (mo == -999999999999) = false := by simp; omega
  have hx' : (x == -999999999999) = false := by simp; omega
  have hm1 : isMatch tol mo mo = true := isMatch_self tol htol mo (by omega)
  have hm2 : isMatch tol g x = false := isMatch_sign tol g x (Or.inl ⟨hneg, hx⟩)
  have hlen2 : ((body ++ [g]).length : Int) - (((2 : Nat) : Int) - ((0 + 1 : Nat) : Int)) = (body.length : Int) := by
    simp
  have hhalf : loHalfBit tol bursts 2 1 g x = none := by
    unfold loHalfBit
    rw [find_none_of_all_false]
    · rfl
    · intro p hp
      have hp2 := hb p hp
      have : isMatch tol (g + p.2) x = false := isMatch_sign tol _ x (Or.inl ⟨by omega, hx⟩)
      simp [this]
  have habs : (if g < 0 then -g else g) = x - tt := by simp [hneg]; omega
  have hm3 : isMatch tol x (tt + (if g < 0 then -g else g)) = true := by
    rw [habs]
    have : tt + (x - tt) = x := by omega
    rw [this]; exact isMatch_self tol htol x (by omega)
  unfold leadOutLoop
  simp only [hmo', Bool.false_eq_true, if_false]
  rw [show ((body ++ [mo, g]).length : Int) - (((2 : Nat) : Int) - ((0 : Nat) : Int)) = (body.length : Int) from by simp]
  rw [pyPop_mid body mo [g]]
  simp only [hm1, if_true]
  unfold leadOutLoop
  simp only [hx', Bool.false_eq_true, if_false]
  rw [hlen2, pyPop_mid body g []]
  simp only [hm2, Bool.false_eq_true, if_false, List.append_nil, hhalf, hm3, if_true]
  simp [leadOutLoop]

end IRModel.Engine
