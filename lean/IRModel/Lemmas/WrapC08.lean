import IRModel.Lemmas.WrapC07
/-! Lemmas for C08 at wrapper level: what `decodeW` returns in general, the code the base decoder of an overriding class
returns, the invariant "the held code is a code of this protocol", and the theorem over input histories. -/
namespace IRModel.Wrap
open IRModel IRModel.Py IRModel.Encode IRModel.Proto IRModel.CodeWrapper IRModel.Bits

/-- what `decodeW` makes of the tree's answer -/
def finishAny (t : Tables) (c : CodeV) (last : Option CodeV) : Except PyErr Res → Except PyErr CodeV
  | .error e => .error e
  | .ok .last => (match last with | some l => .ok l | none => .error .typeError)
  | .ok (.code fs) =>
    .ok { c with fields := t.params.filterMap (fun prm => (fs.find? (fun p => p.1 == prm.1)).map (fun p => (prm.1, p.2.v.toNat))) }

theorem decodeW_result (t : Tables) (w : Wrapper) (inst : Inst) (data : List Int) (c : CodeV)
    (hb : (baseDecode t inst data).result = .ok c) :
    (decodeW t w inst data).result =
      finishAny t c inst.last
        (runTree { params := fun _ => 0, fields := fieldEnv t c,
                   last := match inst.last with | some l => fieldEnv t l | none => fun _ => none }
          (match inst.last with | some l => (baseDecode t inst data).isLast || sameCode t l c | none => false)
          (match inst.last with | some _ => w.treeSome | none => w.treeNone)).1 := by
  unfold decodeW
  simp only [hb]
  generalize runTree _ _ _ = rt
  obtain ⟨r, effs⟩ := rt
  cases r with
  | error e => rfl
  | ok res =>
    cases res with
    | last => cases inst.last <;> rfl
    | code fs => rfl

/-- the code the base decoder of an overriding class returns is freshly decoded (every field, in width) or the held one -/
theorem baseDecode_ok_cases (t : Tables) (inst : Inst) (data : List Int) (c : CodeV) (hov : t.decodeOverridden = true)
    (h : (baseDecode t inst data).result = .ok c) :
    (∃ V : String × Nat × Nat → Nat, c.fields = t.params.map (fun prm => (prm.1, V prm)) ∧ ∀ prm, V prm < 2 ^ (prm.2.2 - prm.2.1 + 1)) ∨
    inst.last = some c := by
  have hfull : ∀ pre, (decodeFull t inst data pre).result = .ok c →
      ∃ V : String × Nat × Nat → Nat, c.fields = t.params.map (fun prm => (prm.1, V prm)) ∧ ∀ prm, V prm < 2 ^ (prm.2.2 - prm.2.1 + 1) := by
    intro pre hf
    unfold decodeFull at hf
    simp only [] at hf
    cases hp : parse t inst.tol data with
    | error e => simp [hp] at hf
    | ok p =>
      simp only [hp] at hf
      split at hf
      · simp at hf
      · split at hf
        · simp at hf
        · injection hf with hf
          refine ⟨fun prm => fieldValue t.order p.bits prm.2.1 prm.2.2, by rw [← hf]; rfl, fun prm => IRModel.Props.C19.new_wf _ _⟩
  unfold baseDecode at h
  split at h
  · rename_i l hl
    split at h
    · split at h
      · split at h
        · rename_i hc
          simp only [hov, Bool.not_true, Bool.and_false] at hc
          exact absurd hc (by simp)
        · right; simp only [] at h; injection h with h; rw [hl, h]
      · split at h
        · exact Or.inl (hfull _ h)
        · simp at h
    · exact Or.inl (hfull _ h)
  · exact Or.inl (hfull _ h)

theorem leavesOK_paths (t : Tables) : ∀ tr, leavesOK t tr = true → ∀ p ∈ paths tr, leafOK t p.2.2 = true := by
  intro tr
  induction tr with
  | leaf e o => intro h p hp; simp only [paths, List.mem_singleton] at hp; subst hp; exact h
  | ite c a b iha ihb =>
    intro h p hp
    simp only [leavesOK, Bool.and_eq_true] at h
    simp only [paths, List.mem_append, List.mem_map] at hp
    rcases hp with ⟨q, hq, rfl⟩ | ⟨q, hq, rfl⟩
    · exact iha h.1 q hq
    · exact ihb h.2 q hq

structure C08Spec (t : Tables) (w : Wrapper) : Prop where
  ov      : t.decodeOverridden = true
  names   : ∀ prm ∈ t.params, t.params.find? (fun q => q.1 == prm.1) = some prm ∧ prm.2.1 ≤ prm.2.2
  safeN   : treeSafe (widthsOf t) [] w.treeNone = true
  noLastN : noLastTree w.treeNone = true
  safeS   : treeSafe (widthsOf t) (widthsOf t) w.treeSome = true
  leavesN : leavesOK t w.treeNone = true
  leavesS : leavesOK t w.treeSome = true

theorem c08OK_spec (t : Tables) (w : Wrapper) (h : c08OK t w = true) : C08Spec t w := by
  unfold c08OK at h
  simp only [Bool.and_eq_true, List.all_eq_true, decide_eq_true_eq, beq_iff_eq] at h
  obtain ⟨⟨⟨⟨⟨⟨⟨_, hov⟩, hn⟩, h1⟩, h2⟩, h3⟩, h4⟩, h5⟩ := h
  exact ⟨hov, hn, h1, h2, h3, h4, h5⟩

/-- **C08 at wrapper level** (specification form): in every instance state whose held code (if any) is a code of this
    protocol, and on EVERY list of integers, `decode()` — base decoder plus traced wrapper — returns a code or raises an
    error of the library's own family. -/
theorem C08_wrapper_spec (t : Tables) (w : Wrapper) (hS : C08Spec t w) (inst : Inst)
    (hwf : ∀ l, inst.last = some l → WFCode t l) (data : List Int) (e : PyErr)
    (h : (decodeP t w inst data).result = .error e) : e.isLibrary = true := by
  unfold decodeP at h
  rw [if_pos hS.ov] at h
  cases hb : (baseDecode t inst data).result with
  | error e' =>
    rw [decodeW_base_error t w inst data e' hb] at h
    injection h with h; subst h
    exact IRModel.Props.C08.baseDecode_lib t inst data _ hb
  | ok c =>
    rw [decodeW_result t w inst data c hb] at h
    have hnames' : ∀ prm ∈ t.params, t.params.find? (fun q => q.1 == prm.1) = some prm ∧ prm.2.1 ≤ prm.2.2 + 1 :=
      fun prm hm => ⟨(hS.names prm hm).1, by have := (hS.names prm hm).2; omega⟩
    -- the decoded code has every field, in width
    have hcwf : WFCode t c := by
      rcases baseDecode_ok_cases t inst data c hS.ov hb with ⟨V, hV, hlt⟩ | hl
      · refine ⟨V, hV, ?_⟩
        intro prm hm
        have h1 := hlt prm
        have h2 := (hS.names prm hm).2
        have : prm.2.2 - prm.2.1 + 1 = widthP prm := by unfold widthP; omega
        rw [this] at h1; exact h1
      · exact hwf c hl
    obtain ⟨V, hcV, hVlt⟩ := hcwf
    have hGN := goodEnv_decoded t c V hcV hnames' hVlt (fun _ => 0) (fun _ => by omega)
    cases hl : inst.last with
    | none =>
      simp only [hl] at h
      obtain ⟨P, hP, _, hr⟩ := runTree_path (widthsOf t) [] _ hGN (lastOK_nil _) false w.treeNone hS.safeN
      rw [hr] at h
      have hleaf := leavesOK_paths t w.treeNone hS.leavesN P hP
      obtain ⟨_, hnl⟩ := paths_noLast w.treeNone hS.noLastN P hP
      obtain ⟨cs, effs, out⟩ := P
      dsimp only at h hleaf hnl
      cases out with
      | raise cls =>
        simp only [runTree, finishAny] at h
        injection h with h; subst h; exact hleaf
      | ret fs same =>
        obtain ⟨_, hfs⟩ := retIdentity_spec t fs hleaf
        rw [ret_leaf_eval t c V hcV hnames' _ rfl _ effs fs same hfs] at h
        simp [finishAny] at h
      | retLast => exact absurd rfl hnl
      | retOther => simp [leafOK] at hleaf
    | some l =>
      simp only [hl] at h
      obtain ⟨VL, hlV, hVLlt⟩ := hwf l hl
      have hGL := goodEnv_decoded t l VL hlV hnames' hVLlt (fun _ => 0) (fun _ => by omega)
      have hGS : GoodEnv (widthsOf t) { params := fun _ => 0, fields := fieldEnv t c, last := fieldEnv t l } :=
        ⟨fun _ => by simp, hGN.fields⟩
      obtain ⟨P, hP, _, hr⟩ := runTree_path (widthsOf t) (widthsOf t) _ hGS hGL.fields
        ((baseDecode t inst data).isLast || sameCode t l c) w.treeSome hS.safeS
      rw [hr] at h
      have hleaf := leavesOK_paths t w.treeSome hS.leavesS P hP
      obtain ⟨cs, effs, out⟩ := P
      dsimp only at h hleaf
      cases out with
      | raise cls =>
        simp only [runTree, finishAny] at h
        injection h with h; subst h; exact hleaf
      | ret fs same =>
        obtain ⟨_, hfs⟩ := retIdentity_spec t fs hleaf
        rw [ret_leaf_eval t c V hcV hnames' _ rfl _ effs fs same hfs] at h
        simp [finishAny] at h
      | retLast => simp [runTree, finishAny] at h
      | retOther => simp [leafOK] at hleaf

/-! ### every reachable state holds a code of the protocol -/

theorem baseDecode_inst_overridden (t : Tables) (inst : Inst) (data : List Int) (hov : t.decodeOverridden = true) :
    (baseDecode t inst data).inst = inst := by
  have hfull : ∀ pre, (decodeFull t inst data pre).inst = inst := by
    intro pre
    unfold decodeFull
    simp only []
    cases parse t inst.tol data with
    | error e => rfl
    | ok p =>
      simp only []
      split
      · rfl
      · split
        · rfl
        · first | rfl | simp only [hov]
  unfold baseDecode
  split
  · split
    · split
      · split
        · rename_i hc
          simp only [hov, Bool.not_true, Bool.and_false] at hc
          exact absurd hc (by simp)
        · rfl
      · split
        · exact hfull _
        · rfl
    · exact hfull _
  · exact hfull _

theorem applyEffs_last (c : CodeV) : ∀ (effs : List Eff) (i : Inst) (acc : List Effect),
    (applyEffs c effs i acc).1.last = i.last ∨ (applyEffs c effs i acc).1.last = some c ∨ (applyEffs c effs i acc).1.last = none := by
  intro effs
  induction effs with
  | nil => intro i acc; exact Or.inl rfl
  | cons e effs ih =>
    intro i acc
    cases e with
    | setLastCode =>
      simp only [applyEffs]
      rcases ih { i with last := some c } acc with h | h | h
      · exact Or.inr (Or.inl h)
      · exact Or.inr (Or.inl h)
      · exact Or.inr (Or.inr h)
    | setLastNone =>
      simp only [applyEffs]
      rcases ih { i with last := none } acc with h | h | h
      · exact Or.inr (Or.inr h)
      · exact Or.inr (Or.inl h)
      · exact Or.inr (Or.inr h)
    | setLastLast => simp only [applyEffs]; exact ih i acc
    | stopLast =>
      simp only [applyEffs]
      cases hil : i.last with
      | none => simp only []; have := ih i acc; rw [hil] at this; exact this
      | some l => simp only []; have := ih i (acc ++ [Effect.stopTimer l]); rw [hil] at this; exact this

/-- `decodeW` leaves in `_last_code` what was there, nothing, or the code it decoded -/
theorem decodeW_last (t : Tables) (w : Wrapper) (hS : C08Spec t w) (inst : Inst)
    (hwf : ∀ l, inst.last = some l → WFCode t l) (data : List Int) :
    ∀ l', (decodeW t w inst data).inst.last = some l' → WFCode t l' := by
  intro l' hl'
  cases hb : (baseDecode t inst data).result with
  | error e =>
    have : (decodeW t w inst data) = baseDecode t inst data := by unfold decodeW; simp only [hb]
    rw [this, baseDecode_inst_overridden t inst data hS.ov] at hl'
    exact hwf l' hl'
  | ok c =>
    have hnames' : ∀ prm ∈ t.params, t.params.find? (fun q => q.1 == prm.1) = some prm ∧ prm.2.1 ≤ prm.2.2 + 1 :=
      fun prm hm => ⟨(hS.names prm hm).1, by have := (hS.names prm hm).2; omega⟩
    have hcwf : WFCode t c := by
      rcases baseDecode_ok_cases t inst data c hS.ov hb with ⟨V, hV, hlt⟩ | hl
      · refine ⟨V, hV, ?_⟩
        intro prm hm
        have h1 := hlt prm
        have h2 := (hS.names prm hm).2
        have : prm.2.2 - prm.2.1 + 1 = widthP prm := by unfold widthP; omega
        rw [this] at h1; exact h1
      · exact hwf c hl
    -- the stored object is `c` with the fields the leaf reports: for identity leaves that is `c` itself
    unfold decodeW at hl'
    simp only [hb] at hl'
    generalize hrt : runTree _ _ _ = rt at hl'
    obtain ⟨r, effs⟩ := rt
    -- which code object the effects may store
    have key : ∀ (c' : CodeV), WFCode t c' → ∀ l'', (applyEffs c' effs (baseDecode t inst data).inst (baseDecode t inst data).effects).1.last = some l'' → WFCode t l'' := by
      intro c' hc' l'' h''
      rcases applyEffs_last c' effs (baseDecode t inst data).inst (baseDecode t inst data).effects with h | h | h
      · rw [h, baseDecode_inst_overridden t inst data hS.ov] at h''; exact hwf l'' h''
      · rw [h] at h''; injection h'' with h''; rw [← h'']; exact hc'
      · rw [h] at h''; exact absurd h'' (by simp)
    cases r with
    | error e => exact key c hcwf l' (by simpa using hl')
    | ok res =>
      cases res with
      | last =>
        cases hl : inst.last with
        | none => simp only [hl] at hl'; exact key c hcwf l' hl'
        | some l => simp only [hl] at hl'; exact key c hcwf l' hl'
      | code fs =>
        simp only [] at hl'
        -- the leaf that produced `fs` is an identity leaf, so the rebuilt code is `c`
        obtain ⟨V, hcV, hVlt⟩ := hcwf
        have hGN := goodEnv_decoded t c V hcV hnames' hVlt (fun _ => 0) (fun _ => by omega)
        have hsame : ({ c with fields := t.params.filterMap (fun prm => (fs.find? (fun p => p.1 == prm.1)).map (fun p => (prm.1, p.2.v.toNat))) } : CodeV) = c := by
          cases hl : inst.last with
          | none =>
            simp only [hl] at hrt
            obtain ⟨P, hP, _, hr⟩ := runTree_path (widthsOf t) [] _ hGN (lastOK_nil _) false w.treeNone hS.safeN
            rw [hr] at hrt
            have hleaf := leavesOK_paths t w.treeNone hS.leavesN P hP
            obtain ⟨cs, effs', out⟩ := P
            dsimp only at hrt hleaf
            cases out with
            | ret fs' same =>
              obtain ⟨hall, hfs⟩ := retIdentity_spec t fs' hleaf
              rw [ret_leaf_eval t c V hcV hnames' _ rfl _ effs' fs' same hfs] at hrt
              injection hrt with h1 _
              injection h1 with h1
              injection h1 with h1
              rw [← h1]
              exact ret_fields_eq t c V hcV hnames' fs' hall
            | raise cls => simp [runTree] at hrt
            | retLast => simp [runTree] at hrt
            | retOther => simp [leafOK] at hleaf
          | some l =>
            simp only [hl] at hrt
            obtain ⟨VL, hlV, hVLlt⟩ := hwf l hl
            have hGL := goodEnv_decoded t l VL hlV hnames' hVLlt (fun _ => 0) (fun _ => by omega)
            have hGS : GoodEnv (widthsOf t) { params := fun _ => 0, fields := fieldEnv t c, last := fieldEnv t l } :=
              ⟨fun _ => by simp, hGN.fields⟩
            obtain ⟨P, hP, _, hr⟩ := runTree_path (widthsOf t) (widthsOf t) _ hGS hGL.fields
              ((baseDecode t inst data).isLast || sameCode t l c) w.treeSome hS.safeS
            rw [hr] at hrt
            have hleaf := leavesOK_paths t w.treeSome hS.leavesS P hP
            obtain ⟨cs, effs', out⟩ := P
            dsimp only at hrt hleaf
            cases out with
            | ret fs' same =>
              obtain ⟨hall, hfs⟩ := retIdentity_spec t fs' hleaf
              rw [ret_leaf_eval t c V hcV hnames' _ rfl _ effs' fs' same hfs] at hrt
              injection hrt with h1 _
              injection h1 with h1
              injection h1 with h1
              rw [← h1]
              exact ret_fields_eq t c V hcV hnames' fs' hall
            | raise cls => simp [runTree] at hrt
            | retLast => simp [runTree] at hrt
            | retOther => simp [leafOK] at hleaf
        rw [hsame] at hl'
        exact key c ⟨V, hcV, hVlt⟩ l' hl'

/-- feeding a list of inputs, one after the other, to one instance: the results -/
def runInputs (t : Tables) (w : Wrapper) : Inst → List (List Int) → List (Except PyErr CodeV)
  | _, [] => []
  | inst, d :: ds => (decodeP t w inst d).result :: runInputs t w (decodeP t w inst d).inst ds

/-- **C08 at wrapper level over histories**: a decoder instance of the protocol, started without history and fed ANY
    sequence of ANY integer lists, answers every one of them with a code or an error of the library's family. -/
theorem C08_wrapper_history (t : Tables) (w : Wrapper) (hS : C08Spec t w) :
    ∀ (inputs : List (List Int)) (inst : Inst), (∀ l, inst.last = some l → WFCode t l) →
      ∀ r ∈ runInputs t w inst inputs, ∀ e, r = .error e → e.isLibrary = true := by
  intro inputs
  induction inputs with
  | nil => intro inst _ r hr; simp [runInputs] at hr
  | cons d ds ih =>
    intro inst hwf r hr e he
    simp only [runInputs, List.mem_cons] at hr
    rcases hr with rfl | hr
    · exact C08_wrapper_spec t w hS inst hwf d e he
    · refine ih (decodeP t w inst d).inst ?_ r hr e he
      intro l hl
      unfold decodeP at hl
      rw [if_pos hS.ov] at hl
      exact decodeW_last t w hS inst hwf d l hl

end IRModel.Wrap
