import IRModel.Engine
/-! alternation of mark/space lists and the compression used by the packet builder -/
namespace IRModel.Engine
open IRModel IRModel.Py

/-- a list of (+mark, -space) pairs -/
def altP : List Int → Bool
  | [] => true
  | [_] => false
  | a :: b :: rest => decide (a > 0) && decide (b < 0) && altP rest

theorem altP_append : ∀ (l₁ l₂ : List Int), altP l₁ = true → altP l₂ = true → altP (l₁ ++ l₂) = true
  | [], l₂, _, h => by simpa using h
  | [_], _, h, _ => by simp [altP] at h
  | a :: b :: rest, l₂, h, h2 => by
    simp only [altP, Bool.and_eq_true, decide_eq_true_eq] at h
    simp only [List.cons_append, altP, Bool.and_eq_true, decide_eq_true_eq]
    exact ⟨⟨h.1.1, h.1.2⟩, altP_append rest l₂ h.2 h2⟩

theorem compress_cons_pos_of_head_neg (a : Int) (l : List Int) (ha : a > 0)
    (h : ∀ y ys, compress l = y :: ys → y < 0) : compress (a :: l) = a :: compress l := by
  simp only [compress]
  split
  · rename_i hc; rw [hc]
  · rename_i y ys hc
    have := h y ys hc
    have : ¬ ((a > 0 ∧ y > 0) ∨ (a < 0 ∧ y < 0)) := by omega
    rw [if_neg this, hc]

theorem compress_cons (x : Int) (rest : List Int) :
    compress (x :: rest) = (match compress rest with
      | [] => [x]
      | y :: ys => if (x > 0 ∧ y > 0) ∨ (x < 0 ∧ y < 0) then (x + y) :: ys else x :: y :: ys) := rfl

theorem compress_altP : ∀ (l : List Int), altP l = true → compress l = l
  | [], _ => rfl
  | [_], h => by simp [altP] at h
  | a :: b :: rest, h => by
    simp only [altP, Bool.and_eq_true, decide_eq_true_eq] at h
    obtain ⟨⟨ha, hb⟩, hr⟩ := h
    have ih := compress_altP rest hr
    have hb' : compress (b :: rest) = b :: rest := by
      rw [compress_cons b, ih]
      cases rest with
      | nil => rfl
      | cons y ys =>
        cases ys with
        | nil => simp [altP] at hr
        | cons z zs =>
          simp only [altP, Bool.and_eq_true, decide_eq_true_eq] at hr
          have : ¬ ((b > 0 ∧ y > 0) ∨ (b < 0 ∧ y < 0)) := by omega
          simp [this]
    rw [compress_cons a, hb']
    have : ¬ ((a > 0 ∧ b > 0) ∨ (a < 0 ∧ b < 0)) := by omega
    simp [this]

/-- pairs followed by one more mark: still nothing to merge -/
theorem compress_altP_snoc : ∀ (l : List Int) (m : Int), altP l = true → m > 0 → compress (l ++ [m]) = l ++ [m]
  | [], m, _, _ => by simp [compress]
  | [_], _, h, _ => by simp [altP] at h
  | a :: b :: rest, m, h, hm => by
    simp only [altP, Bool.and_eq_true, decide_eq_true_eq] at h
    obtain ⟨⟨ha, hb⟩, hr⟩ := h
    have ih := compress_altP_snoc rest m hr hm
    have hb' : compress (b :: (rest ++ [m])) = b :: (rest ++ [m]) := by
      rw [compress_cons b, ih]
      cases rest with
      | nil =>
        have : ¬ ((b > 0 ∧ m > 0) ∨ (b < 0 ∧ m < 0)) := by omega
        simp [this]
      | cons y ys =>
        cases ys with
        | nil => simp [altP] at hr
        | cons z zs =>
          simp only [altP, Bool.and_eq_true, decide_eq_true_eq] at hr
          have : ¬ ((b > 0 ∧ y > 0) ∨ (b < 0 ∧ y < 0)) := by omega
          simp [this]
    simp only [List.cons_append]
    rw [compress_cons a, hb']
    have : ¬ ((a > 0 ∧ b > 0) ∨ (a < 0 ∧ b < 0)) := by omega
    simp [this]

/-- the shape property C03 asks of a frame -/
structure WellFormed (l : List Int) : Prop where
  nonempty    : l ≠ []
  nonzero     : ∀ x ∈ l, x ≠ 0
  startsMark  : l.headD 0 > 0
  endsSpace   : l.getLastD 0 < 0
  alternates  : ∀ i, i + 1 < l.length → (l.getD i 0 > 0 ∧ l.getD (i + 1) 0 < 0) ∨ (l.getD i 0 < 0 ∧ l.getD (i + 1) 0 > 0)

theorem altP_wellFormed : ∀ (l : List Int), altP l = true → l ≠ [] → WellFormed l := by
  intro l
  induction l using altP.induct with
  | case1 => intro _ h; exact absurd rfl h
  | case2 a => intro h; simp [altP] at h
  | case3 a b rest ih =>
    intro h _
    simp only [altP, Bool.and_eq_true, decide_eq_true_eq] at h
    obtain ⟨⟨ha, hb⟩, hr⟩ := h
    by_cases hrest : rest = []
    · subst hrest
      refine ⟨by simp, ?_, by simpa using ha, by simpa using hb, ?_⟩
      · intro x hx; simp at hx; rcases hx with rfl | rfl <;> omega
      · intro i hi
        have : i = 0 := by simp at hi; omega
        subst this; simp; omega
    · have w := ih hr hrest
      refine ⟨by simp, ?_, by simpa using ha, ?_, ?_⟩
      · intro x hx
        simp at hx
        rcases hx with rfl | rfl | hx
        · omega
        · omega
        · exact w.nonzero x hx
      · have : (a :: b :: rest).getLastD 0 = rest.getLastD 0 := by
          cases rest with
          | nil => exact absurd rfl hrest
          | cons y ys => simp [List.getLastD_cons]
        rw [this]; exact w.endsSpace
      · intro i hi
        match i with
        | 0 => simp; omega
        | 1 =>
          have h0 : rest.headD 0 > 0 := w.startsMark
          cases rest with
          | nil => exact absurd rfl hrest
          | cons y ys => simp at h0 ⊢; omega
        | j + 2 =>
          have := w.alternates j (by simp at hi; omega)
          simpa using this

end IRModel.Engine
