import IRModel.Match
/-! facts about the tolerance window used by the engine theorems -/
namespace IRModel.Match

/-- tolerance settings the theorems cover: `0 ≤ num/den ≤ 100` percent -/
def Tol.ok (t : Tol) : Prop := 0 < t.den ∧ t.num ≤ 100 * t.den

theorem lo_le_self_pos (e : Int) (t : Tol) (ht : t.ok) (he : 0 < e) : loOf e t ≤ e := by
  unfold loOf
  have hc : (0 : Int) < ((100 * t.den : Nat) : Int) := by have := ht.1; omega
  have : e * (((100 * t.den : Nat) : Int) - (t.num : Int)) / ((100 * t.den : Nat) : Int) < e + 1 := by
    rw [Int.ediv_lt_iff_lt_mul hc, Int.mul_sub, Int.add_mul]
    have : 0 ≤ e * (t.num : Int) := Int.mul_nonneg (by omega) (by omega)
    omega
  omega

theorem self_le_hi_pos (e : Int) (t : Tol) (ht : t.ok) (he : 0 < e) : e ≤ hiOf e t := by
  unfold hiOf
  have hc : (0 : Int) < ((100 * t.den : Nat) : Int) := by have := ht.1; omega
  rw [Int.le_ediv_iff_mul_le hc]
  have h1 : ((100 * t.den + t.num : Nat) : Int) = ((100 * t.den : Nat) : Int) + (t.num : Int) := by omega
  rw [h1, Int.mul_add]
  have : 0 ≤ e * (t.num : Int) := Int.mul_nonneg (by omega) (by omega)
  omega

theorem hi_le_self_neg (e : Int) (t : Tol) (ht : t.ok) (he : e < 0) : hiOf e t ≤ e := by
  unfold hiOf
  have hc : (0 : Int) < ((100 * t.den : Nat) : Int) := by have := ht.1; omega
  have : e * ((100 * t.den + t.num : Nat) : Int) / ((100 * t.den : Nat) : Int) < e + 1 := by
    rw [Int.ediv_lt_iff_lt_mul hc]
    have h1 : ((100 * t.den + t.num : Nat) : Int) = ((100 * t.den : Nat) : Int) + (t.num : Int) := by omega
    rw [h1, Int.mul_add, Int.add_mul]
    have : e * (t.num : Int) ≤ 0 := Int.mul_nonpos_of_nonpos_of_nonneg (by omega) (by omega)
    omega
  omega

theorem self_le_lo_neg (e : Int) (t : Tol) (ht : t.ok) (he : e < 0) : e ≤ loOf e t := by
  unfold loOf
  have hc : (0 : Int) < ((100 * t.den : Nat) : Int) := by have := ht.1; omega
  rw [Int.le_ediv_iff_mul_le hc, Int.mul_sub]
  have : e * (t.num : Int) ≤ 0 := Int.mul_nonpos_of_nonpos_of_nonneg (by omega) (by omega)
  omega

/-- every non-zero duration matches itself, at every tolerance between 0 and 100 % -/
theorem isMatch_self (t : Tol) (ht : t.ok) (e : Int) (he : e ≠ 0) : isMatch t e e = true := by
  unfold isMatch window
  rcases Int.lt_or_gt_of_ne he with h | h
  · have h1 := hi_le_self_neg e t ht h
    have h2 := self_le_lo_neg e t ht h
    have : ¬ ((e < 0 ∧ 0 < e) ∨ (e > 0 ∧ 0 > e)) := by omega
    simp [this, h, h1, h2]
    omega
  · have h1 := lo_le_self_pos e t ht h
    have h2 := self_le_hi_pos e t ht h
    have : ¬ ((e < 0 ∧ 0 < e) ∨ (e > 0 ∧ 0 > e)) := by omega
    have h3 : ¬ e < 0 := by omega
    simp [this, h3, h1, h2]

/-- opposite signs never match -/
theorem isMatch_sign (t : Tol) (v e : Int) (h : (v < 0 ∧ 0 < e) ∨ (v > 0 ∧ 0 > e)) : isMatch t v e = false := by
  unfold isMatch; simp [h]

end IRModel.Match
