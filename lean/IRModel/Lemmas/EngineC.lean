import IRModel.Props.Manchester
import IRModel.Lemmas.EngineB
/-!
# Class C of the engine: two-symbol bi-phase (Manchester) tables whose lead-out is a single gap

The half bits of the data section merge with each other, the first one may merge with the last lead-in duration and the
last one with the gap.  `frameC_shape` describes the frame on the air, `parse_frameC` shows that the Manchester path of
`CodeWrapper` (`parseWithM`) parses it back to exactly the bits sent, `engineRT_C : wfAllC t tol → EngineRT t tol`
makes the wrapper-level theorems (`C01/C03/C05/C06_wrapper`) apply to these tables.  Frame-period lead-outs (RC5,
StreamZap, Motorola, AdNotham), empty and three-entry lead-outs and middle timings are NOT covered.
-/
namespace IRModel.Engine
open IRModel IRModel.Py IRModel.Match IRModel.Bits IRModel.CodeWrapper IRModel.Encode IRModel.Props.Manchester IRModel.Proto IRModel.Props.EngineThm IRModel.Props.C19

/-- same sign (both non-zero) -/
def sameSign (a b : Int) : Prop := (a > 0 ∧ b > 0) ∨ (a < 0 ∧ b < 0)
instance (a b : Int) : Decidable (sameSign a b) := by unfold sameSign; infer_instance

/-- opposite signs -/
def oppSign (a b : Int) : Prop := (a > 0 ∧ b < 0) ∨ (a < 0 ∧ b > 0)
instance (a b : Int) : Decidable (oppSign a b) := by unfold oppSign; infer_instance

/-- strictly alternating signs, nothing zero -/
def altS : List Int → Bool
  | [] => true
  | [a] => decide (a ≠ 0)
  | a :: b :: rest => decide (oppSign a b) && altS (b :: rest)

theorem compress_ne_nil : ∀ (l : List Int), l ≠ [] → compress l ≠ []
  | [], h => absurd rfl h
  | x :: rest, _ => by
    rw [compress_cons]
    split
    · simp
    · split <;> simp

/-- the head of a compressed list has the sign of the head of the list -/
theorem compress_head (b : Int) (B : List Int) (hb : b ≠ 0) :
    ∃ y ys, compress (b :: B) = y :: ys ∧ ((b > 0 ∧ y > 0) ∨ (b < 0 ∧ y < 0)) := by
  rw [compress_cons]
  split
  · exact ⟨b, [], rfl, by omega⟩
  · rename_i y ys _
    split
    · rename_i h; exact ⟨b + y, ys, rfl, by omega⟩
    · exact ⟨b, y :: ys, rfl, by omega⟩

/-- two pieces whose touching ends have opposite signs compress independently -/
theorem compress_append_sep : ∀ (A : List Int) (b : Int) (B : List Int), A ≠ [] →
    (∀ a, A.getLast? = some a → oppSign a b) → compress (A ++ b :: B) = compress A ++ compress (b :: B)
  | [], _, _, h, _ => absurd rfl h
  | [a], b, B, _, ho => by
    have hab := ho a rfl
    have hb0 : b ≠ 0 := by unfold oppSign at hab; omega
    obtain ⟨y, ys, hy, hs⟩ := compress_head b B hb0
    show compress (a :: b :: B) = compress [a] ++ compress (b :: B)
    rw [compress_cons a (b :: B), hy]
    have : ¬ ((a > 0 ∧ y > 0) ∨ (a < 0 ∧ y < 0)) := by unfold oppSign at hab; omega
    simp [this, compress]
  | a :: a' :: A', b, B, _, ho => by
    have ih := compress_append_sep (a' :: A') b B (by simp) (by intro z hz; exact ho z (by simpa using hz))
    show compress (a :: ((a' :: A') ++ b :: B)) = compress (a :: a' :: A') ++ compress (b :: B)
    rw [compress_cons a, ih, compress_cons a (a' :: A')]
    have hne := compress_ne_nil (a' :: A') (by simp)
    cases hc : compress (a' :: A') with
    | nil => exact absurd hc hne
    | cons y ys =>
      simp only [List.cons_append]
      split <;> simp

theorem compress_altS : ∀ (l : List Int), altS l = true → compress l = l
  | [], _ => rfl
  | [a], _ => rfl
  | a :: b :: rest, h => by
    simp only [altS, Bool.and_eq_true, decide_eq_true_eq] at h
    have ih := compress_altS (b :: rest) h.2
    rw [compress_cons, ih]
    have : ¬ ((a > 0 ∧ b > 0) ∨ (a < 0 ∧ b < 0)) := by have := h.1; unfold oppSign at this; omega
    simp [this]


theorem leadInLoop_prefix (tol : Tol) (htol : tol.ok) (bursts : List (Int × Int)) :
    ∀ (es1 es2 code cleaned : List Int), (∀ e ∈ es1, e ≠ 0) →
      leadInLoop tol bursts (es1 ++ es2) (es1 ++ code) cleaned = leadInLoop tol bursts es2 code (cleaned ++ es1) := by
  intro es1
  induction es1 with
  | nil => intro es2 code cleaned _; simp
  | cons e es ih =>
    intro es2 code cleaned h
    have he : isMatch tol e e = true := isMatch_self tol htol e (h e (by simp))
    simp only [List.cons_append, leadInLoop, he, if_true]
    rw [ih es2 code (cleaned ++ [e]) (fun x hx => h x (by simp [hx]))]
    simp

theorem altS_ne_zero : ∀ (l : List Int), altS l = true → ∀ e ∈ l, e ≠ 0
  | [], _, e, he => by cases he
  | [a], h, e, he => by simp only [altS, decide_eq_true_eq] at h; simp at he; rw [he]; exact h
  | a :: b :: rest, h, e, he => by
    simp only [altS, Bool.and_eq_true, decide_eq_true_eq] at h
    rcases List.mem_cons.mp he with rfl | he'
    · have := h.1; unfold oppSign at this; omega
    · exact altS_ne_zero (b :: rest) h.2 e he'

theorem altS_last_opp : ∀ (l : List Int) (e : Int), altS (l ++ [e]) = true → ∀ a, l.getLast? = some a → oppSign a e
  | [], _, _, a, h => by simp at h
  | [b], e, h, a, ha => by
    simp only [List.cons_append, List.nil_append, altS, Bool.and_eq_true, decide_eq_true_eq] at h
    simp at ha; rw [← ha]; exact h.1
  | b :: c :: rest, e, h, a, ha => by
    simp only [List.cons_append, altS, Bool.and_eq_true, decide_eq_true_eq] at h
    exact altS_last_opp (c :: rest) e (by simpa [altS] using h.2) a (by simpa using ha)

theorem altS_prefix : ∀ (l : List Int) (e : Int), altS (l ++ [e]) = true → l ≠ [] → altS l = true
  | [], _, _, h => absurd rfl h
  | [b], e, h, _ => by
    simp only [List.cons_append, List.nil_append, altS, Bool.and_eq_true, decide_eq_true_eq] at h
    simp only [altS, decide_eq_true_eq]; have := h.1; unfold oppSign at this; omega
  | b :: c :: rest, e, h, _ => by
    simp only [List.cons_append, altS, Bool.and_eq_true, decide_eq_true_eq] at h
    simp only [altS, Bool.and_eq_true, decide_eq_true_eq]
    exact ⟨h.1, altS_prefix (c :: rest) e (by simpa [altS] using h.2) (by simp)⟩

/-- the half bits of a non-empty symbol sequence: first, middle, last -/
theorem symTimings_ends (m s : Int) (hopp : oppSign m s) : ∀ (idx : List Nat), idx ≠ [] → (∀ i ∈ idx, i < 2) →
    ∃ h1 M hl, symTimings [(m, s), (s, m)] idx = h1 :: M ++ [hl] ∧ (h1 = m ∨ h1 = s) ∧ (hl = m ∨ hl = s) ∧
      (∀ z, (M ++ [hl]).head? = some z → oppSign h1 z) ∧ (∀ z, (h1 :: M).getLast? = some z → oppSign z hl) := by
  intro idx hne hidx
  have sym : ∀ i, i < 2 → ∃ a b, symTimings [(m, s), (s, m)] [i] = [a, b] ∧ (a = m ∨ a = s) ∧ (b = m ∨ b = s) ∧ oppSign a b := by
    intro i hi
    rcases Nat.lt_or_ge i 1 with h0 | h1
    · have : i = 0 := by omega
      subst this; exact ⟨m, s, rfl, Or.inl rfl, Or.inr rfl, hopp⟩
    · have : i = 1 := by omega
      subst this; exact ⟨s, m, rfl, Or.inr rfl, Or.inl rfl, by unfold oppSign at hopp ⊢; omega⟩
  obtain ⟨idx', j, rfl⟩ : ∃ idx' j, idx = idx' ++ [j] := ⟨_, _, (List.dropLast_concat_getLast hne).symm⟩
  obtain ⟨c, d, hcd, hc, hd, hocd⟩ := sym j (hidx j (by simp))
  rw [symTimings_append, hcd]
  cases idx' with
  | nil =>
    refine ⟨c, [], d, by simp [symTimings], hc, hd, ?_, ?_⟩
    · intro z hz; simp at hz; rw [← hz]; exact hocd
    · intro z hz; simp at hz; rw [← hz]; exact hocd
  | cons i0 r =>
    obtain ⟨a, b, hab, ha, _, hoab⟩ := sym i0 (hidx i0 (by simp))
    have : symTimings [(m, s), (s, m)] (i0 :: r) = [a, b] ++ symTimings [(m, s), (s, m)] r := by
      have := symTimings_append [(m, s), (s, m)] [i0] r
      simpa [hab] using this
    rw [this]
    refine ⟨a, b :: symTimings [(m, s), (s, m)] r ++ [c], d, by simp, ha, hd, ?_, ?_⟩
    · intro z hz; simp at hz; rw [← hz]; exact hoab
    · intro z hz
      have : (a :: (b :: symTimings [(m, s), (s, m)] r ++ [c])).getLast? = some c := by
        have e : a :: (b :: symTimings [(m, s), (s, m)] r ++ [c]) = (a :: b :: symTimings [(m, s), (s, m)] r) ++ [c] := by simp
        rw [e]; exact List.getLast?_concat
      rw [this] at hz; injection hz with hz; rw [← hz]; exact hocd


theorem compress_leadIn (L' : List Int) (e h1 : Int) (halt : altS (L' ++ [e]) = true) :
    compress (L' ++ [e, h1]) = L' ++ compress [e, h1] := by
  cases hL : L' with
  | nil => rfl
  | cons a A =>
    rw [← hL]
    have hne : L' ≠ [] := by rw [hL]; simp
    rw [compress_append_sep L' e [h1] hne (altS_last_opp L' e halt), compress_altS L' (altS_prefix L' e halt hne)]

/-- the shape of a class-C frame, and of its data section -/
theorem frameC_shape (L' : List Int) (e h1 : Int) (M : List Int) (hl x : Int) (halt : altS (L' ++ [e]) = true)
    (hM1 : ∀ z, (M ++ [hl]).head? = some z → oppSign h1 z) (hM2 : ∀ z, (h1 :: M).getLast? = some z → oppSign z hl) :
    compress (L' ++ [e] ++ (h1 :: M ++ [hl]) ++ [x]) = L' ++ compress [e, h1] ++ compress M ++ compress [hl, x] ∧
    compress (h1 :: M ++ [hl]) = h1 :: compress M ++ [hl] := by
  cases hM : M with
  | nil =>
    subst hM
    have ho : oppSign h1 hl := hM1 hl rfl
    constructor
    · have e1 : L' ++ [e] ++ (h1 :: [] ++ [hl]) ++ [x] = (L' ++ [e, h1]) ++ hl :: [x] := by simp
      rw [e1, compress_append_sep (L' ++ [e, h1]) hl [x] (by simp) (by intro a ha; simp at ha; rw [← ha]; exact ho),
        compress_leadIn L' e h1 halt]
      simp [compress]
    · show compress ([h1] ++ hl :: []) = _
      rw [compress_append_sep [h1] hl [] (by simp) (by intro a ha; simp at ha; rw [← ha]; exact ho)]
      simp [compress]
  | cons b M' =>
    have ho1 : oppSign h1 b := hM1 b (by rw [hM]; rfl)
    have ho2 : ∀ a, (b :: M').getLast? = some a → oppSign a hl := by
      intro a ha; apply hM2 a; rw [hM]; simpa [List.getLast?_cons_cons] using ha
    have hmid : compress ((b :: M') ++ hl :: [x]) = compress (b :: M') ++ compress [hl, x] :=
      compress_append_sep (b :: M') hl [x] (by simp) ho2
    have hmid2 : compress ((b :: M') ++ hl :: []) = compress (b :: M') ++ [hl] := by
      rw [compress_append_sep (b :: M') hl [] (by simp) ho2]; rfl
    constructor
    · have e1 : L' ++ [e] ++ (h1 :: (b :: M') ++ [hl]) ++ [x] = (L' ++ [e, h1]) ++ b :: (M' ++ hl :: [x]) := by simp
      rw [e1, compress_append_sep (L' ++ [e, h1]) b _ (by simp) (by intro a ha; simp at ha; rw [← ha]; exact ho1),
        compress_leadIn L' e h1 halt]
      have e2 : b :: (M' ++ hl :: [x]) = (b :: M') ++ hl :: [x] := by simp
      rw [e2, hmid]
      simp
    · show compress ([h1] ++ b :: (M' ++ [hl])) = _
      rw [compress_append_sep [h1] b _ (by simp) (by intro a ha; simp at ha; rw [← ha]; exact ho1)]
      have e2 : b :: (M' ++ [hl]) = (b :: M') ++ hl :: [] := by simp
      rw [e2, hmid2]
      simp [compress]


theorem manchAll_length (tol : Tol) (m s : Int) : ∀ (l r : List Int), manchAll tol m s l = .ok r → r.length ≤ 2 * l.length := by
  intro l
  induction l with
  | nil => intro r h; simp [manchAll] at h; subst h; simp
  | cons b l ih =>
    intro r h
    unfold manchAll at h
    cases ho : manchOne tol m s b with
    | none => rw [ho] at h; cases h
    | some v =>
      rw [ho] at h
      have hv : v.length ≤ 2 := by
        unfold manchOne at ho
        repeat' split at ho
        all_goals first | (injection ho with ho; subst ho; simp) | cases ho
      cases hr : manchAll tol m s l with
      | error e' => rw [hr] at h; simp [Except.map] at h
      | ok w =>
        rw [hr] at h; simp [Except.map] at h; subst h
        have := ih w hr
        simp only [List.length_append, List.length_cons]; omega

theorem symTimings_two_length (m s : Int) : ∀ (idx : List Nat), (∀ i ∈ idx, i < 2) →
    (symTimings [(m, s), (s, m)] idx).length = 2 * idx.length := by
  intro idx
  induction idx with
  | nil => intro _; rfl
  | cons i idx ih =>
    intro h
    have hi : i < 2 := h i (by simp)
    have := symTimings_append [(m, s), (s, m)] [i] idx
    simp only [List.singleton_append] at this
    rw [this, List.length_append, ih (fun j hj => h j (by simp [hj]))]
    rcases Nat.lt_or_ge i 1 with h0 | h1
    · have : i = 0 := by omega
      subst this; simp [symTimings]; omega
    · have : i = 1 := by omega
      subst this; simp [symTimings]; omega

/-- class C (gap lead-out): two-symbol bi-phase table, lead-in `L' ++ [e]`, lead-out one gap `x < 0` -/
structure SpecC (t : Tables) (tol : Tol) (m s x : Int) (L' : List Int) (e : Int) : Prop where
  tab  : t.bursts = [(m, s), (s, m)]
  opp  : oppSign m s
  sep  : sepM tol m s = true
  li   : t.leadIn = L' ++ [e]
  alt  : altS (L' ++ [e]) = true
  lo   : t.leadOut = [x]
  xneg : x < 0
  xs   : x ≠ -999999999999
  liM  : ∀ h, (h = m ∨ h = s) → sameSign e h → isMatch tol (e + h) e = false ∧
           ∃ p, t.bursts.find? (fun p => isMatch tol (e + h) (e + p.1)) = some p ∧ p.1 = h
  loM  : ∀ n, (n = m ∨ n = s) → n < 0 → tailStep tol t.bursts 0 x (n + x) = some ([n], some x) ∨
           tailStep tol t.bursts 0 x (n + x) = some ([], some x)     -- split off again, or swallowed by the gap's window

theorem specC_gen {t : Tables} {tol : Tol} {m s x : Int} {L' : List Int} {e : Int} (hS : SpecC t tol m s x L' e) :
    streamEnc t.bursts = .manchester := by
  rw [hS.tab]; simp [streamEnc, detect]

/-- **bit-level round trip for class-C tables (gap lead-out)** -/
theorem parse_frameC (t : Tables) (tol : Tol) (htol : tol.ok) (m s x : Int) (L' : List Int) (e : Int)
    (hS : SpecC t tol m s x L' e) (idx : List Nat) (hne : idx ≠ []) (hidx : ∀ i ∈ idx, i < 2) :
    parse t tol (compress (t.leadIn ++ symTimings t.bursts idx ++ [x])) =
      .ok { bits := idx.flatMap (idxToBits 2), cleaned := compress (t.leadIn ++ symTimings t.bursts idx ++ [x]) } ∧
    t.leadIn.length + idx.length ≤ (compress (t.leadIn ++ symTimings t.bursts idx ++ [x])).length + 1 := by
  obtain ⟨h1, M, hl, hH, hh1, hhl, hM1, hM2⟩ := symTimings_ends m s hS.opp idx hne hidx
  have hHlen := symTimings_two_length m s idx hidx
  have hmt : manchTable t.bursts m s := ⟨hS.tab, by have := hS.opp; unfold oppSign at this; exact this⟩
  obtain ⟨hmanch, hbits⟩ := manch_data_roundtrip tol t.bursts m s hmt hS.sep idx hidx
  rw [hS.tab] at hmanch hbits
  rw [hS.tab, hS.li, hH]
  rw [hH] at hmanch hbits
  obtain ⟨hshape, hdata⟩ := frameC_shape L' e h1 M hl x hS.alt hM1 hM2
  have hm0 : m ≠ 0 ∧ s ≠ 0 := by have := hS.opp; unfold oppSign at this; omega
  have hh10 : h1 ≠ 0 := by rcases hh1 with rfl | rfl <;> omega
  have hhl0 : hl ≠ 0 := by rcases hhl with rfl | rfl <;> omega
  have he0 : e ≠ 0 := altS_ne_zero _ hS.alt e (by simp)
  have hL0 : ∀ a ∈ L', a ≠ 0 := fun a ha => altS_ne_zero _ hS.alt a (by simp [ha])
  -- the frame
  obtain ⟨F, hF⟩ : ∃ F, F = compress (L' ++ [e] ++ (h1 :: M ++ [hl]) ++ [x]) := ⟨_, rfl⟩
  obtain ⟨back, hback⟩ : ∃ b, b = compress [hl, x] := ⟨_, rfl⟩
  have hFs : F = L' ++ compress [e, h1] ++ compress M ++ back := by rw [hF, hshape, hback]
  -- the lead-in loop gives the data section back, its first half bit split off the lead-in where it had merged
  have hin : leadInLoop tol [(m, s), (s, m)] (L' ++ [e]) F [] = .ok (h1 :: compress M ++ back, L' ++ [e]) := by
    rw [hFs]
    have e1 : L' ++ compress [e, h1] ++ compress M ++ back = L' ++ (compress [e, h1] ++ compress M ++ back) := by simp
    rw [e1, leadInLoop_prefix tol htol _ L' [e] _ [] hL0]
    by_cases hss : sameSign e h1
    · obtain ⟨hno, p, hfind, hp1⟩ := hS.liM h1 hh1 hss
      rw [hS.tab] at hfind
      have hc : compress [e, h1] = [e + h1] := by
        have : (e > 0 ∧ h1 > 0) ∨ (e < 0 ∧ h1 < 0) := hss
        simp [compress, this]
      rw [hc]
      simp only [List.nil_append, List.cons_append, leadInLoop, hno, Bool.false_eq_true, if_false, hfind, hp1]
    · have hc : compress [e, h1] = [e, h1] := by
        have : ¬ ((e > 0 ∧ h1 > 0) ∨ (e < 0 ∧ h1 < 0)) := hss
        simp [compress, this]
      rw [hc]
      have hme : isMatch tol e e = true := isMatch_self tol htol e he0
      simp only [List.nil_append, List.cons_append, leadInLoop, hme, if_true]
  -- the lead-out loop and the main loop: the gap, or the last half bit merged with it (split off again, or swallowed by
  -- the gap's tolerance window and then restored by the completion of the trailing single half bit)
  have hvals : ∀ tt, 0 ≤ tt → ∃ code2 half vals extra,
      leadOutLoop tol [(m, s), (s, m)] 1 tt [x] 0 (h1 :: compress M ++ back) [] [] = .ok (code2, half, [some x]) ∧
      manchAll tol m s (code2 ++ half) = .ok vals ∧
      pairsToBits [(m, s), (s, m)] (pairUp vals) = .ok (idx.flatMap (idxToBits 2), extra) ∧
      vals ++ extra = h1 :: M ++ [hl] := by
    intro tt htt
    have full : ∀ code2 half, code2 ++ half = h1 :: compress M ++ [hl] →
        manchAll tol m s (code2 ++ half) = .ok (h1 :: M ++ [hl]) := by
      intro c2 hf hc; rw [hc, ← hdata]; exact hmanch
    by_cases hneg : hl < 0
    · have hb : back = [hl + x] := by
        rw [hback]; have : (hl > 0 ∧ x > 0) ∨ (hl < 0 ∧ x < 0) := Or.inr ⟨hneg, hS.xneg⟩
        simp [compress, this]
      rw [hb]
      have htt0 := tailStep_tt tol [(m, s), (s, m)] tt x (hl + x) hS.xneg htt (by have := hS.xneg; omega)
      have hlo := hS.loM hl hhl hneg
      rw [hS.tab] at hlo
      rcases hlo with hts | hts
      · rw [← htt0] at hts
        refine ⟨h1 :: compress M, [hl], h1 :: M ++ [hl], [], ?_, full _ _ (by simp), hbits, by simp⟩
        have := leadOutLoop_single tol [(m, s), (s, m)] tt x (hl + x) (h1 :: compress M) hS.xs _ hts
        simpa using this
      · rw [← htt0] at hts
        -- swallowed: the main loop sees the data without its last half bit
        have hm1 : manchAll tol m s (h1 :: compress M) = .ok (h1 :: M) := by
          have hone : manchOne tol m s hl = some [hl] := by
            obtain ⟨om, os, _, _⟩ := manchOne_facts hS.sep
            rcases hhl with rfl | rfl
            · exact om
            · exact os
          have happ : ∀ (l : List Int), manchAll tol m s (l ++ [hl]) = (manchAll tol m s l).map (· ++ [hl]) := by
            intro l
            induction l with
            | nil => simp [manchAll, hone, Except.map]
            | cons a l ih =>
              simp only [List.cons_append, manchAll]
              cases manchOne tol m s a with
              | none => rfl
              | some v =>
                simp only [ih]
                cases manchAll tol m s l with
                | error e => rfl
                | ok w => simp [Except.map]
          have h2 := hmanch
          rw [hdata, show h1 :: compress M ++ [hl] = (h1 :: compress M) ++ [hl] from rfl, happ] at h2
          cases hr : manchAll tol m s (h1 :: compress M) with
          | error e' => rw [hr] at h2; simp [Except.map] at h2
          | ok w =>
            rw [hr] at h2; simp only [Except.map] at h2
            injection h2 with h2
            have : w = h1 :: M := by
              have h3 : w ++ [hl] = (h1 :: M) ++ [hl] := by simpa using h2
              exact List.append_cancel_right h3
            rw [this]
        -- the last symbol
        obtain ⟨idx', j, hij⟩ : ∃ idx' j, idx = idx' ++ [j] := ⟨_, _, (List.dropLast_concat_getLast hne).symm⟩
        have hj : j < 2 := hidx j (by rw [hij]; simp)
        have hidx' : ∀ i ∈ idx', i < [(m, s), (s, m)].length := by
          intro i hi; have := hidx i (by rw [hij]; simp [hi]); simpa using this
        have hmsne : m ≠ s := by have := hS.opp; unfold oppSign at this; omega
        obtain ⟨c, d, hcd, hfind, hsb⟩ : ∃ c d, symTimings [(m, s), (s, m)] [j] = [c, d] ∧
            [(m, s), (s, m)].find? (fun p => p.1 == c) = some (c, d) ∧
            symbolBits [(m, s), (s, m)] c d = .ok (idxToBits 2 j) := by
          have hd : distinctSyms [(m, s), (s, m)] = true := by
            unfold distinctSyms
            simp [List.range_succ, List.findIdx?_cons]
            intro h; exact absurd h hmsne
          rcases Nat.lt_or_ge j 1 with h0 | h1'
          · have : j = 0 := by omega
            subst this
            exact ⟨m, s, rfl, by simp, distinct_lookup _ hd 0 (by simp)⟩
          · have : j = 1 := by omega
            subst this
            refine ⟨s, m, rfl, ?_, distinct_lookup _ hd 1 (by simp)⟩
            have : (m == s) = false := by simpa using hmsne
            simp [List.find?_cons, this]
        have hHs : symTimings [(m, s), (s, m)] idx' ++ [c] ++ [d] = (h1 :: M) ++ [hl] := by
          have := symTimings_append [(m, s), (s, m)] idx' [j]
          rw [← hij, hH, hcd] at this
          simpa using this.symm
        obtain ⟨e1, e2⟩ := List.append_inj' hHs rfl
        have e2' : d = hl := by simpa using e2
        have hpu : pairUp (symTimings [(m, s), (s, m)] idx' ++ [c]) =
            idx'.map (fun i => [([(m, s), (s, m)][i]?.getD (0, 0)).1, ([(m, s), (s, m)][i]?.getD (0, 0)).2]) ++ [[c]] :=
          pairUp_snoc c _ _ (pairUp_syms _ idx' hidx') (by intro p hp; simp at hp; obtain ⟨i, _, rfl⟩ := hp; rfl)
        have hd : distinctSyms [(m, s), (s, m)] = true := by
          unfold distinctSyms
          simp [List.range_succ, List.findIdx?_cons]
          intro h; exact absurd h hmsne
        have hptb := pairsToBits_snoc [(m, s), (s, m)] c d (idxToBits 2 j) hfind hsb _ _
          (pairsToBits_syms _ hd idx' hidx') (by intro p hp; simp at hp; obtain ⟨i, _, rfl⟩ := hp; rfl)
        refine ⟨h1 :: compress M, [], h1 :: M, [hl], ?_, by simpa using hm1, ?_, by simp⟩
        · have := leadOutLoop_single tol [(m, s), (s, m)] tt x (hl + x) (h1 :: compress M) hS.xs _ hts
          simpa using this
        · rw [← e1, hpu, hptb, hij, e2']
          simp
    · have hb : back = [hl, x] := by
        rw [hback]; have : ¬ ((hl > 0 ∧ x > 0) ∨ (hl < 0 ∧ x < 0)) := by have := hS.xneg; omega
        simp [compress, this]
      have hx0 : x ≠ 0 := by have := hS.xneg; omega
      have hts : tailStep tol [(m, s), (s, m)] tt x x = some ([], some x) := by
        unfold tailStep; rw [isMatch_self tol htol x hx0]; rfl
      refine ⟨h1 :: compress M ++ [hl], [], h1 :: M ++ [hl], [], ?_, full _ _ (by simp), hbits, by simp⟩
      rw [hb]
      have := leadOutLoop_single tol [(m, s), (s, m)] tt x x (h1 :: compress M ++ [hl]) hS.xs _ hts
      simpa using this
  -- length of the frame
  have hlenF : (L' ++ [e]).length + idx.length ≤ F.length + 1 := by
    have h2 := manchAll_length tol m s _ _ hmanch
    rw [hdata] at h2
    have h3 : (h1 :: M ++ [hl]).length = 2 * idx.length := by rw [← hH]; exact hHlen
    rw [h3] at h2
    have hc1 : 1 ≤ (compress [e, h1]).length := by
      have := compress_ne_nil [e, h1] (by simp)
      cases hc : compress [e, h1] with
      | nil => exact absurd hc this
      | cons a b => simp
    have hc2 : 1 ≤ back.length := by
      rw [hback]
      have := compress_ne_nil [hl, x] (by simp)
      cases hc : compress [hl, x] with
      | nil => exact absurd hc this
      | cons a b => simp
    rw [hFs]
    simp only [List.length_append, List.length_cons, List.length_nil] at h2 ⊢
    omega
  -- assemble
  have hperiod : periodCheck tol [x] F = .ok () := by
    unfold periodCheck
    have : ¬ (x > 0) := by have := hS.xneg; omega
    simp [this]
  refine ⟨?_, by rw [← hF]; exact hlenF⟩
  rw [← hF, parse_manchester (specC_gen hS), hS.tab, hS.li, hS.lo]
  unfold parseWithM
  rw [hperiod]
  obtain ⟨code2, half, vals, extra, hlo, hmv, hpb, hcat⟩ := hvals (sumAbs F.dropLast) (sumAbs_nonneg _)
  simp only [bind, Except.bind, hin, List.length_cons, List.length_nil, hlo, List.headD_cons, hmv, hpb, pure, Except.pure]
  have hcl0 : (L' ++ [e] ++ vals ++ extra).map some ++ [some x] = (L' ++ [e] ++ (h1 :: M ++ [hl])).map some ++ [some x] := by
    rw [List.append_assoc (L' ++ [e]) vals extra, hcat]
  rw [hcl0]
  have hne0 : ((L' ++ [e] ++ (h1 :: M ++ [hl])).map some ++ [some x]).isEmpty = false := by simp
  rw [if_neg (by rw [hne0]; simp)]
  congr 2
  rw [List.dropLast_concat, List.getLast?_concat]
  have hbody : ((L' ++ [e] ++ (h1 :: M ++ [hl])).map some).map (fun (o : Option Int) => o.getD 0) = L' ++ [e] ++ (h1 :: M ++ [hl]) :=
    Props.RoundTrip.compress_getD_map _
  rw [hbody, hF]

/-! ### a compressed list alternates -/

theorem altS_compress : ∀ (l : List Int), (∀ a ∈ l, a ≠ 0) → altS (compress l) = true
  | [], _ => rfl
  | x :: rest, h => by
    have ih := altS_compress rest (fun a ha => h a (by simp [ha]))
    have hx : x ≠ 0 := h x (by simp)
    rw [compress_cons]
    cases hc : compress rest with
    | nil => simp [altS, hx]
    | cons y ys =>
      rw [hc] at ih
      simp only []
      have hy : y ≠ 0 := altS_ne_zero _ ih y (by simp)
      by_cases hs : (x > 0 ∧ y > 0) ∨ (x < 0 ∧ y < 0)
      · rw [if_pos hs]
        cases ys with
        | nil => simp only [altS, decide_eq_true_eq]; omega
        | cons z zs =>
          simp only [altS, Bool.and_eq_true, decide_eq_true_eq] at ih ⊢
          refine ⟨?_, ih.2⟩
          have := ih.1; unfold oppSign at this ⊢; omega
      · rw [if_neg hs]
        simp only [altS, Bool.and_eq_true, decide_eq_true_eq]
        exact ⟨by unfold oppSign; omega, ih⟩

theorem compress_last_neg (x : Int) (hx : x < 0) : ∀ (l : List Int), ∃ init y, compress (l ++ [x]) = init ++ [y] ∧ y < 0
  | [] => ⟨[], x, rfl, hx⟩
  | a :: l => by
    obtain ⟨init, y, hc, hy⟩ := compress_last_neg x hx l
    show ∃ init y, compress (a :: (l ++ [x])) = init ++ [y] ∧ y < 0
    rw [compress_cons, hc]
    cases init with
    | nil =>
      simp only [List.nil_append]
      split
      · exact ⟨[], a + y, rfl, by omega⟩
      · exact ⟨[a], y, rfl, hy⟩
    | cons b bs =>
      simp only [List.cons_append]
      split
      · exact ⟨(a + b) :: bs, y, rfl, hy⟩
      · exact ⟨a :: b :: bs, y, by simp, hy⟩

theorem altP_of_altS : ∀ (l : List Int), altS l = true → (∀ a, l.head? = some a → a > 0) →
    (∀ a, l.getLast? = some a → a < 0) → altP l = true
  | [], _, _, _ => rfl
  | [a], _, h1, h2 => by have := h1 a rfl; have := h2 a rfl; omega
  | a :: b :: rest, h, h1, h2 => by
    simp only [altS, Bool.and_eq_true, decide_eq_true_eq] at h
    have ha := h1 a rfl
    have hb : b < 0 := by have := h.1; unfold oppSign at this; omega
    simp only [altP, Bool.and_eq_true, decide_eq_true_eq]
    refine ⟨⟨ha, hb⟩, ?_⟩
    cases rest with
    | nil => rfl
    | cons c cs =>
      have hr := h.2
      simp only [altS, Bool.and_eq_true, decide_eq_true_eq] at hr
      apply altP_of_altS (c :: cs) hr.2
      · intro z hz; simp at hz; rw [← hz]; have := hr.1; unfold oppSign at this; omega
      · intro z hz; apply h2 z; simpa [List.getLast?_cons_cons] using hz

/-! ### the engine round trip for class C -/

/-- all decidable side conditions of the class-C engine theorem (two-symbol bi-phase table, one gap as lead-out) -/
def wfAllC (t : Tables) (tol : Tol) : Bool :=
  supportedM t &&
  (match t.bursts, t.leadOut, t.leadIn.getLast?, t.leadIn.head? with
   | [(m, s), (s', m')], [x], some e, some e0 =>
     (s' == s) && (m' == m) && decide (oppSign m s) && sepM tol m s && altS t.leadIn && decide (x < 0) &&
     decide (x ≠ -999999999999) && decide (e0 > 0) &&
     [m, s].all (fun h => !decide (sameSign e h) ||
        (!isMatch tol (e + h) e &&
          (match t.bursts.find? (fun p => isMatch tol (e + h) (e + p.1)) with | some p => p.1 == h | none => false))) &&
     [m, s].all (fun n => !decide (n < 0) || (tailStep tol t.bursts 0 x (n + x) == some ([n], some x)) ||
        (tailStep tol t.bursts 0 x (n + x) == some ([], some x)))
   | _, _, _, _ => false) &&
  tiles 2 0 t.params && (tilesEnd 0 t.params == t.bitCount) && decide (3 ≤ t.bitCount)

theorem wfAllC_spec {t : Tables} {tol : Tol} (h : wfAllC t tol = true) :
    ∃ m s x e, SpecC t tol m s x t.leadIn.dropLast e ∧ (∀ a, t.leadIn.head? = some a → a > 0) ∧
      tiles 2 0 t.params = true ∧ tilesEnd 0 t.params = t.bitCount ∧ 3 ≤ t.bitCount := by
  unfold wfAllC at h
  simp only [Bool.and_eq_true, beq_iff_eq, decide_eq_true_eq] at h
  obtain ⟨⟨⟨⟨_, hm⟩, hT⟩, hE⟩, hB⟩ := h
  split at hm
  · rename_i m s s' m' x e e0 hb hlo hlast hhead
    simp only [Bool.and_eq_true, beq_iff_eq, decide_eq_true_eq, List.all_cons, List.all_nil, Bool.and_true,
      Bool.or_eq_true, Bool.not_eq_true', decide_eq_false_iff_not] at hm
    obtain ⟨⟨⟨⟨⟨⟨⟨⟨⟨e1, e2⟩, hopp⟩, hsep⟩, halt⟩, hx⟩, hxs⟩, he0⟩, ⟨hliM, hliS⟩⟩, ⟨hloM, hloS⟩⟩ := hm
    subst e1; subst e2
    have hne : t.leadIn ≠ [] := by intro h; rw [h] at hlast; simp at hlast
    have hli : t.leadIn = t.leadIn.dropLast ++ [e] := by
      have := (List.dropLast_concat_getLast hne).symm
      have hl : t.leadIn.getLast hne = e := by
        have := List.getLast?_eq_getLast hne
        rw [this] at hlast; injection hlast
      rw [hl] at this; exact this
    refine ⟨m', s', x, e, ⟨hb, hopp, hsep, hli, by rw [← hli]; exact halt, hlo, hx, hxs, ?_, ?_⟩, ?_, hT, hE, hB⟩
    · intro h hh hss
      have key : ∀ h, (¬ sameSign e h ∨ (isMatch tol (e + h) e = false ∧
          (match t.bursts.find? (fun p => isMatch tol (e + h) (e + p.1)) with | some p => p.1 == h | none => false) = true)) →
          sameSign e h → isMatch tol (e + h) e = false ∧ ∃ p, t.bursts.find? (fun p => isMatch tol (e + h) (e + p.1)) = some p ∧ p.1 = h := by
        intro h hor hss
        rcases hor with hn | ⟨a, b⟩
        · exact absurd hss hn
        · refine ⟨a, ?_⟩
          cases hf : t.bursts.find? (fun p => isMatch tol (e + h) (e + p.1)) with
          | none => rw [hf] at b; simp at b
          | some p => rw [hf] at b; exact ⟨p, rfl, by simpa using b⟩
      rcases hh with rfl | rfl
      · exact key _ hliM hss
      · exact key _ hliS hss
    · intro n hn hneg
      rcases hn with rfl | rfl
      · rcases hloM with (h | h) | h
        · exact absurd hneg h
        · exact Or.inl h
        · exact Or.inr h
      · rcases hloS with (h | h) | h
        · exact absurd hneg h
        · exact Or.inl h
        · exact Or.inr h
    · intro a ha; rw [hhead] at ha; injection ha with ha; rw [← ha]; exact he0
  · simp at hm

theorem engineRT_C (t : Tables) (tol : Tol) (htol : tol.ok) (hw : wfAllC t tol = true) : EngineRT t tol := by
  intro vals hlen
  obtain ⟨m, s, x, e, hS, hhead, hT, hE, hB⟩ := wfAllC_spec hw
  have hlen2 : t.bursts.length = 2 := by rw [hS.tab]; rfl
  have hL : t.bursts.length = 2 ∨ t.bursts.length = 4 ∨ t.bursts.length = 16 := Or.inl hlen2
  obtain ⟨fields, hfields⟩ : ∃ f, f = fieldsOf t.params vals := ⟨_, rfl⟩
  rw [← hfields]
  have hT' : tiles t.bursts.length 0 t.params = true := by rw [hlen2]; exact hT
  have hdec := fields_decode t.order t.bursts.length t.params vals 0 [] hT' hlen rfl
  rw [← hfields] at hdec
  simp only [List.nil_append] at hdec
  have hbitsEq := flatMap_fields_bits t hL fields
  have hbl : ((fields.flatMap (fieldIdx t)).flatMap (idxToBits t.bursts.length)).length = t.bitCount := by
    rw [hbitsEq, hdec.2, hE]
  have hnsym : (fields.flatMap (fieldIdx t)).length = t.bitCount := by
    have := flatMap_bits_length t.bursts.length hL (fields.flatMap (fieldIdx t))
    rw [hbl, hlen2] at this
    have hb1 : bitsPerSymbol 2 = 1 := by decide
    rw [hb1] at this; omega
  obtain ⟨idx, hidxdef⟩ : ∃ idx, idx = fields.flatMap (fieldIdx t) := ⟨_, rfl⟩
  rw [← hidxdef] at hbl hnsym hbitsEq
  have hne : idx ≠ [] := by intro h; rw [h] at hnsym; simp at hnsym; omega
  have hidx : ∀ i ∈ idx, i < 2 := by
    intro i hi
    rw [hidxdef] at hi
    obtain ⟨f, _, hf⟩ := List.mem_flatMap.mp hi
    have := (fieldIdx_spec t hL f).2 i hf
    omega
  obtain ⟨hparse, hlenF⟩ := parse_frameC t tol htol m s x _ e hS idx hne hidx
  obtain ⟨F, hF⟩ : ∃ F, F = compress (t.leadIn ++ symTimings t.bursts idx ++ [x]) := ⟨_, rfl⟩
  rw [← hF] at hparse hlenF
  have hbuild : buildPacket t (fields.map (fun f => Item.field f.1 f.2)) = .ok F := by
    unfold buildPacket
    rw [items_timings t hL fields]
    simp only []
    rw [flatten_syms, ← hidxdef, hS.lo]
    simp only [List.getLast?_singleton]
    have h1 : ¬ (t.leadIn ++ symTimings t.bursts idx ++ [x]).getLastD 0 > 0 := by
      rw [List.getLastD_concat]; have := hS.xneg; omega
    rw [if_neg h1, hF]
  -- the frame alternates, starts with a mark and ends with a space
  have hnz : ∀ a ∈ t.leadIn ++ symTimings t.bursts idx ++ [x], a ≠ 0 := by
    intro a ha
    simp only [List.mem_append, List.mem_singleton] at ha
    rcases ha with (ha | ha) | ha
    · rw [hS.li] at ha; exact altS_ne_zero _ hS.alt a ha
    · rw [hS.tab] at ha
      have := (symTimings_two m s idx hidx).1 a ha
      have ho := hS.opp; unfold oppSign at ho
      rcases this with rfl | rfl <;> omega
    · rw [ha]; have := hS.xneg; omega
  have haltS : altS F = true := by rw [hF]; exact altS_compress _ hnz
  have hFhead : ∀ a, F.head? = some a → a > 0 := by
    intro a ha
    have hne1 : t.leadIn ≠ [] := by rw [hS.li]; simp
    cases hli : t.leadIn with
    | nil => exact absurd hli hne1
    | cons b B =>
      have hb0 : b > 0 := hhead b (by rw [hli]; rfl)
      rw [hF, hli] at ha
      obtain ⟨y, ys, hy, hs⟩ := compress_head b (B ++ symTimings t.bursts idx ++ [x]) (by omega)
      have e1 : b :: B ++ symTimings t.bursts idx ++ [x] = b :: (B ++ symTimings t.bursts idx ++ [x]) := by simp
      rw [e1, hy] at ha
      simp at ha; rw [← ha]; omega
  have hFlast : ∀ a, F.getLast? = some a → a < 0 := by
    intro a ha
    obtain ⟨init, y, hc, hy⟩ := compress_last_neg x hS.xneg (t.leadIn ++ symTimings t.bursts idx)
    rw [hF, hc, List.getLast?_concat] at ha
    injection ha with ha; rw [← ha]; exact hy
  have haltP : altP F = true := altP_of_altS F haltS hFhead hFlast
  have hFne : F ≠ [] := by rw [hF]; exact compress_ne_nil _ (by simp)
  refine ⟨F, hbuild, altP_wellFormed _ haltP hFne, haltP, ?_, ?_⟩
  · intro hx
    rw [hS.lo] at hx
    simp at hx; have := hS.xneg; omega
  · unfold decodeFull
    rw [hparse]
    have hbl' : (idx.flatMap (idxToBits 2)).length = t.bitCount := by rw [← hlen2]; exact hbl
    simp only [hbl', Nat.lt_irrefl, if_false]
    have hlen3 : t.leadIn.length + 2 ≤ F.length := by rw [hnsym] at hlenF; omega
    have hflds : (mkCode t { bits := idx.flatMap (idxToBits 2), cleaned := F }).fields =
        List.zipWith (fun p v => (p.1, v % 2 ^ (p.2.2 + 1 - p.2.1))) t.params vals := by
      have hb2 : idx.flatMap (idxToBits 2) = fields.flatMap (fun f => (IW.new f.1 f.2).orderedBits t.order t.bursts.length) := by
        rw [← hbitsEq, hlen2]
      simp only [mkCode]; rw [hb2]; exact hdec.1
    by_cases hov : t.decodeOverridden
    · simp only [hov, if_true]
      exact ⟨_, rfl, hflds, rfl, hlen3⟩
    · simp only [hov, Bool.false_eq_true, if_false]
      exact ⟨_, rfl, hflds, rfl, hlen3⟩

end IRModel.Engine
