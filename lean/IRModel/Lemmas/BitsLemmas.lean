import IRModel.Bits
/-! helper lemmas for `Bits` (bit-level extensionality of the `val |= bit << pos` loops) -/
namespace IRModel.Bits

theorem testBit_foldl_or (is : List Nat) (g : Nat → Nat) (acc j : Nat) :
    (is.foldl (fun acc i => acc ||| g i) acc).testBit j
      = (acc.testBit j || is.any (fun i => (g i).testBit j)) := by
  induction is generalizing acc with
  | nil => simp
  | cons a is ih => simp [List.foldl_cons, ih, Nat.testBit_or, Bool.or_assoc]

theorem testBit_orLoop (is : List Nat) (g : Nat → Nat) (j : Nat) :
    (orLoop is g).testBit j = is.any (fun i => (g i).testBit j) := by
  simp [orLoop, testBit_foldl_or]

theorem testBit_one_of_ne {j : Nat} (hj : j ≠ 0) : (1 : Nat).testBit j = false := by
  cases hb : (1 : Nat).testBit j
  · rfl
  · exact absurd (Nat.testBit_one_eq_true_iff_self_eq_zero.mp hb) hj

/-- a single bit shifted into position -/
theorem testBit_bit_shift (x p j : Nat) :
    ((x &&& 1) <<< p).testBit j = (decide (j = p) && x.testBit 0) := by
  rw [Nat.testBit_shiftLeft, Nat.testBit_and]
  by_cases h : j = p
  · subst h; simp
  · by_cases h2 : j ≥ p
    · have h3 : j - p ≠ 0 := by omega
      simp [h, h2, testBit_one_of_ne h3]
    · simp [h, h2]

theorem testBit_maskLoop (v n j : Nat) :
    (maskLoop v n).testBit j = (decide (j < n) && v.testBit j) := by
  unfold maskLoop
  rw [testBit_orLoop]
  rw [Bool.eq_iff_iff]
  simp only [List.any_eq_true, List.mem_range, testBit_bit_shift, Bool.and_eq_true,
    decide_eq_true_eq, Nat.testBit_shiftRight, Nat.add_zero]
  constructor
  · rintro ⟨i, hi, hj, hb⟩; subst hj; exact ⟨hi, hb⟩
  · rintro ⟨hj, hb⟩; exact ⟨j, hj, rfl, hb⟩

/-- the constructor loop is reduction modulo `2^n` -/
theorem maskLoop_eq_mod (v n : Nat) : maskLoop v n = v % 2 ^ n := by
  apply Nat.eq_of_testBit_eq
  intro j
  rw [testBit_maskLoop, Nat.testBit_mod_two_pow]

theorem maskLoop_lt (v n : Nat) : maskLoop v n < 2 ^ n := by
  rw [maskLoop_eq_mod]; exact Nat.mod_lt _ (Nat.two_pow_pos n)

theorem maskLoop_of_lt {v n : Nat} (h : v < 2 ^ n) : maskLoop v n = v := by
  rw [maskLoop_eq_mod, Nat.mod_eq_of_lt h]

/-- `(self >> i) & 1` is bit `i` of the value, provided `i` is inside the width -/
theorem bitAt_eq (x : IW) (i : Nat) :
    x.bitAt i = (decide (i < x.n) && x.val.testBit i).toNat := by
  unfold IW.bitAt
  apply Nat.eq_of_testBit_eq
  intro j
  rw [Nat.testBit_and, testBit_maskLoop, Nat.testBit_shiftRight]
  by_cases hj : j = 0
  · subst hj
    by_cases hi : i < x.n
    · have : 0 < x.n - i := by omega
      cases hb : x.val.testBit i <;> simp [hi, this, hb]
    · have : ¬ 0 < x.n - i := by omega
      simp [hi, this]
  · rw [testBit_one_of_ne hj, Bool.and_false]
    cases (decide (i < x.n) && x.val.testBit i)
    · simp
    · simp [testBit_one_of_ne hj]

theorem bitAt_le_one (x : IW) (i : Nat) : x.bitAt i ≤ 1 := by
  rw [bitAt_eq]; exact Bool.toNat_le _

theorem testBit_toNat_shift (b : Bool) (p j : Nat) :
    (b.toNat <<< p).testBit j = (decide (j = p) && b) := by
  cases b
  · simp
  · have := testBit_bit_shift 1 p j
    simpa using this

end IRModel.Bits
