import IRModel.Lemmas.WrapLemmas
namespace IRModel.Wrap
open IRModel IRModel.Py

theorem cmpVal_refl (op : CmpOp) (x : Int) : cmpVal op x x = cmpVal op 0 0 := by
  cases op <;> simp [cmpVal]

theorem goodEnv_nil (env : Env) (hp : ∀ n, 0 ≤ env.params n) : GoodEnv [] env :=
  ⟨hp, by intro n w h; simp at h⟩

/-- a decided comparison has that truth value in every environment with non-negative parameters -/
theorem decideCmp_sound (op : CmpOp) (a b : WExp) (r : Bool) (h : decideCmp op a b = some r)
    (env : Env) (hp : ∀ n, 0 ≤ env.params n) :
    ∃ x y, eval env a = .ok x ∧ eval env b = .ok y ∧ cmpVal op x.v y.v = r := by
  unfold decideCmp at h
  split at h
  · rename_i hab
    simp only [Bool.and_eq_true, beq_iff_eq] at hab
    obtain ⟨rfl, hs⟩ := hab
    obtain ⟨x, hx, _⟩ := safe_eval [] env (goodEnv_nil env hp) a hs
    injection h with h
    exact ⟨x, x, hx, hx, by rw [cmpVal_refl, h]⟩
  · split at h
    · rename_i hc
      simp only [Bool.and_eq_true] at hc
      rw [closed_eval env env0 a hc.1, closed_eval env env0 b hc.2]
      split at h
      · rename_i x y hx hy
        injection h with h
        exact ⟨x, y, hx, hy, h⟩
      · exact absurd h (by simp)
    · exact absurd h (by simp)

theorem decideCond_sound (σ : String → Option WExp) (envD envE : Env) (hA : Agree σ envD envE)
    (hp : ∀ n, 0 ≤ envE.params n) (le : Bool) :
    ∀ (c : Cond) (r : Bool), decideCond σ c = some r → evalCond envD le c = .ok r := by
  intro c
  induction c with
  | cmp op a b =>
    intro r h
    simp only [decideCond] at h
    split at h
    · rename_i hnp
      simp only [Bool.and_eq_true] at hnp
      obtain ⟨x, y, hx, hy, hr⟩ := decideCmp_sound op _ _ r h envE hp
      simp only [evalCond, eval_subst σ envD envE hA a hnp.1, eval_subst σ envD envE hA b hnp.2, hx, hy, bind, Except.bind, pure, Except.pure, hr]
    · exact absurd h (by simp)
  | lastEq => intro r h; simp [decideCond] at h
  | not c ih =>
    intro r h
    simp only [decideCond, Option.map_eq_some_iff] at h
    obtain ⟨r', hr', rfl⟩ := h
    simp only [evalCond, ih r' hr', bind, Except.bind, pure, Except.pure]
  | nbitsNe0 a => intro r h; simp [decideCond] at h

/-- the leaf the symbolic walk reaches is the leaf the interpreter reaches -/
theorem symRun_sound (σ : String → Option WExp) (envD envE : Env) (hA : Agree σ envD envE)
    (hp : ∀ n, 0 ≤ envE.params n) (le : Bool) :
    ∀ (tr : DTree) (effs : List Eff) (out : Outcome), symRun σ tr = some (effs, out) →
      runTree envD le tr = runTree envD le (.leaf effs out) := by
  intro tr
  induction tr with
  | leaf e o =>
    intro effs out h
    simp only [symRun] at h
    injection h with h
    injection h with h1 h2
    subst h1; subst h2; rfl
  | ite c t e iht ihe =>
    intro effs out h
    simp only [symRun] at h
    split at h
    · rename_i hc
      rw [runTree, decideCond_sound σ envD envE hA hp le c true hc]
      exact iht effs out h
    · rename_i hc
      rw [runTree, decideCond_sound σ envD envE hA hp le c false hc]
      exact ihe effs out h
    · exact absurd h (by simp)

end IRModel.Wrap
