import IRModel.Xml
/-! `str.replace` on token-structured strings; escape / unescape are inverse -/
namespace IRModel.Xml

theorem isPrefixOf_append_self (old r : Str) : old.isPrefixOf (old ++ r) = true := by
  induction old with
  | nil => simp [List.isPrefixOf]
  | cons a o ih => simp [List.isPrefixOf, ih]

/-- a stretch without any match is copied unchanged -/
theorem replaceF_nomatch (old new : Str) :
    ∀ (u r : Str) (fuel : Nat), fuel ≥ (u ++ r).length →
      (∀ k, k < u.length → old.isPrefixOf (u.drop k ++ r) = false) →
      replaceF old new fuel (u ++ r) = u ++ replaceF old new (fuel - u.length) r := by
  intro u
  induction u with
  | nil => intro r fuel _ _; simp
  | cons c u ih =>
    intro r fuel hf hno
    match fuel, hf with
    | f + 1, hf =>
      have h0 := hno 0 (by simp)
      simp only [List.drop_zero, List.cons_append] at h0
      have := ih r f (by simp at hf ⊢; omega) (fun k hk => by
        have := hno (k + 1) (by simp; omega)
        simpa using this)
      simp only [List.cons_append, replaceF]
      rw [if_neg (by rw [h0]; simp), this]
      simp only [List.length_cons, Nat.add_sub_add_right]

/-- `replace` acts token-wise on a token-structured string -/
theorem replaceF_tokens (old new : Str) (hold : old ≠ []) :
    ∀ (toks : List Str) (fuel : Nat), fuel ≥ toks.flatten.length →
      (∀ t ∈ toks, t = old ∨ ∀ (k : Nat) (rest : Str), k < t.length → old.isPrefixOf (t.drop k ++ rest) = false) →
      replaceF old new fuel toks.flatten = (toks.map fun t => if t = old then new else t).flatten := by
  intro toks
  induction toks with
  | nil => intro fuel _ _; cases fuel <;> simp [replaceF]
  | cons t toks ih =>
    intro fuel hf hall
    simp only [List.flatten_cons, List.map_cons]
    rcases hall t (by simp) with ht | ht
    · subst ht
      simp only [if_true]
      obtain ⟨c, o, rfl⟩ : ∃ c o, t = c :: o := by
        cases t with
        | nil => exact absurd rfl hold
        | cons c o => exact ⟨c, o, rfl⟩
      match fuel, hf with
      | f + 1, hf =>
        have hp := isPrefixOf_append_self (c :: o) toks.flatten
        simp only [List.cons_append] at hp ⊢
        simp only [replaceF, hp, if_true]
        have hd : (c :: (o ++ toks.flatten)).drop (c :: o).length = toks.flatten := by
          have : c :: (o ++ toks.flatten) = (c :: o) ++ toks.flatten := rfl
          rw [this, List.drop_left]
        rw [hd, ih f (by simp at hf ⊢; omega) (fun t' ht' => hall t' (by simp [ht']))]
    · by_cases hto : t = old
      · subst hto
        -- same as the first case
        simp only [if_true]
        obtain ⟨c, o, rfl⟩ : ∃ c o, t = c :: o := by
          cases t with
          | nil => exact absurd rfl hold
          | cons c o => exact ⟨c, o, rfl⟩
        match fuel, hf with
        | f + 1, hf =>
          have hp := isPrefixOf_append_self (c :: o) toks.flatten
          simp only [List.cons_append] at hp ⊢
          simp only [replaceF, hp, if_true]
          have hd : (c :: (o ++ toks.flatten)).drop (c :: o).length = toks.flatten := by
            have : c :: (o ++ toks.flatten) = (c :: o) ++ toks.flatten := rfl
            rw [this, List.drop_left]
          rw [hd, ih f (by simp at hf ⊢; omega) (fun t' ht' => hall t' (by simp [ht']))]
      · rw [if_neg hto]
        rw [replaceF_nomatch old new t toks.flatten fuel (by simpa using hf) (fun k hk => ht k _ hk)]
        rw [ih (fuel - t.length) (by simp at hf ⊢; omega) (fun t' ht' => hall t' (by simp [ht']))]

theorem flatten_singletons (s : Str) : (s.map fun c => [c]).flatten = s := by
  induction s with
  | nil => rfl
  | cons c s ih => simp [ih]

/-- single-character `replace` is a character-wise map -/
theorem replaceAll_single (x : Char) (new : Str) (s : Str) :
    replaceAll [x] new s = s.flatMap (fun c => if c = x then new else [c]) := by
  unfold replaceAll
  have hflat := flatten_singletons s
  have h := replaceF_tokens [x] new (by simp) (s.map fun c => [c]) s.length (by rw [hflat]; exact Nat.le_refl _)
    (by
      intro t ht
      obtain ⟨c, _, rfl⟩ := List.mem_map.mp ht
      by_cases hc : c = x
      · left; rw [hc]
      · right
        intro k rest hk
        have : k = 0 := by simp at hk; omega
        subst this
        simp [List.isPrefixOf]
        intro h; exact absurd h.symm hc)
  rw [hflat] at h
  rw [h]
  clear h hflat
  induction s with
  | nil => rfl
  | cons c s ih =>
    simp only [List.map_cons, List.flatten_cons, List.flatMap_cons]
    rw [ih]
    by_cases hc : c = x <;> simp [hc]

end IRModel.Xml
