import IRModel.Lemmas.WrapC06
import IRModel.Props.C04
/-! C04 at wrapper level (accept half): the engine's quarter-tolerance theorem composed with the traced wrappers. -/
namespace IRModel.Wrap
open IRModel IRModel.Py IRModel.Encode IRModel.Proto IRModel.Props.EngineThm IRModel.Engine IRModel.CodeWrapper IRModel.Match

/-- the frame `_build_packet` returns for a class-A protocol is `frameA` of the symbol indices of the fields -/
theorem engine_frame_eq (t : Tables) (tol : Tol) (hw : wfAll t tol = true) (vals : List Nat) (hlen : vals.length = t.params.length) :
    ∃ mo x, t.leadOut = [mo, x] ∧ x ≠ -999999999999 ∧
      (∀ i ∈ (fieldsOf t.params vals).flatMap (fieldIdx t), i < t.bursts.length) ∧
      buildPacket t ((fieldsOf t.params vals).map (fun f => Item.field f.1 f.2)) =
        .ok (frameA t mo x ((fieldsOf t.params vals).flatMap (fieldIdx t))) := by
  obtain ⟨hA, hB, hT, hE, hF, hS⟩ := wfAll_spec hw
  obtain ⟨hL, hli, hb, mo, x, hlo, hmo, hx0⟩ := IRModel.Engine.wfB_spec hB
  obtain ⟨fields, hfields⟩ : ∃ f, f = fieldsOf t.params vals := ⟨_, rfl⟩
  rw [← hfields]
  have hdec := fields_decode t.order t.bursts.length t.params vals 0 [] hT hlen rfl
  rw [← hfields] at hdec
  simp only [List.nil_append] at hdec
  have hidx : ∀ i ∈ fields.flatMap (fieldIdx t), i < t.bursts.length := by
    intro i hi
    obtain ⟨f, _, hf⟩ := List.mem_flatMap.mp hi
    exact (fieldIdx_spec t hL f).2 i hf
  have hbitsEq := flatMap_fields_bits t hL fields
  have hbl : ((fields.flatMap (fieldIdx t)).flatMap (Bits.idxToBits t.bursts.length)).length = t.bitCount := by
    rw [hbitsEq, hdec.2, hE]
  have hnsym : (fields.flatMap (fieldIdx t)).length = t.bitCount / Bits.bitsPerSymbol t.bursts.length := by
    have := flatMap_bits_length t.bursts.length hL (fields.flatMap (fieldIdx t))
    rw [hbl] at this
    have hk : 0 < Bits.bitsPerSymbol t.bursts.length := by
      rcases hL with h | h | h <;> rw [h] <;> decide
    rw [this, Nat.mul_div_cancel _ hk]
  have hfit : x > 0 → sumAbs (t.leadIn ++ symTimings t.bursts (fields.flatMap (fieldIdx t)) ++ [mo]) < x := by
    intro hx
    unfold fitsPeriod at hF
    rw [hlo] at hF
    simp only [hx, if_true, decide_eq_true_eq] at hF
    have hb1 := symTimings_bound t.bursts _ hidx
    rw [hnsym] at hb1
    rw [sumAbs_append, sumAbs_append, sumAbs_single]
    have : ¬ mo < 0 := by omega
    rw [if_neg this]
    omega
  obtain ⟨hbuild, _, _⟩ := build_frameA t hB mo x hlo fields hfit
  have hxs : x ≠ -999999999999 := by rw [hlo] at hS; simpa using hS
  exact ⟨mo, x, hlo, hxs, hidx, hbuild⟩

theorem decodeFull_congr (t : Tables) (inst : Inst) (d f : List Int) (pre : List Effect)
    (h : parse t inst.tol d = parse t inst.tol f) : decodeFull t inst d pre = decodeFull t inst f pre := by
  unfold decodeFull
  rw [h]

theorem decodeP_fresh_congr (t : Tables) (w : Wrapper) (tol : Tol) (d f : List Int)
    (h : parse t tol d = parse t tol f) :
    (decodeP t w { last := none, tol := tol } d).result = (decodeP t w { last := none, tol := tol } f).result := by
  have hb : baseDecode t { last := none, tol := tol } d = baseDecode t { last := none, tol := tol } f :=
    decodeFull_congr t { last := none, tol := tol } d f [] h
  unfold decodeP decodeW
  rw [hb]

/-- **C04 at wrapper level, accept half** (specification form): the first frame of `encode(**u)` is the class-A frame of
    some symbol sequence; every list of durations whose lead-in, data symbols and lead-out mark are each within a quarter
    of the tolerance of that frame's (the trailing gap likewise, or absorbing the difference where the period is fixed)
    decodes, on a decoder without history, to a code reporting exactly `u`. -/
theorem C04_wrapper_spec (t : Tables) (w : Wrapper) (tol : Tol) (htol : tol.ok) (hw : wfAll t tol = true)
    (hwt : wfTol t tol = true) (p : Packet) (hS : C01Spec t w p) (u : String → Int) (hu : ∀ n, 0 ≤ u n)
    (hr : ∀ ep ∈ t.encodeParams, u ep.1 ≤ ep.2.2) :
    ∃ mo x idx, t.leadOut = [mo, x] ∧ firstFrame t w u = .ok (frameA t mo x idx) ∧
      ∀ (li' sy' : List Int) (mo' g' : Int),
        Pw (Q tol) li' t.leadIn → Pw (Q tol) sy' (symTimings t.bursts idx) → Q tol mo' mo →
        ((x < 0 ∧ Q tol g' x) ∨ (x > 0 ∧ g' = sumAbs (li' ++ sy' ++ [mo']) - x ∧ g' < 0)) →
        ∃ c, (decodeP t w { last := none, tol := tol } (li' ++ sy' ++ [mo', g'])).result = .ok c ∧
          ∀ ep ∈ t.encodeParams, c.get (Props.C01.viewKey ep.1) = some (u ep.1).toNat := by
  obtain ⟨envU, henvU⟩ : ∃ e : Env, e = { params := u, fields := fun _ => none, last := fun _ => none } := ⟨_, rfl⟩
  have hu' : ∀ n, 0 ≤ envU.params n := by rw [henvU]; exact hu
  have hitems := packetItems_eq t p envU hu' hS.args hS.fields
  obtain ⟨mo, x, hlo, hxs, hidx, hbuild⟩ := engine_frame_eq t tol hw (t.params.map (kwVal p envU)) (by simp)
  rw [fieldsOf_map] at hbuild
  have hff : firstFrame t w u = .ok (frameA t mo x ((fieldsOf t.params (t.params.map (kwVal p envU))).flatMap (fieldIdx t))) := by
    rw [firstFrame_of_packet t w u p hS.first, ← henvU]
    simp only [buildTraced, hitems, bind, Except.bind]
    exact hbuild
  refine ⟨mo, x, _, hlo, hff, ?_⟩
  intro li' sy' mo' g' hli hsy hmo' hgap
  obtain ⟨hA, _, _, _, hF, _⟩ := wfAll_spec hw
  -- the perturbed frame parses to exactly what the exact frame parses to
  have hpp := IRModel.Props.C04.parse_perturbed t tol htol hA hwt mo x hlo hxs _ hidx li' sy' mo' g' hli hsy hmo' hgap
  obtain ⟨frame, c0, hff', hdec0, hview0⟩ := C01_wrapper_spec t w tol htol (engineRT_A t tol htol hw) p hS u hu hr
  have hfe : frame = frameA t mo x ((fieldsOf t.params (t.params.map (kwVal p envU))).flatMap (fieldIdx t)) := by
    rw [hff] at hff'; injection hff' with h; exact h.symm
  -- the exact frame's parse, from the engine theorem
  have hfit : x > 0 → sumAbs (t.leadIn ++ symTimings t.bursts ((fieldsOf t.params (t.params.map (kwVal p envU))).flatMap (fieldIdx t)) ++ [mo]) < x := by
    intro hx
    obtain ⟨_, hB, hT, hE, _, _⟩ := wfAll_spec hw
    obtain ⟨hL, _, _, mo1, x1, hlo1, _, _⟩ := IRModel.Engine.wfB_spec hB
    rw [hlo] at hlo1
    obtain ⟨rfl, rfl⟩ : mo = mo1 ∧ x = x1 := by simpa using hlo1
    have hdec := fields_decode t.order t.bursts.length t.params (t.params.map (kwVal p envU)) 0 [] hT (by simp) rfl
    simp only [List.nil_append] at hdec
    have hbitsEq := flatMap_fields_bits t hL (fieldsOf t.params (t.params.map (kwVal p envU)))
    have hbl : (((fieldsOf t.params (t.params.map (kwVal p envU))).flatMap (fieldIdx t)).flatMap (Bits.idxToBits t.bursts.length)).length = t.bitCount := by
      rw [hbitsEq, hdec.2, hE]
    have hnsym : ((fieldsOf t.params (t.params.map (kwVal p envU))).flatMap (fieldIdx t)).length = t.bitCount / Bits.bitsPerSymbol t.bursts.length := by
      have := flatMap_bits_length t.bursts.length hL ((fieldsOf t.params (t.params.map (kwVal p envU))).flatMap (fieldIdx t))
      rw [hbl] at this
      have hk : 0 < Bits.bitsPerSymbol t.bursts.length := by
        rcases hL with h | h | h <;> rw [h] <;> decide
      rw [this, Nat.mul_div_cancel _ hk]
    unfold fitsPeriod at hF
    rw [hlo] at hF
    simp only [hx, if_true, decide_eq_true_eq] at hF
    have hb1 := symTimings_bound t.bursts _ hidx
    rw [hnsym] at hb1
    rw [sumAbs_append, sumAbs_append, sumAbs_single]
    have : ¬ mo < 0 := by
      obtain ⟨mo2, x2, hlo2, hmo2, _⟩ := IRModel.Props.RoundTrip.wfA_leadOut hA
      rw [hlo] at hlo2
      have : mo = mo2 := by simpa using (List.cons.inj hlo2).1
      omega
    rw [if_neg this]
    omega
  have hpe := IRModel.Props.RoundTrip.parse_frameA t tol htol hA mo x hlo hxs _ hidx hfit
  have hcong := decodeP_fresh_congr t w tol (li' ++ sy' ++ [mo', g']) frame (by rw [hpp, hfe, hpe])
  exact ⟨c0, by rw [hcong]; exact hdec0, hview0⟩

end IRModel.Wrap
