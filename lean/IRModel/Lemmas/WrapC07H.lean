import IRModel.Lemmas.WrapC06
namespace IRModel.Wrap
open IRModel IRModel.Py IRModel.Proto

/-- the instance after feeding a list of inputs, one after the other -/
def finalInst (t : Tables) (w : Wrapper) : Inst → List (List Int) → Inst
  | inst, [] => inst
  | inst, d :: ds => finalInst t w (decodeP t w inst d).inst ds

theorem finalInst_inv (t : Tables) (w : Wrapper) (hS : C08Spec t w) (tol : Match.Tol) :
    ∀ (inputs : List (List Int)) (inst : Inst), inst.tol = tol → (∀ l, inst.last = some l → WFCode t l) →
      (finalInst t w inst inputs).tol = tol ∧ ∀ l, (finalInst t w inst inputs).last = some l → WFCode t l := by
  intro inputs
  induction inputs with
  | nil => intro inst h1 h2; exact ⟨h1, h2⟩
  | cons d ds ih =>
    intro inst h1 h2
    have hdp : decodeP t w inst d = decodeW t w inst d := by unfold decodeP; rw [if_pos hS.ov]
    refine ih _ ?_ ?_
    · rw [hdp, decodeW_tol t w hS.ov]; exact h1
    · intro l hl; rw [hdp] at hl; exact decodeW_last t w hS inst h2 d l hl

/-- **C07 over histories**: whatever sequence of integer lists a decoder instance of the protocol was fed since it was
    created — valid frames of any key, repeats, garbage —, a frame longer than a repeat marker is then answered exactly
    as by a decoder without history (same rejection, or a code reporting the same parameters) -/
theorem C07_wrapper_history (t : Tables) (w : Wrapper) (hS7 : C07Spec t w) (hS8 : C08Spec t w) (tol : Match.Tol)
    (inputs : List (List Int)) (data : List Int) (hlong : data.length > t.repeatLeadIn.length + t.repeatLeadOut.length) :
    match (decodeP t w (finalInst t w { last := none, tol := tol } inputs) data).result,
          (decodeP t w { last := none, tol := tol } data).result with
    | .ok c, .ok c' => ∀ ep ∈ t.encodeParams, c.get (Props.C01.viewKey ep.1) = c'.get (Props.C01.viewKey ep.1)
    | .error e, .error e' => e = e'
    | _, _ => False := by
  obtain ⟨htolI, hwfI⟩ := finalInst_inv t w hS8 tol inputs { last := none, tol := tol } rfl (by intro l hl; simp at hl)
  generalize finalInst t w { last := none, tol := tol } inputs = inst at htolI hwfI
  cases hl : inst.last with
  | none =>
    have hinst : inst = { last := none, tol := tol } := by
      cases inst with
      | mk la to => simp only at hl htolI; subst hl; subst htolI; rfl
    rw [hinst]
    cases (decodeP t w { last := none, tol := tol } data).result with
    | ok c => intro ep _; rfl
    | error e => rfl
  | some l =>
    have h7 := C07_wrapper_spec t w hS7 inst l hl (hwfI l hl) data hlong
    rw [htolI] at h7
    exact h7

end IRModel.Wrap
