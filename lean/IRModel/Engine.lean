import IRModel.Proto
import IRModel.Lemmas.MatchLemmas
import IRModel.Lemmas.BitsLemmas
/-
  Definitions for the engine theorems: the explicit shape of a class-A frame and the decidable
  well-formedness predicate `wfA` that is discharged per protocol by kernel evaluation
  (IRGen/Obligations.lean, regenerated from /repo on every run).

  Class A (87 of the 174 protocols at the pinned commit): two-duration symbols `[+mark, -space]`
  (pulse-distance / pulse-width), no middle timings, symbols not mirror images of each other,
  lead-out = `[+mark, X]` with `X < 0` a gap or `X > 0` a total frame period.
-/
namespace IRModel.Engine
open IRModel IRModel.Py IRModel.Match IRModel.Bits IRModel.CodeWrapper

/-- durations of a sequence of symbol indices -/
def symTimings (bursts : List (Int × Int)) (idx : List Nat) : List Int :=
  idx.flatMap (fun i => match bursts[i]? with | some p => [p.1, p.2] | none => [])

/-- the trailing gap of a class-A frame: the gap itself, or what is left of the period -/
def lastGap (mo x : Int) (body : List Int) : Int :=
  if x > 0 then sumAbs (body ++ [mo]) - x else x

/-- a class-A frame for the symbol indices `idx` -/
def frameA (t : Tables) (mo x : Int) (idx : List Nat) : List Int :=
  let body := t.leadIn ++ symTimings t.bursts idx
  body ++ [mo, lastGap mo x body]

/-- pairs of the table are pairwise distinct: looking a symbol up returns its own index -/
def distinctSyms (bursts : List (Int × Int)) : Bool :=
  (List.range bursts.length).all fun i =>
    match bursts[i]? with
    | some p => bursts.findIdx? (fun q => q.1 == p.1 && q.2 == p.2) == some i
    | none => false

/-- decidable well-formedness of class-A tables at tolerance `tol` (decode side) -/
def wfA (t : Tables) (tol : Tol) : Bool :=
  supported t &&
  (match t.leadOut with
   | [mo, x] =>
     decide (mo > 0) && decide (x ≠ 0) &&
     t.leadIn.all (fun e => decide (e ≠ 0)) &&
     t.bursts.all (fun p => decide (p.1 > 0) && decide (p.2 < 0) &&
        classify tol t.bursts p.1 == some p.1 && classify tol t.bursts p.2 == some p.2) &&
     distinctSyms t.bursts
   | _ => false)

end IRModel.Engine
