import IRModel.Proto
import IRModel.Lemmas.MatchLemmas
/-
  L6 — `IRCode.__str__`, `__int__`, `hexadecimal`, `__eq__` (ir_code.py:486-587) for codes whose identity
  comes from `_code_order` (the `CODE` branch of RC6MBIT-style protocols is not modelled).
-/
namespace IRModel.Identity
open IRModel IRModel.Py IRModel.Match IRModel.Bits IRModel.Proto

/-- binary digits, most significant first, no leading zeros (`bin(v)[2:]`; "0" for 0) -/
def binDigits (v : Nat) : List Nat := (Nat.toDigits 2 v).map (fun c => c.toNat - 48)

/-- `s.zfill(n)[:n]` on digit lists -/
def zfillTrunc (n : Nat) (ds : List Nat) : List Nat :=
  (List.replicate (n - ds.length) 0 ++ ds).take n

/-- the bit string `__int__` builds: per `_code_order` entry the field's `n`-digit binary form, msb first
    for msb protocols, reversed otherwise -/
def intBits (o : Order) (fields : List (Nat × Nat)) : List Nat :=
  fields.flatMap fun (v, n) =>
    let bts := zfillTrunc n (binDigits v)
    match o with
    | .msb => bts
    | .lsb => bts.reverse

/-- `int(bits, 2)`; `none` = ValueError on the empty string -/
def intOf (o : Order) (fields : List (Nat × Nat)) : Option Nat :=
  let bits := intBits o fields
  if bits.isEmpty then none else some (bits.foldl (fun acc b => acc * 2 + b) 0)

def hexUpper (v : Nat) : List Char := (Nat.toDigits 16 v).map Char.toUpper

def zfill (n : Nat) (s : List Char) : List Char := List.replicate (n - s.length) '0' ++ s

/-- `hexadecimal` : '0x' + upper-case hex, zero-filled to an even number of digits -/
def hexOf (o : Order) (fields : List (Nat × Nat)) : Option (List Char) :=
  (intOf o fields).map fun v =>
    let r := hexUpper v
    '0' :: 'x' :: zfill (r.length + r.length % 2) r

/-- one `__str__` component: `('%X' % value).zfill(fill)` with `fill = n // 8 + 1`, made even -/
def strField (v n : Nat) : List Char :=
  let fill := n / 8 + 1
  zfill (fill + fill % 2) (hexUpper v)

/-- `__str__` without a name: `<Protocol>.<f1>:<f2>:...` -/
def strOf (name : String) (fields : List (Nat × Nat)) : List Char :=
  name.toList ++ ['.'] ++ (":".toList).intercalate (fields.map fun (v, n) => strField v n)

/-- `code == timing_list` (flat form): same length and every duration matches the normalised one -/
def eqTimings (tol : Tol) (normalized other : List Int) : Bool :=
  normalized.length == other.length && (List.zip other normalized).all (fun p => isMatch tol p.1 p.2)

/-- the `_code_order` (value, width) pairs of a code -/
def identFields (t : Tables) (c : CodeV) : List (Nat × Nat) :=
  t.codeOrder.map fun (n, w) => ((c.get n).getD 0, w)

end IRModel.Identity
