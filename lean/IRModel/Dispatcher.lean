/-
  L7 — the dispatcher `FakeModule._decode` / `FakeModule.decode` (pyIRDecoder/protocols/__init__.py),
  parametric in the decoders.

  A decoder is seen through the interface the dispatcher uses:
    * `enabled`, `frequency_match(f)`
    * `decode(data, f)` : returns a code or raises
    * iteration over its saved codes with `code == data` (timing equality)
  Codes are abstracted to (decoder index, identity key): `IRCode.__eq__` between codes is
  "same decoder class and same identity string".  Object identity, timers and callback queues are the
  subject of `Timer.lean` (C12); here only the *decision logic* is modelled, with the release
  notification as an explicit event.
-/
namespace IRModel.Dispatcher

/-- exception classes a decoder can raise, as the dispatcher distinguishes them -/
inductive Err
  | decode          -- DecodeError and subclasses: "not mine", keep scanning
  | repeatLeadIn    -- RepeatLeadInError
  | repeatLeadOut   -- RepeatLeadOutError
  | repeatTimeout   -- RepeatTimeoutExpired
  | leak            -- anything else (IndexError, ...): propagates out of `_decode`
deriving Repr, DecidableEq

/-- a code object: its decoder, its identity (what `str(code)` renders) and `rlc`, standing for the
    object's own `normalized_rlc` (two codes can be `==` yet carry different timings: the dispatcher
    keeps the *old* object when a new equal one arrives, and `data == code` looks at the timings) -/
structure Code where
  dec : Nat
  key : Nat
  rlc : Int := 0
deriving Repr, DecidableEq

/-- `IRCode.__eq__` between two codes: same decoder class and same identity string -/
def Code.same (a b : Code) : Bool := a.dec == b.dec && a.key == b.key

abbrev Frame := List Int

/-- The decoders as the dispatcher sees them. `σ` is the joint state of all decoder instances. -/
structure Decoders (σ : Type) where
  n          : Nat
  enabled    : σ → Nat → Bool
  freqMatch  : σ → Nat → Nat → Bool                          -- decoder i, supplied frequency
  decode     : Nat → σ → Frame → Nat → Except Err Code × σ   -- decoder i
  eqTimings  : σ → Code → Frame → Bool                       -- `data == code` (list form of __eq__)
  saved      : σ → Nat → Frame → Option Code                 -- first saved code of decoder i equal to data
  stopLast   : Nat → σ → σ                                   -- `decoder._last_code.repeat_timer.stop()`

/-- dispatcher state: `_last_code`, `_last_decoder`, and whether `__reset_last_code` is bound to the
    held code (it is what lets a release clear `_last_code`) -/
structure St (σ : Type) where
  last     : Option Code
  lastDec  : Option Nat
  bound    : Bool
  ds       : σ

/-- return value of `_decode` -/
inductive Ret
  | none                 -- fell off the end (Python `None`)
  | true_                -- `True`
  | code (c : Code)
  | raised               -- a non-library exception escaped
deriving Repr, DecidableEq

/-- observable effects, in order: decode callback invocations queued on the process worker -/
inductive Out
  | callback (c : Code)
deriving Repr, DecidableEq

def possible {σ} (D : Decoders σ) (s : σ) (f : Nat) : List Nat :=
  (List.range D.n).filter (fun i => D.enabled s i && (f == 0 || D.freqMatch s i f))

/-- scan path: `for decoder in possible_decoders: ...` -/
def scan {σ} (D : Decoders σ) (x : Frame) (f : Nat) : List Nat → St σ → Ret × St σ × List Out
  | [], st => (.none, st, [])
  | i :: rest, st =>
    match D.saved st.ds i x with
    | some c =>
      -- saved code matched by timings: stop the decoder's own last code, then accept `c`
      let ds := D.stopLast i st.ds
      (.code c, { last := some c, lastDec := some i, bound := true, ds := ds }, [.callback c])
    | none =>
      match D.decode i st.ds x f with
      | (.ok c, ds) =>
        (.code c, { last := some c, lastDec := some i, bound := true, ds := ds }, [.callback c])
      | (.error .decode, ds) => scan D x f rest { st with ds := ds }
      | (.error .repeatLeadIn, ds) => (.true_, { st with lastDec := some i, ds := ds }, [])
      | (.error .repeatLeadOut, ds) => (.true_, { st with ds := ds }, [])
      | (.error .repeatTimeout, ds) => (.true_, { st with ds := ds }, [])
      | (.error .leak, ds) => (.raised, { st with ds := ds }, [])

/-- `FakeModule._decode` -/
def decodeInner {σ} (D : Decoders σ) (st : St σ) (x : Frame) (f : Nat) : Ret × St σ × List Out :=
  let ps := possible D st.ds f
  let heldPath : Option Code :=
    match st.last with
    | some lc => if ps.contains lc.dec then some lc else none
    | none => none
  match heldPath with
  | some lc =>
    if D.eqTimings st.ds lc x then
      (.true_, st, [.callback lc])
    else
      match D.decode lc.dec st.ds x f with
      | (.ok c, ds) =>
        if ¬ c.same lc then
          (.code c, { st with last := some c, bound := true, ds := ds }, [.callback c])
        else
          (.code c, { st with ds := ds }, [.callback lc])
      | (.error .decode, ds) => scan D x f ps { st with ds := ds }
      | (.error .repeatLeadIn, ds) => (.true_, { st with lastDec := some lc.dec, ds := ds }, [])
      | (.error .repeatLeadOut, ds) => (.true_, { st with ds := ds }, [])
      | (.error .repeatTimeout, ds) => (.true_, { st with ds := ds }, [])
      | (.error .leak, ds) => (.raised, { st with ds := ds }, [])
  | none =>
    let lastDecPath : Option Nat :=
      match st.lastDec with
      | some j => if ps.contains j then some j else none
      | none => none
    match lastDecPath with
    | some j =>
      match D.decode j st.ds x f with
      | (.ok c, ds) =>
        match st.last with
        | some l =>
          if ¬ c.same l then
            (.code c, { st with last := some c, bound := true, ds := ds }, [.callback c])
          else
            (.code c, { st with ds := ds }, [.callback l])
        | none =>
          (.code c, { st with last := some c, bound := true, ds := ds }, [.callback c])
      | (.error .decode, ds) => scan D x f ps { st with ds := ds }
      | (.error .repeatLeadIn, ds) =>
        match st.last with
        | some lc => (.true_, { st with lastDec := some lc.dec, ds := ds }, [])
        | none => scan D x f ps { st with ds := ds }
      | (.error .repeatLeadOut, ds) => (.true_, { st with ds := ds }, [])
      | (.error .repeatTimeout, ds) => (.true_, { st with ds := ds }, [])
      | (.error .leak, ds) => (.raised, { st with ds := ds }, [])
    | none => scan D x f ps st

/-- `FakeModule.decode` on an already normalised non-empty list: `True` becomes `None` -/
def decode {σ} (D : Decoders σ) (st : St σ) (x : Frame) (f : Nat) : Option Code × St σ × List Out :=
  match decodeInner D st x f with
  | (.code c, st', o) => (some c, st', o)
  | (_, st', o) => (Option.none, st', o)

/-- the release notification of code `c` reaching the dispatcher (`__reset_last_code`), with the
    code's timer no longer running -/
def release {σ} (st : St σ) (c : Code) : St σ :=
  match st.last with
  | some l => if c.same l ∧ st.bound then { st with last := Option.none } else st
  | none => st

end IRModel.Dispatcher
