/-
  L3 — tolerance matching: `CodeWrapper._match` and `IrProtocolBase._match` (same arithmetic).

      high = floor(e + e * (tol / 100.0));  low = floor(e - e * (tol / 100.0))
      if e < 0: low, high = high, low
      return low <= value <= high          (after the sign test)

  The Python code computes in IEEE doubles. The model computes the exact rational floor
  `⌊e·(100·td ± tn)/(100·td)⌋` for a tolerance `tn/td` percent. For every integer tolerance 0..30
  (and 50) and every integer |e| ≤ 130 000 (and carriers 400 000..500 000) the two were compared
  exhaustively while building the model (0 differences), and the correspondence stream re-compares
  on every run at the values the protocol tables use. Lean's `Int./` with a positive divisor is floor
  division, like Python's `//`.
-/
namespace IRModel.Match

/-- tolerance in percent as a fraction `num/den` (`den > 0`) -/
structure Tol where
  num : Nat
  den : Nat := 1
deriving Repr, DecidableEq

def hiOf (e : Int) (t : Tol) : Int := (e * (100 * t.den + t.num : Nat)) / ((100 * t.den : Nat) : Int)
def loOf (e : Int) (t : Tol) : Int := (e * ((100 * t.den : Nat) - (t.num : Nat) : Int)) / ((100 * t.den : Nat) : Int)

/-- the `(low, high)` pair after the flip for negative expectations -/
def window (e : Int) (t : Tol) : Int × Int :=
  if e < 0 then (hiOf e t, loOf e t) else (loOf e t, hiOf e t)

/-- `_match(value, expected)` -/
def isMatch (t : Tol) (v e : Int) : Bool :=
  if (v < 0 ∧ 0 < e) ∨ (v > 0 ∧ 0 > e) then false
  else
    let w := window e t
    decide (w.1 ≤ v) && decide (v ≤ w.2)

end IRModel.Match
