/-
  S3 (part) — pyIRDecoder/xml_handler.py: attribute escaping (`ESCAPE_CHARS` on write,
  `UNESCAPE_CHARS` on read, after fix: 6a77bf4), the attribute parser's quote state machine, the
  completeness test and fallback logic of `XMLRootElement.handle_file` (after fix: dd311a1).
  Strings are `List Char`; `replaceAll` is Python's `str.replace` (left to right, non-overlapping).
-/
namespace IRModel.Xml

abbrev Str := List Char

/-- `s.replace(old, new)` with fuel (`fuel ≥ s.length` suffices) -/
def replaceF (old new : Str) : Nat → Str → Str
  | 0, s => s
  | _ + 1, [] => []
  | f + 1, c :: rest =>
    if old.isPrefixOf (c :: rest) then new ++ replaceF old new f ((c :: rest).drop old.length)
    else c :: replaceF old new f rest

def replaceAll (old new : Str) (s : Str) : Str := replaceF old new s.length s

def eAmp : Str := ['&', 'a', 'm', 'p', ';']
def eLt : Str := ['&', 'l', 't', ';']
def eGt : Str := ['&', 'g', 't', ';']
def eQuot : Str := ['&', 'q', 'u', 'o', 't', ';']
def eApos : Str := ['&', 'a', 'p', 'o', 's', ';']

/-- `for item in ESCAPE_CHARS: value = value.replace(*item)` -/
def escape (s : Str) : Str :=
  replaceAll ['\''] eApos (replaceAll ['"'] eQuot (replaceAll ['>'] eGt (replaceAll ['<'] eLt (replaceAll ['&'] eAmp s))))

/-- `for item in UNESCAPE_CHARS: value = value.replace(*item)` (order after the fix: `&amp;` last) -/
def unescape (s : Str) : Str :=
  replaceAll eAmp ['&'] (replaceAll eApos ['\''] (replaceAll eQuot ['"'] (replaceAll eGt ['>'] (replaceAll eLt ['<'] s))))

/-- the pinned order: `&amp;` first -/
def unescapePinned (s : Str) : Str :=
  replaceAll eApos ['\''] (replaceAll eQuot ['"'] (replaceAll eGt ['>'] (replaceAll eLt ['<'] (replaceAll eAmp ['&'] s))))

/-- one attribute as written by `XMLAttributes.__str__`: ` key="escaped value"` -/
def renderAttr (k v : Str) : Str := [' '] ++ k ++ ['=', '"'] ++ escape v ++ ['"']

def renderAttrs (kvs : List (Str × Str)) : Str := (kvs.map fun p => renderAttr p.1 p.2).flatten

/-- state of the attribute-line scanner of `from_string` -/
structure Scan where
  quote : Option Nat := none      -- `quote_count`: None / 0 (after '=') / 1 (inside the quotes)
  key   : Str := []
  value : Str := []
  out   : List (Str × Str) := []

/-- one character of the attribute line (xml_handler.py:236-262) -/
def scanStep (st : Scan) (c : Char) : Scan :=
  if st.quote.isNone && (c == ' ' || c == '\n' || c == '\t') then st
  else if st.quote.isNone && c == '=' then { st with quote := some 0 }
  else if c == '"' || c == '\'' then
    if st.quote == some 0 then { st with quote := some 1 }
    else { quote := none, key := [], value := [], out := st.out ++ [(st.key, unescape st.value)] }
  else if st.quote == some 1 then { st with value := st.value ++ [c] }
  else { st with key := st.key ++ [c] }

def parseAttrs (line : Str) : List (Str × Str) := (line.foldl scanStep {}).out

/-- the completeness test added to `handle_file`: the text, right-stripped, ends with the root's closing tag
    (the childless self-closing form is handled separately by the caller) -/
def rstrip (s : Str) : Str := (s.reverse.dropWhile (fun c => c == ' ' || c == '\n' || c == '\t' || c == '\r')).reverse

def closing (tag : Str) : Str := ['<', '/'] ++ tag ++ ['>']

def complete (tag : Str) (text : Str) : Bool := (closing tag).reverse.isPrefixOf (rstrip text).reverse

/-- file system as seen by `handle_file`: the file and its `.backup` -/
structure FS where
  file   : Str
  backup : Option Str

inductive LoadErr | failed
deriving Repr, DecidableEq

/-- `XMLRootElement.handle_file`, parametric in the parser (`parse text = some (tree, root tag, the text is one single element)`).
    Returns the loaded tree and the file system afterwards. -/
def handleFile {τ} (parse : Str → Option (τ × Str × Bool)) (fs : FS) : Except LoadErr τ × FS :=
  let primary : Option τ :=
    match parse fs.file with
    | some (t, tag, emptySelfClosing) =>
      if complete tag fs.file || (emptySelfClosing && ['/', '>'].reverse.isPrefixOf (rstrip fs.file).reverse) then some t else none
    | none => none
  match primary with
  | some t => (.ok t, if fs.file.isEmpty then fs else { fs with backup := some fs.file })
  | none =>
    match fs.backup with
    | none => (.error .failed, fs)
    | some b =>
      match parse b with
      | some (t, _, _) => (.ok t, fs)
      | none => (.error .failed, fs)

end IRModel.Xml
