import IRModel.Irp
/-!
# IRP skeletons without a trailing mark (class B: the lead-out is the gap or the extent itself)

    {<freq>k,<unit>[,msb|lsb]}<d,d|d,d>(d,…,d, field,…,field, (d | ^extent) <rest>

e.g. Sony `{40k,600}<1,-1|2,-1>(4,-1,F:7,D:5,^45m)*`.  The last symbol's space and the gap are two consecutive spaces
of the specified stream; on the air (and in the emitted list) they are ONE duration.  `renderPreB` is everything up to
and including the last mark, `renderLastB` the space that follows it: last symbol's space + gap, or what is left of the
extent.
-/
namespace IRModel.Irp
open IRModel IRModel.Bits

structure SkelB where
  freq   : Num
  unit   : Num
  order  : Option Order
  sym0   : List Dur
  sym1   : List Dur
  lead   : List Dur
  fields : List Field
  last   : Last
  rest   : List Char

/-- the skeleton with a placeholder mark (only used to share `scaled`, `durVal`, `symQ`, `ord`, `widths`) -/
def SkelB.toSkel (s : SkelB) : Skel :=
  { freq := s.freq, unit := s.unit, order := s.order, sym0 := s.sym0, sym1 := s.sym1, lead := s.lead, fields := s.fields,
    mark := { neg := false, n := { lex := ['0'], num := 0, den := 1 }, u := .units }, last := s.last, rest := s.rest }

def printB (s : SkelB) : List Char :=
  '{' :: (s.freq.lex ++ "k,".toList ++ s.unit.lex ++ printOrder s.order ++ "}<".toList
    ++ joinC ',' (s.sym0.map printDur) ++ ['|'] ++ joinC ',' (s.sym1.map printDur) ++ ">(".toList
    ++ joinC ',' (s.lead.map printDur ++ s.fields.map printField ++ [printLast s.last])
    ++ s.rest)

def lexOkB (s : SkelB) : Bool :=
  numOk s.freq && numOk s.unit && s.sym0.all durOk && s.sym1.all durOk && s.lead.all durOk &&
  s.fields.all (fun f => preOk f.pre && postOk f.post) && !s.fields.isEmpty &&
  (match s.last with | .gap d => durOk d | .extent n _ => numOk n) && restOk s.rest

/-- lead-in and every bit's burst, the last space included -/
def renderAllB (s : SkelB) (vals : List Nat) : List Rat :=
  s.lead.map (durVal s.toSkel)
    ++ (List.zipWith (fun w v => bitsOf (ord s.toSkel) v w) (widths s.toSkel) vals).flatten.flatMap (symQ s.toSkel)

def renderPreB (s : SkelB) (vals : List Nat) : List Rat := (renderAllB s vals).dropLast

def renderLastB (s : SkelB) (vals : List Nat) : Rat :=
  match s.last with
  | .gap d => (renderAllB s vals).getLastD 0 + durVal s.toSkel d
  | .extent n u => - (scaled s.toSkel n u - sumAbsQ (renderPreB s vals))

def renderB (s : SkelB) (vals : List Nat) : List Rat := renderPreB s vals ++ [renderLastB s vals]

/-- within two microseconds (the sum of two roundings) -/
def near2 (q : Rat) (z : Int) : Bool := decide (q - (z : Rat) < 2) && decide ((z : Rat) - q < 2)

def agreeB (s : SkelB) (t : Tables) : Bool :=
  (match t.bursts with
   | [b0, b1] => nearL (symQ s.toSkel 0) [b0.1, b0.2] && nearL (symQ s.toSkel 1) [b1.1, b1.2]
   | _ => false) &&
  (freqHz s.toSkel == (t.frequency : Rat)) &&
  (ord s.toSkel == t.order) &&
  nearL (s.lead.map (durVal s.toSkel)) t.leadIn &&
  (widths s.toSkel == t.params.map (fun p => p.2.2 + 1 - p.2.1)) &&
  (match t.leadOut, s.last with
   | [x], .gap d => near (durVal s.toSkel d) x && decide (x < 0)
   | [x], .extent n u => decide (x > 0) && (scaled s.toSkel n u == (x : Rat))
   | _, _ => false)

end IRModel.Irp
