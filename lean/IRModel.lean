import IRModel.Mce
import IRModel.Props.C16
