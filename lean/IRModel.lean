import IRModel.Mce
import IRModel.Bits
import IRModel.Props.C16
import IRModel.Props.C19
