import IRModel
import IRModel.Wrap
import IRGen.Tables
import IRGen.Wrap
/-!
  Line-protocol driver for the traced wrappers (IRGen/Wrap.lean, regenerated from /repo on every run):
    wenc <proto> <rc> <name=value,...>        all frames encode() emits
    wnew <iid> <proto> / wtol <iid> <tn> <td> / wdecode <iid> <durations…>   decode() on an instance
  Run with `lake env lean --run WrapDriver.lean < ops.txt` after `lake build IRGen.Wrap`.
-/
open IRModel IRModel.Wrap

def showInts (l : List Int) : String := " ".intercalate (l.map toString)

def showCodeV (c : Proto.CodeV) : String :=
  s!"fields={",".intercalate (c.fields.map fun (n, v) => s!"{n}:{v}")} frame={showInts c.frame}"

structure Sess where
  insts : List (String × String × Proto.Inst) := []

def findTab (n : String) : Option Tables := IRGen.allTables.find? (·.name == n)
def findWrap (n : String) : Option Wrapper := IRGen.allWrappers.find? (·.name == n)

def parseKV (s : String) : Option (List (String × Int)) :=
  if s == "-" then some [] else
    (s.splitOn ",").mapM fun p => match p.splitOn "=" with
      | [n, v] => do let v ← v.toInt?; pure (n, v)
      | _ => none

def step (ss : Sess) (line : String) : Sess × String :=
  match (line.trimAscii.toString.splitOn " ").filter (· ≠ "") with
  | ["wenc", name, rc, kv] =>
    match findTab name, findWrap name, rc.toNat?, parseKV kv with
    | some t, some w, some rc, some ps =>
      let u : String → Int := fun n => match ps.find? (·.1 == n) with | some p => p.2 | none => 0
      match encodeFrames t w u rc with
      | .ok fs => (ss, "ok " ++ " | ".intercalate (fs.map showInts))
      | .error e => (ss, "err " ++ e.name)
    | _, _, _, _ => (ss, "bad-op")
  | ["wnew", iid, name] =>
    match findTab name, findWrap name with
    | some _, some _ => ({ ss with insts := (iid, name, {}) :: ss.insts.filter (·.1 != iid) }, "ok")
    | _, _ => (ss, "bad-op")
  | ["wtol", iid, tn, td] =>
    match ss.insts.find? (·.1 == iid), tn.toNat?, td.toNat? with
    | some (_, name, inst), some tn, some td =>
      ({ ss with insts := (iid, name, { inst with tol := ⟨tn, td⟩ }) :: ss.insts.filter (·.1 != iid) }, "ok")
    | _, _, _ => (ss, "bad-op")
  | "wdecode" :: iid :: ws =>
    match ss.insts.find? (·.1 == iid), ws.mapM (·.toInt?) with
    | some (_, name, inst), some data =>
      match findTab name, findWrap name with
      | some t, some w =>
        if (CodeWrapper.supported t || CodeWrapper.supportedM t) && (t.repeatBursts.isEmpty || CodeWrapper.streamEnc t.repeatBursts == .general) then
          let r := decodeP t w inst data
          let ss' := { ss with insts := (iid, name, r.inst) :: ss.insts.filter (·.1 != iid) }
          let tail := s!" islast={r.isLast} stops={r.effects.length} held={match r.inst.last with | some c => showCodeV c | none => "-"}"
          match r.result with
          | .ok c => (ss', "ok " ++ showCodeV c ++ tail)
          | .error e => (ss', "err " ++ e.name ++ tail)
        else (ss, "unsupported")
      | _, _ => (ss, "bad-op")
    | _, _ => (ss, "bad-op")
  | _ => (ss, "bad-op")

partial def loop (h : IO.FS.Stream) (ss : Sess) : IO Unit := do
  let line ← h.getLine
  if line.isEmpty then return ()
  let (ss', out) := step ss line
  IO.println out
  loop h ss'

def main : IO Unit := do loop (← IO.getStdin) {}
