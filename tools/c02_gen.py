"""Generates lean/IRGen/Irp.lean: the skeleton of every plain-shape `irp` string, the printer / lexical
obligation that ties it to the source string, and (for the protocols of tools/fragment.json "irpA") the
`agree` obligation against the class tables plus the instance of `C02_first_frame`.
The builder below is NOT trusted: a wrong skeleton does not print back to the source (kernel-checked)."""
import os, re, json
import vlib, extract

NCHUNK = 8
DUR = re.compile(r'^(-?)(\d+(?:\.\d+)?)([um]?)$')
EXT = re.compile(r'^\^(\d+(?:\.\d+)?)([um]?)$')
FLD = re.compile(r'^([^:,<>{}\[\]=]+):(\d+)(:\d+)?$')
HEAD = re.compile(r'^\{(\d+(?:\.\d+)?)k,(\d+(?:\.\d+)?)(?:,(msb|lsb))?\}<([^<>|()]*)\|([^<>|()]*)>\((.*)$')


def top_items(body):
    """split the stream after `>(` into first-frame tokens and the verbatim rest"""
    toks, cur, depth, i = [], '', 0, 0
    start = 0
    while i < len(body):
        c = body[i]
        if c == '(':
            if depth == 0 and cur == '':
                # token starts with a parenthesis: a field `(expr):w` or a sub-stream
                j, d = i, 0
                while j < len(body):
                    if body[j] == '(':
                        d += 1
                    elif body[j] == ')':
                        d -= 1
                        if d == 0:
                            break
                    j += 1
                if j + 1 < len(body) and body[j + 1] == ':':
                    cur = body[i:j + 1]
                    i = j + 1
                    continue
                return toks, ',' + body[i:] if toks else None
            depth += 1
            cur += c
        elif c == ')':
            if depth == 0:
                if cur:
                    toks.append(cur)
                return toks, body[i:]
            depth -= 1
            cur += c
        elif c == ',' and depth == 0:
            toks.append(cur)
            cur = ''
        else:
            cur += c
        i += 1
    return None, None


def num(lex):
    if '.' in lex:
        a, b = lex.split('.')
        return dict(lex=lex, num=int(a) * 10 ** len(b) + int(b), den=10 ** len(b))
    return dict(lex=lex, num=int(lex), den=1)


def dur(tok):
    m = DUR.match(tok)
    if not m:
        return None
    return dict(neg=m.group(1) == '-', n=num(m.group(2)), u={'': 'units', 'u': 'micro', 'm': 'milli'}[m.group(3)])


def skeleton(src):
    s = ''.join(src.split())
    m = HEAD.match(s)
    if not m:
        return None, 'general spec / bit spec not of the plain form'
    f, u, o, s0, s1, body = m.groups()
    sym0 = [dur(x) for x in s0.split(',')]
    sym1 = [dur(x) for x in s1.split(',')]
    if None in sym0 or None in sym1:
        return None, 'bit spec symbols are not plain durations'
    toks, rest = top_items(body)
    if not toks or rest is None:
        return None, 'stream not of the plain form'
    lead, fields, k = [], [], 0
    while k < len(toks) and dur(toks[k]) is not None:
        lead.append(dur(toks[k]))
        k += 1
    while k < len(toks) and FLD.match(toks[k]):
        mm = FLD.match(toks[k])
        fields.append(dict(pre=mm.group(1), width=int(mm.group(2)), post=mm.group(3) or ''))
        k += 1
    tail = toks[k:]
    if not fields or len(tail) != 2 or dur(tail[0]) is None:
        return None, 'items are not <durations, bit fields, mark, gap|extent>'
    if dur(tail[1]) is not None:
        last = ('gap', dur(tail[1]))
    elif EXT.match(tail[1]):
        e = EXT.match(tail[1])
        last = ('extent', num(e.group(1)), {'': 'units', 'u': 'micro', 'm': 'milli'}[e.group(2)])
    else:
        return None, 'last item is neither a duration nor an extent'
    return dict(freq=num(f), unit=num(u), order=o, sym0=sym0, sym1=sym1, lead=lead, fields=fields, mark=dur(tail[0]),
                last=last, rest=rest), None


def skeleton_b(src):
    """the mark-less plain form `(d,...,d, field,...,field, gap|^extent <rest>` (class B: Sony, Bryston, F32, ...)"""
    s = ''.join(src.split())
    m = HEAD.match(s)
    if not m:
        return None, 'general spec / bit spec not of the plain form'
    f, u, o, s0, s1, body = m.groups()
    sym0 = [dur(x) for x in s0.split(',')]
    sym1 = [dur(x) for x in s1.split(',')]
    if None in sym0 or None in sym1:
        return None, 'bit spec symbols are not plain durations'
    toks, rest = top_items(body)
    if not toks or rest is None:
        return None, 'stream not of the plain form'
    lead, fields, k = [], [], 0
    while k < len(toks) and dur(toks[k]) is not None and k < len(toks) - 1:
        lead.append(dur(toks[k]))
        k += 1
    while k < len(toks) and FLD.match(toks[k]):
        mm = FLD.match(toks[k])
        fields.append(dict(pre=mm.group(1), width=int(mm.group(2)), post=mm.group(3) or ''))
        k += 1
    tail = toks[k:]
    if not fields or len(tail) != 1:
        return None, 'items are not <durations, bit fields, gap|extent>'
    if dur(tail[0]) is not None:
        last = ('gap', dur(tail[0]))
    elif EXT.match(tail[0]):
        e = EXT.match(tail[0])
        last = ('extent', num(e.group(1)), {'': 'units', 'u': 'micro', 'm': 'milli'}[e.group(2)])
    else:
        return None, 'last item is neither a duration nor an extent'
    return dict(freq=num(f), unit=num(u), order=o, sym0=sym0, sym1=sym1, lead=lead, fields=fields, last=last, rest=rest), None


def lskel_b(sk):
    last = ('.gap %s' % ldur(sk['last'][1])) if sk['last'][0] == 'gap' else '.extent %s .%s' % (lnum(sk['last'][1]), sk['last'][2])
    return ('{ freq := %s, unit := %s, order := %s,\n    sym0 := [%s], sym1 := [%s],\n    lead := [%s],\n    fields := [%s],\n    last := %s,\n    rest := %s.toList }'
            % (lnum(sk['freq']), lnum(sk['unit']), {None: 'none', 'msb': 'some .msb', 'lsb': 'some .lsb'}[sk['order']],
               ', '.join(map(ldur, sk['sym0'])), ', '.join(map(ldur, sk['sym1'])), ', '.join(map(ldur, sk['lead'])),
               ', '.join('⟨%s.toList, %d, %s.toList⟩' % (lstr(f['pre']), f['width'], lstr(f['post'])) for f in sk['fields']),
               last, lstr(sk['rest'])))


DITTO = re.compile(r'^,\(((?:-?\d+(?:\.\d+)?[um]?,)*)(-?\d+(?:\.\d+)?[um]?|\^\d+(?:\.\d+)?[um]?)\)([*+])\)')


def ditto(rest):
    m = DITTO.match(rest)
    if not m:
        return None
    durs = [dur(x) for x in m.group(1).split(',') if x]
    if None in durs:
        return None
    if dur(m.group(2)) is not None:
        last = ('gap', dur(m.group(2)))
    else:
        e = EXT.match(m.group(2))
        last = ('extent', num(e.group(1)), {'': 'units', 'u': 'micro', 'm': 'milli'}[e.group(2)])
    return dict(durs=durs, last=last, mark=m.group(3))


def llast(last):
    return ('.gap %s' % ldur(last[1])) if last[0] == 'gap' else '.extent %s .%s' % (lnum(last[1]), last[2])


def lstr(s):
    return '"' + s.replace('\\', '\\\\').replace('"', '\\"') + '"'


def lnum(n):
    return '⟨%s.toList, %d, %d⟩' % (lstr(n['lex']), n['num'], n['den'])


def ldur(d):
    return '⟨%s, %s, .%s⟩' % ('true' if d['neg'] else 'false', lnum(d['n']), d['u'])


def lskel(sk):
    last = ('.gap %s' % ldur(sk['last'][1])) if sk['last'][0] == 'gap' else '.extent %s .%s' % (lnum(sk['last'][1]), sk['last'][2])
    return ('{ freq := %s, unit := %s, order := %s,\n    sym0 := [%s], sym1 := [%s],\n    lead := [%s],\n    fields := [%s],\n    mark := %s, last := %s,\n    rest := %s.toList }'
            % (lnum(sk['freq']), lnum(sk['unit']), {None: 'none', 'msb': 'some .msb', 'lsb': 'some .lsb'}[sk['order']],
               ', '.join(map(ldur, sk['sym0'])), ', '.join(map(ldur, sk['sym1'])), ', '.join(map(ldur, sk['lead'])),
               ', '.join('⟨%s.toList, %d, %s.toList⟩' % (lstr(f['pre']), f['width'], lstr(f['post'])) for f in sk['fields']),
               ldur(sk['mark']), last, lstr(sk['rest'])))


def write(tabs, path=None, frag_override=None):
    path = path or os.path.join(vlib.LEAN, 'IRGen', 'Irp.lean')
    frag = json.load(open(os.path.join(vlib.VERIF, 'tools', 'fragment.json')))
    irpA = frag_override if frag_override is not None else frag.get('irpA', [])
    irpD = frag_override if frag_override is not None else frag.get('irpDitto', [])
    classA = set(frag['classA'])
    classB = set(frag.get('classB', []))
    irpB = frag_override if frag_override is not None else frag.get('irpB', [])
    HEAD_ = ['import IRGen.Tables', 'import IRModel.Props.C02', 'import IRModel.Props.C02B', 'import IRModel.Encode',
             '/-! GENERATED by tools/c02_gen.py from the `irp` attributes of /repo on every run. Do not edit. -/',
             'namespace IRGen.IrpObl', 'open IRModel IRModel.Irp IRModel.Props.C02', '']
    lines = []
    blocks = []
    names, missing, skels, why = [], [], {}, {}
    for t in tabs:
        n = t['name']
        sk, reason = skeleton(t.get('irp') or '')
        if sk is None:
            skb, reason_b = skeleton_b(t.get('irp') or '')
            if skb is not None and t['modelled'] and n in irpB:
                ident = extract.lean_ident(n)[2:]
                lines.append('def IB_%s : SkelB :=\n  %s' % (ident, lskel_b(skb)))
                lines.append('def S_%s : String := %s' % (ident, lstr(t['irp'])))
                lines.append("theorem irpB_print_%s : printB IB_%s = S_%s.toList.filter (· ≠ ' ') ∧ lexOkB IB_%s = true := by decide +kernel" % (ident, ident, ident, ident))
                names.append('IRGen.IrpObl.irpB_print_' + ident)
                if n in irpB and n in classB:
                    lines.append('theorem irpB_agree_%s : agreeB IB_%s IRGen.%s = true := by decide +kernel' % (ident, ident, extract.lean_ident(n)))
                    lines.append('theorem c02B_%s (hw : IRModel.Engine.wfAllB IRGen.%s ⟨20, 1⟩ = true) : FirstFrameSpecB IB_%s IRGen.%s :=\n  C02_first_frame_B IB_%s IRGen.%s ⟨20, 1⟩ hw irpB_agree_%s' % (ident, extract.lean_ident(n), ident, extract.lean_ident(n), ident, extract.lean_ident(n), ident))
                    names.append('IRGen.IrpObl.irpB_agree_' + ident)
                    names.append('IRGen.IrpObl.c02B_' + ident)
                blocks.append(lines)
                lines = []
            elif n in irpB:
                missing.append((n, 'no mark-less skeleton any more: ' + str(reason_b)))
            why[n] = reason
            if n in irpA:
                missing.append((n, reason))
            continue
        skels[n] = sk
        ident = extract.lean_ident(n)[2:]
        lines.append('def I_%s : Skel :=\n  %s' % (ident, lskel(sk)))
        lines.append('def S_%s : String := %s' % (ident, lstr(t['irp'])))
        lines.append("theorem irp_print_%s : print I_%s = S_%s.toList.filter (· ≠ ' ') ∧ lexOk I_%s = true := by decide +kernel" % (ident, ident, ident, ident))
        names.append('IRGen.IrpObl.irp_print_' + ident)
        if n in irpA and n in classA and t['modelled']:
            lines.append('theorem irp_agree_%s : agree I_%s IRGen.%s = true := by decide +kernel' % (ident, ident, extract.lean_ident(n)))
            lines.append('theorem c02_%s (hw : IRModel.Props.EngineThm.wfAll IRGen.%s ⟨20, 1⟩ = true) : FirstFrameSpec I_%s IRGen.%s :=\n  C02_first_frame I_%s IRGen.%s ⟨20, 1⟩ hw irp_agree_%s' % (ident, extract.lean_ident(n), ident, extract.lean_ident(n), ident, extract.lean_ident(n), ident))
            names.append('IRGen.IrpObl.irp_agree_' + ident)
            names.append('IRGen.IrpObl.c02_' + ident)
        elif n in irpA:
            missing.append((n, 'no longer a modelled class-A protocol'))
        dt = ditto(sk['rest'])
        if dt is not None:
            lines.append("def D_%s : Ditto := { durs := [%s], last := %s, mark := '%s' }" % (ident, ', '.join(map(ldur, dt['durs'])), llast(dt['last']), dt['mark']))
            lines.append('theorem irp_ditto_print_%s : dittoOk I_%s D_%s = true := by decide +kernel' % (ident, ident, ident))
            names.append('IRGen.IrpObl.irp_ditto_print_' + ident)
            if n in irpD and t['modelled']:
                lines.append('theorem irp_ditto_%s : (match IRModel.Encode.buildRepeatFrame IRGen.%s with | .ok z => dittoAgree I_%s D_%s z | .error _ => false) = true := by decide +kernel' % (ident, extract.lean_ident(n), ident, ident))
                names.append('IRGen.IrpObl.irp_ditto_' + ident)
            elif n in irpD:
                missing.append((n, 'ditto: protocol no longer modelled'))
        elif n in irpD:
            missing.append((n, 'the irp string has no plain ditto sub-stream any more'))
        blocks.append(lines)
        lines = []
    # the obligations are spread over NCHUNK modules so that lake checks them in parallel
    mods = []
    for k in range(NCHUNK):
        body = [l for b in blocks[k::NCHUNK] for l in b + ['']]
        src = '\n'.join(HEAD_ + body + ['end IRGen.IrpObl']) + '\n'
        pk = path[:-5] + '%d.lean' % k
        old = open(pk).read() if os.path.exists(pk) else None
        if old != src:
            open(pk, 'w').write(src)
        mods.append('IRGen.Irp%d' % k)
    src = '\n'.join('import ' + m for m in mods) + '\n'
    old = open(path).read() if os.path.exists(path) else None
    if old != src:
        open(path, 'w').write(src)
    return names, missing, skels, why, mods


if __name__ == '__main__':
    import sys
    tabs = extract.tables()
    names, missing, skels, why, mods = write(tabs, frag_override=[t['name'] for t in tabs] if '--all' in sys.argv else None)
    print(len(skels), 'skeletons;', len(names), 'obligations; missing', missing if '--all' not in sys.argv else '(all mode)')
    import collections
    print(collections.Counter(why.values()))
    os._exit(0)
