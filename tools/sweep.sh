#!/bin/bash
# clean-tree sweep: every check at several VERIF_SEED values (quick) and once thorough; prints one line per run
cd "$(dirname "$0")/.."
for s in ${SEEDS:-1 2 3}; do
  for i in 01 02 03 04 05 06 07 08 09 10 11 12 13 14 15 16 17 18 19 20; do
    out=$(VERIF_SEED=$s ./check C$i --tier quick 2>&1); rc=$?
    echo "quick seed=$s C$i rc=$rc $(echo "$out" | grep -c '^VIOLATION') $(echo "$out" | tail -1 | cut -c1-120)"
  done
done
if [ "${THOROUGH:-1}" = "1" ]; then
  for i in 01 02 03 04 05 06 07 08 09 10 11 12 13 14 15 16 17 18 19 20; do
    out=$(VERIF_SEED=0 ./check C$i --tier thorough 2>&1); rc=$?
    echo "thorough seed=0 C$i rc=$rc $(echo "$out" | grep -c '^VIOLATION') $(echo "$out" | tail -1 | cut -c1-120)"
  done
fi
