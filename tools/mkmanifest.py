#!/usr/bin/env python3
"""Regenerates MANIFEST.json from tools/claims.json (the per-property claim texts)."""
import json, os
HERE = os.path.dirname(os.path.dirname(os.path.abspath(__file__)))
claims = json.load(open(os.path.join(HERE, 'tools', 'claims.json')))
props = [json.loads(l) for l in open(os.path.join(HERE, 'properties.jsonl'))]
checks, na = [], []
for p in props:
    pid = p['id']
    c = claims.get(pid)
    if c and c.get('claimed'):
        checks.append(dict(
            property_id=pid,
            quick_cmd='./check %s --tier quick' % pid,
            thorough_cmd='./check %s --tier thorough' % pid,
            evidence_file='evidence/%s.json' % pid,
            replay_cmd_template='./check %s --replay {path}' % pid,
            engine='lean-model+correspondence',
            level_claimed=dict(category=c.get('category', 'proof'), text=c['text'], design_ref=c.get('design_ref', 'DESIGN.md §7 ' + pid)),
            level_note=c['note'],
            technique=c.get('technique', 'Lean 4 theorem about an executable model + differential correspondence with the implementation'),
        ))
    else:
        na.append(dict(property_id=pid, reason=(c or {}).get('reason', 'check not built yet in this round; planned (DESIGN.md §7)')))
m = dict(
    version=1,
    setup_cmd='cd lean && lake build IRModel',
    hooks=dict(guard='KDSCHLOSSER_PYIRDECODER_VERIF', enable='export KDSCHLOSSER_PYIRDECODER_VERIF=1 (set by ./check; no guarded hooks exist in /repo so far: the harness monkey-patches at run time)',
               baseline_off_cmd='cd /repo && /venv/bin/python -m pytest -ra -q -p no:cacheprovider --timeout=900 --continue-on-collection-errors',
               source_commits=[], add_only=True),
    engines=[dict(name='lean-model+correspondence', path='lean/ , tools/ , check',
                  serves_properties=[c['property_id'] for c in checks],
                  kind_free_text='Lean 4 executable model + kernel-checked theorems (lake build, #print axioms audit); line-protocol driver for differential correspondence with the real Python code; property-oracle search on the real code; known_findings.json')],
    checks=checks,
    notes='Run as ./check <id> --tier quick|thorough. VERIF_SEED seeds every random choice. Exit 0 held / 1 violation / 2 infrastructure.',
    not_applicable=na,
)
json.dump(m, open(os.path.join(HERE, 'MANIFEST.json'), 'w'), indent=1)
print('claimed', [c['property_id'] for c in checks])
