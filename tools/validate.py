#!/usr/bin/env python3-vt
import json, jsonschema, glob, sys, os
H = os.path.dirname(os.path.dirname(os.path.abspath(__file__)))
jsonschema.validate(json.load(open(H + '/MANIFEST.json')), json.load(open('/root/.vp/MANIFEST.schema.json')))
es = json.load(open('/root/.vp/EVIDENCE.schema.json'))
for f in sorted(glob.glob(H + '/evidence/*.json')):
    jsonschema.validate(json.load(open(f)), es)
    print('ok', os.path.basename(f))
print('manifest ok')
