#!/bin/bash
# usage: tools/seedrun.sh <seed-name> <property> [tier]   -- applies seeded/<name>/patch.diff to /repo, runs the check, reverts
set -u
cd "$(dirname "$0")/.."
name=$1; prop=$2; tier=${3:-quick}
git -C /repo diff --quiet || { echo "/repo has uncommitted changes"; exit 3; }
git -C /repo apply $PWD/seeded/$name/patch.diff || { echo "patch does not apply"; exit 3; }
./check $prop --tier $tier; rc=$?
git -C /repo checkout -- .
echo "seed=$name property=$prop exit=$rc"
exit $rc
