#!/bin/bash
# usage: tools/seedrun.sh <seed-name> <property> [tier]   -- applies seeded/<name>/patch.diff to the repository
# (${VERIF_REPO:-/repo}), runs the check, reverts
set -u
cd "$(dirname "$0")/.."
name=$1; prop=$2; tier=${3:-quick}
REPO=${VERIF_REPO:-/repo}
git -C $REPO diff --quiet || { echo "$REPO has uncommitted changes"; exit 3; }
git -C $REPO apply $PWD/seeded/$name/patch.diff || { echo "patch does not apply"; exit 3; }
./check $prop --tier $tier; rc=$?
git -C $REPO checkout -- .
echo "seed=$name property=$prop exit=$rc"
exit $rc
