"""Translator for the per-protocol wrappers: encode()/decode() bodies -> a small expression/decision-tree
language (Lean: IRModel/Wrap.lean).

The real methods of /repo's working tree are EXECUTED, not parsed.  The real IntegerWrapper class stays
in place; every public operation on it is shadowed: the original method computes the concrete result and
the shadow records which operation on which (symbolic) operands produced it.  User parameters enter as
`SymInt` (an int subclass carrying an expression), decoded fields as IntegerWrapper objects tagged
`('field', name)`.  Comparisons yield `SymBool`; `bool()` on one is a decision point, explored
depth-first with forced outcomes (every path of the wrapper is recorded, not only the one the concrete
values would take).

What is NOT trusted blindly: a value that escapes the shadow (through a C-level conversion, `range()`,
an index, string formatting, ...) shows up as a *constant* in the trace.  Every trace is therefore
repeated with several different concrete inputs and must come out structurally identical, constants
included; otherwise the protocol is reported `opaque` with the reason.  On top of that the generated
model is run against the real methods on random parameters on every check (props/wrap_common.py).
"""
import sys, os, random, json, copy, warnings, traceback

warnings.filterwarnings('ignore', category=DeprecationWarning)


class Opaque(Exception):
    pass


class _State(object):
    depth = 0            # >0 while inside an original IntegerWrapper method (inner operations are concrete)
    script = None        # forced decisions
    pos = 0
    path = None          # [(cond, outcome)]
    active = False
    max_decisions = 40


ST = _State()

BINOPS = {'add': lambda a, b: a + b, 'sub': lambda a, b: a - b, 'mul': lambda a, b: a * b,
          'fdiv': lambda a, b: a // b, 'mod': lambda a, b: a % b, 'and': lambda a, b: a & b,
          'or': lambda a, b: a | b, 'xor': lambda a, b: a ^ b, 'shl': lambda a, b: a << b, 'shr': lambda a, b: a >> b}


def sym_of(x):
    """expression of a python value"""
    if isinstance(x, SymInt):
        return x.sym
    if isinstance(x, bool):
        return ('const', int(x))
    if isinstance(x, int):
        return ('const', int(x))
    s = getattr(x, '_sym', None)
    if s is not None:
        return s
    if x.__class__.__name__ == 'IntegerWrapper':
        # an IntegerWrapper the shadow did not see being made: constant (value, width)
        return ('mk', ('const', int.__int__(x._value)), int(x._num_bits))
    raise Opaque('value of type %s enters an expression' % type(x).__name__)


class SymBool(object):
    def __init__(self, cond, concrete):
        self.cond = cond
        self.concrete = bool(concrete)

    def __bool__(self):
        return decide(self.cond, self.concrete)

    __nonzero__ = __bool__

    def __eq__(self, other):
        raise Opaque('comparison result compared')

    def __hash__(self):
        return id(self)


def decide(cond, concrete):
    if not ST.active:
        return concrete
    if ST.pos < len(ST.script):
        out = ST.script[ST.pos]
    else:
        out = False
        ST.script.append(out)
    ST.pos += 1
    if ST.pos > ST.max_decisions:
        raise Opaque('more than %d decisions on one path' % ST.max_decisions)
    ST.path.append((cond, out))
    return out


class SymInt(int):
    def __new__(cls, v, sym):
        o = int.__new__(cls, v)
        o.sym = sym
        return o

    def _bin(self, other, op, refl=False):
        if ST.depth > 0:
            return NotImplemented if not isinstance(other, int) else None
        if not isinstance(other, int):
            return NotImplemented
        a, b = (other, self) if refl else (self, other)
        return SymInt(BINOPS[op](int.__int__(a), int.__int__(b)), ('ibin', op, sym_of(a), sym_of(b)))

    def _cmp(self, other, op):
        if not isinstance(other, int):
            return NotImplemented
        c = {'eq': int.__eq__, 'ne': int.__ne__, 'lt': int.__lt__, 'gt': int.__gt__, 'le': int.__le__, 'ge': int.__ge__}[op](self, other)
        if ST.depth > 0:
            return c
        return SymBool(('cmp', op, self.sym, sym_of(other)), c)

    def __hash__(self):
        return int.__hash__(self)

    def __bool__(self):
        if ST.depth > 0:
            return int.__bool__(self)
        return decide(('cmp', 'ne', self.sym, ('const', 0)), int.__bool__(self))

    def __neg__(self):
        if ST.depth > 0:
            return int.__neg__(self)
        return SymInt(int.__neg__(self), ('ibin', 'sub', ('const', 0), self.sym))

    def __invert__(self):
        if ST.depth > 0:
            return int.__invert__(self)
        return SymInt(int.__invert__(self), ('ibin', 'sub', ('const', -1), self.sym))

    def __int__(self):
        return self

    def __index__(self):
        return int.__int__(self) if False else int(int.__repr__(self))


def _mk_bin(name, op, refl):
    plain = getattr(int, name)

    def f(self, other):
        if ST.depth > 0:
            return plain(self, other)
        r = self._bin(other, op, refl)
        return r
    f.__name__ = name
    return f


for _n, _op in (('add', 'add'), ('sub', 'sub'), ('mul', 'mul'), ('floordiv', 'fdiv'), ('mod', 'mod'), ('and', 'and'),
                ('or', 'or'), ('xor', 'xor'), ('lshift', 'shl'), ('rshift', 'shr')):
    setattr(SymInt, '__%s__' % _n, _mk_bin('__%s__' % _n, _op, False))
    setattr(SymInt, '__r%s__' % _n, _mk_bin('__r%s__' % _n, _op, True))
for _op in ('eq', 'ne', 'lt', 'gt', 'le', 'ge'):
    setattr(SymInt, '__%s__' % _op, (lambda o: lambda self, other: self._cmp(other, o))(_op))


# ---------------------------------------------------------------------------------------------------
# shadowing the real IntegerWrapper

class Shadow(object):
    """context manager: patch IntegerWrapper / IrProtocolBase / IRCode for the duration of a trace"""

    def __init__(self, pyir):
        self.pyir = pyir
        self.IW = pyir.integer_wrapper.IntegerWrapper
        self.saved = {}
        self.packets = []

    def patch(self, obj, name, new):
        self.saved[(obj, name)] = obj.__dict__[name]
        setattr(obj, name, new)

    def __enter__(self):
        IW = self.IW
        sh = self

        def orig(name):
            return IW.__dict__[name] if (IW, name) not in self.saved else self.saved[(IW, name)]

        def wrap_method(name, builder):
            o = IW.__dict__[name]

            def m(self_, *a, **k):
                if ST.depth > 0:
                    return o(self_, *a, **k)
                ST.depth += 1
                try:
                    r = o(self_, *a, **k)
                finally:
                    ST.depth -= 1
                return builder(self_, r, *a, **k)
            m.__name__ = name
            self.patch(IW, name, m)

        # constructor
        o_init = IW.__dict__['__init__']

        def init(self_, value, num_bits=None, timings=None, encoding=None):
            if ST.depth > 0:
                return o_init(self_, value, num_bits, timings, encoding)
            vs = sym_of(value)
            if isinstance(num_bits, SymInt) or (num_bits is not None and not isinstance(num_bits, int)):
                raise Opaque('symbolic width')
            ST.depth += 1
            try:
                o_init(self_, int.__int__(value) if isinstance(value, SymInt) else value, num_bits, timings, encoding)
            finally:
                ST.depth -= 1
            if num_bits is None:
                self_._sym = vs if isinstance(value, IW) else ('mkd', vs)
            else:
                self_._sym = ('mk', vs, int(num_bits))
        self.patch(IW, '__init__', init)

        def binop(op, refl):
            def b(self_, r, other):
                a, c = (sym_of(other), sym_of(self_)) if refl else (sym_of(self_), sym_of(other))
                r._sym = ('bin', op, a, c)
                return r
            return b
        for n, op in (('add', 'add'), ('sub', 'sub'), ('mul', 'mul'), ('floordiv', 'fdiv'), ('mod', 'mod'),
                      ('and', 'and'), ('or', 'or'), ('xor', 'xor')):
            wrap_method('__%s__' % n, binop(op, False))
            wrap_method('__r%s__' % n, binop(op, True))
        for n in ('div', 'truediv'):
            wrap_method('__%s__' % n, binop('fdiv', False))
            wrap_method('__r%s__' % n, binop('fdiv', True))

        def shift(op):
            def b(self_, r, other):
                r._sym = (op, sym_of(self_), sym_of(other))
                return r
            return b
        wrap_method('__lshift__', shift('shl'))
        wrap_method('__rshift__', shift('shr'))

        def unsupported(name):
            def b(self_, r, *a, **k):
                raise Opaque('IntegerWrapper.%s used' % name)
            return b
        for n in ('__rlshift__', '__rrshift__', '__setitem__', '__iadd__', '__isub__', '__imul__', '__ilshift__', '__irshift__',
                  '__iand__', '__ior__', '__ixor__', '__pow__', '__rpow__', '__divmod__', '__rdivmod__'):
            if n in IW.__dict__:
                wrap_method(n, unsupported(n))

        def unop(op):
            def b(self_, r):
                r._sym = (op, sym_of(self_))
                return r
            return b
        wrap_method('__neg__', unop('neg'))
        wrap_method('__pos__', unop('pos'))
        wrap_method('__abs__', unop('abs'))
        wrap_method('__invert__', unop('inv'))
        wrap_method('__reversed__', unop('rev'))

        def nb_arg(nb):
            if nb is None:
                return None
            if isinstance(nb, SymInt) or not isinstance(nb, int):
                raise Opaque('symbolic width')
            return int(nb)
        wrap_method('invert_bits', lambda self_, r, num_bits=None: (setattr(r, '_sym', ('invbits', sym_of(self_), nb_arg(num_bits))), r)[1])
        wrap_method('reverse_bit_order', lambda self_, r, num_bits=None: (setattr(r, '_sym', ('revbits', sym_of(self_), nb_arg(num_bits))), r)[1])

        def getitem(self_, r, item):
            if not isinstance(item, slice):
                if isinstance(item, SymInt) or not isinstance(item, int):
                    raise Opaque('symbolic bit index')
                return SymInt(int(r), ('bit', sym_of(self_), int(item)))
            for part in (item.stop, item.step):
                if isinstance(part, SymInt) or not (part is None or isinstance(part, int)):
                    raise Opaque('symbolic slice bound')
            st = item.start
            if st is None or st is True or st is False:
                stv = {None: 'none', True: 'true', False: 'false'}[st]
                if st is False:
                    # `False is not None` and `False < 0` is false: returns `False == val`
                    raise Opaque('slice start False')
                r._sym = ('slice', sym_of(self_), stv, item.stop, item.step)
                return r
            raise Opaque('slice with a comparison start')
        wrap_method('__getitem__', getitem)

        def cmpop(op):
            def b(self_, r, other):
                return SymBool(('cmp', op, sym_of(self_), sym_of(other)), r)
            return b
        for op in ('eq', 'ne', 'lt', 'gt', 'le', 'ge'):
            wrap_method('__%s__' % op, cmpop(op))
        self.saved[(IW, '__hash__')] = IW.__dict__.get('__hash__')
        IW.__hash__ = lambda self_: id(self_)

        wrap_method('__int__', lambda self_, r: SymInt(r, sym_of(self_)))
        if '__index__' in IW.__dict__:
            wrap_method('__index__', lambda self_, r: r)

        def boolv(self_, r):
            return decide(('nbits_ne0', sym_of(self_)), r)
        wrap_method('__bool__', boolv)

        def lenv(self_, r):
            return r          # concrete; a value-dependent width shows up as a varying constant
        wrap_method('__len__', lenv)

        o_iter = IW.__dict__['__iter__']

        def iter_(self_):
            if ST.depth > 0:
                for b in o_iter(self_):
                    yield b
                return
            ST.depth += 1
            try:
                bits = list(o_iter(self_))
            finally:
                ST.depth -= 1
            s = sym_of(self_)
            for i, b in enumerate(bits):
                yield SymInt(b, ('bit', s, i))
        self.patch(IW, '__iter__', iter_)

        # properties
        p_nob = IW.__dict__['num_one_bits']

        def nob(self_):
            if ST.depth > 0:
                return p_nob.fget(self_)
            ST.depth += 1
            try:
                r = p_nob.fget(self_)
            finally:
                ST.depth -= 1
            r._sym = ('popcount', sym_of(self_))
            return r
        self.patch(IW, 'num_one_bits', property(nob))

        p_tim = IW.__dict__['timings']

        class TimingsList(list):
            pass

        def tim(self_):
            if ST.depth > 0:
                return p_tim.fget(self_)
            ST.depth += 1
            try:
                r = p_tim.fget(self_)
            finally:
                ST.depth -= 1
            t = TimingsList(r)
            t.sym = sym_of(self_)
            return t
        self.patch(IW, 'timings', property(tim))
        self.TimingsList = TimingsList

        p_bits = IW.__dict__['bits']

        def bits(self_):
            if ST.depth > 0:
                return p_bits.fget(self_)
            ST.depth += 1
            try:
                r = p_bits.fget(self_)
            finally:
                ST.depth -= 1
            s = sym_of(self_)
            n = len(r)
            return [SymInt(b, ('bit', s, n - 1 - i)) for i, b in enumerate(r)]
        self.patch(IW, 'bits', property(bits))

        # _build_packet recorder
        base = self.pyir.protocol_base.IrProtocolBase
        o_bp = base.__dict__['_build_packet']

        def build_packet(cls, *args, **kwargs):
            rec = dict(args=[], kwargs={}, cls=cls.__name__)
            for a in args:
                if isinstance(a, TimingsList):
                    rec['args'].append(('timings', a.sym))
                elif isinstance(a, (list, tuple)):
                    rec['args'].append(('lit', json.loads(json.dumps(a, default=int))))
                elif isinstance(a, int):
                    rec['args'].append(('lit', int(a)))
                else:
                    raise Opaque('positional packet item of type %s' % type(a).__name__)
            ckw = {}
            for k, v in kwargs.items():
                if isinstance(v, IW):
                    rec['kwargs'][k] = ('iw', sym_of(v))
                    ckw[k] = v
                elif isinstance(v, int):
                    rec['kwargs'][k] = ('int', sym_of(v))
                    ckw[k] = int.__int__(v) if isinstance(v, SymInt) else v
                else:
                    raise Opaque('packet field %s of type %s' % (k, type(v).__name__))
            ST.depth += 1
            try:
                r = o_bp.__func__(cls, *[list(a) if isinstance(a, list) else a for a in args], **ckw)
            except Exception as e:
                raise Opaque('_build_packet raises %s' % e.__class__.__name__)
            finally:
                ST.depth -= 1
            rec['tables'] = dict(lead_in=list(cls._lead_in), lead_out=list(cls._lead_out), bursts=json.loads(json.dumps(cls._bursts)),
                                 parameters=json.loads(json.dumps(cls._parameters)))
            rec['result'] = list(r)
            sh.packets.append(rec)
            return r
        self.patch(base, '_build_packet', classmethod(build_packet))
        return self

    def __exit__(self, *exc):
        for (obj, name), old in self.saved.items():
            setattr(obj, name, old)
        return False


# ---------------------------------------------------------------------------------------------------

def load_pyir():
    import pyIRDecoder
    from pyIRDecoder import protocol_base, integer_wrapper, ir_code, protocols  # noqa
    return pyIRDecoder


TABLE_ATTRS = ('_lead_in', '_lead_out', '_bursts', '_middle_timings', '_repeat_lead_in', '_repeat_lead_out', '_repeat_bursts',
               '_parameters', 'bit_count', 'encoding', 'frequency')


def snapshot(obj):
    """tables plus every plain-data attribute of the object / class (hidden state such as a stored first frame, a
    toggle counter, a variant switch shows up as a difference before/after the traced call)"""
    d = {}
    src = obj.__dict__ if not isinstance(obj, type) else {k: v for c in obj.__mro__[:-1] for k, v in c.__dict__.items()}
    for k, v in src.items():
        if callable(v) or isinstance(v, (property, classmethod, staticmethod)) or k.startswith('__') or k in ('_xml', '_parent'):
            continue
        if 'lock' in k.lower() or k.endswith('__last_code'):
            continue
        try:
            d[k] = json.dumps(v, default=lambda o: '<%s>' % type(o).__name__)
        except Exception:
            d[k] = '<%s>' % type(v).__name__
    return json.dumps([[getattr(obj, a, None) for a in TABLE_ATTRS], sorted(d.items())], default=str)


def param_values(cls, rnd, mode):
    vals = {}
    for name, lo, hi in cls.encode_parameters:
        if mode == 0:
            v = lo
        elif mode == 1:
            v = hi
        else:
            v = rnd.randint(lo, hi)
        vals[name] = v
    return vals


def trace_encode_once(pyir, cls, vals, rc):
    import inspect
    inst = cls()
    sig = inspect.signature(inst.encode)
    names = [p for p in sig.parameters if p not in ('self', 'cls')]
    for n in vals:
        if n not in names:
            raise Opaque('encode() has no parameter %r' % n)
    extra = [n for n in names if n not in vals and sig.parameters[n].default is inspect.Parameter.empty]
    if extra:
        raise Opaque('encode() requires %r which encode_parameters does not advertise' % extra)
    before_c, before_i = snapshot(cls), snapshot(inst)
    with Shadow(pyir) as sh:
        ST.active, ST.script, ST.pos, ST.path, ST.depth = True, [], 0, [], 0
        try:
            kw = {n: SymInt(v, ('param', n)) for n, v in vals.items()}
            if 'repeat_count' in names:
                kw['repeat_count'] = rc
            elif rc:
                raise Opaque('encode() has no repeat_count')
            code = inst.encode(**kw)
        finally:
            ST.active = False
            path = ST.path
        packets = sh.packets
    if path:
        raise Opaque('encode() branches on a parameter: %s' % json.dumps(path[0][0])[:120])
    if snapshot(cls) != before_c or snapshot(inst) != before_i:
        raise Opaque('encode() changes tables or keeps state on the class/instance')
    if not packets:
        raise Opaque('encode() does not call _build_packet')
    frames = [list(f) for f in code.normalized_rlc]
    refs = []
    for f in frames:
        ref = None
        for k, p in enumerate(packets):
            if p['result'] == f:
                ref = ('packet', k)
                break
        refs.append(ref if ref else ('lit', [int(x) for x in f]))
    data = {}
    for k, v in code._data.items():
        try:
            data[k] = sym_of(v)
        except Opaque:
            data[k] = ('const', -1)
    return dict(packets=[dict(args=p['args'], kwargs=p['kwargs'], cls=p['cls'], tables=p['tables']) for p in packets],
                frames=refs, frequency=(int(code._data['frequency']) if 'frequency' in code._data else None), repeat_count=int(code.repeat_count))


def strip_lits(x):
    """structure of an encode trace with the concrete frame contents removed (they depend on the values)"""
    y = copy.deepcopy(x)
    for p in y['packets']:
        p.pop('result', None)
    return y


def trace_encode(pyir, cls, seed=0, runs=6):
    rnd = random.Random('enc/%s/%d' % (cls.__name__, seed))
    out = {}
    for rc in (0, 1, 2):
        first = None
        r = tries = 0
        while r < runs:
            vals = param_values(cls, rnd, r if tries == 0 else 2)
            try:
                t = trace_encode_once(pyir, cls, vals, rc)
            except pyir.EncodeError:
                tries += 1
                if tries > 40:
                    raise Opaque('encode() refuses (EncodeError) nearly every advertised value')
                continue
            r += 1
            tries = 0
            s = json.dumps(t, sort_keys=True)
            if first is None:
                first = s
                out[rc] = t
            elif s != first:
                raise Opaque('encode() trace depends on the parameter values beyond the recorded expressions (rc=%d)' % rc)
    return out


# ---------------------------------------------------------------------------------------------------
# decode wrapper

class _Timer(object):
    def __init__(self, log):
        self.log = log

    def stop(self):
        self.log.append(('stopLast',))

    def __getattr__(self, n):
        raise Opaque('last code timer.%s used' % n)


def trace_decode_path(pyir, cls, frame_code, with_last, script, base_error=None):
    """one execution of cls.decode with forced decisions `script`; returns (path, leaf, script_after)"""
    base = pyir.protocol_base.IrProtocolBase
    IW = pyir.integer_wrapper.IntegerWrapper
    IRCode = pyir.ir_code.IRCode
    inst = cls()
    effects = []
    calls = []
    # the code object the stubbed base decode returns: a real IRCode with shadow-tagged fields
    params = dict(frequency=inst.frequency)
    for name, start, stop in inst._parameters:
        v = frame_code['fields'][name]
        w = IW(v, stop - start + 1, inst._bursts, inst.encoding)
        w._sym = ('field', name)
        params[name] = w
    code = IRCode(inst, list(frame_code['frame']), [list(frame_code['frame'])], params)
    code_id = id(code)
    orig_data = dict(code._data)
    last = None
    if with_last:
        lp = dict(frequency=inst.frequency)
        for name, start, stop in inst._parameters:
            lw = IW(frame_code['fields'][name], stop - start + 1, inst._bursts, inst.encoding)
            lw._sym = ('lastfield', name)
            lp[name] = lw
        last = IRCode(inst, list(frame_code['frame']), [list(frame_code['frame'])], lp)
        last._repeat_timer = None
        object.__setattr__(last, '_IRCode__tracer_last', True)
    state = {'last': last}

    def stub_decode(self_, data, frequency=0):
        calls.append(1)
        if len(calls) > 1:
            raise Opaque('base decode called more than once')
        if base_error is not None:
            raise base_error
        return code

    def get_last(self_):
        return state['last']

    def set_last(self_, v):
        if v is None:
            effects.append(('setLast', 'none'))
        elif v is code:
            effects.append(('setLast', 'code'))
        elif v is last:
            effects.append(('setLast', 'last'))
        else:
            raise Opaque('_last_code set to another object')
        state['last'] = v

    o_eq = IRCode.__dict__['__eq__']

    def code_eq(a, b):
        if ST.depth == 0 and isinstance(b, IRCode) and ({id(a), id(b)} == {code_id, id(last)}):
            if set(code._data) != set(orig_data) or any(code._data[k] is not orig_data[k] for k in orig_data):
                raise Opaque('the decoded fields are modified before the code is compared with the held one')
            ST.depth += 1
            try:
                c = o_eq(a, b)
            finally:
                ST.depth -= 1
            return SymBool(('lastEq',), c)
        ST.depth += 1
        try:
            return o_eq(a, b)
        finally:
            ST.depth -= 1

    def code_ne(a, b):
        r = code_eq(a, b)
        if isinstance(r, SymBool):
            return SymBool(('not', r.cond), not r.concrete)
        return not r

    timer = _Timer(effects)
    o_rt = IRCode.__dict__.get('repeat_timer')
    before_c, before_i = snapshot(cls), snapshot(inst)

    def held_state():
        if last is None:
            return None
        try:
            return (sorted((k, repr(v)) for k, v in last._data.items()), repr(getattr(last, '_normalized_rlc', None)),
                    repr(getattr(last, '_original_rlc', None)))       # repeat_count is a counter, not part of the model
        except Exception:
            return 'unreadable'
    before_l = held_state()
    with Shadow(pyir) as sh:
        sh.patch(base, 'decode', stub_decode)
        sh.patch(base, '_last_code', property(get_last, set_last))
        sh.patch(IRCode, '__eq__', code_eq)
        sh.patch(IRCode, '__ne__', code_ne)
        if o_rt is not None:
            sh.patch(IRCode, 'repeat_timer', property(lambda self_: timer if self_ is last else o_rt.fget(self_)))
        ST.active, ST.script, ST.pos, ST.path, ST.depth = True, list(script), 0, [], 0
        leaf = None
        try:
            try:
                r = inst.decode(list(frame_code['frame']), inst.frequency)
                if r is last and last is not None:
                    leaf = ('retLast',)
                elif isinstance(r, IRCode):
                    fields = {}
                    for k, v in r._data.items():
                        if k == 'frequency':
                            continue
                        fields[k] = sym_of(v)
                    leaf = ('ret', sorted(fields.items()), r is code)
                else:
                    leaf = ('retOther', type(r).__name__)
            except Opaque:
                raise
            except Exception as e:
                if not isinstance(e, pyir.IRException):
                    raise Opaque('a path of decode() raises %s (a value-dependent lookup or attribute the tracer cannot follow)' % e.__class__.__name__)
                leaf = ('raise', e.__class__.__name__)
        finally:
            ST.active = False
        path, script_after = ST.path, ST.script
    if snapshot(cls) != before_c or snapshot(inst) != before_i:
        raise Opaque('decode() changes tables or keeps state on the class/instance')
    if held_state() != before_l:
        raise Opaque('decode() modifies the held code object in place (fields or frame lists)')
    if base_error is None and not calls:
        raise Opaque('decode() does not call the base decoder')
    return path, (leaf, list(effects)), script_after


def explore_decode(pyir, cls, frame_code, with_last, base_error=None, max_paths=200):
    """DFS over forced decisions -> tree"""
    paths = []
    script = []
    while True:
        path, leaf, script = trace_decode_path(pyir, cls, frame_code, with_last, script, base_error)
        paths.append((path, leaf))
        if len(paths) > max_paths:
            raise Opaque('more than %d paths' % max_paths)
        # backtrack: flip the last False decision
        script = [o for _, o in path]
        while script and script[-1] is True:
            script.pop()
        if not script:
            break
        script[-1] = True

    def build(ps, depth):
        if len(ps) == 1 and len(ps[0][0]) == depth:
            return ('leaf', ps[0][1][1], ps[0][1][0])
        cond = ps[0][0][depth][0]
        for p, _ in ps:
            if len(p) <= depth or p[depth][0] != cond:
                raise Opaque('decision sequence is not a tree (condition differs between runs)')
        f = [x for x in ps if x[0][depth][1] is False]
        t = [x for x in ps if x[0][depth][1] is True]
        if not f or not t:
            raise Opaque('incomplete exploration')
        return ('if', cond, build(t, depth + 1), build(f, depth + 1))
    return build(paths, 0)


def valid_frames(pyir, cls, seed, n):
    """n concrete (fields, frame) samples for the stubbed base decode: real encoder output decoded by the
    REAL base decoder where possible, else random field values on a dummy frame"""
    rnd = random.Random('dec/%s/%d' % (cls.__name__, seed))
    base = pyir.protocol_base.IrProtocolBase
    out = []
    for r in range(n):
        inst = cls()
        fields = None
        frame = [1000, -1000]
        if r % 2 == 0:
            try:
                vals = param_values(cls, rnd, 2)
                code = inst.encode(**vals)
                frame = [int(x) for x in code.normalized_rlc[0]]
                c = base.decode(cls(), list(frame), inst.frequency)
                fields = {k: int(v) for k, v in c._data.items() if k != 'frequency'}
            except Exception:
                fields = None
        if fields is None or set(fields) != set(p[0] for p in inst._parameters):
            fields = {}
            for name, start, stop in inst._parameters:
                w = stop - start + 1
                fields[name] = rnd.choice([0, (1 << w) - 1, rnd.randrange(1 << w)])
        out.append(dict(fields=fields, frame=frame))
    return out


def trace_decode(pyir, cls, seed=0, runs=5):
    base = pyir.protocol_base.IrProtocolBase
    if cls.decode is base.decode or cls.__dict__.get('decode') is None and all('decode' not in k.__dict__ for k in cls.__mro__[:-2] if k is not base):
        return dict(overridden=False)
    res = {}
    frames = valid_frames(pyir, cls, seed, runs)
    for with_last in (False, True):
        first = None
        for fc in frames:
            t = explore_decode(pyir, cls, fc, with_last)
            s = json.dumps(t, sort_keys=True)
            if first is None:
                first = s
                res['some' if with_last else 'none'] = t
            elif s != first:
                raise Opaque('decode() trace depends on the field values beyond the recorded expressions')
    # what the wrapper does when the base decoder raises
    DecodeError = pyir.DecodeError
    for with_last in (False, True):
        t = explore_decode(pyir, cls, frames[0], with_last, base_error=DecodeError('x'))
        if t[0] != 'leaf' or t[2] != ('raise', 'DecodeError') or t[1]:
            raise Opaque('decode() handles errors of the base decoder itself')
    res['overridden'] = True
    return res


def trace_protocol(pyir, cls, seed=0):
    out = dict(name=cls.__name__)
    try:
        out['encode'] = trace_encode(pyir, cls, seed)
    except Opaque as e:
        out['encode_opaque'] = str(e)
    except Exception as e:
        out['encode_opaque'] = 'tracer: %s: %s' % (e.__class__.__name__, str(e)[:200])
    try:
        out['decode'] = trace_decode(pyir, cls, seed)
    except Opaque as e:
        out['decode_opaque'] = str(e)
    except Exception as e:
        out['decode_opaque'] = 'tracer: %s: %s' % (e.__class__.__name__, str(e)[:200])
    return out


def main():
    repo = os.environ.get('VERIF_REPO', '/repo')
    sys.path.insert(0, repo)
    pyir = load_pyir()
    base = pyir.protocol_base
    classes = [c for c in base.ProtocolBaseMeta._classes if c is not base.IrProtocolBase]
    only = sys.argv[1:]
    res = []
    for c in classes:
        if only and only[0] != '--json' and c.__name__ not in only:
            continue
        res.append(trace_protocol(pyir, c))
    if '--json' in sys.argv:
        pass
    if only and only[0] == '--json':
        json.dump(res, open(only[1], 'w'))
    elif only:
        print(json.dumps(res, indent=1))
    else:
        import collections
        eo = collections.Counter(r.get('encode_opaque', 'ok')[:70] for r in res)
        do = collections.Counter(r.get('decode_opaque', 'ok')[:70] for r in res)
        print('encode:'); [print('  %3d %s' % (n, k)) for k, n in eo.most_common()]
        print('decode:'); [print('  %3d %s' % (n, k)) for k, n in do.most_common()]
        both = [r['name'] for r in res if 'encode' in r and 'decode' in r]
        print('both traced:', len(both))


if __name__ == '__main__':
    main()
