#!/bin/bash
# runs every stored seed against the quick tier of its property's check; prints one line per seed
# usage: tools/seed_all.sh [seed-name ...]
cd "$(dirname "$0")/.."
names=${@:-$(ls seeded)}
for n in $names; do
  prop=${n:0:3}
  if grep -q '"status": "superseded' seeded/$n/meta.json 2>/dev/null; then echo "$n superseded"; continue; fi
  out=$(tools/seedrun.sh $n $prop quick 2>&1)
  rc=$(echo "$out" | grep -o "exit=[0-9]*$" | tail -1)
  nf=$(echo "$out" | grep -c "no-failing-input-found")
  v=$(echo "$out" | grep -c "^VIOLATION")
  rp=$(echo "$out" | grep "^VIOLATION" | head -1 | sed 's/.*replay=\([^ ]*\).*/\1/')
  how=""
  if [ -n "$rp" ] && [ -f "$rp" ]; then
    how=$(python3 -c "
import json,sys
e=json.load(open('$rp'))
f=e.get('first') or {}
fo=[o['name'] for o in e.get('failed_obligations',[])][:3]
print((f.get('site','') or e.get('kind','')), f.get('symptom',''), 'failed_obligations=%d %s disagreements=%d' % (len(e.get('failed_obligations',[])), fo, len(e.get('correspondence_disagreements',[]))))
" 2>/dev/null)
  fi
  echo "$n $prop $rc violations=$v no-input=$nf :: $how"
done
