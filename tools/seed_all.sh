#!/bin/bash
# runs every stored seed against the quick tier of its property's check; prints one line per seed
# usage: tools/seed_all.sh [seed-name ...]
cd "$(dirname "$0")/.."
names=${@:-$(ls seeded)}
for n in $names; do
  prop=${n:0:3}
  if grep -q '"status": "superseded' seeded/$n/meta.json 2>/dev/null; then echo "$n superseded"; continue; fi
  out=$(tools/seedrun.sh $n $prop quick 2>&1)
  rc=$(echo "$out" | grep -o "exit=[0-9]*$" | tail -1)
  nf=$(echo "$out" | grep -c "no-failing-input-found")
  v=$(echo "$out" | grep -c "^VIOLATION")
  echo "$n $prop $rc violations=$v no-input=$nf"
done
