#!/venv/bin/python
"""Synthesise known_findings.json entries from a dump of new violations (VERIF_DUMP=1 ./check Cxx --tier thorough).
usage: mkfindings.py Cxx [--apply]   (developer tool; never run by a check)
For each (site, symptom) group: predicate = per-parameter range narrower than the advertised one, if any."""
import json, sys, os, collections
sys.path.insert(0, os.path.dirname(os.path.abspath(__file__)))
import vlib, extract

pid = sys.argv[1]
import glob
d = {'new': []}
for fn in sorted(glob.glob(os.path.join(vlib.VERIF, 'replays', pid + '-all*.json'))):
    d['new'] += json.load(open(fn))['new']
tabs = {t['name']: t for t in extract.tables()}
groups = collections.defaultdict(list)
for v in d['new']:
    groups[(v['site'], v['symptom'])].append(v)
k = vlib.load_known()
out = []
for (site, sym), vs in sorted(groups.items()):
    proto = vs[0]['fields'].get('protocol', site)
    ranges = {n: (lo, hi) for n, lo, hi in tabs.get(proto, {}).get('encode_params', [])}
    conds = []
    for n, (lo, hi) in ranges.items():
        vals = [v['fields'][n] for v in vs if isinstance(v['fields'].get(n), int)]
        if len(vals) != len(vs) or not vals:
            continue
        mn, mx = min(vals), max(vals)
        if len(vs) >= 20:
            thr = 1 << (mn.bit_length() - 1) if mn >= 1 else 0
            if mn >= 2 and thr > lo and ((hi - thr + 1) / float(hi - lo + 1)) ** len(vs) < 1e-6:
                conds.append('%s >= %d' % (n, thr))
            if mx == lo and (1.0 / (hi - lo + 1)) ** len(vs) < 1e-6:
                conds.append('%s == %d' % (n, lo))
    if pid == 'C02':
        # shape of the difference: frame count, length difference, the set of differing values
        for fld in ('nframes',):
            vals = {v['fields'].get(fld) for v in vs}
            if len(vals) == 1 and len(vs) >= 3 and None not in vals and sym.startswith('sequence'):
                conds.append('%s == %d' % (fld, vals.pop()))
        if '-length' in sym:
            diffs = {v['fields']['exp'] - v['fields']['got'] for v in vs}
            if len(diffs) == 1 and len(vs) >= 3:
                conds.append('exp - got == %d' % diffs.pop())
            if len(vs) >= 3 and all(v['fields']['at'] == min(v['fields']['exp'], v['fields']['got']) for v in vs):
                conds.append('at == min(exp, got)')
        if '-values' in sym or '-sign' in sym:
            pairs = sorted({tuple(p) for v in vs for p in v['fields'].get('pairs', [])})
            if pairs and len(pairs) <= 12:
                conds.append('all(tuple(p) in %r for p in pairs)' % (pairs,))
    extra = sorted({kk for v in vs for kk in v['fields'] if kk in ('scenario', 'kind', 'held', 'err', 'table', 'order')})
    pred = ' and '.join(conds) if conds else None
    fid = '%s-%s-%s' % (pid, site, sym)
    if pred and pid != 'C02':
        fid += '-' + ''.join(ch if ch.isalnum() else '_' for ch in pred)[:40]
    ent = dict(id=fid, property=pid, site=site, symptom=sym, predicate=pred,
               what='%s: %s%s - e.g. %s' % (site, sym, (' when ' + pred) if pred else '', vs[0]['detail'][:160]),
               witness=dict(id=fid, input=vs[0]['input'], fields=vs[0]['fields']), count_when_recorded=len(vs), replayed=True)
    out.append(ent)
    print(len(vs), fid, '|', pred)
if '--apply' in sys.argv:
    ids = {e['id'] for e in out}
    keys = {(e['site'], e['symptom']) for e in out} if pid == 'C02' else set()
    k['findings'] = [f for f in k['findings'] if f['id'] not in ids and not (f.get('property') == pid and (f.get('site'), f.get('symptom')) in keys)] + out
    json.dump(k, open(os.path.join(vlib.VERIF, 'known_findings.json'), 'w'), indent=1)
    print('applied', len(out))
os._exit(0)
