"""Common machinery for the per-property checks (see DESIGN.md §2, §10).

Every check follows the same skeleton:
  1 generate  (optional) Lean data regenerated from /repo's working tree
  2 prove     lake build of the property's theorem file (+ generated obligations), axiom audit,
              forbidden-token grep
  3 correspond  model (Lean driver, line protocol) vs real code on the same operations
  4 search    the property's own oracle on the REAL code (always runs)
  5 verdict   evidence/<id>.json, KNOWN-FINDING / VIOLATION lines, exit code
"""
import json, os, re, subprocess, sys, time, hashlib, random, tempfile, shutil, traceback

VERIF = os.path.dirname(os.path.dirname(os.path.abspath(__file__)))
LEAN = os.path.join(VERIF, 'lean')
REPO = os.environ.get('VERIF_REPO', '/repo')
PY = '/venv/bin/python'
ALLOWED_AXIOMS = {'propext', 'Classical.choice', 'Quot.sound'}
FORBIDDEN = re.compile(r'\bsorry\b|\badmit\b|^\s*axiom\s|native_decide|bv_decide|implemented_by|\bunsafe\s|maxHeartbeats\s+0\b')

TRUSTED_BASE = [
    'Lean 4.33.0 kernel (leanchecker re-check in the thorough tier)',
    'axioms: subset of {propext, Classical.choice, Quot.sound} - audited with #print axioms on every run',
    'hand-written Lean model tied to /repo by the differential correspondence check of this run (generator coverage bounds what it sees)',
    'generated Lean data (IRGen/*) produced by tools/extract*.py from /repo working tree on this run',
    'CPython semantics of int/list/str as encoded in the model; canonicaliser of the harness',
]


def repo_import():
    """make `import pyIRDecoder` resolve to REPO's working tree (call before importing it)"""
    if REPO not in sys.path:
        sys.path.insert(0, REPO)
    os.environ.setdefault('KDSCHLOSSER_PYIRDECODER_VERIF', '1')


def seed():
    try:
        return int(os.environ.get('VERIF_SEED', '0'))
    except ValueError:
        return 0


def rng(*salt):
    h = hashlib.sha256(repr((seed(),) + salt).encode()).digest()
    return random.Random(int.from_bytes(h[:8], 'big'))


def run(cmd, cwd=None, timeout=3600, input=None, env=None):
    e = dict(os.environ)
    if env:
        e.update(env)
    p = subprocess.run(cmd, cwd=cwd, input=input, capture_output=True, text=True, timeout=timeout, env=e)
    return p.returncode, p.stdout, p.stderr


# ----------------------------------------------------------------------------- Lean side

def strip_comments(src):
    # remove /- ... -/ (nested not handled beyond one level, fine for our files) and -- comments
    out = []
    depth = 0
    i = 0
    while i < len(src):
        if src.startswith('/-', i):
            depth += 1
            i += 2
            continue
        if depth and src.startswith('-/', i):
            depth -= 1
            i += 2
            continue
        if depth:
            if src[i] == '\n':
                out.append('\n')
            i += 1
            continue
        if src.startswith('--', i):
            while i < len(src) and src[i] != '\n':
                i += 1
            continue
        out.append(src[i])
        i += 1
    return ''.join(out)


def forbidden_hits(paths):
    hits = []
    for p in paths:
        try:
            src = strip_comments(open(p).read())
        except OSError:
            continue
        for n, line in enumerate(src.splitlines(), 1):
            if FORBIDDEN.search(line):
                hits.append('%s:%d: %s' % (os.path.relpath(p, VERIF), n, line.strip()[:120]))
    return hits


def lean_files(subdirs=('IRModel', 'IRGen')):
    res = []
    for d in subdirs:
        for root, _, fs in os.walk(os.path.join(LEAN, d)):
            for f in fs:
                if f.endswith('.lean'):
                    res.append(os.path.join(root, f))
    return sorted(res)


def lake_build(targets, timeout=3000):
    """returns (ok, log). targets: module names"""
    rc, out, err = run(['lake', 'build'] + list(targets), cwd=LEAN, timeout=timeout)
    return rc == 0, out + err


def theorems_in(module):
    """names of theorems declared in a Lean source file (namespace-qualified)"""
    path = os.path.join(LEAN, module.replace('.', '/') + '.lean')
    src = strip_comments(open(path).read())
    ns = []
    names = []
    for line in src.splitlines():
        m = re.match(r'\s*namespace\s+(\S+)', line)
        if m:
            ns.append(m.group(1)); continue
        m = re.match(r'\s*end\s+(\S+)', line)
        if m and ns and ns[-1] == m.group(1):
            ns.pop(); continue
        m = re.match(r'\s*(?:@\[[^\]]*\]\s*)?(?:protected\s+)?theorem\s+([^\s:({\[]+)', line)
        if m:
            names.append('.'.join(ns + [m.group(1)]))
    return names


def axiom_audit(pid, modules, theorems):
    """#print axioms for every theorem; returns (ok, {thm: [axioms]}, log)"""
    path = os.path.join(LEAN, 'Audit_%s.lean' % pid)
    with open(path, 'w') as f:
        for m in modules:
            f.write('import %s\n' % m)
        for t in theorems:
            f.write('#print axioms %s\n' % t)
    rc, out, err = run(['lake', 'env', 'lean', path], cwd=LEAN, timeout=1800)
    res = {}
    # output: "'name' depends on axioms: [a,\n b]" or "'name' does not depend on any axioms"
    flat = out.replace('\n ', ' ')
    for line in flat.split('\n'):
        m = re.match(r"^'(.+)' depends on axioms: \[([^\]]*)\]", line)
        if m:
            res[m.group(1)] = [a_.strip() for a_ in m.group(2).split(',') if a_.strip()]
            continue
        m = re.match(r"^'(.+)' does not depend on any axioms", line)
        if m:
            res[m.group(1)] = []
    ok = rc == 0 and all(t in res for t in theorems) and all(set(v) <= ALLOWED_AXIOMS for v in res.values())
    try:
        os.remove(path)
    except OSError:
        pass
    return ok, res, out + err


class Driver:
    """runs ops through the Lean model (line protocol)."""
    def __init__(self):
        pass

    _built = False

    def run(self, lines, timeout=3000):
        if not Driver._built:
            lake_build(['IRModel'])          # no-op when setup_cmd has run; needed in a bare snapshot
            Driver._built = True
        data = '\n'.join(lines) + '\n'
        rc, out, err = run(['lake', 'env', 'lean', '--run', 'Driver.lean'], cwd=LEAN, input=data, timeout=timeout)
        res = out.split('\n')
        if res and res[-1] == '':
            res.pop()
        if rc != 0 or len(res) != len(lines):
            raise RuntimeError('driver failed rc=%s lines=%d/%d\n%s' % (rc, len(res), len(lines), (err or out)[-2000:]))
        return res


# ----------------------------------------------------------------------------- findings

def load_known():
    p = os.path.join(VERIF, 'known_findings.json')
    if not os.path.exists(p):
        return {'findings': [], 'fixed': []}
    return json.load(open(p))


def finding_matches(f, v):
    """f: known finding entry; v: violation dict. Match = same property, same site, same symptom,
    and the entry's predicate (python expression over the violation's fields) holds."""
    if f.get('site') != v.get('site') or f.get('symptom') != v.get('symptom'):
        return False
    pred = f.get('predicate')
    if not pred:
        return True
    env = dict(v.get('fields', {}))
    env['v'] = v
    try:
        return bool(eval(pred, {'__builtins__': {'len': len, 'abs': abs, 'min': min, 'max': max, 'any': any, 'all': all, 'int': int, 'str': str, 'sum': sum, 'set': set, 'sorted': sorted, 'isinstance': isinstance, 'list': list, 'dict': dict, 'tuple': tuple}}, env))
    except Exception:
        return False


# ----------------------------------------------------------------------------- context / verdict

class Ctx:
    def __init__(self, pid, tier):
        self.pid = pid
        self.tier = tier
        self.t0 = time.time()
        self.seed = seed()
        self.obligations = []          # (name, ok, detail)
        self.corr = {'ops': 0, 'disagreements': [], 'dist': {}}
        self.violations = []           # dicts: site, symptom, fields, detail, input
        self.known_hits = {}           # finding id -> first violation
        self.evals = 0
        self.nontrivial = set()
        self.samples = []
        self.notes = []
        self.infra_errors = []
        self.extra = {}
        self.rule = ''
        self.level = 'proof'
        self.assumptions = []
        self.exhaustive = None
        self.work = tempfile.mkdtemp(prefix='verif_%s_' % pid)

    thorough = property(lambda self: self.tier == 'thorough')

    def oblige(self, name, ok, detail=''):
        self.obligations.append((name, bool(ok), detail))

    def sample(self, s, limit=6):
        if len(self.samples) < limit:
            self.samples.append(s)

    def count(self, key=None, nontrivial=True):
        self.evals += 1
        if nontrivial and key is not None:
            self.nontrivial.add(key if isinstance(key, (str, int, tuple)) else repr(key))

    def violation(self, site, symptom, detail, fields=None, input=None):
        self.violations.append(dict(site=site, symptom=symptom, detail=detail, fields=fields or {}, input=input))

    def disagree(self, op, model, real):
        self.corr['disagreements'].append(dict(op=op, model=model, real=real))

    def cleanup(self):
        shutil.rmtree(self.work, ignore_errors=True)


def gen_failures(module):
    """elaborate a generated module directly and map error lines to theorem names"""
    path = os.path.join(LEAN, module.replace('.', '/') + '.lean')
    rc, out, err = run(['lake', 'env', 'lean', path], cwd=LEAN, timeout=1800)
    src = open(path).read().splitlines()
    bad = {}
    for m in re.finditer(r'\.lean:(\d+):\d+: error:?\s*(.*)', out + err):
        ln = int(m.group(1))
        name = None
        for k in range(ln - 1, -1, -1):
            mm = re.match(r'\s*theorem\s+(\S+)', src[k]) if k < len(src) else None
            if mm:
                name = mm.group(1)
                break
        bad[name or ('line %d' % ln)] = m.group(2)[:200]
    return bad


def prove(ctx, modules, gen_modules=()):
    """step 2. Build theorem modules, audit axioms, grep."""
    t = time.time()
    ok, log = lake_build(list(modules) + list(gen_modules))
    if not ok and gen_modules:
        # hand-written part alone
        ok_hand, log_hand = lake_build(list(modules))
        if ok_hand:
            bad_total = 0
            for gm in gen_modules:
                ok_g, _ = lake_build([gm])
                names = theorems_in(gm)
                if ok_g:
                    continue
                bad = gen_failures(gm)
                ns = gm + '.'
                shorts = {n_.split('.')[-1] for n_ in names}
                if not (set(bad) & shorts):
                    # nothing of its own failed: an imported generated module did not build (the per-protocol instances
                    # of a failed obligation) -- one failed entry, its theorems are not reported as checked
                    ctx.oblige(gm, False, 'not built: ' + (next(iter(bad.values()), 'an imported generated module has failing obligations'))[:200])
                    continue
                for n_ in names:
                    short = n_.split('.')[-1]
                    if short in bad:
                        ctx.oblige(n_, False, 'kernel evaluation failed: ' + bad[short])
                        bad_total += 1
                    else:
                        ctx.oblige(n_, True, 'elaborated (module has other failing obligations; no axiom audit)')
                if not bad:
                    ctx.oblige(gm, False, 'module failed to build')
            ctx.extra['failed_generated_obligations'] = bad_total
            aok, res, alog = axiom_audit(ctx.pid, list(modules), [t_ for m_ in modules for t_ in theorems_in(m_)])
            for m_ in modules:
                for t_ in theorems_in(m_):
                    if t_ in res and set(res[t_]) <= ALLOWED_AXIOMS:
                        ctx.oblige(t_, True, 'axioms [' + ','.join(res[t_]) + ']')
                    else:
                        ctx.oblige(t_, False, 'axiom audit: ' + str(res.get(t_)))
            hits = forbidden_hits(lean_files())
            ctx.oblige('no_forbidden_tokens', not hits, '; '.join(hits[:5]))
            ctx.extra['lake_build_s'] = round(time.time() - t, 1)
            return False
    ctx.extra['lake_build_s'] = round(time.time() - t, 1)
    failed_mods = []
    if not ok:
        # find which modules failed
        for m in re.finditer(r'✖ \[\d+/\d+\] (?:Building|Built) (\S+)', log):
            failed_mods.append(m.group(1))
        for m in re.finditer(r'error: (\S+\.lean):(\d+):(\d+): (.*)', log):
            ctx.notes.append('lean error %s:%s: %s' % (m.group(1), m.group(2), m.group(4)[:200]))
        ctx.extra['lake_log_tail'] = log[-3000:]
    thms = []
    for m in list(modules) + list(gen_modules):
        try:
            thms += [(m, t_) for t_ in theorems_in(m)]
        except OSError:
            pass
    if ok:
        aok, res, alog = axiom_audit(ctx.pid, list(modules) + list(gen_modules), [t_ for _, t_ in thms])
        for m, t_ in thms:
            if t_ not in res:
                ctx.oblige(t_, False, 'not found by #print axioms')
            elif not set(res[t_]) <= ALLOWED_AXIOMS:
                ctx.oblige(t_, False, 'axioms ' + ','.join(res[t_]))
            else:
                ctx.oblige(t_, True, 'axioms [' + ','.join(res[t_]) + ']')
        if not aok and all(o[1] for o in ctx.obligations):
            ctx.oblige('axiom_audit', False, alog[-500:])
    else:
        # which theorems are in failed modules -> failed; others unknown -> treat as failed too
        for m, t_ in thms:
            ctx.oblige(t_, False, 'lake build failed' + (' in ' + ','.join(failed_mods) if failed_mods else ''))
        if not thms:
            ctx.oblige('lake_build', False, log[-500:])
    if ok and ctx.thorough:
        # independent re-check of the compiled declarations by the toolchain's leanchecker (thorough tier only)
        mods = list(modules) + list(gen_modules)
        try:
            rc, out, err = run(['lake', 'env', 'leanchecker'] + mods, cwd=LEAN, timeout=2400)
            txt = (out + err).strip()
            ctx.oblige('leanchecker', rc == 0 and 'exception' not in txt.lower() and 'error' not in txt.lower(),
                       ('re-checked %d modules' % len(mods)) if rc == 0 else txt[-300:])
        except Exception as e:
            ctx.oblige('leanchecker', False, 'could not run: %s' % str(e)[:200])
    hits = forbidden_hits(lean_files())
    ctx.oblige('no_forbidden_tokens', not hits, '; '.join(hits[:5]))
    return ok


def finish(ctx):
    """step 5: verdict, evidence, exit code"""
    known = load_known()
    findings = [f for f in known.get('findings', []) if f.get('property') == ctx.pid]
    new_violations = []
    known_seen = {}
    for v in ctx.violations:
        for f in findings:
            if finding_matches(f, v):
                known_seen.setdefault(f['id'], (f, v))
                break
        else:
            new_violations.append(v)
    failed_obl = [o for o in ctx.obligations if not o[1]]
    disagreements = ctx.corr['disagreements']
    if os.environ.get('VERIF_DUMP'):
        os.makedirs(os.path.join(VERIF, 'replays'), exist_ok=True)
        json.dump(dict(new=new_violations, known={k: v[1] for k, v in known_seen.items()}),
                  open(os.path.join(VERIF, 'replays', ctx.pid + '-all.json'), 'w'), indent=1, default=str)
    lines = []
    for fid, (f, v) in sorted(known_seen.items()):
        lines.append('KNOWN-FINDING: property=%s %s' % (ctx.pid, f.get('what', fid)))
    stale = [f['id'] for f in findings if f['id'] not in known_seen and f.get('replayed')]
    os.makedirs(os.path.join(VERIF, 'replays'), exist_ok=True)
    rc = 0
    replay_paths = []
    if new_violations:
        # group by (site, symptom): one replay per group, at most 5 groups reported
        groups = {}
        for v in new_violations:
            groups.setdefault((v['site'], v['symptom']), []).append(v)
        for n, ((site, sym), vs) in enumerate(sorted(groups.items())[:8], 1):
            path = os.path.join('replays', '%s-%d.json' % (ctx.pid, n))
            json.dump(dict(property=ctx.pid, tier=ctx.tier, seed=ctx.seed, site=site, symptom=sym,
                           count=len(vs), first=vs[0], more=vs[1:4],
                           failed_obligations=[o[0] + ': ' + o[2] for o in failed_obl][:20],
                           correspondence_disagreements=disagreements[:5]),
                      open(os.path.join(VERIF, path), 'w'), indent=1, default=str)
            lines.append('VIOLATION property=%s replay=%s' % (ctx.pid, path))
            replay_paths.append(path)
        rc = 1
    elif failed_obl or disagreements:
        path = os.path.join('replays', '%s-proof.json' % ctx.pid)
        json.dump(dict(property=ctx.pid, tier=ctx.tier, seed=ctx.seed,
                       kind='proof-or-correspondence-broken',
                       failed_obligations=[dict(name=o[0], detail=o[2]) for o in failed_obl][:50],
                       correspondence_disagreements=disagreements[:20],
                       note='no failing input was found on the implementation by the search of this run; '
                            'the property is no longer SHOWN to hold',
                       lake_log_tail=ctx.extra.get('lake_log_tail', '')),
                  open(os.path.join(VERIF, path), 'w'), indent=1, default=str)
        lines.append('VIOLATION property=%s replay=%s no-failing-input-found' % (ctx.pid, path))
        replay_paths.append(path)
        rc = 1
    if ctx.infra_errors and rc == 0:
        rc = 2
    n_obl = len(ctx.obligations)
    n_dis = sum(1 for o in ctx.obligations if o[1])
    cov = dict(
        obligations=n_obl, discharged=n_dis,
        checker_cmd='cd lean && lake build <modules> && lake env lean Audit_%s.lean  (#print axioms on every theorem)' % ctx.pid,
        trusted_base=TRUSTED_BASE + ctx.assumptions,
        evaluations=ctx.evals, distinct_nontrivial=len(ctx.nontrivial), rule=ctx.rule,
        samples=ctx.samples or ['(none)'],
        theorems=[o[0] + ' : ' + o[2] for o in ctx.obligations][:400],
        failed_obligations=[o[0] + ' : ' + o[2] for o in failed_obl][:100],
        correspondence_ops=ctx.corr['ops'], correspondence_disagreements=len(disagreements),
        correspondence_distribution=ctx.corr['dist'],
        known_findings_reobserved=sorted(known_seen.keys()),
        known_findings_stale=stale,
        new_violations=len(new_violations),
        notes=ctx.notes[:50],
    )
    if ctx.exhaustive is not None:
        cov['exhaustive'] = bool(ctx.exhaustive)
    cov.update(ctx.extra)
    if ctx.level == 'other':
        cov.setdefault('explanation', ctx.rule)
    ev = dict(property_id=ctx.pid, tier=ctx.tier, seed=ctx.seed, level=ctx.level, coverage=cov,
              assumptions=TRUSTED_BASE + ctx.assumptions, wall_s=round(time.time() - ctx.t0, 2),
              violations=len(new_violations) + (1 if (rc == 1 and not new_violations) else 0))
    os.makedirs(os.path.join(VERIF, 'evidence'), exist_ok=True)
    json.dump(ev, open(os.path.join(VERIF, 'evidence', ctx.pid + '.json'), 'w'), indent=1, default=str)
    for l in lines:
        print(l)
    for e in ctx.infra_errors:
        print('INFRA-ERROR: ' + e)
    print('%s tier=%s seed=%d obligations=%d/%d corr_ops=%d disagreements=%d evals=%d nontrivial=%d known=%d new=%d wall=%.1fs exit=%d' % (
        ctx.pid, ctx.tier, ctx.seed, n_dis, n_obl, ctx.corr['ops'], len(disagreements), ctx.evals,
        len(ctx.nontrivial), len(known_seen), len(new_violations), time.time() - ctx.t0, rc))
    ctx.cleanup()
    sys.stdout.flush()
    return rc
