"""C11 — dispatcher reports every new key press exactly as its protocol decodes it.
Model: lean/IRModel/Dispatcher.lean; theorems: IRModel/Props/C11.lean."""
import vlib
from props import dispatch_common as dc

MODULES = ['IRModel.Props.C11']


def search(ctx, witnesses=()):
    import realenv, protos
    env = realenv
    env.take_control()
    r = vlib.rng('c11')
    decs = protos.all_decoders()
    order = {d: i for i, d in enumerate(decs)}
    # keys: per protocol up to 3 parameter sets whose first frame decodes on a fresh instance, and for which
    # the fresh instance neither leaks nor answers with a repeat marker
    keys = {}
    for d in decs:
        ks = []
        for _ in range(6):
            try:
                p = protos.sample_params(d, r)
                code = protos.encode(d, p)
                f = protos.frames(code)[0]
                c = protos.fresh(d).decode(f[:], d.frequency)
                v = protos.view(c, list(p))
                if v == p and all(v != k[0] for k in ks):
                    ks.append((p, f))
            except Exception:
                pass
            if len(ks) >= 3:
                break
        if len(ks) >= 2:
            keys[d] = ks
    regular = list(keys)

    def fresh_outcome(d, frame, f):
        """what a history-free decoder of d's class does with the frame"""
        try:
            c = protos.fresh(d).decode(frame[:], f)
            return ('ok', c)
        except Exception as e:
            return (protos.errclass(e), None)

    def set_enabled(on):
        for d in decs:
            d.enabled = d in on

    def reset():
        env.reset_dispatcher()
        for d in decs:
            d._last_code = None

    def release():
        env.clock.advance(10 ** 7)
        env.poll_timers()
        env.drain_process()

    def run_trace(on, steps, tag):
        """steps: list of 'release' | (decoder, params, frame, f, form)"""
        reset()
        set_enabled(set(on))
        held = None
        trace = []
        for step, st in enumerate(steps):
            if st == 'release':
                release(); held = None; trace.append('release'); continue
            if st == 'expire-undrained':
                # the held key's timer runs out and the timer thread queues its release, but the process worker has not
                # run yet when the next frame arrives (the release callbacks then run while the timer is armed again)
                env.clock.advance(10 ** 7); env.poll_timers(); trace.append('expire-undrained'); continue
            d, p, fr, f, form = st
            trace.append('press %s %s f=%d %s' % (d.name, p, f, form))
            possible = [x for x in sorted(on, key=lambda z: order[z]) if f == 0 or x.frequency_match(f)]
            outcomes = [(x,) + fresh_outcome(x, fr, f) for x in possible]
            env.clock.advance(50)
            try:
                got = env.protocols.decode(tuple(fr) if form == 'tuple' else fr[:], f)
                raised = None
            except Exception as e:
                got, raised = None, e
            env.drain_process()
            ctx.count((tag, step), nontrivial=True)
            is_repeat = held is not None and held[:2] == (d, p)
            clean = all(o[1] == 'ok' or o[1].startswith('IR:') and 'Repeat' not in o[1] for o in outcomes)
            accepting = [o for o in outcomes if o[1] == 'ok']
            fields = dict(protocol=d.name, step=step, scenario='held' if held else 'idle', held=held[0].name if held else None)
            wit = dict(enabled=[x.name for x in on], steps=[x if isinstance(x, str) else [x[0].name, x[1], x[3], x[4]] for x in steps[:step + 1]])
            if raised is not None:
                if clean:
                    ctx.violation('FakeModule.decode', 'raises', '%s after %s' % (type(raised).__name__, trace), fields, input=wit)
            elif not is_repeat and clean and accepting:
                if got is None:
                    ctx.violation('FakeModule.decode', 'new-key-not-reported', 'returned None; accepting decoders %s; trace %s' % ([o[0].name for o in accepting], trace),
                                  fields, input=wit)
                else:
                    own = fresh_outcome(got.decoder, fr, f)
                    names = [n for n, _, _ in got.decoder.encode_parameters]
                    if own[0] != 'ok' or protos.view(own[1], names) != protos.view(got, names) or str(own[1]) != str(got):
                        ctx.violation('FakeModule.decode', 'wrong-code-reported', 'returned %s but %s alone yields %s; trace %s' % (got, got.decoder.name, own[1] if own[0] == 'ok' else own[0], trace),
                                      fields, input=wit)
                    if got.decoder not in possible:
                        ctx.violation('FakeModule.decode', 'impossible-decoder', str(got), fields, input=wit)
            if got is not None:
                held = (d, p) if got.decoder is d else (got.decoder, None)
        return trace

    ctx._c11_run_trace = run_trace
    ctx._c11_keys = keys
    # stored witnesses of known findings and corpus first
    for w in witnesses:
        if not w.get('steps'):
            continue
        try:
            on = [protos.by_name(n) for n in w['enabled']]
            steps = []
            for st in w['steps']:
                if isinstance(st, str):
                    steps.append(st); continue
                d = protos.by_name(st[0])
                fr = protos.frames(protos.encode(d, st[1]))[0]
                steps.append((d, st[1], fr, st[2], st[3]))
            run_trace(on, steps, ('witness', w.get('id')))
        except Exception as e:
            ctx.notes.append('witness %s could not be replayed: %s' % (w.get('id'), type(e).__name__))

    # late release: press, the timer expires but the release is still queued when the same key arrives again, real release,
    # then the key is pressed once more and must be reported as a new press
    for d in r.sample(regular, 12 if not ctx.thorough else len(regular)):
        p, fr = keys[d][0]
        st = (d, p, fr, d.frequency, 'list')
        run_trace([d], [st, 'expire-undrained', st, 'release', st], ('late-release', d.name))
        if len(keys[d]) > 1:
            p2, fr2 = keys[d][1]
            st2 = (d, p2, fr2, d.frequency, 'list')
            run_trace([d], [st, 'expire-undrained', st, 'release', st2, 'release', st], ('late-release-2', d.name))
    n_seq = 120 if not ctx.thorough else 1500
    for s in range(n_seq):
        on = r.sample(regular, r.randint(1, 5))
        steps = []
        heldish = None
        for step in range(r.randint(2, 5)):
            if heldish is not None and r.random() < 0.35:
                steps.append('release'); heldish = None; continue
            d = r.choice(on) if r.random() < 0.7 or heldish is None else heldish
            p, fr = r.choice(keys[d])
            steps.append((d, p, fr, r.choice([d.frequency, d.frequency, 0]), r.choice(['list', 'list', 'tuple'])))
            heldish = d
        trace = run_trace(on, steps, ('seq', s))
        if s < 2:
            ctx.sample({'trace': trace})
    # pronto rendering gives the same answer as the list (single protocol enabled)
    pronto_known = [n for w in witnesses for n in w.get('pronto_protocols', [])]
    pick = r.sample(regular, 25 if not ctx.thorough else len(regular))
    pick += [d for d in regular if d.name in pronto_known and d not in pick]
    for d in pick:
        p, fr = keys[d][0]
        if d.frequency <= 0:
            continue
        reset(); set_enabled({d})
        a = env.protocols.decode(fr[:], d.frequency)
        env.drain_process()
        reset()
        try:
            pr = env.pyIRDecoder.pronto.rlc_to_pronto(d.frequency, [abs(v) for v in fr])
            b = env.protocols.decode(pr)
        except Exception as e:
            b = None
        env.drain_process()
        ctx.count(('pronto', d.name))
        if a is not None and (b is None or str(a) != str(b)):
            ctx.violation('FakeModule.decode', 'pronto-differs-from-list', '%s: list gives %s, pronto gives %s' % (d.name, a, b),
                          dict(protocol=d.name), input=dict(frame=fr, frequency=d.frequency))
    set_enabled(set(decs))
    reset()
    ctx.extra['regular_protocols_with_two_keys'] = len(regular)


def check(ctx):
    ctx.rule = ('correspondence: as C10 (REAL FakeModule._decode with scripted stub decoders vs the Lean model, incl. release events); '
                'search: random key-press / release sequences (depth 2..5) over 1..5 enabled regular protocols (2-3 keys each, list and tuple form, '
                'f in {nominal, 0}) on the real dispatcher under a virtual clock with harness-driven timer/worker queues; oracle = fresh per-protocol '
                'decoders: if some possible decoder accepts, none leaks or answers with a repeat marker, and the key is not the one currently held, '
                'the result is a code whose parameters and identity equal what a fresh decoder of the returned protocol yields; '
                'plus list-vs-Pronto agreement with a single protocol enabled. non-trivial = every press step')
    vlib.prove(ctx, MODULES)
    try:
        dc.correspondence(ctx, 60 if not ctx.thorough else 400, 30, 'c11')
    except Exception:
        import traceback
        ctx.oblige('correspondence_driver', False, traceback.format_exc()[-400:])
    known = [f.get('witness') for f in vlib.load_known().get('findings', []) if f.get('property') == 'C11' and (f.get('witness', {}).get('steps') or f.get('witness', {}).get('pronto_protocols'))]
    search(ctx, known)


def replay(path):
    ctx = vlib.Ctx('C11', 'quick')
    check(ctx)
    return vlib.finish(ctx)
