"""C17 — saved configuration loads back to the same settings.
Theorem: IRModel/Props/C17.lean (escape/unescape inverse for every string); tie: real XMLAttributes escape /
from_string unescape and attribute parser vs model; search: real Config.save -> Config -> load_config round trips."""
import vlib, os, tempfile, shutil
from props import xml_common as xc

MODULES = ['IRModel.Props.C17']


def check(ctx):
    ctx.rule = ('proof: unescape(escape(s)) = s for every string under Python str.replace semantics (after fix: 6a77bf4); correspondence: attribute values written by the REAL '
                'XMLElement.__str__ and read back by the REAL from_string vs the Lean escape/unescape/attribute scanner on strings over printable characters rich in the five XML metacharacters and '
                'entity look-alikes; search: random settings for all 174 protocols (enabled, tolerance and frequency_tolerance over ints and floats incl. exponent forms), URLs '
                'over printable characters, Config.save -> Config(path) -> load_config, every setting and the URL compared (value and type); a protocol saved disabled is not used. '
                'distinct = (run, protocol) settings triples and URL strings')
    vlib.prove(ctx, MODULES)
    env, protos = xc.setup()
    from pyIRDecoder import xml_handler, protocols
    r = vlib.rng('c17')
    known = [f for f in vlib.load_known().get('findings', []) if f.get('property') == 'C17']
    # ---- correspondence: escaping and attribute parsing through the real element writer/reader
    ops, reals = [], []
    texts = ['a &lt; b', '&amp;', '&', '<>"\'', '', 'x&amp;lt;y', "it's", 'a"b', 'k="v"'] + [xc.rand_text(r) for _ in range(150 if not ctx.thorough else 1500)]
    for s in texts:
        ops.append('xml_esc ' + xc.codes(s))
        try:
            el = xml_handler.XMLElement('T', value=s)
            line = str(el)                                  # <T value="..."/>
            esc = line[len('<T value="'):line.rindex('"')]
            back = xml_handler.XMLElement.from_string(line).attrib._XMLAttributes__data['value']
            un = s
            for a, b in xml_handler.UNESCAPE_CHARS:
                un = un.replace(a, b)
            reals.append('esc %s ; back %s ; un %s' % (xc.codes(esc), xc.codes(back), xc.codes(un)))
        except Exception as e:
            reals.append('err ' + type(e).__name__)
        ctx.count(('text', s), nontrivial=any(c in s for c in '&<>"\''))
        # the property's own oracle on the real round trip (string level, before eval)
        try:
            if back != s:
                ctx.violation('XMLElement', 'attribute-value-changed', 'value %r written and read back as %r' % (s, back), dict(kind='attribute'), input=dict(value=s))
        except Exception:
            pass
    for _ in range(60 if not ctx.thorough else 600):
        kvs = [(r.choice(['enabled', 'name', 'tolerance', 'frequency_tolerance', 'database_url', 'a_b']), xc.rand_text(r, r.randint(0, 10))) for _ in range(r.randint(1, 4))]
        d = {}
        for k, v in kvs:
            d[k] = v
        el = xml_handler.XMLElement('T')
        for k, v in d.items():
            el[k] = v
        line = str(el).strip()
        attr_line = line[len('<T'):-2]
        ops.append('xml_attrs ' + xc.codes(attr_line))
        got = xml_handler.XMLElement.from_string(line).attrib._XMLAttributes__data
        reals.append(' | '.join('%s = %s' % (xc.codes(k), xc.codes(got[k])) for k in sorted(d)))
    try:
        outs = vlib.Driver().run(ops)
        ctx.corr['ops'] = len(ops)
        ctx.corr['dist'] = {'xml_esc': len(texts), 'xml_attrs': len(ops) - len(texts)}
        for o, m, rl in zip(ops, outs, reals):
            if m != rl and len(ctx.corr['disagreements']) < 10:
                ctx.disagree(o[:300], m[:300], rl[:300])
    except Exception as e:
        ctx.oblige('correspondence_driver', False, str(e)[:300])
    # ---- search: full save / load round trips
    tmp = tempfile.mkdtemp(prefix='verif_c17_')
    original = xc.read_settings(protos)
    original_url = protocols.config.database_url
    try:
        urls = ['http://eventghost.net:43847', 'http://x/?a=1&b=<2>"q"\'s\' &lt; end', '', 'a &amp;amp; b', 'x=\'1\' y="2"', 'None', '1+1', '[1, 2]']
        urls += [w['witness']['input']['url'] for w in known if isinstance(w.get('witness', {}).get('input'), dict) and 'url' in w['witness']['input']]
        for _ in range(3 if not ctx.thorough else 25):
            urls.append(xc.rand_text(r, r.randint(1, 40)))
        for k, url in enumerate(urls):
            settings = xc.rand_settings(protos, r)
            xc.apply_settings(protos, settings, url)
            path = os.path.join(tmp, 'cfg%d.xml' % k)
            F = dict(kind='config')
            try:
                xc.save_config(path)
            except Exception as e:
                ctx.violation('Config.save', 'raises', '%s while saving (url %r)' % (type(e).__name__, url), F, input=dict(url=url))
                continue
            try:
                loaded, lurl = xc.load_config(path)
            except Exception as e:
                ctx.violation('load_config', 'raises', '%s while loading a file written by save() (url %r)' % (type(e).__name__, url), F, input=dict(url=url))
                continue
            protos_now = xc.setup()[1]
            ctx.count(('url', url), nontrivial=True)
            if lurl != url or type(lurl) is not type(url):
                evaluable = True
                try:
                    eval(url)
                except Exception:
                    evaluable = False
                ctx.violation('Config', 'database-url-changed', 'url %r loaded as %r' % (url, lurl), dict(kind='url', evaluable=evaluable, empty=(url == '')), input=dict(url=url))
            bad = 0
            for name, want in settings.items():
                got = loaded.get(name)
                ctx.count(('setting', k, name))
                if got is None or any((a != b or type(a) is not type(b)) for a, b in zip(got, want)):
                    bad += 1
                    if bad <= 3:
                        ctx.violation('load_config', 'setting-changed', '%s saved as %r loaded as %r' % (name, want, got), dict(kind='setting', protocol=name), input=dict(protocol=name, saved=list(want)))
            # a protocol saved as disabled is not used
            dis = [n for n, s in settings.items() if not s[0]][:3]
            for n in dis:
                d = protos_now.by_name(n)
                try:
                    fr = protos_now.frames(protos_now.encode(d, protos_now.mid_params(d)))[0]
                    got = protocols.decode(fr, d.frequency)
                    env.drain_process()
                    if got is not None and got.decoder.name == n:
                        ctx.violation('load_config', 'disabled-protocol-used', '%s was saved disabled but decodes after load' % n, dict(kind='setting', protocol=n), input=dict(protocol=n))
                except Exception:
                    pass
        ctx.sample({'url': urls[1], 'settings_example': list(next(iter(settings.items())))})
    finally:
        try:
            xc.apply_settings(xc.setup()[1], original, original_url)
        except Exception:
            pass
        shutil.rmtree(tmp, ignore_errors=True)


def replay(path):
    ctx = vlib.Ctx('C17', 'quick')
    check(ctx)
    return vlib.finish(ctx)
