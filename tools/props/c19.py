"""C19 — IntegerWrapper bit algebra. Model: lean/IRModel/Bits.lean; theorems: IRModel/Props/C19.lean."""
import vlib

MODULES = ['IRModel.Props.C19']


def _tables():
    # distinct pulse-distance symbols so that the REAL CodeWrapper parses symbol indices back
    return {L: [[500, -(600 + 400 * i)] for i in range(L)] for L in (2, 4, 16)}


def real_line(IW, CW, v, n, errors, pairs=None):
    """the driver's `iwall` line computed with the real classes"""
    def sl(x):
        return '%d/%d' % (int(x), x.num_bits)
    x = IW(v, n)
    parts = ['%d/%d' % (int(x), x.num_bits)]
    parts.append('it=' + ','.join(str(b) for b in x))
    parts.append('bits=' + ','.join(str(b) for b in x.bits))
    parts.append('rev=%d' % int(x.reverse_bit_order()))
    parts.append('inv=%d' % int(x.invert_bits()))
    parts.append('pop=%d' % int(x.num_one_bits))
    slices = []
    if pairs is None:
        pairs = [(w, s) for w in range(1, n + 1) for s in range(0, n + 1)]
    for w, s in pairs:
        a = x[None:w:s]
        c = x[True:w:s]
        r = x[None:-w:s]
        slices.append('%s:%s:%s' % (sl(a), sl(c), sl(r)))
    parts.append('sl=' + ' '.join(slices))
    syms = []
    tabs = _tables()
    for L in (2, 4, 16):
        for o in ('lsb', 'msb'):
            try:
                idx = IW(v, n, list(range(L)), o).timings
                tm = IW(v, n, tabs[L], o).timings
                flat = [t for sym in tm for t in sym]
                cw = CW(o, [], [], [], tabs[L], 1, flat)
                nb = cw.num_bits
                back = cw.get_value(0, nb - 1)
                syms.append('%s>%d/%d' % (','.join(map(str, idx)), int(back), back.num_bits))
            except Exception as e:
                errors.append((v, n, L, o, type(e).__name__))
                syms.append('err')
    parts.append('sy=' + ' '.join(syms))
    return ' '.join(parts)


def oracle(ctx, IW, CW, v, n, pairs=None):
    """the property's own arithmetic oracle on the real class"""
    x = IW(v, n)
    m = v % (1 << n)
    site = 'IntegerWrapper'
    F = dict(v=v, n=n)
    if int(x) != m or x.num_bits != n:
        ctx.violation(site, 'mask', 'IntegerWrapper(%d,%d) holds %d/%d' % (v, n, int(x), x.num_bits), F, input=[v, n])
    if list(x) != [(m >> i) & 1 for i in range(n)]:
        ctx.violation(site, 'iter', 'iteration of (%d,%d) = %r' % (v, n, list(x)), F, input=[v, n])
    rev = int(''.join(str((m >> i) & 1) for i in range(n)), 2) if n else 0
    r = x.reverse_bit_order()
    if int(r) != rev or int(r.reverse_bit_order()) != m or int(reversed(x)) != rev:
        ctx.violation(site, 'reverse', 'reverse of (%d,%d) = %d' % (v, n, int(r)), F, input=[v, n])
    iv = x.invert_bits()
    if int(iv) != (~m) & ((1 << n) - 1) or int(iv.invert_bits()) != m:
        ctx.violation(site, 'invert', 'invert of (%d,%d) = %d' % (v, n, int(iv)), F, input=[v, n])
    if int(x.num_one_bits) != bin(m).count('1'):
        ctx.violation(site, 'popcount', 'popcount of (%d,%d) = %d' % (v, n, int(x.num_one_bits)), F, input=[v, n])
    if pairs is None:
        pairs = [(w, s) for w in range(1, n + 1) for s in range(0, n - w + 1)]
    for w, s in pairs:
        if True:
            a = x[None:w:s]
            exp = (m >> s) & ((1 << w) - 1)
            if int(a) != exp or a.num_bits != w:
                ctx.violation(site, 'slice', '(%d,%d)[:%d:%d] = %d/%d expected %d/%d' % (v, n, w, s, int(a), a.num_bits, exp, w), dict(v=v, n=n, w=w, s=s), input=[v, n, w, s])
            c = x[True:w:s]
            if int(c) != ((1 << w) - 1) - exp or c.num_bits != w:
                ctx.violation(site, 'slice-complement', '(%d,%d)[True:%d:%d] = %d/%d' % (v, n, w, s, int(c), c.num_bits), dict(v=v, n=n, w=w, s=s), input=[v, n, w, s])
            # reversed slice: the bits of the plain slice in reverse order, within the slice width; an involution there
            rs = x[None:-w:s]
            rexp = int(''.join(str((exp >> i) & 1) for i in range(w)), 2)
            if int(rs) != rexp or rs.num_bits != w or int(rs[None:-w:0]) != exp:
                ctx.violation(site, 'slice-reversed', '(%d,%d)[:-%d:%d] = %d/%d expected %d/%d' % (v, n, w, s, int(rs), rs.num_bits, rexp, w), dict(v=v, n=n, w=w, s=s), input=[v, n, w, s])
            if s == 0:
                # reversal within an explicit width not wider than the field: the low w bits reversed
                rw = x.reverse_bit_order(w)
                if int(rw) != rexp or int(rw.reverse_bit_order(w)) != exp:
                    ctx.violation(site, 'reverse-width', 'reverse_bit_order(%d) of (%d,%d) = %d expected %d' % (w, v, n, int(rw), rexp), dict(v=v, n=n, w=w), input=[v, n, w])
    tabs = _tables()
    for L, k in ((2, 1), (4, 2), (16, 4)):
        for o in ('lsb', 'msb'):
            F2 = dict(v=v, n=n, table=L, order=o)
            try:
                tm = IW(v, n, tabs[L], o).timings
            except Exception as e:
                ctx.violation(site, 'render-raises', '(%d,%d) table %d %s: %s' % (v, n, L, o, type(e).__name__), F2, input=[v, n, L, o])
                continue
            if len(tm) != -(-n // k):
                ctx.violation(site, 'symbol-count', '(%d,%d) table %d %s: %d symbols' % (v, n, L, o, len(tm)), F2, input=[v, n, L, o])
            try:
                flat = [t for sym in tm for t in sym]
                cw = CW(o, [], [], [], tabs[L], 1, flat)
                back = int(cw.get_value(0, cw.num_bits - 1))
            except Exception as e:
                ctx.violation(site, 'parse-raises', '(%d,%d) table %d %s: %s' % (v, n, L, o, type(e).__name__), F2, input=[v, n, L, o])
                continue
            if back != m:
                ctx.violation(site, 'render-parse', '(%d,%d) table %d %s parses back as %d' % (v, n, L, o, back), F2, input=[v, n, L, o])


def cases(ctx):
    r = vlib.rng('c19')
    maxw = 6 if not ctx.thorough else 9
    out = []
    for n in range(1, maxw + 1):
        for v in range(0, 1 << (n + 2)):
            out.append((v, n, None))
    exhaustive_upto = maxw
    # widths up to 16: all values for the thorough tier up to 12 bits with sampled slices, sampled values above
    for n in range(maxw + 1, 17):
        if ctx.thorough and n <= 12:
            vals = range(0, 1 << n, 1)
        else:
            vals = sorted({0, 1, (1 << n) - 1, 1 << (n - 1), (1 << n) + 5} | {r.getrandbits(n + 2) for _ in range(12)})
        for v in vals:
            pairs = sorted({(r.randint(1, n), r.randint(0, n)) for _ in range(4)} | {(n, 0), (1, n - 1)})
            out.append((v, n, pairs))
    # sampled larger widths (slices make a line O(n^2): keep n moderate for the combined line)
    wide = [17, 24, 31, 32, 33, 47, 48, 56, 63, 64, 65, 96, 127, 128] if ctx.thorough else [17, 24, 32, 33, 48, 64, 127, 128]
    for n in wide:
        vals = {0, 1, (1 << n) - 1, 1 << (n - 1), (1 << n), (1 << n) + 1, (1 << (n + 1)) - 1}
        for _ in range(4 if not ctx.thorough else 20):
            vals.add(r.getrandbits(n + 2))
        for v in sorted(vals):
            pairs = sorted({(r.randint(1, n), r.randint(0, n)) for _ in range(6)} | {(n, 0), (1, n - 1), (8, 0), (n - 1, 1)})
            out.append((v, n, pairs))
    return out, exhaustive_upto


def check(ctx):
    vlib.prove(ctx, MODULES)
    vlib.repo_import()
    from pyIRDecoder.integer_wrapper import IntegerWrapper as IW
    from pyIRDecoder.code_wrapper import CodeWrapper as CW
    cs, upto = cases(ctx)
    ctx.rule = ('exhaustive: widths 1..%d x values 0..2^(w+2)-1, every (width,start) slice incl. complemented and reversed forms, '
                'tables of 2/4/16 entries x lsb/msb rendered by the real IntegerWrapper.timings and parsed back by the real CodeWrapper '
                '(symbol index -> bits -> get_value); sampled widths up to 128. Each (v,n) is one correspondence line (Driver op iwall) and '
                'one oracle evaluation. distinct = distinct (v,n); non-trivial = v not in {0} and n >= 2' % upto)
    errors = []
    ops, reals = [], []
    for v, n, pairs in cs:
        ops.append('iwall %d %d' % (v, n) + ('' if pairs is None else ' ' + ' '.join('%d %d' % p for p in pairs)))
        try:
            reals.append(real_line(IW, CW, v, n, errors, pairs))
        except Exception as e:
            reals.append('err ' + type(e).__name__)
    try:
        outs = vlib.Driver().run(ops)
        ctx.corr['ops'] = len(ops)
        ctx.corr['dist'] = {'iwall': len(ops), 'real-side render/parse errors': len(errors)}
        for o, m, rl in zip(ops, outs, reals):
            if m != rl:
                # locate first differing token for a readable report
                mt, rt = m.split(' '), rl.split(' ')
                k = next((i for i in range(min(len(mt), len(rt))) if mt[i] != rt[i]), min(len(mt), len(rt)))
                ctx.disagree(o, ' '.join(mt[max(0, k - 1):k + 2])[:300], ' '.join(rt[max(0, k - 1):k + 2])[:300])
    except Exception as e:
        ctx.oblige('correspondence_driver', False, str(e)[:300])
    for v, n, pairs in cs:
        ctx.count((v, n), nontrivial=(v != 0 and n >= 2))
        try:
            oracle(ctx, IW, CW, v, n, None if pairs is None else [(w, s) for (w, s) in pairs if s + w <= n])
        except Exception as e:
            ctx.violation('IntegerWrapper', 'raises', '(%d,%d): %s' % (v, n, type(e).__name__), dict(v=v, n=n), input=[v, n])
        if len(ctx.violations) > 200:
            break
    ctx.exhaustive = True
    ctx.sample({'op': ops[37], 'model_and_real': reals[37][:200]})
    ctx.sample({'op': ops[-1], 'model_and_real': reals[-1][:200]})


def replay(path):
    ctx = vlib.Ctx('C19', 'quick')
    check(ctx)
    return vlib.finish(ctx)
