"""C13 — streaming decode does not depend on chunking.
Model: lean/IRModel/Stream.lean; theorems: IRModel/Props/C13.lean.
The REAL DecodeThread runs under a deterministic scheduler: its Event and deque are replaced (at run time, on
the instance) by instrumented ones whose operations are scheduling points; a feeder thread calls the real
append(); the harness decides who moves."""
import vlib, threading, collections, itertools

MODULES = ['IRModel.Props.C13']


class Kill(SystemExit):
    pass


_orig_hook = threading.excepthook


def _hook(args):
    if isinstance(args.exc_value, Kill):
        return
    _orig_hook(args)


threading.excepthook = _hook


class Sched:
    def __init__(self):
        self.grant = {}
        self.arrived = {}
        self.at = {}
        self.dead = False
        self.tids = {}

    def register(self, tid):
        self.grant[tid] = threading.Semaphore(0)
        self.arrived[tid] = threading.Semaphore(0)
        self.at[tid] = 'start'

    def me(self):
        return self.tids.get(threading.get_ident())

    def point(self, name):
        tid = self.me()
        if tid is None:
            return
        self.at[tid] = name
        self.arrived[tid].release()
        self.grant[tid].acquire()
        if self.dead:
            raise Kill()

    def step(self, tid, timeout=20):
        """let thread tid run from its current point to its next one"""
        self.grant[tid].release()
        if not self.arrived[tid].acquire(timeout=timeout):
            raise RuntimeError('thread %s did not reach a scheduling point (died or hung) after %s' % (tid, self.at[tid]))

    def kill(self):
        self.dead = True
        for t in self.grant:
            for _ in range(3):
                self.grant[t].release()


class CEvent:
    def __init__(self, sched):
        self.s = sched
        self.flag = False

    def set(self):
        self.s.point('set')
        self.flag = True

    def clear(self):
        self.s.point('clear')
        self.flag = False

    def is_set(self):
        return self.flag

    def wait(self, timeout=None):
        while True:
            self.s.point('wait')
            if self.flag:
                return True


class CDeque(collections.deque):
    sched = None

    def __len__(self):
        self.sched.point('len')
        return collections.deque.__len__(self)

    def append(self, x):
        self.sched.point('append')
        collections.deque.append(self, x)

    def appendleft(self, x):
        self.sched.point('appendleft')
        collections.deque.appendleft(self, x)


class StubDispatcher:
    """the scripted dispatcher of the Lean driver (streamDec)"""
    def __init__(self):
        self.accepted = 0
        self.out = []

    def _decode(self, data, frequency):
        if data and data[0] in (9000, 2400) and len(data) % 2 == 0:
            self.accepted += 1
            self.out.append(list(data))
            return True
        return None

    def _decode_universal(self, buf, frequency):
        self.out.append(('universal', list(buf)))


def show(l):
    return ' '.join(map(str, l))


class RealRun:
    """one real DecodeThread under the scheduler"""
    def __init__(self, dispatcher):
        vlib.repo_import()
        from pyIRDecoder import protocols
        DecodeThread = protocols._original_module.DecodeThread if hasattr(protocols, '_original_module') else protocols.DecodeThread
        self.s = Sched()
        self.disp = dispatcher
        t = DecodeThread(dispatcher)
        t.daemon = True
        dq = CDeque()
        dq.sched = self.s
        t.buffer = dq
        t.buffer_event = CEvent(self.s)
        self.t = t
        self.s.register('W')
        self.s.register('F')
        self.chunks = collections.deque()
        run = t.run

        def wrun():
            self.s.tids[threading.get_ident()] = 'W'
            self.s.point('start')
            run()
        t.run = wrun

        def frun():
            self.s.tids[threading.get_ident()] = 'F'
            self.s.point('start')
            while True:
                while not self.chunks:
                    self.s.point('idle')
                data, f = self.chunks.popleft()
                t.append(data, f)
        self.f = threading.Thread(target=frun, daemon=True)
        t.start()
        self.f.start()
        self.s.arrived['W'].acquire()
        self.s.arrived['F'].acquire()
        self.s.step('W')          # to the first wait
        self.s.step('F')          # to idle

    def feed_step(self, chunk=None):
        """one feeder step; with a chunk: starts append (runs to the 'append' point... )"""
        if chunk is not None:
            self.chunks.append(chunk)
        self.s.step('F')
        return self.s.at['F']

    def worker_enabled(self):
        return not (self.s.at['W'] == 'wait' and not self.t.buffer_event.flag)

    def worker_step(self):
        n0 = len(self.disp.out)
        self.s.step('W')
        outs = self.disp.out[n0:]
        buf = ' | '.join('%d: %s' % (f, show(b)) for b, f in collections.deque.__iter__(self.t.buffer))
        return 'out [%s] at %s flag %s univ %s buffer [%s]' % (' ; '.join(show(o) for o in outs), self.s.at['W'],
                                                             str(self.t.buffer_event.flag).lower(), str(self.t.decode_universal).lower(), buf)

    def close(self):
        self.s.kill()


def frames_pool():
    return [
        [9000, -4500, 560, -560, 560, -1690, 560, -30000],
        [2400, -600, 1200, -600, 600, -25000],
        [9000, -4500, 560, -2500, 560, -560, 560, -40000],     # contains an inner gap < -2000 (early cut candidate)
        [500, -700, 300, -2600],                                 # garbage, never accepted
        [2400, -600, 600, -600, 1200, -600, 600, -21000],
    ]


def chunkings(stream, r, k, bounds=None):
    res = [[stream], [[x] for x in stream]]
    if bounds:
        # frame-aligned chunkings (seed C13d: state left by a remainder survives a pass that ends exactly on a
        # frame boundary): every frame its own chunk, and one frame cut in two with all other cuts on boundaries
        inner = [b for b in bounds if 0 < b < len(stream)]
        if inner:
            res.append([stream[a:b] for a, b in zip([0] + inner, inner + [len(stream)])])
        starts = [0] + inner
        ends = inner + [len(stream)]
        cand = [(a, b) for a, b in zip(starts, ends) if b - a >= 3]
        for a, b in (cand[:1] + r.sample(cand, min(1, len(cand)))):
            for cut in sorted(set([b - 2, a + r.randint(1, b - a - 1)])):
                cuts = sorted(set(inner + [cut]))
                ch = [stream[x:y] for x, y in zip([0] + cuts, cuts + [len(stream)])]
                if ch not in res:
                    res.append(ch)
    for _ in range(k):
        n = r.randint(1, min(6, len(stream) - 1))
        cuts = sorted(r.sample(range(1, len(stream)), n))
        res.append([stream[a:b] for a, b in zip([0] + cuts, cuts + [len(stream)])])
    return res


def run_schedule(ctx, chunks, f, sched_bits, ops, reals):
    """drive real thread and record driver ops. sched_bits: iterator of booleans 'prefer feeder'"""
    disp = StubDispatcher()
    rr = RealRun(disp)
    try:
        ops.append('st_new'); reals.append('ok')
        pending = collections.deque(chunks)
        fstate = 'idle'
        guard = 0
        while True:
            guard += 1
            if guard > 5000:
                raise RuntimeError('schedule did not terminate')
            can_f = fstate != 'idle' or pending
            can_w = rr.worker_enabled()
            if not can_f and not can_w:
                break
            pick_f = can_f and (not can_w or next(sched_bits))
            if pick_f:
                if fstate == 'idle':
                    c = pending.popleft()
                    at = rr.feed_step((list(c), f))       # runs to the 'append' point
                    at = rr.feed_step()                   # executes append, stops at 'set'
                    ops.append('st_fpush %d %s' % (f, show(c))); reals.append('ok')
                    fstate = 'set'
                else:
                    rr.feed_step()                         # executes set, back to idle
                    ops.append('st_fset'); reals.append('ok')
                    fstate = 'idle'
            else:
                ops.append('st_w'); reals.append(rr.worker_step())
        alive = rr.t.is_alive()
        return disp.out, alive, list(collections.deque.__iter__(rr.t.buffer))
    finally:
        rr.close()


def check(ctx):
    ctx.rule = ('proof: chunking theorem C13 over an abstract dispatcher with pure rejections; C13_wrapper: for the protocols whose traced decode() trees meet the kernel-checked obligation c13OK '
                'a rejected candidate leaves the decoder instance unchanged, so the theorem applies with that protocol\'s decode() as the dispatcher; '
                'correspondence: the REAL DecodeThread (instrumented Event/deque = scheduling points, real append()/run()) vs the Lean fine-grained '
                'machine under identical schedules: streams of 2-4 frames from a pool (incl. inner-gap and garbage frames), chunkings {one call, frame-aligned (each frame its own chunk; one frame cut in two, all other cuts on frame boundaries), one duration '
                'at a time, random cuts}, schedules {worker-first, feeder-first, random, feeder step inserted at every worker position}; after every worker step '
                'outputs, program point, flag, decode_universal and buffer are compared. search: for every schedule the delivered sequence must equal the '
                'one-call sequence and the thread must be alive; plus real dispatcher/real protocol frames (NEC, Sony12, RC5, JVC, ...) through '
                'protocols.stream_decode-equivalent runs for each chunking. non-trivial = schedule with >= 2 chunks')
    from props import engine_prove
    tabs, ok = engine_prove.prove(ctx, MODULES, with_obligations=False, with_wrappers=True, wrap_kinds=('c13',))
    r = vlib.rng('c13')
    pool = frames_pool()
    ops, reals = [], []
    n_streams = 6 if not ctx.thorough else 30
    n_sched = 6 if not ctx.thorough else 25
    sample_done = False
    try:
        for si in range(n_streams):
            fr = [r.choice(pool) for _ in range(r.randint(2, 4))]
            stream = [x for f in fr for x in f]
            f = r.choice([38000, 38000, 0])
            ref = None
            bounds = list(itertools.accumulate(len(x) for x in fr))
            for ch in chunkings(stream, r, 3 if not ctx.thorough else 8, bounds):
                scheds = [itertools.repeat(True), itertools.repeat(False)]
                for _ in range(n_sched):
                    p = r.choice([0.2, 0.5, 0.8])
                    scheds.append(iter(lambda p=p: r.random() < p, None))
                # targeted: feeder moves exactly at the k-th decision, worker otherwise
                for k in range(0, 40, 3 if not ctx.thorough else 1):
                    scheds.append(itertools.chain(itertools.repeat(False, k), itertools.repeat(True, 2), itertools.repeat(False)))
                for sb in scheds:
                    out, alive, rest = run_schedule(ctx, ch, f, sb, ops, reals)
                    ctx.count((si, tuple(map(len, ch)), len(ops)), nontrivial=len(ch) >= 2)
                    if ref is None:
                        ref = out
                    if not alive:
                        ctx.violation('DecodeThread', 'thread-died', 'stream %s chunks %s' % (stream, list(map(len, ch))), dict(kind='stub'), input=dict(chunks=ch, f=f))
                    if out != ref:
                        ctx.violation('DecodeThread', 'chunking-changes-output', 'one call delivers %d frames, this schedule %d (chunks %s)' % (len(ref), len(out), list(map(len, ch))),
                                      dict(kind='stub'), input=dict(chunks=ch, f=f, ops=ops[-60:]))
                    if not sample_done and len(ch) > 2:
                        ctx.sample({'chunks': ch, 'delivered': out}); sample_done = True
        outs = vlib.Driver().run(ops)
        ctx.corr['ops'] = len(ops)
        kinds = collections.Counter(o.split()[0] for o in ops)
        ctx.corr['dist'] = dict(kinds)
        start = 0
        bad_runs = 0
        for i, (o, m, rl) in enumerate(zip(ops, outs, reals)):
            if o == 'st_new':
                start = i
            if m != rl and bad_runs < 5 and not any(d['op'].startswith('run@%d ' % start) for d in ctx.corr['disagreements']):
                ctx.disagree('run@%d step %d: %s' % (start, i - start, ' / '.join(ops[start:i + 1])[-1200:]), m, rl)
                bad_runs += 1
    except Exception:
        import traceback
        ctx.oblige('correspondence_real_thread', False, traceback.format_exc()[-600:])
    real_dispatcher(ctx, r)


def real_dispatcher(ctx, r):
    """real protocols through the real dispatcher: chunked vs one-call callback sequences"""
    import realenv, protos
    env = realenv
    env.take_control()
    names = ['NEC', 'Sony12', 'RC5', 'JVC', 'Panasonic', 'Samsung20', 'RC6', 'Sharp', 'Denon', 'NECx', 'Sony20', 'RCA']
    decs = []
    for n in names:
        try:
            decs.append(protos.by_name(n))
        except KeyError:
            pass
    alldecs = protos.all_decoders()
    got = []
    env.protocols.bind_callback(lambda code: None)
    cbf = env.protocols.__dict__['_decode_callback']

    class Disp:
        """the real FakeModule seen through the two methods the thread uses"""
        def __init__(self):
            self.out = []

        def _decode(self, data, frequency):
            r_ = env.protocols._decode(data, frequency)
            env.drain_process(lambda func, args: (self.out.append(str(args[0])) or False) if func is cbf else True)
            return r_

        def _decode_universal(self, buf, frequency):
            self.out.append('universal')

    n = 8 if not ctx.thorough else 60
    for k in range(n):
        on = r.sample(decs, r.randint(1, 4))
        seq = []
        rbounds = []
        for _ in range(r.randint(1, 3)):
            d = r.choice(on)
            try:
                code = protos.encode(d, protos.sample_params(d, r), repeat_count=r.choice([0, 0, 1, 2]))
                for fr in protos.frames(code):
                    seq += list(fr)
                    rbounds.append(len(seq))
            except Exception:
                pass
        if len(seq) < 8:
            continue
        f = on[0].frequency if all(x.frequency == on[0].frequency for x in on) else 0
        ref = None
        for ch in chunkings(seq, r, 3, rbounds):
            for d in alldecs:
                d.enabled = d in on
                d._last_code = None
            env.reset_dispatcher()
            disp = Disp()
            rr = RealRun(disp)
            try:
                for c in ch:
                    rr.feed_step((list(c), f)); rr.feed_step(); rr.feed_step()
                    g = 0
                    while rr.worker_enabled() and g < 2000:
                        rr.s.step('W'); g += 1
                alive = rr.t.is_alive()
            except RuntimeError as e:
                alive = False
            finally:
                rr.close()
            ctx.count(('real', k, tuple(map(len, ch))), nontrivial=len(ch) >= 2)
            if ref is None:
                ref = disp.out
            if not alive:
                ctx.violation('DecodeThread', 'thread-died', 'real dispatcher, protocols %s' % [x.name for x in on], dict(kind='real', protocols=sorted(x.name for x in on)), input=dict(chunks=ch, f=f))
            elif disp.out != ref:
                ctx.violation('DecodeThread', 'chunking-changes-output', 'real dispatcher, protocols %s: one call %s, chunked %s' % ([x.name for x in on], ref, disp.out),
                              dict(kind='real', protocols=sorted(x.name for x in on)), input=dict(chunks=ch, f=f))
        if k == 0:
            ctx.sample({'real_protocols': [x.name for x in on], 'delivered': ref})
    for d in alldecs:
        d.enabled = True
        d._last_code = None
    env.reset_dispatcher()


def replay(path):
    ctx = vlib.Ctx('C13', 'quick')
    check(ctx)
    return vlib.finish(ctx)
