"""C08 — arbitrary input never crashes or hangs a decoder or the dispatcher.
Theorems: IRModel/Props/C08.lean (every error of the modelled engine is a library error, for all inputs);
search: all real decoders, the dispatcher and the streaming thread on structured mutations."""
import vlib, time, signal
from props import engine_common as ec, engine_prove

MODULES = ['IRModel.Props.C08', 'IRModel.Props.Manchester']


class Hang(Exception):
    pass


def _alarm(signum, frame):
    raise Hang()


def mutations(r, frame, vals):
    out = [list(frame)]
    n = len(frame)
    for k in range(1, min(7, n + 1)):
        out.append(frame[:k])
    out.append(frame[: n - 1])
    out.append(frame[1:])
    out.append(frame + frame[-2:])
    out.append([abs(x) for x in frame])                       # all marks (duplicate signs)
    out.append([-abs(x) for x in frame])
    out.append([x if i % 3 else 0 for i, x in enumerate(frame)])
    for _ in range(4):
        f = list(frame)
        i = r.randrange(n)
        k = r.random()
        if k < 0.25:
            del f[i]                                           # dropped element: two same-sign neighbours
        elif k < 0.5:
            f.insert(i, f[i])                                  # duplicated element
        elif k < 0.75:
            f[i] = r.choice(vals)
        else:
            f[i] = -f[i]
        out.append(f)
    # drop the space of the last bit / the element before the lead-out
    for j in (2, 3, 4):
        if n > j + 2:
            f = list(frame); del f[n - j]; out.append(f)
    return out


def search(ctx, focus=(), deep=1):
    import realenv, protos, pyIRDecoder
    env = realenv
    env.take_control()
    r = vlib.rng('c08')
    decs = protos.all_decoders()
    known = [f for f in vlib.load_known().get('findings', []) if f.get('property') == 'C08']
    frames = []
    for d in decs:
        # several keys per protocol (all-zero, all-one and a random one): which path a damaged frame takes depends on the
        # bits next to the damage
        seenf = set()
        for p_ in protos.corner_params(d) + [protos.sample_params(d, r)]:
            try:
                code = protos.encode(d, p_, repeat_count=1)
                for f in protos.frames(code)[:2]:
                    # the frame, and its pieces when it has interior gaps (two-half protocols: a receiver delivers each half)
                    pieces, piece = [], []
                    for x in f:
                        piece.append(x)
                        if len(piece) > 3 and x < -2000:
                            pieces.append(piece); piece = []
                    if piece:
                        pieces.append(piece)
                    for g in [f] + (pieces if len(pieces) > 1 else []):
                        if tuple(g) not in seenf:
                            seenf.add(tuple(g))
                            frames.append((d.name, g))
            except Exception:
                pass
    vals = sorted({abs(x) for _, f in frames for x in f[:6]})[:200] or [500]
    inputs = []
    for w in known:
        inp = w.get('witness', {}).get('input')
        if isinstance(inp, dict) and 'data' in inp:
            inputs.append((inp.get('source', 'witness'), inp['data']))
    nmut = 1 if not ctx.thorough else 4
    for name, f in frames:
        for _ in range(nmut * deep):
            for m in mutations(r, f, vals):
                inputs.append((name, m))
    for _ in range(200 if not ctx.thorough else 2000):
        inputs.append(('garbage', ec.garbage(r)))
    for n in range(1, 7):
        inputs.append(('short', [500 * (1 if i % 2 == 0 else -1) for i in range(n)]))
        inputs.append(('short', [(-1) ** (i + 1) * 9000 for i in range(n)]))
    inputs.append(('long', [(1 if i % 2 == 0 else -1) * 560 for i in range(3000)]))
    signal.signal(signal.SIGALRM, _alarm)
    # every decoder on (a sample of) every input: its own frames' mutations always, cross-protocol sampled
    per_dec = 120 if not ctx.thorough else 1200
    slow = 0
    for d in decs:
        if d.name == 'Universal':
            continue
        own = [x for x in inputs if x[0] in (d.name, 'short', 'witness')]
        other = r.sample(inputs, min(len(inputs), per_dec * (6 if d.name in focus else 1)))
        inst = protos.fresh(d)
        for src, data in own + other:
            ctx.count((d.name, tuple(data[:40]), len(data)), nontrivial=len(data) > 1)
            arg = list(data)
            t0 = time.time()
            signal.setitimer(signal.ITIMER_REAL, 2.0)
            try:
                inst.decode(arg, d.frequency)
            except pyIRDecoder.IRException:
                pass
            except Hang:
                ctx.violation(d.name, 'hang', '%s.decode did not return within 2 s on a %d-element list from %s' % (d.name, len(data), src), dict(protocol=d.name, source=src), input=dict(data=data, source=src))
            except Exception as e:
                ctx.violation(d.name, 'leak-' + type(e).__name__, '%s.decode leaked %s on %s-derived input %s' % (d.name, type(e).__name__, src, data[:12]), dict(protocol=d.name, source=src, n=len(data)), input=dict(data=data, source=src))
            finally:
                signal.setitimer(signal.ITIMER_REAL, 0)
            if arg != list(data):
                ctx.violation(d.name, 'argument-modified', '%s.decode modified its argument' % d.name, dict(protocol=d.name), input=dict(data=data, source=src))
            if inst._last_code is not None and r.random() < 0.3:
                inst = protos.fresh(d)
    # dispatcher with everything enabled, and with the regular subset
    for d in decs:
        d.enabled = True
    env.reset_dispatcher()
    for src, data in r.sample(inputs, min(len(inputs), 300 if not ctx.thorough else 3000)):
        if not data:
            continue
        ctx.count(('dispatcher', tuple(data[:40]), len(data)), nontrivial=len(data) > 1)
        signal.setitimer(signal.ITIMER_REAL, 5.0)
        try:
            env.protocols.decode(list(data), r.choice([0, 38000, 36000, 40000]))
        except Hang:
            ctx.violation('FakeModule.decode', 'hang', 'dispatcher did not return within 5 s', dict(source=src), input=dict(data=data, source=src))
        except Exception as e:
            import traceback
            tb = traceback.extract_tb(e.__traceback__)
            culprit = next((fr.filename.split('/')[-1].replace('.py', '') for fr in reversed(tb) if '/protocols/' in fr.filename and '__init__' not in fr.filename), 'dispatcher')
            ctx.violation('FakeModule.decode/' + culprit, 'leak-' + type(e).__name__, 'protocols.decode raised %s (inside %s) on %s-derived input %s' % (type(e).__name__, culprit, src, data[:12]),
                          dict(culprit=culprit, source=src, n=len(data)), input=dict(data=data, source=src))
        finally:
            signal.setitimer(signal.ITIMER_REAL, 0)
        env.drain_process()
    env.reset_dispatcher()
    stream_liveness(ctx, env, protos, r, frames)
    env.reset_dispatcher()
    ctx.sample({'input_kinds': 'prefixes 1..6, dropped/duplicated/sign-flipped/zeroed elements, cross-protocol frames, garbage, 3000-element list', 'n_inputs': len(inputs)})


def stream_liveness(ctx, env, protos, r, frames):
    """the REAL DecodeThread with the real dispatcher: residues of every small length and shape, each followed by an idle
    timeout (the universal-fallback branch of run()), then a good frame: the thread must be alive and must still deliver.
    `buffer_event.wait(0.1)` is made to time out at once when nothing is pending, so no real time is spent idling."""
    import threading, time as _t
    DecodeThread = env.protocols._original_module.DecodeThread if hasattr(env.protocols, '_original_module') else env.protocols.DecodeThread

    class IdleEvent(threading.Event):
        def wait(self, timeout=None):
            if timeout is not None:
                return self.is_set()                # the idle timeout elapses immediately
            return threading.Event.wait(self, 5.0)

    crashed = []
    old_hook = threading.excepthook
    threading.excepthook = lambda a: crashed.append(a.exc_type.__name__)
    nec = protos.frames(protos.encode(protos.by_name('NEC'), dict(device=1, sub_device=2, function=3)))[0]
    residues = []
    for n in range(1, 15):
        residues.append([(1 if i % 2 == 0 else -1) * (500 + 37 * i) for i in range(n)])                    # stops abruptly, all distinct
        residues.append([(1 if i % 2 == 0 else -1) * (500 if i % 4 < 2 else 1500) for i in range(n)])      # two values
        g = [(1 if i % 2 == 0 else -1) * 700 for i in range(n)]
        if n >= 2 and n % 2 == 0:
            g[-1] = -30000                                                                               # ends in a long gap
        residues.append(g)
    for _ in range(20):
        residues.append(ec.garbage(r))
    try:
        for res in residues:
            if not res:
                continue
            env.reset_dispatcher()
            t = DecodeThread(env.protocols)
            t.daemon = True
            t.buffer_event = IdleEvent()
            t.start()
            ctx.count(('stream-residue', tuple(res[:40]), len(res)), nontrivial=len(res) > 1)
            del crashed[:]
            t.append(list(res), 38000)
            dl = _t.time() + 3.0
            while _t.time() < dl and t.is_alive() and (t.buffer or t.buffer_event.is_set() or t.decode_universal):
                _t.sleep(0.001)
            _t.sleep(0.002)
            alive = t.is_alive()
            if alive:
                t.append(list(nec), 38000)
                dl = _t.time() + 3.0
                while _t.time() < dl and t.is_alive() and (t.buffer or t.buffer_event.is_set()):
                    _t.sleep(0.001)
                alive = t.is_alive()
            if not alive or crashed:
                ctx.violation('DecodeThread.run', 'thread-dies', 'the streaming thread died (%s) after an undecodable residue of %d timings %s followed by an idle timeout' % (
                    ','.join(crashed) or 'no exception seen', len(res), res[:12]), dict(n=len(res), exc=(crashed or [None])[0]), input=dict(data=res, source='stream-residue'))
            t.stop_event.set()
            t.buffer_event.set()
            t.join(1.0)
            del env.process_worker.queue[:]
            del env.timer_worker.queue[:]
    finally:
        threading.excepthook = old_hook


def check(ctx):
    ctx.rule = ('proof: C08_wrapper for the protocols whose traced decode() trees meet the kernel-checked obligation c08OK: an instance started without history and fed ANY sequence of ANY integer lists '
                'answers every call with a code or a library error (invariant: the held code is a code of the protocol); for ALL tables, tolerances, instance states and integer lists the modelled engine (CodeWrapper general path + IrProtocolBase.decode) returns or raises a '
                'library error (theorem, no obligations needed); correspondence: exception classes of real CodeWrapper/base decode vs model on damaged and garbage input; '
                'search: every real decoder on mutations of its own frames + sampled cross-protocol mutations + garbage + short lists + a 3000-element list with a 2 s alarm per call, '
                'argument unchanged; the dispatcher with all protocols enabled. non-trivial = input longer than one element')
    tabs, ok = engine_prove.prove(ctx, MODULES, with_obligations=False, with_wrappers=True, wrap_kinds=('c08',))
    import fingerprint
    changed_p, changed_e = fingerprint.changed()
    r = vlib.rng('c08corr')
    try:
        ec.standard_correspondence(ctx, r, per_proto=2 if not ctx.thorough else 6, focus=changed_p)
        from props import wrap_common
        wrap_common.correspondence(ctx, vlib.rng('c08wrap'), tabs, getattr(ctx, 'winfo', {}), per_proto=3 if not ctx.thorough else 12, focus=changed_p | engine_prove.failed_protocols(ctx))
    except Exception:
        import traceback
        ctx.oblige('correspondence_driver', False, traceback.format_exc()[-500:])
    search(ctx, changed_p | engine_prove.failed_protocols(ctx), deep=3 if changed_e else 1)


def replay(path):
    ctx = vlib.Ctx('C08', 'quick')
    check(ctx)
    return vlib.finish(ctx)
