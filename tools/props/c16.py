"""C16 — MCE normalisation. Model: lean/IRModel/Mce.lean; theorems: IRModel/Props/C16.lean."""
import vlib, copy

MODULES = ['IRModel.Props.C16']


def _real():
    vlib.repo_import()
    import pyIRDecoder
    from pyIRDecoder import utils
    return pyIRDecoder, utils


def _canon_flat(fn, arg):
    """run fn(arg) on the real code -> canonical line like the driver's"""
    before = list(arg)
    a = list(arg)
    try:
        r = fn(a)
    except Exception as e:
        return 'err ' + type(e).__name__
    return 'ok %s ; arg-after %s ; fresh %s' % (' '.join(map(str, r)), ' '.join(map(str, a)), 'true' if r is not a else 'false')


def _show_nested(l):
    return ' | '.join(' '.join(map(str, x)) for x in l)


def _canon_nested(fn, arg):
    a = [list(x) for x in arg]
    inner_ids = [id(x) for x in a]
    try:
        r = fn(a)
    except Exception as e:
        return 'err ' + type(e).__name__
    fresh = (r is not a) and all(id(x) not in inner_ids for x in r)
    return 'ok %s ; arg-after %s ; fresh %s' % (_show_nested(r), _show_nested(a), 'true' if fresh else 'false')


def gen_inputs(ctx):
    r = vlib.rng('c16')
    flats = []
    nests = []
    # structured: aligned lists, single values, residues, empties
    flats.append([9000, -4500, 550, -550, 550, -1700])           # already on the grid
    flats.append([50 * k for k in range(-5, 6)])
    flats.append(list(range(-60, 61)))
    flats.append([24, 25, 26, -24, -25, -26, 49, 50, 51, -49, -50, -51, 0])
    for _ in range(40 if not ctx.thorough else 400):
        n = r.randint(1, 40)
        kind = r.random()
        if kind < 0.3:
            flats.append([50 * r.randint(-4000, 4000) for _ in range(n)])
        elif kind < 0.6:
            flats.append([r.randint(-200000, 200000) for _ in range(n)])
        else:
            flats.append([50 * r.randint(-4000, 4000) + r.choice([0, 0, 24, 25, 26, -1, 1]) for _ in range(n)])
    nests.append([[1]])
    nests.append([[100, -200], [300, -400]])
    nests.append([[9024, -4512, 564], [], [77, -25]])
    nests.append([[50, -50]])
    for _ in range(30 if not ctx.thorough else 300):
        k = r.randint(1, 5)
        nest = []
        for _ in range(k):
            n = r.randint(0, 12) if nest else r.randint(0, 12)
            if r.random() < 0.35:
                nest.append([50 * r.randint(-4000, 4000) for _ in range(n)])
            else:
                nest.append([r.randint(-200000, 200000) for _ in range(n)])
        nests.append(nest)
    return flats, nests


def check(ctx):
    ctx.rule = ('search: every integer of [-200000,200000] through utils.build_mce_rlc against the arithmetic oracle '
                '(multiple of 50, |y-x|<=25, sign, fixed point, idempotence) + flat/nested shapes incl. grid-aligned lists '
                'with object-identity and argument-after checks on rlc_to_mce, build_mce_rlc, IRCode.normalized_rlc_mce; '
                'correspondence: same inputs through the Lean model (Driver ops mce, mce_flat, mce_nested). '
                'distinct = distinct input lists / integers; non-trivial = value not already a multiple of 50, or list with >=2 entries')
    vlib.prove(ctx, MODULES)
    pyIRDecoder, utils = _real()
    flats, nests = gen_inputs(ctx)

    # ---- correspondence
    ops, reals = [], []
    # all integers in chunks
    LO, HI = -200000, 200000
    step = 1000
    allints = list(range(LO, HI + 1))
    for i in range(0, len(allints), step):
        chunk = allints[i:i + step]
        ops.append('mce ' + ' '.join(map(str, chunk)))
        try:
            reals.append('ok ' + ' '.join(map(str, utils.build_mce_rlc(list(chunk)))))
        except Exception as e:
            reals.append('err ' + type(e).__name__)
    for f in flats:
        ops.append('mce_flat ' + ' '.join(map(str, f)))
        reals.append(_canon_flat(pyIRDecoder.rlc_to_mce, f))
        ops.append('mce_flat ' + ' '.join(map(str, f)))
        reals.append(_canon_flat(utils.build_mce_rlc, f))
    for n in nests:
        if not n or not isinstance(n[0], list):
            continue
        ops.append('mce_nested ' + _show_nested(n))
        reals.append(_canon_nested(pyIRDecoder.rlc_to_mce, n))
    try:
        outs = vlib.Driver().run(ops)
        ctx.corr['ops'] = len(ops)
        ctx.corr['dist'] = {'mce(all ints, chunks of 1000)': len(allints) // step + 1, 'mce_flat': 2 * len(flats), 'mce_nested': len(nests)}
        for o, m, rl in zip(ops, outs, reals):
            if m != rl:
                ctx.disagree(o[:300], m[:300], rl[:300])
    except Exception as e:
        ctx.oblige('correspondence_driver', False, str(e)[:300])

    # ---- search on the real code with the property's own oracle
    out = utils.build_mce_rlc(list(allints))
    if len(out) != len(allints):
        ctx.violation('build_mce_rlc', 'length', 'length changed', dict(n=len(allints)))
    else:
        for x, y in zip(allints, out):
            ctx.count(x, nontrivial=(x % 50 != 0))
            bad = None
            if y % 50 != 0:
                bad = 'not a multiple of 50'
            elif abs(y - x) > 25:
                bad = 'further than 25'
            elif y != 0 and (y > 0) != (x > 0):
                bad = 'sign changed'
            elif x % 50 == 0 and y != x:
                bad = 'grid value changed'
            if bad:
                ctx.violation('build_mce_rlc', 'value', '%s: %d -> %d' % (bad, x, y), dict(x=x, y=y), input=[x])
                if len(ctx.violations) > 20:
                    break
        twice = utils.build_mce_rlc(list(out))
        if twice != out:
            i = next(i for i in range(len(out)) if twice[i] != out[i])
            ctx.violation('build_mce_rlc', 'idempotence', 'second application differs at %d' % out[i], dict(x=out[i]), input=[out[i]])
    ctx.exhaustive = True
    ctx.sample({'ints': 'all of [-200000,200000]', 'first': allints[:3], 'out': out[:3]})

    def shape_checks(name, fn, arg, nested):
        a = copy.deepcopy(arg)
        ids = [id(x) for x in a] if nested else []
        try:
            r = fn(a)
        except Exception as e:
            ctx.violation(name, 'raises', type(e).__name__, dict(shape='nested' if nested else 'flat'), input=arg)
            return
        ctx.count(('shape', name, repr(arg)), nontrivial=len(arg) >= 2)
        if a != arg:
            ctx.violation(name, 'argument-modified', 'argument changed from %r to %r' % (arg[:4], a[:4]), dict(shape='nested' if nested else 'flat'), input=arg)
        if r is a:
            ctx.violation(name, 'not-a-new-list', 'returned the argument object', dict(shape='nested' if nested else 'flat', aligned=all((v % 50 == 0) for v in (sum(arg, []) if nested else arg))), input=arg)
        elif nested and any(id(x) in ids for x in r):
            ctx.violation(name, 'not-a-new-list', 'result shares a frame object with the argument', dict(shape='nested', aligned=True), input=arg)
        exp = [[_snap(v) for v in f] for f in arg] if nested else [_snap(v) for v in arg]
        if r != exp:
            ctx.violation(name, 'value', 'result %r expected %r' % (r[:4], exp[:4]), dict(shape='nested' if nested else 'flat'), input=arg)
        # the caller owns the returned list ("returns a new list"): scribbling on it must not change what a later conversion
        # of equal input returns (a result aliased with a cache / module-level object fails here, not on the first call)
        try:
            for fr in (r if nested else [r]):
                if isinstance(fr, list):
                    for k in range(len(fr)):
                        fr[k] = 8987 - k
                    fr.append(-1)
            if isinstance(r, list):
                r.append([7] if nested else 7)
            r2 = fn(copy.deepcopy(arg))
            if r2 != exp:
                ctx.violation(name, 'result-aliased', 'after the caller modified the first result, converting equal input again gives %r, expected %r' % (r2[:4], exp[:4]),
                              dict(shape='nested' if nested else 'flat'), input=arg)
        except Exception as e:
            ctx.violation(name, 'raises', 'second conversion: ' + type(e).__name__, dict(shape='nested' if nested else 'flat'), input=arg)

    for f in flats:
        shape_checks('rlc_to_mce', pyIRDecoder.rlc_to_mce, f, False)
        shape_checks('build_mce_rlc', utils.build_mce_rlc, f, False)
    for n in nests:
        shape_checks('rlc_to_mce', pyIRDecoder.rlc_to_mce, n, True)
    ctx.sample({'flat': flats[0], 'nested': nests[2]})

    # IRCode.normalized_rlc_mce / original_rlc_mce on encoded codes of a few protocols
    from pyIRDecoder import protocols
    for pname, params in (('NEC', dict(device=1, sub_device=2, function=3, repeat_count=2)),
                          ('Sony12', dict(device=1, function=2, repeat_count=1)),
                          ('JVC', dict(device=3, function=4, repeat_count=1))):
        try:
            code = getattr(protocols, pname).encode(**params)
            norm_before = copy.deepcopy(code.normalized_rlc)
            orig_before = list(code.original_rlc)
            m = code.normalized_rlc_mce
            mo = code.original_rlc_mce
            ctx.count(('code', pname))
            exp = [_snap(v) for f in norm_before for v in f]
            if m != exp:
                ctx.violation('IRCode.normalized_rlc_mce', 'value', pname, {}, input=params)
            if code.normalized_rlc != norm_before or code.original_rlc != orig_before:
                ctx.violation('IRCode.normalized_rlc_mce', 'argument-modified', pname, {}, input=params)
            if mo is code._original_rlc:
                ctx.violation('IRCode.original_rlc_mce', 'not-a-new-list', pname + ': returns the private list', {}, input=params)
            mo2 = code.original_rlc_mce
            if mo2 != [_snap(v) for v in orig_before]:
                ctx.violation('IRCode.original_rlc_mce', 'value', pname, {}, input=params)
        except Exception as e:
            ctx.notes.append('code mce check %s: %s' % (pname, type(e).__name__))


def _snap(t):
    d = t % 50
    return t - d if d < 25 else t + (50 - d)


def replay(path):
    import json
    vlib.repo_import()
    ctx = vlib.Ctx('C16', 'quick')
    check(ctx)
    return vlib.finish(ctx)
