"""helpers for the history properties C06/C07/C09 on the real decoders"""
import vlib


def keys_for(protos, d, r, n=3):
    """up to n parameter sets of protocol d with their encoded codes"""
    out = []
    for _ in range(n * 3):
        p = protos.sample_params(d, r)
        if any(p == k[0] for k in out):
            continue
        try:
            out.append((p, protos.encode(d, p)))
        except Exception:
            pass
        if len(out) >= n:
            break
    return out


def outcome(protos, inst, frame, names, freq):
    """canonical result of one decode call: ('ok', params) | ('err', class)"""
    try:
        c = inst.decode(list(frame), freq)
        return ('ok', tuple(sorted(protos.view(c, names).items())))
    except Exception as e:
        return ('err', protos.errclass(e))
