"""C05 — a corrupted frame is rejected or decoded as what it actually says.
Theorems: IRModel/Props/C05.lean (base decoder reports exactly the bits of the corrupted frame, for every symbol
sequence); search: real decoders on single-symbol substitutions produced with the real _build_packet."""
import vlib
from props import engine_common as ec, engine_prove

MODULES = ['IRModel.Props.C05']


def capture(dec, protos, params, variants=None, bits_of=None, rc=0):
    """real encode() with every _build_packet call recorded: list of (args, kwargs, result).
    With `variants` (a list), every single-bit substitution of every keyword field is rebuilt AT CALL TIME (so that
    protocols that switch class tables inside encode() are corrupted with the tables in force): (call index, what, frame)"""
    cls = dec.__class__
    calls = []
    orig = cls.__dict__.get('_build_packet', None)
    base = cls._build_packet.__func__

    def rec(c, *args, **kwargs):
        res = base(c, *args, **kwargs)
        calls.append((args, dict(kwargs), list(res)))
        if variants is not None:
            j = len(calls) - 1
            for k in kwargs:
                w = width_of(dec, k, kwargs[k])
                for b in (bits_of(w) if bits_of else range(w)):
                    kw = dict(kwargs)
                    try:
                        kw[k] = flip(kwargs[k], b)
                        f2 = list(base(c, *args, **kw))
                    except Exception:
                        continue
                    if f2 != list(res):
                        variants.append((j, 'substitute %s bit %d' % (k, b), f2))
            if 'T' in kwargs:
                try:
                    kw = dict(kwargs); kw['T'] = flip(kwargs['T'], 0)
                    variants.append((j, 'toggle', list(base(c, *args, **kw))))
                except Exception:
                    pass
        return res
    cls._build_packet = classmethod(rec)
    try:
        code = protos.encode(dec, params, repeat_count=rc) if rc else protos.encode(dec, params)
    finally:
        if orig is None:
            del cls._build_packet
        else:
            cls._build_packet = orig
    return code, calls


def flip(value, bit):
    from pyIRDecoder.integer_wrapper import IntegerWrapper
    if isinstance(value, IntegerWrapper):
        return IntegerWrapper(int(value) ^ (1 << bit), value.num_bits, value._timings, value.encoding)
    return value ^ (1 << bit)


def width_of(dec, key, value):
    from pyIRDecoder.integer_wrapper import IntegerWrapper
    if isinstance(value, IntegerWrapper):
        return value.num_bits
    cls = dec.__class__
    plist = cls._parameters or getattr(cls, '_parameters2', None) or getattr(cls, '_parameters1', None) or dec._parameters
    for k, a, b in plist:
        if k == key:
            return b + 1 - a
    return 0


def search(ctx, focus=(), deep=1):
    import realenv, protos, pyIRDecoder
    realenv.take_control()
    r = vlib.rng('c05')
    known = [f for f in vlib.load_known().get('findings', []) if f.get('property') == 'C05']
    for d in protos.all_decoders():
        if d.name == 'Universal':
            continue
        nparams = (2 if not ctx.thorough else 10) * (6 if d.name in focus else 1) * deep
        plist = [f['witness']['input']['params'] for f in known if f.get('site') == d.name and isinstance(f.get('witness', {}).get('input'), dict) and 'params' in f['witness']['input']]
        for _ in range(nparams):
            plist.append(protos.sample_params(d, r))
        seen_first = set()
        for p, rc in [(p_, rc_) for p_ in plist for rc_ in (0, 1)]:
            bits_of = (lambda w: range(w)) if (ctx.thorough or d.name in focus) else (lambda w: range(w) if w <= 4 else sorted(set([0, w - 1, r.randrange(w), r.randrange(w)])))
            vars_ = []
            try:
                code, calls = capture(d, protos, p, vars_, bits_of, rc=rc)
                frames = protos.frames(code)
            except Exception:
                continue
            if not calls or not frames:
                continue
            # rc = 1: the frames of a HELD key (toggle protocols send a different first frame while the key is down, and only
            # that one leaves a held code behind); skipped when the sequence starts like the single-press one
            fkey = (tuple(sorted(p.items())), tuple(frames[0]))
            if fkey in seen_first:
                continue
            seen_first.add(fkey)
            # the first frame GROUP: frames fed in order to a fresh decoder until one yields a code
            probe = protos.fresh(d)
            group = []
            okgroup = False
            for f in frames[:4]:
                group.append(f)
                try:
                    c0 = probe.decode(list(f), d.frequency)
                    okgroup = protos.view(c0, list(p)) == p
                    break
                except pyIRDecoder.IRException as e:
                    if 'Repeat' in type(e).__name__ or 'ExpectingMore' in type(e).__name__:
                        continue
                    break
                except Exception:
                    break
            if not okgroup:
                continue                     # protocol does not round-trip this key at all: C01's business
            intact = group[0]
            corrupted = []                   # (what, group')
            for j, what, f2 in vars_:
                if what == 'toggle':
                    continue
                res = calls[j][2]
                done = False
                for gi, gf in enumerate(group):
                    if gf == res:
                        g2 = list(group); g2[gi] = f2
                        corrupted.append(('%s (frame %d)' % (what, gi), g2))
                        done = True
                        break
                if not done and len(f2) == len(res):
                    # the packet is a contiguous part of a longer frame (two halves joined by encode())
                    for gi, gf in enumerate(group):
                        for off in range(0, len(gf) - len(res) + 1):
                            if gf[off:off + len(res)] == res:
                                g2 = list(group); g2[gi] = gf[:off] + f2 + gf[off + len(res):]
                                corrupted.append(('%s (frame %d part @%d)' % (what, gi, off), g2))
                                done = True
                                break
                        if done:
                            break
            n = len(intact)
            if n > 8 and len(group) == 1:
                if ctx.thorough or d.name in focus:
                    positions = list(range(2, n - 3))
                else:
                    positions = [r.randrange(2, n - 4)]
                for f_ in known:
                    inp = f_.get('witness', {}).get('input', {})
                    if f_.get('site') == d.name and isinstance(inp, dict) and inp.get('params') == p and ' at ' in str(inp.get('corruption')):
                        positions.append(int(inp['corruption'].rsplit(' ', 1)[1]))
                for i in sorted(set(x for x in positions if 0 < x < n - 2)):
                    corrupted.append(('drop symbol at %d' % i, [intact[:i] + intact[i + 2:]]))
                    corrupted.append(('append symbol at %d' % i, [intact[:i] + intact[i:i + 2] + intact[i:]]))
                # symbol-level substitution on the frame itself (covers encoders that pass `.timings` positionally, where no
                # keyword field can be rebuilt): every data symbol replaced by every other symbol of the burst table
                bt = [list(b) for b in d._bursts if isinstance(b, (list, tuple)) and len(b) == 2 and all(isinstance(x, int) for x in b)]
                li = len(d._lead_in) if all(isinstance(x, int) for x in d._lead_in) else 0
                lo = len(d._lead_out) if all(isinstance(x, int) for x in d._lead_out) else 0
                if len(bt) == len(d._bursts) and 2 <= len(bt) <= 4 and not d._middle_timings and all(b[0] > 0 > b[1] for b in bt):     # pulse distance/width only: a bi-phase symbol is not a slice of the merged frame
                    spots = list(range(li, n - lo - 1, 2))
                    if len(spots) > 80 and not (ctx.thorough or d.name in focus):
                        spots = r.sample(spots, 80)
                    bps = {2: 1, 4: 2}.get(len(bt), 1)
                    for i in spots:
                        bit = ((i - li) // 2) * bps
                        fld = next((k_ for k_, a_, b_ in d._parameters if a_ <= bit <= b_), None)
                        if fld is None:
                            continue
                        for b in bt:
                            if intact[i:i + 2] != b and [intact[i], intact[i + 1]] in bt:
                                # named like the keyword-field substitutions, so that one defect has one description
                                f2 = intact[:i] + b + intact[i + 2:]
                                if d._lead_out and d._lead_out[-1] > 0 and f2[-1] < 0:
                                    # fixed frame period: the trailing gap is what is left of the period (as _build_packet computes it)
                                    rest = sum(abs(x) for x in f2[:-1])
                                    if rest >= d._lead_out[-1]:
                                        continue
                                    f2 = f2[:-1] + [rest - d._lead_out[-1]]
                                corrupted.append(('substitute %s symbol@%d' % (fld, i), [f2]))
                corrupted.append(('lead-in x0.5', [[intact[0] // 2] + intact[1:]]))
                corrupted.append(('lead-in x2', [[intact[0] * 2] + intact[1:]]))
            names = list(p)

            def feed(inst, grp):
                """returns the first code a frame of the group yields, or None"""
                for f in grp:
                    try:
                        return inst.decode(list(f), d.frequency)
                    except pyIRDecoder.IRException as e:
                        if 'Repeat' in type(e).__name__ or 'ExpectingMore' in type(e).__name__:
                            continue
                        return None
                    except Exception:
                        return None
                return None

            def split_group(grp):
                """deliver a frame with interior gaps (< -2000 us, the streaming cut rule) piece by piece"""
                out = []
                for f in grp:
                    piece = []
                    for x in f:
                        piece.append(x)
                        if len(piece) > 3 and x < -2000:
                            out.append(piece); piece = []
                    if piece:
                        out.append(piece)
                return out

            sg = split_group(group)
            if len(sg) > len(group):
                ctest = feed(protos.fresh(d), sg)
                if ctest is not None and protos.view(ctest, names) == p:
                    corrupted = corrupted + [(w_ + ' [delivered piecewise]', split_group(g_)) for w_, g_ in corrupted if w_.startswith('substitute')]

            for what, g2 in corrupted:
                for hist in ('fresh', 'after-intact'):
                    inst = protos.fresh(d)
                    if hist == 'after-intact':
                        if feed(inst, group) is None:
                            continue
                    ctx.count((d.name, what, hist, tuple(sorted(p.items()))))
                    c = feed(inst, g2)
                    if c is None:
                        continue
                    v = protos.view(c, names)
                    if any(isinstance(x, str) or x is None for x in v.values()):
                        continue
                    ok = False
                    try:
                        v2 = []
                        code2, calls2 = capture(d, protos, v, v2, lambda w: [])
                        cands = [c3[2] for c3 in calls2] + [list(x) for x in protos.frames(code2)] + [f3 for _, w3, f3 in v2 if w3 == 'toggle']
                        ok = all(any(x == gf for x in cands) for gf in g2)
                        if not ok and what.endswith('[delivered piecewise]'):
                            cs = split_group(cands)
                            ok = all(any(x == gf for x in cs) for gf in g2)
                    except Exception:
                        ok = False
                    if not ok:
                        sym = ('reports-original' if v == p else 'reports-other-key') + '/' + hist
                        kind = what.split(' ')[0]
                        ctx.violation(d.name, sym, '%s %s, %s, decoder %s: returned %s whose encoding is not the corrupted frame' % (d.name, p, what, hist, v),
                                      dict(protocol=d.name, history=hist, kind=kind, field=what.split(' ')[1] if kind == 'substitute' else None),
                                      input=dict(params=p, corruption=what, history=hist, frames=g2))
    ctx.sample({'protocol': 'NEC', 'corruption': 'substitute F_CHECKSUM bit 3', 'history': 'after-intact'})


def check(ctx):
    ctx.rule = ('proof: for every class-A protocol and EVERY symbol sequence the base decoder rejects by bit count or reports exactly the bits and the frame it was given (C05_base); '
                'C05_wrapper: for the protocols whose traced decode() tree meets the kernel-checked obligation c05OK (every path that returns a code forces every field to the encoder expression '
                'of the reported parameters) EVERY in-width field vector is rejected with a library error or re-encodes to exactly the frame it came from; wrapper model vs real encode()/decode(); '
                'search: all real decoders that round-trip the key: every field (checksum/complement/constant fields included) x bit positions flipped through the REAL _build_packet, '
                'dropped/duplicated symbol, lead-in x0.5/x2, each on a fresh decoder and on one that has just decoded the intact frame; oracle: DecodeError-family / no code, or the reported '
                'parameters re-encode (any toggle) to exactly the corrupted frame. distinct = (protocol, corruption, history, key)')
    tabs, ok = engine_prove.prove(ctx, MODULES, with_wrappers=True, wrap_kinds=('c05',))
    import fingerprint
    changed_p, changed_e = fingerprint.changed()
    focus = engine_prove.failed_protocols(ctx) | changed_p
    ctx.extra['search_focus'] = sorted(focus)
    r = vlib.rng('c05corr')
    try:
        ec.standard_correspondence(ctx, r, per_proto=2 if not ctx.thorough else 6, focus=focus)
        from props import wrap_common
        wrap_common.correspondence(ctx, vlib.rng('c05wrap'), tabs, getattr(ctx, 'winfo', {}), per_proto=3 if not ctx.thorough else 12, focus=focus)
    except Exception:
        import traceback
        ctx.oblige('correspondence_driver', False, traceback.format_exc()[-500:])
    search(ctx, focus, deep=3 if changed_e else 1)


def replay(path):
    ctx = vlib.Ctx('C05', 'quick')
    check(ctx)
    return vlib.finish(ctx)
