"""C05 — a corrupted frame is rejected or decoded as what it actually says.
Theorems: IRModel/Props/C05.lean (base decoder reports exactly the bits of the corrupted frame, for every symbol
sequence); search: real decoders on single-symbol substitutions produced with the real _build_packet."""
import vlib
from props import engine_common as ec, engine_prove

MODULES = ['IRModel.Props.C05']


def capture(dec, protos, params):
    """real encode() with every _build_packet call recorded: list of (args, kwargs, result)"""
    cls = dec.__class__
    calls = []
    orig = cls.__dict__.get('_build_packet', None)
    base = cls._build_packet.__func__

    def rec(c, *args, **kwargs):
        res = base(c, *args, **kwargs)
        calls.append((args, dict(kwargs), list(res)))
        return res
    cls._build_packet = classmethod(rec)
    try:
        code = protos.encode(dec, params)
    finally:
        if orig is None:
            del cls._build_packet
        else:
            cls._build_packet = orig
    return code, calls


def flip(value, bit):
    from pyIRDecoder.integer_wrapper import IntegerWrapper
    if isinstance(value, IntegerWrapper):
        return IntegerWrapper(int(value) ^ (1 << bit), value.num_bits, value._timings, value.encoding)
    return value ^ (1 << bit)


def width_of(dec, key, value):
    from pyIRDecoder.integer_wrapper import IntegerWrapper
    if isinstance(value, IntegerWrapper):
        return value.num_bits
    for k, a, b in dec._parameters:
        if k == key:
            return b + 1 - a
    return 0


def search(ctx, focus=(), deep=1):
    import realenv, protos, pyIRDecoder
    realenv.take_control()
    r = vlib.rng('c05')
    known = [f for f in vlib.load_known().get('findings', []) if f.get('property') == 'C05']
    for d in protos.all_decoders():
        if d.name == 'Universal':
            continue
        nparams = (2 if not ctx.thorough else 10) * (6 if d.name in focus else 1) * deep
        plist = [f['witness']['input']['params'] for f in known if f.get('site') == d.name and isinstance(f.get('witness', {}).get('input'), dict) and 'params' in f['witness']['input']]
        for _ in range(nparams):
            plist.append(protos.sample_params(d, r))
        for p in plist:
            try:
                code, calls = capture(d, protos, p)
                intact = protos.frames(code)[0]
                protos.fresh(d).decode(list(intact), d.frequency)
            except Exception:
                continue                     # protocol does not round-trip this key at all: C01's business
            if not calls:
                continue
            args, kwargs, res = calls[0]
            if res != intact:
                continue
            corrupted = []
            keys = [k for k in kwargs if width_of(d, k, kwargs[k]) > 0]
            for k in keys:
                w = width_of(d, k, kwargs[k])
                bits = range(w) if (ctx.thorough or d.name in focus or w <= 4) else sorted(set([0, w - 1] + [r.randrange(w) for _ in range(2)]))
                for b in bits:
                    kw = dict(kwargs)
                    try:
                        kw[k] = flip(kwargs[k], b)
                        f2 = list(d.__class__._build_packet(*args, **kw))
                    except Exception:
                        continue
                    if f2 != intact:
                        corrupted.append(('substitute %s bit %d' % (k, b), f2))
            n = len(intact)
            if n > 8:
                if ctx.thorough or d.name in focus:
                    positions = list(range(2, n - 3))
                else:
                    positions = [r.randrange(2, n - 4)]
                for f_ in known:
                    inp = f_.get('witness', {}).get('input', {})
                    if f_.get('site') == d.name and isinstance(inp, dict) and inp.get('params') == p and ' at ' in str(inp.get('corruption')):
                        positions.append(int(inp['corruption'].rsplit(' ', 1)[1]))
                for i in sorted(set(x for x in positions if 0 < x < n - 2)):
                    corrupted.append(('drop symbol at %d' % i, intact[:i] + intact[i + 2:]))
                    corrupted.append(('append symbol at %d' % i, intact[:i] + intact[i:i + 2] + intact[i:]))
                corrupted.append(('lead-in x0.5', [intact[0] // 2] + intact[1:]))
                corrupted.append(('lead-in x2', [intact[0] * 2] + intact[1:]))
            names = list(p)
            for what, f2 in corrupted:
                for hist in ('fresh', 'after-intact'):
                    inst = protos.fresh(d)
                    if hist == 'after-intact':
                        try:
                            inst.decode(list(intact), d.frequency)
                        except Exception:
                            continue
                    ctx.count((d.name, what, hist, tuple(sorted(p.items()))))
                    try:
                        c = inst.decode(list(f2), d.frequency)
                    except pyIRDecoder.IRException:
                        continue
                    except Exception:
                        continue                     # leaks are C08's
                    v = protos.view(c, names)
                    if any(isinstance(x, str) or x is None for x in v.values()):
                        continue
                    # what does the reported key encode to?
                    ok = False
                    try:
                        code2, calls2 = capture(d, protos, v)
                        cands = [c3[2] for c3 in calls2] + [list(x) for x in protos.frames(code2)]
                        for a2, k2, r2 in calls2:
                            if 'T' in k2:
                                try:
                                    kk = dict(k2); kk['T'] = flip(k2['T'], 0)
                                    cands.append(list(d.__class__._build_packet(*a2, **kk)))
                                except Exception:
                                    pass
                        ok = any(x == f2 for x in cands)
                    except Exception:
                        ok = False
                    if not ok:
                        sym = ('reports-original' if v == p else 'reports-other-key') + '/' + hist
                        ctx.violation(d.name, sym, '%s %s, %s, decoder %s: returned %s whose encoding is not the corrupted frame' % (d.name, p, what, hist, v),
                                      dict(protocol=d.name, history=hist, kind=what.split(' ')[0], field=what.split(' ')[1] if what.startswith('substitute') else None),
                                      input=dict(params=p, corruption=what, history=hist, frame=f2))
    ctx.sample({'protocol': 'NEC', 'corruption': 'substitute F_CHECKSUM bit 3', 'history': 'after-intact'})


def check(ctx):
    ctx.rule = ('proof: for every class-A protocol and EVERY symbol sequence the base decoder rejects by bit count or reports exactly the bits and the frame it was given (C05_base); '
                'search: all real decoders that round-trip the key: every field (checksum/complement/constant fields included) x bit positions flipped through the REAL _build_packet, '
                'dropped/duplicated symbol, lead-in x0.5/x2, each on a fresh decoder and on one that has just decoded the intact frame; oracle: DecodeError-family / no code, or the reported '
                'parameters re-encode (any toggle) to exactly the corrupted frame. distinct = (protocol, corruption, history, key)')
    tabs, ok = engine_prove.prove(ctx, MODULES)
    import fingerprint
    changed_p, changed_e = fingerprint.changed()
    focus = engine_prove.failed_protocols(ctx) | changed_p
    ctx.extra['search_focus'] = sorted(focus)
    r = vlib.rng('c05corr')
    try:
        ec.standard_correspondence(ctx, r, per_proto=2 if not ctx.thorough else 6, focus=focus)
    except Exception:
        import traceback
        ctx.oblige('correspondence_driver', False, traceback.format_exc()[-500:])
    search(ctx, focus, deep=3 if changed_e else 1)


def replay(path):
    ctx = vlib.Ctx('C05', 'quick')
    check(ctx)
    return vlib.finish(ctx)
