"""C07 — a full frame decodes to its own parameters whatever was decoded before.
Theorems: IRModel/Props/C07.lean; search: histories with explicit release-callback delivery points on real instances."""
import vlib, itertools
from props import engine_common as ec, engine_prove, hist_common as hc

MODULES = ['IRModel.Props.C07']


def group(protos, d, code, names):
    """the first complete frame GROUP of a code: frames up to and including the first one that yields a code on a
    history-free decoder (one frame for most protocols, several for the multi-frame ones)"""
    fr = protos.frames(code)
    inst = protos.fresh(d)
    for k, f in enumerate(fr):
        if hc.outcome(protos, inst, f, names, d.frequency)[0] == 'ok':
            return fr[:k + 1]
    return fr[:1]


def feed(protos, inst, frames, names, freq, drain=None, drain_after=None):
    """feed a frame group; the group's outcome is the first code, else the last error.  `drain` runs the queued release
    callbacks after every frame, `drain_after=(k, f)` runs them once after the k-th frame (a delivery point INSIDE the group)"""
    out = None
    for k, f in enumerate(frames):
        out = hc.outcome(protos, inst, f, names, freq)
        if drain is not None:
            drain()
        if drain_after is not None and drain_after[0] == k + 1:
            drain_after[1]()
        if out[0] == 'ok':
            break
    return out


def search(ctx, focus=(), deep=1):
    import realenv, protos, pyIRDecoder
    env = realenv
    env.take_control()
    r = vlib.rng('c07')
    known = [f for f in vlib.load_known().get('findings', []) if f.get('property') == 'C07']
    depth = 2 if not ctx.thorough else 3
    for d in protos.all_decoders():
        if d.name == 'Universal':
            continue
        ks = hc.keys_for(protos, d, r, 2)
        if len(ks) < 2:
            continue
        (pa, ca), (pb, cb) = ks[0], ks[1]
        names = list(pa)
        try:
            fa, fb = protos.frames(ca)[0], protos.frames(cb)[0]
            ga, gb = group(protos, d, ca, names), group(protos, d, cb, names)
            rep = None
            cr = protos.encode(d, pa, 1)
            fr = protos.frames(cr)
            if len(fr) > 1 and fr[1] != fr[0]:
                rep = fr[1]
        except Exception:
            continue
        fresh_b = feed(protos, protos.fresh(d), gb, names, d.frequency)
        fresh_a = feed(protos, protos.fresh(d), ga, names, d.frequency)
        if fresh_b[0] != 'ok' and fresh_a[0] != 'ok':
            continue                       # protocol does not decode its own frames: C01's business
        garbage = [x * 3 for x in fa[:5]]
        events = {'A': ga, 'B': gb, 'G': [garbage]}
        if rep is not None:
            events['R'] = [rep]
        # 'C': key A's frame with one symbol substituted inside a NON-identifying field (checksum / complement /
        # constant), built with the real _build_packet
        try:
            from props import c05
            _, calls = c05.capture(d, protos, pa)
            ident = {n for n, _ in d._code_order}
            if calls and calls[0][2] == fa:
                args, kwargs, _ = calls[0]
                for k in kwargs:
                    if k not in ident and c05.width_of(d, k, kwargs[k]) > 0:
                        kw = dict(kwargs); kw[k] = c05.flip(kwargs[k], 0)
                        fc = list(d.__class__._build_packet(*args, **kw))
                        if fc != fa:
                            events['C'] = [fc]
                            break
        except Exception:
            pass
        fresh_c = feed(protos, protos.fresh(d), events['C'], names, d.frequency) if 'C' in events else None
        letters = sorted(events) + ['E']
        hists = [h for n in range(1, depth + 1) for h in itertools.product(letters, repeat=n)]
        if not ctx.thorough and d.name not in focus:
            hists = r.sample(hists, min(len(hists), 14 * deep))
        extra = [tuple(f['witness']['input']['history']) for f in known if f.get('site') == d.name and isinstance(f.get('witness', {}).get('input'), dict) and 'history' in f['witness']['input']]
        for h in extra + hists:
            for delivery in ('immediate', 'before-probe', 'after-probe', 'mid-probe'):
                for probe, want in [('B', fresh_b), ('A', fresh_a)] + ([('C', fresh_c)] if fresh_c is not None else []):
                    if delivery == 'mid-probe' and len(events[probe]) < 2:
                        continue           # only a multi-frame group has a point inside it
                    mids = range(1, len(events[probe])) if delivery == 'mid-probe' else [None]
                    for mid in mids:
                        inst = protos.fresh(d)
                        del env.process_worker.queue[:]
                        ok = True
                        for ev in h:
                            if ev == 'E':
                                try:
                                    protos.encode(inst, pb, 1)
                                except Exception:
                                    pass
                            elif ev in events:
                                feed(protos, inst, events[ev], names, d.frequency, drain=env.drain_process if delivery == 'immediate' else None)
                            if delivery == 'immediate':
                                env.drain_process()
                        if delivery == 'before-probe':
                            env.drain_process()
                        got = feed(protos, inst, events[probe], names, d.frequency, drain=env.drain_process if delivery == 'immediate' else None,
                                   drain_after=(mid, env.drain_process) if mid is not None else None)
                        env.drain_process()
                        ctx.count((d.name, h, delivery, probe, mid))
                        if got[0] == 'err' and got[1].startswith('LEAK'):
                            continue           # C08's
                        same = (got == want) or (got[0] == 'err' and want[0] == 'err' and got[1].startswith('IR:') and want[1].startswith('IR:') and (got[1] == want[1]))
                        # a repeat of the very same key may legitimately be answered with a repeat marker error
                        if not same and h and h[-1] == probe and got[0] == 'err' and 'Repeat' in got[1]:
                            same = True
                        if not same:
                            ctx.violation(d.name, 'history-dependent/' + ('corrupt' if probe == 'C' else 'full'), '%s history %s (callbacks %s) then full frame %s: %s, fresh decoder: %s' % (d.name, ''.join(h), delivery, probe, got, want),
                                          dict(protocol=d.name, delivery=delivery, last=h[-1] if h else None, probe=probe), input=dict(history=list(h), delivery=delivery, probe=probe, A=pa, B=pb))
    ctx.sample({'protocol': 'NEC', 'history': 'A R G', 'delivery': 'before-probe', 'probe': 'B'})


def check(ctx):
    ctx.rule = ('proof: C07_wrapper for the protocols whose traced decode() trees meet the kernel-checked obligation c07OK: with ANY well-formed code held, a frame longer than a repeat marker gets the same '
                'rejection as on a decoder without history or a code reporting the same parameters (every pair of compatible paths of the held-key tree and the no-history tree agrees); '
                'for every table set with empty _repeat_bursts and every instance state, a frame longer than a repeat marker gets the same rejection or a code of the same identity '
                'as on a history-free decoder (C07_history_independent); the repeat branch only accepts short inputs; correspondence: real IrProtocolBase.decode histories vs model; '
                'search: all real protocols: histories (depth 1-2, thorough 3) over {full A, full B, repeat frame, garbage, encode()} x delivery of queued release callbacks '
                '{immediately, before the probe, after the probe} x probe {B, A}; oracle = a fresh decoder. distinct = (protocol, history, delivery, probe)')
    tabs, ok = engine_prove.prove(ctx, MODULES, with_obligations=False, with_wrappers=True, wrap_kinds=('c07', 'c08'), inst_kinds=('c07', 'c07h'))
    import fingerprint
    changed_p, changed_e = fingerprint.changed()
    r = vlib.rng('c07corr')
    try:
        ec.standard_correspondence(ctx, r, per_proto=2 if not ctx.thorough else 6, focus=changed_p)
        from props import wrap_common
        wrap_common.correspondence(ctx, vlib.rng('c07wrap'), tabs, getattr(ctx, 'winfo', {}), per_proto=3 if not ctx.thorough else 12, focus=changed_p | engine_prove.failed_protocols(ctx))
    except Exception:
        import traceback
        ctx.oblige('correspondence_driver', False, traceback.format_exc()[-500:])
    search(ctx, changed_p | engine_prove.failed_protocols(ctx), deep=3 if changed_e else 1)


def replay(path):
    ctx = vlib.Ctx('C07', 'quick')
    check(ctx)
    return vlib.finish(ctx)
