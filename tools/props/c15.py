"""C15 — Pronto hex conversion. Model: lean/IRModel/Pronto.lean + Float.lean (exact round-to-nearest of every
float step); theorems: IRModel/Props/C15.lean; tie: word-for-word comparison with the real functions."""
import vlib

MODULES = ['IRModel.Props.C15']


def gen_lists(ctx, r):
    out = []
    carriers = [10000, 20000, 30000, 33000, 36000, 36700, 37900, 38000, 38400, 40000, 50000, 56000, 57600, 76800, 100000, 455000]
    # multiples of the carrier period (the cases where |v|/carrier is within an ulp of an integer)
    for f in carriers:
        per = 1000000.0 / f
        vals = [int(round(per * k)) for k in (1, 2, 3, 10, 21, 64, 100, 342, 1000)]
        l = [v if i % 2 == 0 else -v for i, v in enumerate(vals)]
        out.append((f, 'flat', l + [-(l[-1])] if len(l) % 2 else l))
        out.append((f, 'flat', [1000, -1000, 500, -2000, 38, -26]))
    n = 500 if not ctx.thorough else 4000
    for _ in range(n):
        f = r.choice(carriers + [r.randint(10000, 100000)])
        maxv = 100000 if f > 100000 else 500000
        ln = r.choice([1, 2, 2, 3, 4, 5, 6, 7, 8, 33, 34, 67, 68, 199, 200, r.randint(1, 200)])
        l = []
        for i in range(ln):
            k = r.random()
            v = r.randint(1, 50) if k < 0.1 else r.randint(1, 3000) if k < 0.6 else r.randint(3000, maxv)
            cap = int(65535 * 1000000.0 / f) - 50
            v = max(1, min(v, cap))
            l.append(v if i % 2 == 0 else -v)
        out.append((f, 'flat', l))
        if r.random() < 0.35:
            ln2 = r.randint(1, 40)
            l2 = [(r.randint(1, 20000)) * (1 if i % 2 == 0 else -1) for i in range(ln2)]
            k = r.random()
            out.append((f, 'nested', [l, l2] if k < 0.6 else [l, list(l)] if k < 0.8 else [l]))
    out.append((0, 'flat', [9000, -4500, 560, -560]))
    out.append((-5, 'flat', [9000, -4500]))
    return out


def show_nested(l):
    return ' | '.join(' '.join(map(str, x)) for x in l)


def check(ctx):
    ctx.rule = ('proof: header pair counts = half the data words of each sequence, total word count, even-length round trip has the same number of durations as +/- pairs, '
                'four hex digits below 65536 - for all carriers and lists; correspondence: rlc_to_pronto / pronto_to_rlc of the REAL library vs the exact-float Lean model, '
                'word for word, on lists of 1..200 durations, 1 us..500 ms, carriers 10 k..100 k and 455 k incl. exact multiples of the carrier period, flat / two-sequence / '
                'identical-sequence / single-sequence input, freq <= 0; search: the property oracle on the same inputs (count, signs, quantisation bound, carrier bound, header '
                'counts, 4 digits) and protocols.decode(Pronto of every protocol frame) with only that protocol enabled. distinct = (carrier, shape, list)')
    vlib.prove(ctx, MODULES)
    vlib.repo_import()
    import realenv, protos
    env = realenv
    env.take_control()
    from pyIRDecoder import pronto
    r = vlib.rng('c15')
    cases = gen_lists(ctx, r)
    ops, reals = [], []
    for f, kind, l in cases:
        arg = [list(x) for x in l] if kind == 'nested' else list(l)
        keep = [list(x) for x in l] if kind == 'nested' else list(l)
        ops.append('pronto_enc %d %s %s' % (f, kind, show_nested(l) if kind == 'nested' else ' '.join(map(str, l))))
        try:
            p = pronto.rlc_to_pronto(f, arg)
            reals.append('ok ' + p)
        except Exception as e:
            p = None
            reals.append('err ' + type(e).__name__)
        if p is None:
            continue
        words = [int(w, 16) for w in p.split(' ')]
        ops.append('pronto_dec ' + ' '.join(map(str, words)))
        try:
            f2, seqs = pronto.pronto_to_rlc(p)
            reals.append('ok %d ; %s' % (f2, show_nested(seqs)))
        except Exception as e:
            f2, seqs = None, None
            reals.append('err ' + ('ValueError' if type(e) is Exception else type(e).__name__))
        # ---- the property's oracle on the real functions
        key = (f, kind, repr(l))
        ctx.count(key, nontrivial=(len(l) >= 2))
        F = dict(kind=kind, carrier=f, length=len(l) if kind == 'flat' else [len(x) for x in l], odd=(kind == 'flat' and len(l) % 2 == 1))
        inp = dict(freq=f, kind=kind, data=l)
        if any(len(w) != 4 for w in p.split(' ')):
            ctx.violation('rlc_to_pronto', 'word-width', 'a word is not four hex digits: %s' % [w for w in p.split(' ') if len(w) != 4][:3], F, input=inp)
        seq_in = ([[], l] if kind == 'flat' else ([[]] + l if len(l) == 1 else l))
        if len(seq_in) == 2:
            if words[2] * 2 + words[3] * 2 != len(words) - 4:
                ctx.violation('rlc_to_pronto', 'header-count', 'header announces %d+%d pairs, %d data words follow' % (words[2], words[3], len(words) - 4), F, input=inp)
            if words[2] * 2 != len(seq_in[0]) + len(seq_in[0]) % 2 or words[3] * 2 != len(seq_in[1]) + len(seq_in[1]) % 2:
                ctx.violation('rlc_to_pronto', 'header-count', 'pair counts %d/%d for sequences of %d/%d durations' % (words[2], words[3], len(seq_in[0]), len(seq_in[1])), F, input=inp)
        if seqs is None:
            ctx.violation('pronto_to_rlc', 'raises', 'decode of own output raised', F, input=inp)
            continue
        ff = f if f > 0 else 36000
        pcw = 1000000.0 / (ff * 0.241246)
        delta = 0.5 / (pcw - 0.5)            # relative error of rounding the carrier word to an integer
        if abs(f2 - ff) > ff * delta / (1 - delta) + 2:
            ctx.violation('pronto_to_rlc', 'carrier', 'carrier %d came back as %d' % (ff, f2), F, input=inp)
        nonempty = [s for s in seq_in if s]
        if len(nonempty) != len(seqs):
            ctx.violation('pronto_to_rlc', 'sequence-count', '%d sequence(s) in, %d out' % (len(nonempty), len(seqs)), F, input=inp)
            continue
        per = 1000000.0 / ff
        for s_in, s_out in zip(nonempty, seqs):
            if len(s_in) % 2 == 1:
                if len(s_out) != len(s_in) + 1:
                    ctx.violation('pronto_to_rlc', 'count-odd', '%d durations in, %d out' % (len(s_in), len(s_out)), F, input=inp)
                else:
                    ctx.violation('pronto_to_rlc', 'count-odd-padded', 'odd-length sequence comes back one (padding) duration longer: %d -> %d' % (len(s_in), len(s_out)), F, input=inp)
                continue
            if len(s_out) != len(s_in):
                ctx.violation('pronto_to_rlc', 'count', '%d durations in, %d out' % (len(s_in), len(s_out)), F, input=inp)
                continue
            for a, b in zip(s_in, s_out):
                if (a > 0) != (b >= 0) and b != 0:
                    ctx.violation('pronto_to_rlc', 'sign', '%d came back as %d' % (a, b), F, input=inp)
                    break
                if abs(abs(a) - abs(b)) > per * (1 + delta) + abs(a) * delta + 1:
                    ctx.violation('pronto_to_rlc', 'quantisation', '%d came back as %d (carrier period %.1f us)' % (a, b, per), F, input=inp)
                    break
    try:
        outs = vlib.Driver().run(ops)
        ctx.corr['ops'] = len(ops)
        ctx.corr['dist'] = {'pronto_enc': sum(1 for o in ops if o.startswith('pronto_enc')), 'pronto_dec': sum(1 for o in ops if o.startswith('pronto_dec'))}
        for o, m, rl in zip(ops, outs, reals):
            if m != rl and len(ctx.corr['disagreements']) < 10:
                mt, rt = m.split(' '), rl.split(' ')
                k = next((i for i in range(min(len(mt), len(rt))) if mt[i] != rt[i]), min(len(mt), len(rt)))
                ctx.disagree(o[:400], 'token %d: %s' % (k, ' '.join(mt[max(0, k - 2):k + 2])), 'token %d: %s' % (k, ' '.join(rt[max(0, k - 2):k + 2])))
    except Exception as e:
        ctx.oblige('correspondence_driver', False, str(e)[:300])
    ctx.sample({'freq': cases[0][0], 'list': cases[0][2], 'pronto': reals[0][:80]})
    # second clause: Pronto rendering of a single-frame code decodes to the same parameters with only that protocol enabled
    decs = protos.all_decoders()
    known_names = [n for f in vlib.load_known().get('findings', []) if f.get('property') == 'C15' for n in f.get('witness', {}).get('pronto_protocols', [])]
    for d in decs:
        if d.name == 'Universal' or d.frequency <= 0:
            continue
        if not ctx.thorough and r.random() > 0.4 and d.name not in known_names:
            continue
        try:
            p = protos.sample_params(d, r)
            code = protos.encode(d, p)
            if len(protos.frames(code)) != 1:
                continue
            ref = protos.fresh(d).decode(list(protos.frames(code)[0]), d.frequency)
            want = protos.view(ref, list(p))
            pr = code.normalized_rlc_pronto
        except Exception:
            continue
        for x in decs:
            x.enabled = x is d
            x._last_code = None
        env.reset_dispatcher()
        try:
            got = env.protocols.decode(pr)
        except Exception as e:
            got = None
        env.drain_process()
        ctx.count(('code', d.name))
        if got is None or protos.view(got, list(p)) != want:
            ctx.violation('protocols.decode(pronto)', 'pronto-decode-differs', '%s %s: Pronto rendering decodes to %s' % (d.name, p, None if got is None else protos.view(got, list(p))),
                          dict(protocol=d.name), input=dict(protocol=d.name, params=p))
    for x in decs:
        x.enabled = True
    env.reset_dispatcher()


def replay(path):
    ctx = vlib.Ctx('C15', 'quick')
    check(ctx)
    return vlib.finish(ctx)
