"""C01 — encode then decode returns the parameters.
Models: Encode/CodeWrapper/Proto; theorems: IRModel/Props/C01.lean (+EngineThm, RoundTrip); obligations: IRGen/Obligations.lean."""
import vlib
from props import engine_common as ec, engine_prove

MODULES = ['IRModel.Props.C01', 'IRModel.Props.Manchester']


def first_code(protos, dec, code):
    """feed the frames in order to a fresh decoder until one yields a code (frame group semantics)"""
    fr = protos.fresh(dec)
    errs = []
    for f in protos.frames(code):
        try:
            return fr.decode(list(f), dec.frequency), errs
        except Exception as e:
            errs.append(protos.errclass(e))
            if 'Repeat' in errs[-1] or 'ExpectingMore' in errs[-1]:
                continue
            return None, errs
    return None, errs


def search(ctx, focus=(), deep=1):
    import realenv, protos, itertools
    realenv.take_control()
    r = vlib.rng('c01')
    import pyIRDecoder
    known = [f for f in vlib.load_known().get('findings', []) if f.get('property') == 'C01']
    for d in protos.all_decoders():
        if d.name == 'Universal':
            continue
        specs = protos.param_specs(d)
        n = (12 if not ctx.thorough else 120) * (8 if d.name in focus else 1) * deep
        cases = [f['witness']['input'] for f in known if f.get('site') == d.name and isinstance(f.get('witness', {}).get('input'), dict)]
        cases += protos.corner_params(d)
        if d.name in focus:
            # source of this protocol changed (or its obligation failed): every PAIR of parameters exhaustively
            # (others random), capped per pair
            names = [s_[0] for s_ in specs]
            for (a, alo, ahi), (b, blo, bhi) in itertools.combinations(specs, 2):
                if (ahi - alo + 1) * (bhi - blo + 1) > 70000:
                    continue
                base = protos.sample_params(d, r)
                for va in range(alo, ahi + 1):
                    for vb in range(blo, bhi + 1):
                        p = dict(base)
                        p[a] = va; p[b] = vb
                        cases.append(p)
            for (a, alo, ahi) in specs:
                if ahi - alo + 1 <= 70000:
                    base = protos.sample_params(d, r)
                    for va in range(alo, ahi + 1):
                        p = dict(base); p[a] = va
                        cases.append(p)
        # every per-parameter boundary value crossed with random others
        for name, lo, hi in specs:
            for v in protos.boundary_values(lo, hi)[: (8 if not ctx.thorough else 40)]:
                p = protos.sample_params(d, r, bias=0.3)
                p[name] = v
                cases.append(p)
        for _ in range(n):
            cases.append(protos.sample_params(d, r))
        total = 1
        for _, lo, hi in specs:
            total *= (hi - lo + 1)
        if ctx.thorough and total <= 4096:
            import itertools
            cases = [dict(zip([s[0] for s in specs], vs)) for vs in itertools.product(*[range(lo, hi + 1) for _, lo, hi in specs])]
        seen = set()
        for p in cases:
            key = tuple(sorted(p.items()))
            if key in seen:
                continue
            seen.add(key)
            ctx.count((d.name, key))
            F = dict(protocol=d.name, **p)
            try:
                code = protos.encode(d, p)
            except pyIRDecoder.EncodeError:
                continue
            except Exception as e:
                ctx.violation(d.name, 'encode-raises', '%s.encode(%s) raised %s' % (d.name, p, type(e).__name__), F, input=p)
                continue
            got, errs = first_code(protos, d, code)
            if got is None:
                ctx.violation(d.name, 'undecodable', '%s %s: own first frame group is not decoded (%s)' % (d.name, p, errs[-3:]), dict(F, err=errs[-1] if errs else None), input=p)
                continue
            v = protos.view(got, list(p))
            if v != p:
                diff = sorted(k for k in p if v.get(k) != p[k])
                ctx.violation(d.name, 'aliased', '%s %s decodes as %s' % (d.name, p, {k: v[k] for k in diff}), dict(F, differs=diff), input=p)
    # one encoder object PER REQUEST, protocols interleaved in a shuffled schedule: the result must not depend on which
    # encoder objects lived (and died) before -- state kept outside the instance (module/class level caches keyed by
    # object identity, shared tables) only shows up this way
    sched = []
    for d in protos.all_decoders():
        if d.name == 'Universal':
            continue
        for _ in range((24 if not ctx.thorough else 120) * deep):
            sched.append((d, protos.sample_params(d, r, bias=0.5)))
    r.shuffle(sched)
    for d, p in sched:
        F = dict(protocol=d.name, **p)
        try:
            enc = d.__class__()
            code = protos.encode(enc, p)
            del enc
        except Exception:
            continue            # refusals / encoder exceptions are judged by the main loop above
        ctx.count((d.name, 'fresh-encoder', tuple(sorted(p.items()))))
        got, errs = first_code(protos, d, code)
        if got is None:
            ctx.violation(d.name, 'undecodable', '%s %s (encoder object created for this request): own first frame group is not decoded (%s)' % (d.name, p, errs[-3:]), dict(F, err=errs[-1] if errs else None), input=p)
            continue
        v = protos.view(got, list(p))
        if v != p:
            diff = sorted(k for k in p if v.get(k) != p[k])
            ctx.violation(d.name, 'aliased', '%s %s (encoder object created for this request) decodes as %s' % (d.name, p, {k: v[k] for k in diff}), dict(F, differs=diff), input=p)
    ctx.sample({'protocol': 'NEC', 'params': {'device': 1, 'sub_device': 2, 'function': 3}})


def check(ctx):
    ctx.rule = ('proof: generic engine round trip + per-protocol kernel obligations regenerated from /repo; parameter-level theorem C01_wrapper for the protocols whose traced '
                'encode()/decode() wrappers (tools/wtrace.py, re-executed on /repo every run) meet the kernel-checked obligation c01OK; wrapper correspondence: generated wrapper model vs '
                'the real encode() (all frames, repeat_count 0..2) and decode() (histories with held key, corrupted frames); correspondence: real _build_packet / CodeWrapper / '
                'IrProtocolBase.decode vs the Lean model on valid, window-edge-perturbed, structurally damaged and garbage frames of every regular protocol; '
                'search: all protocols, every per-parameter boundary value crossed with random others + random (exhaustive when the space is <= 4096, thorough), '
                'oracle = encode, feed the first frame group to a fresh decoder, compare every parameter. distinct = distinct (protocol, parameter set)')
    tabs, ok = engine_prove.prove(ctx, MODULES, with_wrappers=True, wrap_kinds=('c01',))
    import fingerprint
    changed_p, changed_e = fingerprint.changed()
    focus = engine_prove.failed_protocols(ctx) | changed_p
    ctx.extra['search_focus'] = sorted(focus)
    ctx.extra['engine_files_changed'] = sorted(changed_e)
    r = vlib.rng('c01corr')
    try:
        ec.standard_correspondence(ctx, r, per_proto=2 if not ctx.thorough else 8, focus=focus)
        # the traced wrappers (encode()/decode() bodies) against the real methods
        from props import wrap_common
        wrap_common.correspondence(ctx, vlib.rng('c01wrap'), tabs, getattr(ctx, 'winfo', {}), per_proto=3 if not ctx.thorough else 12, focus=focus)
    except Exception:
        import traceback
        ctx.oblige('correspondence_driver', False, traceback.format_exc()[-500:])
    search(ctx, focus, deep=4 if changed_e else 1)


def replay(path):
    ctx = vlib.Ctx('C01', 'quick')
    check(ctx)
    return vlib.finish(ctx)
