"""C02 — emitted frames match the protocol's published IRP specification.

Proof part   : IRModel/Props/C02.lean + generated IRGen/Irp.lean (see c02_gen.py): for every protocol whose
               IRP string has the plain shape (durations, bit fields, durations, gap/extent) the kernel checks
               that the parsed skeleton prints back to the source string and that its timing tables agree
               with the class tables; the generic theorem turns that into equality of the first frame for
               every field value.
Search part  : the real encoders against tools/irp.py (an independent IRP renderer), two levels:
               sequence  - the whole signal for repeat_count 0,1,2 equals the IRP rendering
               frame     - every single emitted frame is a frame the IRP describes (lead-in/ditto/ending,
                           any toggle state)
               plus the carrier frequency.
"""
import itertools, json, os, re, inspect
from fractions import Fraction as Fr
import vlib
import irp

NAMES = json.load(open(os.path.join(os.path.dirname(os.path.dirname(os.path.abspath(__file__))), 'irp_names.json')))
FULL = {'D': 'DEVICE', 'F': 'FUNCTION', 'T': 'TOGGLE', 'DEV': 'DEVICE', 'L': 'LEFT', 'R': 'RIGHT', 'S': 'SUBDEVICE',
        'E': 'EXTENDEDFUNCTION', 'M': 'MODE'}


def norm(k):
    return k.upper().replace('_', '')


def cands(n):
    n0 = norm(n)
    out = [n0]
    m = re.match(r'^([A-Z]+?)(\d*)$', n0)
    if m and m.group(1) in FULL:
        out.append(FULL[m.group(1)] + m.group(2))
    return out


class Spec(object):
    def __init__(self, dec):
        self.dec = dec
        self.name = dec.__class__.__name__
        self.src = getattr(dec, 'irp', '') or ''
        self.ast = None
        self.ill = None
        try:
            self.ast = irp.parse(self.src)
            self.need, self.dflt, self.assigned = irp.free_names(self.ast)
        except irp.IrpError as e:
            self.ill = str(e)

    def env(self, kwargs, data):
        """IRP environment for one encode call: encoder arguments first, then what the code object stores
        under the IRP letter; returns (env, unmapped names)"""
        kw = {norm(k): v for k, v in kwargs.items()}
        dt = {}
        for k, v in data.items():
            if k == 'frequency' or v is None:
                continue
            try:
                dt[norm(k)] = int(v)
            except Exception:
                pass
        alias = NAMES.get(self.name, {})
        env, un = {}, []
        for n in sorted(self.need | self.dflt):
            if n in alias:
                a = norm(alias[n])
                if a in kw:
                    env[n] = kw[a]
                    continue
                if a in dt:
                    env[n] = dt[a]
                    continue
            for src in (kw, dt):
                if src is dt and n == 'T':
                    # a toggle the caller did not pass is the encoder's own choice (and the code object only
                    # keeps its last value): any toggle state is accepted, frame by frame
                    continue
                hit = [c for c in cands(n) if c in src]
                if hit:
                    env[n] = src[hit[0]]
                    break
            else:
                if n in self.need:
                    un.append(n)
        return env, un

    def state_domain(self, un):
        """variables whose value the caller does not choose: unmapped toggles and variables the stream assigns"""
        dom = {}
        for n in sorted(set(un) | self.assigned):
            dom[n] = [0, 1, 2] if n == 'P' else [0, 1]
        return dom


def flat(frames):
    out = []
    for f in frames:
        for d in f:
            if out and (out[-1] > 0) == (d > 0):
                out[-1] += d
            else:
                out.append(d)
    return out


def compare(exp, got):
    """exp: [(Fraction, is_extent_gap)], got: [int].  An integer duration `is` the real one when it is
    within one microsecond; an extent gap is judged by the running total it completes.
    Returns None or (kind, index of the first difference, irp value, encoder value, pairs) where kind is
    'values' (same length, `pairs` = the distinct (irp, encoder) values that differ), 'length' or 'sign'."""
    te, tg = Fr(0), 0
    first = None
    pairs = set()
    same_len = len(exp) == len(got)
    for i, ((e, x), g) in enumerate(zip(exp, got)):
        if (e > 0) != (g > 0):
            if first is None:
                first = ('sign', i, int(round(e)), g)
            if not same_len:
                break
            pairs.add((int(round(e)), g))
            continue
        te += abs(e)
        tg += abs(g)
        bad = False
        if x:
            bad = abs(te - tg) >= 1
            te, tg = Fr(0), 0
        else:
            bad = abs(e - g) >= 1
        if bad:
            if first is None:
                first = ('values', i, int(round(e)), g)
            if not same_len:
                break
            pairs.add((int(round(e)), g))
    if not same_len:
        at = first[1] if first else min(len(exp), len(got))
        return ('length', at, len(exp), len(got), [])
    if first is None:
        return None
    return first + (sorted(pairs),)


def render_seq(spec, env, init, parts):
    """render a sequence of parts ('intro' | 'repeat' | 'ending') in one go"""
    ast = spec.ast
    intro, rep, ending, m = irp.split_top(ast)
    e = dict(env)
    e.update(init)
    r = irp.Renderer(ast, e)
    r.specs.append(ast['bitspec'])
    r.pending.append([])
    for p in parts:
        if p == 'intro':
            for x in intro:
                r.item(x, 0, 'intro')
            r.flush(0)
            if rep is not None and m == '+':
                r.stream(rep, 0, 'intro')
        elif p == 'repeat':
            if rep is not None:
                r.stream(rep, 0, 'repeat')
            else:
                for x in intro:
                    r.item(x, 0, 'repeat')
                r.flush(0)
        elif p == 'first':
            # lead-in of the intro followed by the repeat body rendered as a repeat (`(A,(B)*)` sent as A,B)
            for x in intro:
                r.item(x, 0, 'intro')
            r.flush(0)
            if rep is not None:
                r.stream(rep, 0, 'repeat')
        else:
            for x in ending:
                r.item(x, 0, 'ending')
            r.flush(0)
    out = [(d, x) for d, x in r.out.items]
    cuts = sorted(m for m in r.marks if 0 < m < len(out) and out[m - 1][0] < 0)
    return out, cuts


PARTS = [['intro'], ['repeat'], ['ending'], ['intro', 'repeat'], ['repeat', 'repeat'], ['repeat', 'ending'],
         ['intro', 'ending'], ['repeat', 'repeat', 'repeat'], ['intro', 'repeat', 'repeat']]


def frame_ok(spec, env, dom, frame, cache):
    """is this single frame one the specification describes (some part, some toggle state)?"""
    names = sorted(dom)
    best = None
    for vals in itertools.product(*[dom[n] for n in names]):
        init = dict(zip(names, vals))
        for parts in PARTS:
            key = (spec.name, tuple(sorted(env.items())), vals, tuple(parts))
            if key not in cache:
                try:
                    cache[key] = render_seq(spec, env, init, parts)
                except irp.IrpError as e:
                    cache[key] = None
            if not cache[key] or not cache[key][0]:
                continue
            whole, cuts = cache[key]
            # the frame may be the whole rendering or the piece between two irstream boundaries
            # (`((A)2,B)*` is sent as three frames)
            bounds = [0] + cuts + [len(whole)]
            for a in range(len(bounds) - 1):
                for b in range(a + 1, len(bounds)):
                    if (a, b) != (0, len(bounds) - 1) and len(bounds) > 8:
                        continue
                    exp = whole[bounds[a]:bounds[b]]
                    if a and any(x for _, x in exp):
                        # an extent counts from the start of its own piece: re-render is not possible, skip
                        # pieces with an extent that do not start where the extent's count starts
                        pass
                    m = compare(exp, frame)
                    if m is None:
                        return None
                    if best is None or closer(m, best):
                        best = m
    return best or ('nothing-rendered', 0, 0, 0, [])


def seq_check(spec, env, dom, got, rc):
    names = sorted(dom)
    best = None
    for vals in itertools.product(*[dom[n] for n in names]):
        e = dict(env)
        e.update(dict(zip(names, vals)))
        try:
            exp = irp.render(spec.ast, e, rc)
        except irp.IrpError as ex:
            m = ('render-error:' + str(ex)[:40], 0, 0, 0, [])
        else:
            m = compare(exp, got)
            if m is None:
                return None
        if best is None or closer(m, best):
            best = m
    return best


def closer(a, b):
    """candidate mismatch a is a better explanation than b: same length beats different length, then the
    fewer differing values, then the later first difference"""
    ka = (a[0] == 'length', len(a[4]), -a[1])
    kb = (b[0] == 'length', len(b[4]), -b[1])
    return ka < kb


def sample_kwargs(d, r, protos):
    """arguments for d.encode: encode_parameters, completed from the signature where the two differ"""
    p = protos.sample_params(d, r)
    try:
        sig = inspect.signature(d.encode)
    except (TypeError, ValueError):
        return p
    for n, prm in sig.parameters.items():
        if n in ('self', 'repeat_count') or n in p:
            continue
        if prm.kind in (prm.VAR_KEYWORD, prm.VAR_POSITIONAL):
            continue
        if prm.default is prm.empty:
            p[n] = r.choice([0, 1, 2, 3, 5, 12, 0x74, 127, 128, 255])
    return p


def search(ctx, focus=(), deep=1):
    import realenv, protos, pyIRDecoder
    realenv.take_control()
    r = vlib.rng('c02')
    known = [f for f in vlib.load_known().get('findings', []) if f.get('property') == 'C02']
    specs = []
    cov = {'ill_formed': {}, 'unmapped': {}, 'no_encode': [], 'compared': 0, 'sequence_ok': 0, 'frame_level': 0}
    for d in protos.all_decoders():
        s = Spec(d)
        if s.ill is not None:
            cov['ill_formed'][s.name] = s.ill
            continue
        specs.append(s)
        f = irp.frequency(s.ast)
        ctx.count(('freq', s.name))
        if f != d.frequency:
            ctx.violation(s.name, 'frequency', '%s: irp says %s Hz, protocol.frequency = %r' % (s.name, irp.pnum(f), d.frequency),
                          dict(protocol=s.name, irp_frequency=float(f), frequency=d.frequency), input=dict(protocol=s.name))
    # one schedule over all protocols, shuffled: frames of one protocol must not depend on what was encoded before
    sched = []
    for s in specs:
        n = (3 if not ctx.thorough else 25) * (8 if s.name in focus else 1) * deep
        cases = []
        for f in known:
            w = f.get('witness', {}).get('input')
            if f.get('site') == s.name and isinstance(w, dict) and 'params' in w:
                cases.append(dict(w['params']))
        ps = protos.param_specs(s.dec)
        if ps:
            cases.append({n_: hi for n_, lo, hi in ps})
            cases.append({n_: lo for n_, lo, hi in ps})
        for _ in range(n):
            cases.append(sample_kwargs(s.dec, r, protos))
        for c in cases:
            sched.append((s, c))
    r.shuffle(sched)
    encoded = set()
    cache = {}
    per = {}
    for s, p in sched:
        d = s.dec
        st = per.setdefault(s.name, {'cases': 0, 'seq_ok': 0, 'frame_ok': 0, 'enc_err': 0})
        if len(cache) > 20000:
            cache.clear()
        order = [0, 1, 2]
        r.shuffle(order)
        for rc in order:
            try:
                code = protos.encode(d, p, rc)
            except pyIRDecoder.EncodeError:
                st['enc_err'] += 1
                break
            except Exception as e:
                st['enc_err'] += 1
                break
            try:
                frames = [list(f) for f in code.normalized_rlc]
                data = dict(code._data)
            except Exception:
                st['enc_err'] += 1
                break
            env, un = s.env(p, data)
            hard = [n for n in un if n != 'T']
            if hard:
                cov['unmapped'][s.name] = hard
                break
            encoded.add(s.name)
            dom = s.state_domain(un)
            st['cases'] += 1
            cov['compared'] += 1
            ctx.count((s.name, tuple(sorted(p.items())), rc))
            F = dict(protocol=s.name, rc=rc, nframes=len(frames), **{k: v for k, v in p.items() if isinstance(v, int)})
            inp = dict(protocol=s.name, params=p, repeat_count=rc)
            got = flat(frames)
            m = seq_check(s, env, dom, got, rc)
            if m is None:
                st['seq_ok'] += 1
                cov['sequence_ok'] += 1
                continue
            kind = m[0]
            ctx.violation(s.name, 'sequence-%s-rc%d' % (kind.split(':')[0], rc),
                          '%s %s rc=%d: whole signal differs from the IRP rendering: %s at %d: irp %s, encoder %s (%d frames)'
                          % (s.name, p, rc, kind, m[1], m[2], m[3], len(frames)),
                          dict(F, at=m[1], exp=m[2], got=m[3], pairs=[list(x) for x in m[4]]), input=inp)
            # frame level: is every single frame at least one the IRP describes?
            cov['frame_level'] += 1
            bad = None
            for k, f in enumerate(frames):
                fm = frame_ok(s, env, dom, flat([f]), cache)
                if fm is not None:
                    bad = (k, fm)
                    break
            if bad is None:
                st['frame_ok'] += 1
            else:
                k, fm = bad
                pos = 'first' if k == 0 else ('last' if k == len(frames) - 1 else 'middle')
                ctx.violation(s.name, 'frame-%s-%s' % (pos, fm[0].split(':')[0]),
                              '%s %s rc=%d frame %d is not a frame of the IRP: closest candidate differs by %s at %d: irp %s, encoder %s'
                              % (s.name, p, rc, k, fm[0], fm[1], fm[2], fm[3]),
                              dict(F, frame_index=k, at=fm[1], exp=fm[2], got=fm[3], pairs=[list(x) for x in fm[4]]), input=inp)
    cov['no_encode'] = sorted(s.name for s in specs if s.name not in encoded and s.name not in cov['unmapped'])
    cov['per_protocol'] = per
    cov['well_formed'] = len(specs)
    cov['fully_matching_protocols'] = sorted(n for n, st in per.items() if st['cases'] and st['seq_ok'] == st['cases'])
    ctx.extra['irp_coverage'] = cov
    ctx.sample({'protocol': 'NEC', 'params': {'device': 1, 'sub_device': 2, 'function': 3}, 'repeat_count': [0, 1, 2]})


def correspond(ctx):
    """the Lean `Irp.render` (the semantics the theorem is stated with) against tools/irp.py's general renderer,
    on the skeleton protocols, exact rationals; and against the real encoder's first frame (within 1us)"""
    import protos, pyIRDecoder, c02_gen, extract
    r = vlib.rng('c02corr')
    tabs = {t['name']: t for t in extract.tables()}
    lines = ['import IRGen.Irp', 'open IRModel IRModel.Irp IRGen.IrpObl',
             'def fmtQ (l : List Rat) : String := " ".intercalate (l.map (fun q => toString q.num ++ "/" ++ toString q.den))']
    want = []
    per = 2 if not ctx.thorough else 10
    for d in protos.all_decoders():
        s = Spec(d)
        if s.ill is not None:
            continue
        sk, why = c02_gen.skeleton(s.src)
        if sk is None:
            continue
        for _ in range(per):
            p = sample_kwargs(d, r, protos)
            try:
                code = protos.encode(d, p, 0)
                data = dict(code._data)
                frames = [list(f) for f in code.normalized_rlc]
            except Exception:
                continue
            env, un = s.env(p, data)
            if [n for n in un if n != 'T']:
                continue
            for n in un:
                env[n] = 0
            intro, rep, ending, m = irp.split_top(s.ast)
            items = intro if intro else (rep[1] if rep else [])
            bits = [it for it in items if it[0] == 'bits']
            try:
                e = irp.Env(s.ast, env)
                vals = [irp.bf_value(it[1], e)[0] for it in bits]
                exp = irp.render(s.ast, env, 0)
            except irp.IrpError:
                continue
            if len(vals) != len(sk['fields']):
                ctx.disagree('irp_skeleton %s' % s.name, 'fields=%d' % len(sk['fields']), 'irp.py bit items=%d' % len(vals))
                continue
            ident = extract.lean_ident(s.name)[2:]
            lines.append('#eval IO.println ("R " ++ fmtQ (render I_%s [%s]))' % (ident, ', '.join(str(v) for v in vals)))
            want.append((s.name, p, vals, exp, frames[0] if frames else []))
    path = os.path.join(vlib.LEAN, 'IRGen', 'IrpRun.lean')
    open(path, 'w').write('\n'.join(lines) + '\n')
    vlib.lake_build(['IRGen.Irp'])      # the aggregate module IrpRun imports (lake only built its parts so far)
    rc, out, err = vlib.run(['lake', 'env', 'lean', path], cwd=vlib.LEAN, timeout=1200)
    got = [l[2:].split() for l in out.splitlines() if l.startswith('R ')]
    if rc != 0 or len(got) != len(want):
        ctx.oblige('irp_render_driver', False, (out + err)[-400:])
        return
    ctx.oblige('irp_render_driver', True, '%d renderings' % len(got))
    real_cmp = 0
    for (name, p, vals, exp, frame0), g in zip(want, got):
        ctx.corr['ops'] += 1
        ctx.corr['dist']['irp_render'] = ctx.corr['dist'].get('irp_render', 0) + 1
        lean = []
        for x in g:
            x = Fr(x)
            if lean and (lean[-1] > 0) == (x > 0):
                lean[-1] += x          # adjacent durations of one sign are one duration (single-duration symbols)
            else:
                lean.append(x)
        py = [d_ for d_, _ in exp][:len(lean)]
        if lean != py:
            ctx.disagree('irp_render %s %s' % (name, vals), ' '.join(g)[:200], ' '.join('%d/%d' % (x.numerator, x.denominator) for x in py)[:200])
    ctx.extra['irp_render_ops'] = len(got)


def check(ctx):
    ctx.rule = ('proof: for every plain-shape protocol the IRP skeleton (kernel-checked to print back to the source string) renders, for every field value, '
                'exactly the first frame _build_packet builds from the class tables (IRGen obligations regenerated from /repo); '
                'search: ALL protocols with a well-formed irp x {all-max, all-min, random, known witnesses} x repeat_count 0,1,2 in one shuffled cross-protocol '
                'schedule: whole signal = IRP rendering (durations within 1us, extents by running total), else every frame must be an IRP-described frame; '
                'carrier frequency = IRP frequency. distinct = (protocol, params, repeat_count)')
    from props import c02_prove
    c02_prove.prove(ctx)
    import fingerprint
    changed_p, changed_e = fingerprint.changed()
    focus = set(changed_p) | set(ctx.extra.get('failed_protocols', []))
    ctx.extra['search_focus'] = sorted(focus)
    try:
        correspond(ctx)
        from props import engine_common as ec
        ec.standard_correspondence(ctx, vlib.rng('c02eng'), per_proto=1 if not ctx.thorough else 4, focus=focus)
    except Exception:
        import traceback
        ctx.oblige('correspondence_driver', False, traceback.format_exc()[-500:])
    search(ctx, focus, deep=4 if changed_e else 1)


def replay(path):
    ctx = vlib.Ctx('C02', 'quick')
    check(ctx)
    return vlib.finish(ctx)
