"""C18 — an interrupted save never yields a half-loaded configuration.
Theorems: IRModel/Props/C18.lean (handle_file decision logic for an arbitrary parser); tie: decision logic vs the real
handle_file on observed parser outcomes; search: every truncation offset of real saved files, with/without backup."""
import vlib, os, tempfile, shutil
from props import xml_common as xc

MODULES = ['IRModel.Props.C18']


def tree_sig(root):
    """comparable summary of a loaded tree: root tag, attributes, per child (tag, attributes, nchildren)"""
    def attrs(e):
        return tuple(sorted((k, e.attrib._XMLAttributes__data[k]) for k in e.attrib.keys()))
    return (root.tag, attrs(root), tuple((c.tag, attrs(c), len(c)) for c in root))


def check(ctx):
    ctx.rule = ('proof: for an arbitrary parser, handle_file returns the parse of a file that passed the completeness test or the parse of the backup, or fails; the backup is only replaced by a '
                'complete, parsed file; correspondence: model decision vs the REAL handle_file on observed outcomes (parses? complete? backup present/valid?); search: files written by '
                'the real Config.save for several configurations, truncated at every byte offset (thorough) or stride 97 + the first 700 bytes + every element boundary of the first 3000 bytes (sampled later) + the last 300 bytes (quick), '
                'with a good backup, without a backup; oracle: load = full configuration (from the backup) or raises; never a partial tree; .backup content unchanged. distinct = (file, offset, backup?)')
    vlib.prove(ctx, MODULES)
    env, protos = xc.setup()
    from pyIRDecoder import xml_handler, protocols
    r = vlib.rng('c18')
    tmp = tempfile.mkdtemp(prefix='verif_c18_')
    original = xc.read_settings(protos)
    original_url = protocols.config.database_url
    ops, reals = [], []
    try:
        nfiles = 2 if not ctx.thorough else 3
        for k in range(nfiles):
            settings = xc.rand_settings(protos, r)
            url = ['http://eventghost.net:43847', 'http://x/?a=1&b=<2>', xc.rand_text(r, 20)][k % 3]
            xc.apply_settings(protos, settings, url)
            path = os.path.join(tmp, 'cfg%d.xml' % k)
            xc.save_config(path)
            doc = open(path).read()
            root_ = xml_handler.XMLRootElement.from_string(doc)
            full = tree_sig(root_)
            n = len(doc)
            # hypothesis of the theorem C18_truncated, checked on the document the real writer produced: the root's closing
            # tag occurs exactly once, at the end
            cl = '</%s>' % root_.tag
            ctx.oblige('C18_truncated.hypothesis[saved document %d]' % k, doc.count(cl) == 1 and doc.rstrip().endswith(cl),
                       'closing tag %s occurs %d times' % (cl, doc.count(cl)))
            if ctx.thorough:
                offsets = list(range(0, n))
            else:
                offsets = set(range(0, n, 97)) | set(range(max(0, n - 300), n)) | set(range(0, min(n, 700)))
                for i, ch in enumerate(doc):
                    if ch == '\n' and (i < 3000 or r.random() < 0.3):       # every element boundary early on, sampled later
                        offsets.update(range(max(0, i - 3), min(n, i + 7)))
                    elif ch in '<>' and r.random() < 0.1:
                        offsets.update(range(max(0, i - 2), min(n, i + 3)))
                offsets = sorted(offsets)
            work = os.path.join(tmp, 'w%d.xml' % k)
            for off in offsets:
                for with_backup in (True, False):
                    cut = doc[:off]
                    open(work, 'w').write(cut)
                    if with_backup:
                        open(work + '.backup', 'w').write(doc)
                    elif os.path.exists(work + '.backup'):
                        os.remove(work + '.backup')
                    # observations for the decision-logic correspondence
                    try:
                        t = xml_handler.XMLRootElement.from_string(cut)
                        file_ok = 1
                        end = cut.rstrip()
                        complete = 1 if end.endswith('</' + t.tag + '>') else 0
                        empty_sc = 1 if (end.endswith('/>') and end.count('<') == 1) else 0
                    except Exception:
                        file_ok, complete, empty_sc = 0, 0, 0
                    try:
                        root = xml_handler.XMLRootElement.handle_file(work)
                        sig = tree_sig(root)
                        outcome = 'ok'
                    except Exception as e:
                        sig, outcome = None, 'error'
                    after = open(work + '.backup').read() if os.path.exists(work + '.backup') else None
                    before = doc if with_backup else None
                    ctx.count((k, off, with_backup), nontrivial=0 < off < n)
                    F = dict(file=k, backup=with_backup, region='tail' if off > n - 40 else 'body')
                    inp = dict(file=k, offset=off, length=n, with_backup=with_backup)
                    whole = (cut.rstrip() == doc.rstrip())
                    if outcome == 'ok' and sig != full:
                        nprot = len(sig[2])
                        ctx.violation('handle_file', 'partial-configuration-loaded', 'file %d cut at %d/%d (%s backup): silently loaded %d of %d protocol elements' % (k, off, n, 'with' if with_backup else 'no', nprot, len(full[2])), F, input=inp)
                    if with_backup and after != doc and not (after is not None and after.rstrip() == doc.rstrip()):
                        ctx.violation('handle_file', 'backup-overwritten', 'file %d cut at %d/%d: the good backup was replaced by the damaged file' % (k, off, n), F, input=inp)
                    if not with_backup and after is not None and after.rstrip() != doc.rstrip():
                        ctx.violation('handle_file', 'damaged-backup-created', 'file %d cut at %d/%d: a backup of the damaged file was created' % (k, off, n), F, input=inp)
                    if len(ops) < 6000 and (off % 7 == 0 or off > n - 60):
                        # model: which source was used
                        used = 'error' if outcome == 'error' else ('file' if (file_ok and (complete or empty_sc)) else 'backup')
                        bk = 'kept' if after == before else 'overwritten'
                        if whole and with_backup:
                            bk = 'overwritten'          # same content up to the final newline: the file itself
                        ops.append('xml_hf %d %d %d %s' % (file_ok, complete, empty_sc, 'ok' if with_backup else 'none'))
                        reals.append('%s %s' % (used, bk))
        crash_histories(ctx, xc, protos, xml_handler, r, tmp)
        ctx.sample({'file_bytes': n, 'offsets_explored': len(offsets), 'example_cut': doc[:60]})
        ctx.exhaustive = bool(ctx.thorough)
    finally:
        try:
            xc.apply_settings(xc.setup()[1], original, original_url)
        except Exception:
            pass
        shutil.rmtree(tmp, ignore_errors=True)
    try:
        outs = vlib.Driver().run(ops)
        ctx.corr['ops'] = len(ops)
        ctx.corr['dist'] = {'xml_hf': len(ops)}
        for o, m, rl in zip(ops, outs, reals):
            if m != rl and len(ctx.corr['disagreements']) < 10:
                ctx.disagree(o, m, rl)
    except Exception as e:
        ctx.oblige('correspondence_driver', False, str(e)[:300])


def crash_histories(ctx, xc, protos, xml_handler, r, tmp):
    """multi-step crash histories on one file: complete saves, saves interrupted at an offset (the REAL save runs, then
    the main file is cut, as a crash inside the write would leave it) and loads, in every order up to length 4 (quick) / 5.
    After EVERY step: a load returns the tree of some completely written document or raises; the backup file, if there
    is one, holds a completely written document - never a damaged one."""
    import itertools
    path = os.path.join(tmp, 'hist.xml')
    docs = []
    for k in range(2):
        xc.apply_settings(protos, xc.rand_settings(protos, r), 'http://h/%d?a&b' % k)
        xc.save_config(path)
        docs.append(open(path).read())
    n = min(len(d) for d in docs)
    cuts = [r.randrange(40, 400), next((i + 1 for i, ch in enumerate(docs[0]) if ch == '\n' and i > 300), 350), n // 2, n - 5]
    letters = ['S0', 'S1', 'L'] + ['I%d' % i for i in range(len(cuts))]
    depth = 4 if not ctx.thorough else 5
    hists = [h for h in itertools.product(letters, repeat=depth) if any(x[0] == 'I' for x in h)]
    if not ctx.thorough:
        hists = r.sample(hists, min(len(hists), 150))
    hists.insert(0, ('S0', 'I1', 'L', 'S1'))          # interrupted save, recovery load, save again
    hists.insert(0, ('S0', 'I1', 'L', 'I2', 'L'))
    good = {d.rstrip() for d in docs}
    sigs = {tree_sig(xml_handler.XMLRootElement.from_string(d)) for d in docs}

    def save(k):
        xc.apply_settings(protos, xc.rand_settings(protos, vlib.rng('c18h', k)), 'http://h/%d?a&b' % k)
        xc.save_config(path)

    for h in hists:
        for f in (path, path + '.backup'):
            if os.path.exists(f):
                os.remove(f)
        ctx.count(('history', h))
        for step, ev in enumerate(h):
            try:
                if ev[0] == 'S':
                    save(int(ev[1]))
                    good.add(open(path).read().rstrip())
                    sigs.add(tree_sig(xml_handler.XMLRootElement.from_string(open(path).read())))
                elif ev[0] == 'I':
                    save(step % 2)
                    full = open(path).read()
                    good.add(full.rstrip())
                    sigs.add(tree_sig(xml_handler.XMLRootElement.from_string(full)))
                    cutdoc = full[:min(cuts[int(ev[1])], len(full) - 3)]       # always a proper prefix that loses part of the closing tag
                    open(path, 'w').write(cutdoc)
                else:
                    if not os.path.exists(path):
                        continue
                    try:
                        root = xml_handler.XMLRootElement.handle_file(path)
                    except Exception:
                        root = None
                    if root is not None and tree_sig(root) not in sigs:
                        ctx.violation('handle_file', 'partial-configuration-loaded', 'history %s: the load at step %d silently returned %d protocol elements (no completely written document has that content)' % (
                            ' '.join(h), step, len(root)), dict(history_len=len(h), kind='history'), input=dict(history=list(h), cuts=cuts, step=step))
                        break
            except Exception as e:
                ctx.notes.append('crash history %s step %d: %s' % (h, step, type(e).__name__))
                break
            if os.path.exists(path + '.backup'):
                b = open(path + '.backup').read().rstrip()
                if b not in good:
                    ctx.violation('write_file/handle_file', 'backup-overwritten', 'history %s: after step %d (%s) the backup holds a damaged document (%d bytes, not one that was ever completely written)' % (
                        ' '.join(h), step, ev, len(b)), dict(history_len=len(h), kind='history'), input=dict(history=list(h), cuts=cuts, step=step))
                    break


def replay(path):
    ctx = vlib.Ctx('C18', 'quick')
    check(ctx)
    return vlib.finish(ctx)
