"""Tie between the TRACED wrappers (tools/wtrace.py -> IRGen/Wrap.lean, regenerated from /repo on every run) and the real
encode()/decode() methods: the generated model is run through WrapDriver.lean on random parameters / frame histories and
compared with what the real methods return.  A tracer mistake (a value that escaped the shadow, a dropped check) or a
wrapper the little language cannot express shows up here as a disagreement."""
import os, collections
import vlib, extract, wrapgen
from props import engine_common as ec


class WrapRun:
    def __init__(self, tabs, info):
        vlib.repo_import()
        import realenv, protos
        self.env, self.protos = realenv, protos
        realenv.take_control()
        self.by = {t['name']: t for t in tabs}
        self.info = info
        self.ops, self.reals = [], []
        self.kinds = collections.Counter()
        self._iid = 0

    def add(self, op, real):
        self.ops.append(op)
        self.reals.append(real)
        self.kinds[op.split()[0]] += 1

    def enc(self, name, p, rc):
        d = self.protos.by_name(name)
        try:
            code = self.protos.encode(d.__class__(), p, rc)
            r = 'ok ' + ' | '.join(' '.join(map(str, f)) for f in self.protos.frames(code))
        except Exception as e:
            r = 'err ' + type(e).__name__
        self.add('wenc %s %d %s' % (name, rc, ','.join('%s=%d' % kv for kv in p.items()) or '-'), r)

    def new(self, name):
        self._iid += 1
        iid = 'w%d' % self._iid
        inst = self.protos.by_name(name).__class__()
        self.add('wnew %s %s' % (iid, name), 'ok')
        return iid, inst

    def show_code(self, inst, c):
        t = self.by[inst.__class__.__name__]
        fields = ','.join('%s:%d' % (n, int(c._data[n])) for n, _, _ in t['params'] if n in c._data)
        frame = ' '.join(map(str, [x for f in c.normalized_rlc for x in f]))
        return 'fields=%s frame=%s' % (fields, frame)

    def decode(self, iid, inst, data):
        prev = inst._last_code
        n0 = len(self.env.process_worker.queue)
        arg = list(data)
        from pyIRDecoder import ir_code
        calls = []
        o_stop = ir_code.Timer.stop
        ir_code.Timer.stop = lambda self_: (calls.append(1), o_stop(self_))[1]      # the model logs the CALL of repeat_timer.stop()
        try:
            c = inst.decode(arg, inst.frequency)
            r = 'ok ' + self.show_code(inst, c)
            islast = c is prev and prev is not None
        except Exception as e:
            r = 'err ' + type(e).__name__
            islast = False
        finally:
            ir_code.Timer.stop = o_stop
        stops = len(calls)
        del self.env.process_worker.queue[n0:]
        held = inst._last_code
        r += ' islast=%s stops=%d held=%s' % (str(islast).lower(), stops, self.show_code(inst, held) if held is not None else '-')
        self.add('wdecode %s %s' % (iid, ' '.join(map(str, data))), r)

    def run(self, ctx):
        data = '\n'.join(self.ops) + '\n'
        ok, log = vlib.lake_build(['IRGen.Wrap'])
        if not ok:
            ctx.oblige('IRGen.Wrap', False, log[-600:])
            return None
        rc, out, err = vlib.run(['lake', 'env', 'lean', '--run', 'WrapDriver.lean'], cwd=vlib.LEAN, input=data, timeout=3000)
        outs = out.splitlines()
        if rc != 0 or len(outs) != len(self.ops):
            ctx.oblige('wrap_driver', False, 'rc=%d lines=%d/%d %s' % (rc, len(outs), len(self.ops), (err or out)[-300:]))
            return None
        ctx.oblige('wrap_driver', True, '%d ops' % len(self.ops))
        return outs


def corrupt(r, t, frame):
    """one data symbol of a pulse-distance frame replaced by another symbol of the table"""
    li, lo = len(t['lead_in'] or []), len(t['lead_out'] or [])
    f = list(frame)
    if len(f) - li - lo < 2 or not t['bursts']:
        return f[:-1]
    i = li + 2 * r.randrange((len(f) - li - lo) // 2)
    cands = [b for b in t['bursts'] if [f[i], f[i + 1]] != list(b)]
    if cands:
        b = r.choice(cands)
        f[i], f[i + 1] = b[0], b[1]
    return f


def correspondence(ctx, r, tabs, info, per_proto=3, focus=()):
    W = WrapRun(tabs, info)
    P = W.protos
    by = W.by
    for name, inf in sorted(info.items()):
        if not inf.get('emitted'):
            continue
        t = by[name]
        d = P.by_name(name)
        n = per_proto * (6 if name in focus else 1)
        if inf['encode'] == 'traced':
            for p in P.corner_params(d):
                W.enc(name, p, 0)
            for k in range(n):
                W.enc(name, P.sample_params(d, r), k % 3)
        if inf['decode'] == 'traced' and (ec.py_supported(t) or (ec.py_supported_m(t) and not t['repeat_bursts'])):
            for k in range(max(1, n // 2)):
                pa, pb = P.sample_params(d, r), P.sample_params(d, r)
                try:
                    fa = P.frames(P.encode(d.__class__(), pa, 1))
                    fb = P.frames(P.encode(d.__class__(), pb, 0))
                except Exception:
                    continue
                if not fa or not fb:
                    continue
                iid, inst = W.new(name)
                seq = [fa[0], fa[0]] + ([fa[1]] if len(fa) > 1 else []) + [corrupt(r, t, fa[0]), fb[0], corrupt(r, t, fb[0]), ec.garbage(r), fa[0], fb[0]]
                for f in seq:
                    W.decode(iid, inst, f)
                iid, inst = W.new(name)
                for f in [corrupt(r, t, fb[0]), fb[0], corrupt(r, t, fb[0])]:
                    W.decode(iid, inst, f)
    outs = W.run(ctx)
    ctx.corr['dist']['wrapper ops'] = dict(W.kinds)
    if outs is None:
        return W
    ctx.corr['ops'] += len(W.ops)
    per = collections.Counter()
    unsupported = 0
    for o, m, rl in zip(W.ops, outs, W.reals):
        if m == 'unsupported':
            unsupported += 1
            continue
        if m != rl:
            name = o.split()[1] if o.startswith('wenc') else None
            per[o.split()[0] + ':' + (name or '?')] += 1
            if len(ctx.corr['disagreements']) < 25 and per[o.split()[0] + ':' + (name or '?')] <= 1:
                ctx.disagree(o[:600], m[:500], rl[:500])
    ctx.corr['dist']['wrapper unsupported-by-model'] = unsupported
    ctx.corr['dist']['wrapper disagreeing ops'] = sum(per.values())
    return W
