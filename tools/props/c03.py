"""C03 — every emitted frame is a well-formed mark/space list. Theorem: IRModel/Props/C03.lean (packet builder,
class-A obligations); search: all real encoders."""
import vlib
from props import engine_common as ec, engine_prove

MODULES = ['IRModel.Props.C03']


def shape_problem(f):
    if not isinstance(f, list) or not f:
        return 'empty'
    if not all(isinstance(x, int) and not isinstance(x, bool) for x in f):
        return 'non-integer'
    if any(x == 0 for x in f):
        return 'zero-duration'
    if f[0] < 0:
        return 'starts-with-space'
    for i in range(len(f) - 1):
        if (f[i] > 0) == (f[i + 1] > 0):
            return 'no-alternation'
    if f[-1] > 0:
        return 'ends-with-mark'
    return None


def search(ctx, focus=(), deep=1):
    import realenv, protos, pyIRDecoder
    realenv.take_control()
    r = vlib.rng('c03')
    known = [f for f in vlib.load_known().get('findings', []) if f.get('property') == 'C03']
    for d in protos.all_decoders():
        if d.name == 'Universal':
            continue
        n = (4 if not ctx.thorough else 40) * (10 if d.name in focus else 1) * deep
        cases = [f['witness']['input'] for f in known if f.get('site') == d.name and isinstance(f.get('witness', {}).get('input'), dict)]
        cases = [dict((k, v) for k, v in c.items() if k != 'repeat_count') for c in cases]
        specs = protos.param_specs(d)
        # all-ones / all-max / all-min corner patterns (longest and shortest frames) + random
        cases.append({n_: hi for n_, lo, hi in specs})
        cases.append({n_: lo for n_, lo, hi in specs})
        for _ in range(n):
            cases.append(protos.sample_params(d, r))
        periods = set()
        for lo_ in (d._lead_out, d._repeat_lead_out):
            if lo_ and isinstance(lo_[-1], int) and lo_[-1] > 0:
                periods.add(lo_[-1])
        for p in cases:
            counts = []
            for rc in range(0, 5):
                F = dict(protocol=d.name, repeat_count=rc, **p)
                try:
                    code = protos.encode(d, p, rc)
                except pyIRDecoder.EncodeError:
                    counts = None
                    break
                except Exception as e:
                    ctx.violation(d.name, 'encode-raises', '%s.encode(%s, repeat_count=%d) raised %s' % (d.name, p, rc, type(e).__name__), F, input=dict(p, repeat_count=rc))
                    counts = None
                    break
                frames = code.normalized_rlc
                ctx.count((d.name, tuple(sorted(p.items())), rc))
                counts.append(len(frames))
                for k, f in enumerate(frames):
                    pr = shape_problem(f)
                    if pr:
                        ctx.violation(d.name, pr, '%s %s rc=%d frame %d: %s ...%s' % (d.name, p, rc, k, pr, f[-4:] if isinstance(f, list) else f), dict(F, frame_index=k), input=dict(p, repeat_count=rc))
                        break
                    if periods and d._lead_out and d._lead_out[-1] > 0:
                        s = sum(abs(x) for x in f)
                        if s not in periods:
                            ctx.violation(d.name, 'period-sum', '%s %s rc=%d frame %d sums to %d, period(s) %s' % (d.name, p, rc, k, s, sorted(periods)), dict(F, frame_index=k), input=dict(p, repeat_count=rc))
                            break
                try:
                    if code.frequency != d.frequency:
                        ctx.violation(d.name, 'frequency', '%s code.frequency=%r protocol %r' % (d.name, code.frequency, d.frequency), F, input=dict(p, repeat_count=rc))
                except Exception as e:
                    ctx.violation(d.name, 'frequency', '%s code.frequency raises %s' % (d.name, type(e).__name__), F, input=dict(p, repeat_count=rc))
            if counts and len(counts) == 5:
                steps = [counts[i + 1] - counts[i] for i in range(4)]
                if len(set(steps)) != 1 or steps[0] <= 0:
                    ctx.violation(d.name, 'frame-count', '%s frames per repeat_count 0..4 = %s' % (d.name, counts), dict(protocol=d.name, **p), input=p)
    ctx.sample({'protocol': 'Sony12', 'params': {'device': 1, 'function': 2}, 'repeat_count': '0..4'})


def check(ctx):
    ctx.rule = ('proof: C03_wrapper for the protocols whose traced encode() meets the kernel-checked obligation c03OK: for every parameter assignment and repeat_count 0,1,2 every emitted frame '
                '(packet or hand-assembled repeat frame) is well formed and sums to the period, frame counts grow linearly, carrier reported; '
                '_build_packet returns a +mark/-space pair list summing to the period, for every class-A protocol (kernel obligations regenerated from /repo) and '
                'every field assignment; correspondence: real _build_packet vs model; search: ALL real encoders x {all-max, all-min, random, known witnesses} x repeat_count 0..4: '
                'non-empty, integer, non-zero, mark first, alternating, space last, period sum, constant positive frame growth, carrier frequency. distinct = (protocol, params, repeat_count)')
    tabs, ok = engine_prove.prove(ctx, MODULES, with_wrappers=True, wrap_kinds=('c03',))
    import fingerprint
    changed_p, changed_e = fingerprint.changed()
    focus = engine_prove.failed_protocols(ctx) | changed_p
    ctx.extra['search_focus'] = sorted(focus)
    r = vlib.rng('c03corr')
    try:
        ec.standard_correspondence(ctx, r, per_proto=2 if not ctx.thorough else 6, focus=focus)
        from props import wrap_common
        wrap_common.correspondence(ctx, vlib.rng('c03wrap'), tabs, getattr(ctx, 'winfo', {}), per_proto=3 if not ctx.thorough else 12, focus=focus)
    except Exception:
        import traceback
        ctx.oblige('correspondence_driver', False, traceback.format_exc()[-500:])
    search(ctx, focus, deep=4 if changed_e else 1)


def replay(path):
    ctx = vlib.Ctx('C03', 'quick')
    check(ctx)
    return vlib.finish(ctx)
