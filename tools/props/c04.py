"""C04 — decoding honours the configured timing tolerance in both directions.
Theorems: IRModel/Props/C04.lean (every quarter-tolerance perturbation of every class-A frame parses to the nominal
bits; off-window data is rejected); obligations: wfTol per protocol and tolerance; search: all real decoders."""
import vlib
from props import engine_common as ec, engine_prove

MODULES = ['IRModel.Props.C04', 'IRModel.Props.C04B']


def perturb(frame, pattern, tn, r, period):
    """|d_i - e_i| <= tn/4 % of |e_i|, rounded towards e_i so the bound is never exceeded"""
    out = []
    for i, e in enumerate(frame):
        q = abs(e) * tn / 400.0
        k = int(q)                              # floor: stay inside
        if pattern == 'long':
            dlt = k
        elif pattern == 'short':
            dlt = -k
        elif pattern == 'alternating':
            dlt = k if i % 2 == 0 else -k
        elif pattern == 'alternating2':
            dlt = -k if i % 2 == 0 else k
        else:
            dlt = r.randint(-k, k)
        v = abs(e) + dlt
        if v <= 0:
            v = abs(e)
        out.append(v if e > 0 else -v)
    if period:
        tt = sum(abs(x) for x in out[:-1])
        gap = tt - period
        if gap < 0:
            out[-1] = gap
    return out


def search(ctx, focus=(), deep=1):
    import realenv, protos, pyIRDecoder
    realenv.take_control()
    r = vlib.rng('c04')
    known = [f for f in vlib.load_known().get('findings', []) if f.get('property') == 'C04']
    for d in protos.all_decoders():
        if d.name == 'Universal':
            continue
        plist = [f['witness']['input']['params'] for f in known if f.get('site') == d.name and isinstance(f.get('witness', {}).get('input'), dict) and 'params' in f['witness']['input']]
        for _ in range((2 if not ctx.thorough else 10) * (6 if d.name in focus else 1) * deep):
            plist.append(protos.sample_params(d, r))
        period = d._lead_out[-1] if (d._lead_out and isinstance(d._lead_out[-1], int) and d._lead_out[-1] > 0) else 0
        table_vals = set()
        for b in d._bursts:
            if isinstance(b, (list, tuple)):
                table_vals.update(abs(x) for x in b if isinstance(x, int))
            elif isinstance(b, int):
                table_vals.add(abs(b))
        for p in plist:
            names = list(p)
            try:
                code = protos.encode(d, p)
                frame = protos.frames(code)[0]
                ref = protos.fresh(d).decode(list(frame), d.frequency)
                if protos.view(ref, names) != p:
                    continue
            except Exception:
                continue
            for tn in (20, 10, 5):
                plain_ok = True
                for pattern in ('long', 'short', 'alternating', 'alternating2', 'random', 'random'):
                    f2 = perturb(frame, pattern, tn, r, period)
                    inst = protos.fresh(d)
                    inst.tolerance = tn
                    ctx.count((d.name, tuple(sorted(p.items())), tn, pattern, tuple(f2[:6])))
                    F = dict(protocol=d.name, tolerance=tn, pattern=pattern if pattern != 'alternating2' else 'alternating')
                    try:
                        c = inst.decode(list(f2), d.frequency)
                        if protos.view(c, names) != p:
                            plain_ok = False
                            ctx.violation(d.name, 'perturbed-decodes-differently', '%s %s tol %d%% %s: decoded %s' % (d.name, p, tn, pattern, protos.view(c, names)), F, input=dict(params=p, tolerance=tn, pattern=pattern, frame=f2))
                    except pyIRDecoder.IRException as e:
                        plain_ok = False
                        ctx.violation(d.name, 'perturbed-rejected', '%s %s tol %d%% %s: %s' % (d.name, p, tn, pattern, type(e).__name__), dict(F, err=type(e).__name__), input=dict(params=p, tolerance=tn, pattern=pattern, frame=f2))
                    except Exception:
                        pass
                # history of tolerance settings must not matter: decode at 20, switch to tn, perturbed at tn/4 must still decode and
                # an off-window burst must be rejected (a stale window would show here)
                inst = protos.fresh(d)
                try:
                    inst.tolerance = 20
                    inst.decode(list(frame), d.frequency)
                    inst.tolerance = 2
                    inst.decode(list(frame), d.frequency)
                except Exception:
                    pass
                inst2 = protos.fresh(d)
                inst2.tolerance = tn
                f3 = perturb(frame, 'random', tn, r, period)
                if not plain_ok:
                    continue
                try:
                    c = inst2.decode(list(f3), d.frequency)
                    if protos.view(c, names) != p:
                        ctx.violation(d.name, 'tolerance-history', '%s %s after other tolerance settings in the process, tol %d%%: decoded %s' % (d.name, p, tn, protos.view(c, names)), dict(protocol=d.name, tolerance=tn), input=dict(params=p, tolerance=tn))
                except pyIRDecoder.IRException as e:
                    ctx.violation(d.name, 'tolerance-history', '%s %s after other tolerance settings in the process, tol %d%%: %s' % (d.name, p, tn, type(e).__name__), dict(protocol=d.name, tolerance=tn), input=dict(params=p, tolerance=tn))
                except Exception:
                    pass
                # converse: one data burst far (2 x tol) outside every legal duration
                if table_vals and len(frame) > 8:
                    for _ in range(3):
                        i = r.randrange(2, len(frame) - 3)
                        e = frame[i]
                        cand = None
                        for factor in (1 + 2.5 * tn / 100.0, 1 - 2.5 * tn / 100.0, 1 + 3.5 * tn / 100.0):
                            v = int(abs(e) * factor)
                            if v > 0 and all(abs(v - t) > t * (tn / 100.0) * 1.5 and abs(v - 2 * t) > 2 * t * (tn / 100.0) * 1.5 and abs(v - 3 * t) > 3 * t * tn / 100.0 * 1.5 for t in table_vals) \
                               and all(abs(v - (a + b)) > (a + b) * tn / 100.0 * 1.5 for a in table_vals for b in table_vals):
                                cand = v
                                break
                        if cand is None:
                            continue
                        f4 = list(frame)
                        f4[i] = cand if e > 0 else -cand
                        if period:
                            tt = sum(abs(x) for x in f4[:-1])
                            if tt - period < 0:
                                f4[-1] = tt - period
                        inst = protos.fresh(d)
                        inst.tolerance = tn
                        ctx.count((d.name, 'off', tn, i, cand))
                        try:
                            c = inst.decode(list(f4), d.frequency)
                            if protos.view(c, names) == p:
                                ctx.violation(d.name, 'off-window-accepted', '%s %s tol %d%%: duration %d at %d replaced by %d (far from every legal value) still decodes as the original' % (d.name, p, tn, e, i, f4[i]),
                                              dict(protocol=d.name, tolerance=tn), input=dict(params=p, tolerance=tn, index=i, value=f4[i], frame=f4))
                        except Exception:
                            pass
    ctx.sample({'protocol': 'NEC', 'tolerance': 20, 'pattern': 'alternating', 'bound': '|d-e| <= floor(|e|*tol/400)'})


def check(ctx):
    ctx.rule = ('proof: every quarter-tolerance perturbation (universally quantified, gap absorbing for fixed periods) of every class-A frame parses to the nominal bits and frame, given the '
                'per-protocol separation obligation wfTol at 5/10/20 % (kernel-checked, regenerated from /repo); correspondence: real CodeWrapper vs model on window-edge values (lo, hi, lo-1, hi+1) '
                'at tolerances 5/10/20; search: ALL real decoders x keys x tolerance {20,10,5} x patterns {all-long, all-short, alternating (both phases), random x2} with |d-e| <= floor(|e| tol/400), '
                'a tolerance-history scenario, and the converse (one burst 2.5-3.5 x tol away from every legal value, sums and multiples) must not decode as the original. distinct = (protocol, key, tol, pattern)')
    tabs, ok = engine_prove.prove(ctx, MODULES, with_wrappers=True, wrap_kinds=('c01',), inst_kinds=('c04', 'c04b'))
    import fingerprint
    changed_p, changed_e = fingerprint.changed()
    focus = engine_prove.failed_protocols(ctx) | changed_p
    ctx.extra['search_focus'] = sorted(focus)
    r = vlib.rng('c04corr')
    try:
        ec.standard_correspondence(ctx, r, per_proto=3 if not ctx.thorough else 8, focus=focus)
    except Exception:
        import traceback
        ctx.oblige('correspondence_driver', False, traceback.format_exc()[-500:])
    search(ctx, focus, deep=3 if changed_e else 1)


def replay(path):
    ctx = vlib.Ctx('C04', 'quick')
    check(ctx)
    return vlib.finish(ctx)
