"""steps 1+2 of C02: regenerate IRGen (tables, class-A obligations, IRP skeletons) from /repo, build, audit."""
import vlib, extract, genobl, c02_gen

MODULES = ['IRModel.Props.C02', 'IRModel.Props.C02B']


def prove(ctx):
    tabs = extract.tables()
    extract.write_lean(tabs)
    names, missing = genobl.write(tabs)
    inames, imissing, skels, why, imods = c02_gen.write(tabs)
    for m in missing:
        ctx.oblige('IRGen.Obl.wf_%s' % m, False, 'protocol listed in tools/fragment.json is no longer modelled (table shape changed)')
    for n, reason in imissing:
        ctx.oblige('IRGen.IrpObl.irp_agree_%s' % n, False, 'protocol listed in tools/fragment.json (irpA) has no skeleton any more: ' + reason)
    ctx.extra['irp_skeletons'] = len(skels)
    ctx.extra['irp_agree_obligations'] = sum(1 for n in inames if '.irp_agree_' in n)
    ctx.extra['irpB_agree_obligations'] = sum(1 for n in inames if '.irpB_agree_' in n)
    ctx.extra['irp_not_plain'] = why
    ok = vlib.prove(ctx, MODULES, ['IRGen.Obligations'] + imods)
    failed = set()
    for name, good, detail in ctx.obligations:
        if good:
            continue
        short = name.split('.')[-1]
        for pre in ('irp_ditto_print_', 'irp_ditto_', 'irpB_agree_', 'irpB_print_', 'c02B_', 'irp_agree_', 'irp_print_', 'c02_', 'wfB_', 'wf_', 'wftol_'):
            if short.startswith(pre):
                tail = short[len(pre):]
                if pre.startswith('wf') and tail.rsplit('_', 1)[-1].isdigit():
                    tail = tail.rsplit('_', 1)[0]
                failed.add(tail)
                break
    ctx.extra['failed_protocols'] = sorted(failed)
    return ok
